#!/usr/bin/env python3
"""C02 translator: the *recycling contract* of the XObjects that XObjectFactoryDefault reuses.

XObjectFactoryDefault keeps released XString / XNumber / XNodeSet objects in m_x*Cache vectors and hands them out again
through `set()`.  Every value such an object memoises (`mutable ... m_cached*` members: number of a string, string of a
number, string and number of a node-set) must be forgotten *unconditionally* on that path, otherwise a later, unrelated value
answers with the conversion of an earlier one (XPath 1.0 section 4: number()/string()/boolean() are functions of the value).

This translator reads the current source and emits lean/XalanModel/Generated/C02_Recycle.lean:
  * the inventory of memoised members of every XObject class under src/xalanc/XPath (X*.hpp),
  * for each, which recyclable class inherits it, the function that must reset it, and whether that function resets it with a
    statement at the top level of its body (not nested in any `if`/loop/block) to the sentinel the reader tests for,
  * whether the recycle path reaches that function: factory `create*` -> `set()` -> (`release()` ->) reset function,
    each call at the top level of the calling body / of the recycle branch.
`Props/C02.lean` proves `recycle_contract : every entry is reset unconditionally and reached` by `decide` over the table, so a
partial or conditional clear, a dropped call, or a new memoised member without a reset makes a named theorem fail.
Exit 1 (translator obligation) when the expected functions cannot be found at all.
"""
import json
import os
import re
import sys

HERE = os.path.dirname(os.path.abspath(__file__))
sys.path.insert(0, os.path.dirname(HERE))
from vlib import common  # noqa: E402

XP = os.path.join(common.REPO, "src/xalanc/XPath")


def strip_comments(s):
    s = re.sub(r"/\*.*?\*/", "", s, flags=re.S)
    return re.sub(r"//[^\n]*", "", s)


def read(name):
    return strip_comments(open(os.path.join(XP, name), encoding="utf-8", errors="replace").read())


def body_of(src, header_re):
    m = re.search(header_re, src)
    if not m:
        return None
    i = src.find("{", m.end())
    if i < 0:
        return None
    depth = 0
    for j in range(i, len(src)):
        if src[j] == "{":
            depth += 1
        elif src[j] == "}":
            depth -= 1
            if depth == 0:
                return src[i + 1:j]
    return None


def top_level(body):
    """the text of `body` with every nested {...} block (and the condition that guards it) blanked out"""
    out = []
    depth = 0
    for ch in body:
        if ch == "{":
            depth += 1
        elif ch == "}":
            depth -= 1
        elif depth == 0:
            out.append(ch)
    txt = "".join(out)
    # a braceless `if (...) stmt;` also makes stmt conditional: drop such statements
    txt = re.sub(r"\b(if|while|for)\s*\((?:[^()]|\([^()]*\))*\)\s*[^;{}]*;", " ", txt)
    txt = re.sub(r"\belse\s+[^;{}]*;", " ", txt)
    return txt


# which recyclable class a memoised member ends up in, the function that has to reset it, how a reset looks, and the
# chain of calls from the factory's recycle branch to that function
CONTRACT = {
    # (declaring header, member): (recycled class, reset function header regex, file, reset statement regex, sentinel check)
    ("XNodeSetBase.hpp", "m_cachedNumberValue"): dict(
        cls="XNodeSet", file="XNodeSetBase.cpp", fn=r"XNodeSetBase::clearCachedValues\s*\(\s*\)",
        reset=r"m_cachedNumberValue\s*=\s*theBogusNumberValue\s*;",
        reader=("XNodeSetBase.cpp", r"XNodeSetBase::num\s*\(", r"equal\s*\(\s*m_cachedNumberValue\s*,\s*theBogusNumberValue\s*\)")),
    ("XNodeSetBase.hpp", "m_cachedStringValue"): dict(
        cls="XNodeSet", file="XNodeSetBase.cpp", fn=r"XNodeSetBase::clearCachedValues\s*\(\s*\)",
        reset=r"m_cachedStringValue\s*\.\s*clear\s*\(\s*\)\s*;",
        reader=("XNodeSetBase.cpp", r"XNodeSetBase::str\s*\(\s*XPathExecutionContext", r"m_cachedStringValue\s*\.\s*empty\s*\(\s*\)")),
    ("XStringBase.hpp", "m_cachedNumberValue"): dict(
        cls="XString", file="XStringBase.hpp", fn=r"\bclearCachedNumberValue\s*\(\s*\)",
        reset=r"m_cachedNumberValue\s*=\s*0\.0\s*;",
        reader=("XStringBase.cpp", r"XStringBase::num\s*\(", r"m_cachedNumberValue\s*==\s*0\.0")),
    ("XNumber.hpp", "m_cachedStringValue"): dict(
        cls="XNumber", file="XNumber.cpp", fn=r"XNumber::set\s*\(\s*double\s+\w+\s*\)",
        reset=r"m_cachedStringValue\s*\.\s*clear\s*\(\s*\)\s*;",
        reader=("XNumber.cpp", r"XNumber::str\s*\(\s*XPathExecutionContext\s*&[^)]*\)\s*const", r"m_cachedStringValue\s*\.\s*empty\s*\(\s*\)")),
}

# call chain per recycled class: list of (file, function header regex, call regex that must be at top level)
CHAINS = {
    "XNodeSet": [("XNodeSet.cpp", r"XNodeSet::set\s*\(\s*BorrowReturnMutableNodeRefList\s*&", r"\brelease\s*\(\s*\)\s*;"),
                 ("XNodeSet.cpp", r"XNodeSet::release\s*\(\s*\)", r"\bclearCachedValues\s*\(\s*\)\s*;")],
    "XString": [("XString.hpp", r"\bset\s*\(\s*const\s+XalanDOMString\s*&\s*\w+\s*\)", r"\bclearCachedNumberValue\s*\(\s*\)\s*;")],
    "XNumber": [],
}

FACTORY = {
    # recycled class: (create function header regex, cache member, call that must be in the recycle branch)
    "XNodeSet": (r"XObjectFactoryDefault::createNodeSet\s*\(\s*BorrowReturnMutableNodeRefList\s*&", "m_xnodesetCache", r"->\s*set\s*\("),
    "XString": (r"XObjectFactoryDefault::createString\s*\(\s*const\s+XalanDOMString\s*&", "m_xstringCache", r"->\s*set\s*\("),
    "XNumber": (r"XObjectFactoryDefault::createNumber\s*\(\s*double", "m_xnumberCache", r"->\s*set\s*\("),
}


def main():
    problems = []
    # 1. inventory of memoised members
    inv = []
    for f in sorted(os.listdir(XP)):
        if not (f.startswith("X") and f.endswith(".hpp")):
            continue
        src = read(f)
        # XObject and the classes derived from it
        if not re.search(r"class\s+XALAN_XPATH_EXPORT\s+\w+\s*:\s*public\s+(XObject|XStringBase|XNodeSetBase|XNumberBase|XString|XNodeSet|XNumber|XBoolean|XStringAdapter|XStringCached|XStringReference|XTokenStringAdapter|XTokenNumberAdapter|XNodeSetNodeProxy|XUnknown|XNull)\b", src) and f != "XObject.hpp":
            continue
        for m in re.finditer(r"\bmutable\s+[\w:<>\s]+?\s+(m_cached\w+)\s*;", src):
            inv.append((f, m.group(1)))
    entries = []
    for key in inv:
        c = CONTRACT.get(key)
        if c is None:
            # a memoised member this contract does not know: recorded as not reset (the theorem fails)
            entries.append(dict(header=key[0], member=key[1], cls="?", reset=False, reached=False, sentinel=False,
                                why="memoised member without a known reset function"))
            continue
        src = read(c["file"])
        b = body_of(src, c["fn"])
        if b is None:
            print("cannot find the reset function for %s::%s (%s)" % (key[0], key[1], c["fn"]))
            return 1
        reset_ok = re.search(c["reset"], top_level(b)) is not None
        rf, rfn, rtest = c["reader"]
        rb = body_of(read(rf), rfn)
        sentinel_ok = rb is not None and re.search(rtest, rb) is not None
        reached = True
        why = []
        for (cf, cfn, call) in CHAINS[c["cls"]]:
            cb = body_of(read(cf), cfn)
            if cb is None:
                print("cannot find %s in %s" % (cfn, cf))
                return 1
            if re.search(call, top_level(cb)) is None:
                reached = False
                why.append("%s does not call %s unconditionally" % (cfn, call))
        ff, cache, call = FACTORY[c["cls"]]
        fb = body_of(read("XObjectFactoryDefault.cpp"), ff)
        if fb is None:
            print("cannot find %s" % ff)
            return 1
        # the recycle branch: the block guarded by `<cache>.empty() == false`
        mb = re.search(r"if\s*\(\s*%s\s*\.\s*empty\s*\(\s*\)\s*==\s*false\s*\)\s*\{" % cache, fb)
        if not mb:
            print("factory create function for %s has no recycle branch on %s" % (c["cls"], cache))
            return 1
        depth, j = 1, mb.end()
        while j < len(fb) and depth:
            depth += fb[j] == "{"
            depth -= fb[j] == "}"
            j += 1
        branch = fb[mb.end():j - 1]
        if re.search(call, top_level(branch)) is None:
            reached = False
            why.append("factory recycle branch does not call set()")
        if not reset_ok:
            why.append("reset statement missing or conditional")
        if not sentinel_ok:
            why.append("reader no longer tests the sentinel the reset writes")
        entries.append(dict(header=key[0], member=key[1], cls=c["cls"], reset=reset_ok, reached=reached, sentinel=sentinel_ok,
                            why="; ".join(why)))
    for key in CONTRACT:
        if key not in inv:
            print("expected memoised member %s::%s not found" % key)
            return 1
    os.makedirs(common.GEN, exist_ok=True)
    out = os.path.join(common.GEN, "C02_Recycle.lean")
    L = ["/- GENERATED by translate/c02_recycle.py from src/xalanc/XPath/{X*.hpp,XNodeSet*.cpp,XString*.hpp/.cpp,XNumber.cpp,XObjectFactoryDefault.cpp}. Do not edit. -/",
         "namespace XalanModel.Generated.C02", "",
         "/-- one memoised member of a recyclable XObject: where it is declared, the recycled class, whether the reset function",
         "assigns the sentinel at the top level of its body, whether the factory's recycle path reaches that function through",
         "unconditional calls, and whether the reader still tests that sentinel -/",
         "structure RecycleEntry where",
         "  header : String", "  member : String", "  cls : String",
         "  resetUnconditional : Bool", "  reachedFromFactory : Bool", "  sentinelMatches : Bool",
         "deriving Repr, DecidableEq", "",
         "def recycleTable : List RecycleEntry := ["]
    L.append(",\n".join('  ⟨"%s", "%s", "%s", %s, %s, %s⟩' % (e["header"], e["member"], e["cls"], str(e["reset"]).lower(),
                                                                str(e["reached"]).lower(), str(e["sentinel"]).lower()) for e in entries))
    L += ["]", "", "end XalanModel.Generated.C02", ""]
    txt = "\n".join(L)
    if not os.path.exists(out) or open(out).read() != txt:
        open(out, "w").write(txt)
    with open(os.path.join(common.GEN, "C02_Recycle.json"), "w") as f:
        json.dump(entries, f, indent=1)
    bad = [e for e in entries if not (e["reset"] and e["reached"] and e["sentinel"])]
    print("C02_Recycle.lean: %d memoised members, %d violating the contract%s" % (
        len(entries), len(bad), "".join("\n  %s::%s - %s" % (e["header"], e["member"], e["why"]) for e in bad)))
    return 0


if __name__ == "__main__":
    sys.exit(main())
