#!/usr/bin/env python3
"""C07: AST-level cross-check of the regex inventory made by translate/c07_share.py (thorough tier; not run by
`./check --setup`, hence the leading underscore).

For every class reachable from the shared roots (list taken from the sidecar Generated/C07_Share.json) the
implementation file (.cpp, or the header when there is none) is parsed by clang++-14 and the declarations whose
qualified name contains the class name are dumped as JSON (`-Xclang -ast-dump=json -Xclang -ast-dump-filter=<Class>`).
From the typed AST:
  * the `mutable` FieldDecls of the CXXRecordDecl with exactly that name,
  * the member functions of that class that contain a CXXConstCastExpr,
  * the non-const static local VarDecls in those member functions
are compared with the table's mutableMember / constCast / localStatic entries for the class.  Any difference is printed
and the exit status is 1.  (const_casts and statics in free functions and in class templates that clang does not
instantiate are outside this cross-check; the regex scan covers them.)
"""
import json
import os
import re
import subprocess
import sys
from concurrent.futures import ThreadPoolExecutor

HERE = os.path.dirname(os.path.abspath(__file__))
ROOT = os.path.dirname(HERE)
sys.path.insert(0, ROOT)
from vlib import common  # noqa: E402

SRC = os.path.join(common.REPO, "src", "xalanc")


def dump(path, cls):
    cmd = ["clang++-14", "-std=gnu++17", "-fsyntax-only", "-w", "-DXALAN_USE_ICU=1", "-D" + common.GUARD] + common.repo_includes("hooks") + [
        "-Xclang", "-ast-dump=json", "-Xclang", "-ast-dump-filter=" + cls, path]
    if path.endswith((".hpp", ".h")):
        cmd[1:1] = ["-x", "c++"]
    p = subprocess.run(cmd, stdout=subprocess.PIPE, stderr=subprocess.PIPE, timeout=600)
    return p.returncode, p.stdout.decode("utf-8", "replace"), p.stderr.decode("utf-8", "replace")


def analyse(text, cls):
    """-> (mutable member names of record `cls`, {method: n const_casts}, [(method, static local)])
    The JSON dump is a sequence of top-level objects: records whose name matches the filter (with their inline members)
    and out-of-line member definitions (tied to their class by `parentDeclContextId`)."""
    mut, casts, statics = set(), {}, []
    dec = json.JSONDecoder()
    objs, i, n = [], 0, len(text)
    while i < n:
        while i < n and text[i] in " \r\n\t":
            i += 1
        if i >= n:
            break
        try:
            obj, i = dec.raw_decode(text, i)
        except ValueError:
            break
        objs.append(obj)
    METHOD = ("CXXMethodDecl", "CXXConstructorDecl", "CXXDestructorDecl", "CXXConversionDecl")
    rec_ids = set()

    def find_records(nd):
        if nd.get("kind") == "CXXRecordDecl" and nd.get("name") == cls:
            rec_ids.add(nd.get("id"))
            if nd.get("previousDecl"):
                rec_ids.add(nd.get("previousDecl"))
        for c in nd.get("inner", []) or []:
            if c.get("kind") in ("CXXRecordDecl", "ClassTemplateDecl", "ClassTemplateSpecializationDecl", "NamespaceDecl"):
                find_records(c)
    for o in objs:
        find_records(o)

    def body_walk(name, nd):
        kind = nd.get("kind")
        if kind == "CXXConstCastExpr":
            casts[name] = casts.get(name, 0) + 1
        if kind == "VarDecl" and nd.get("storageClass") == "static":
            qt = (nd.get("type") or {}).get("qualType", "")
            if not ((qt.startswith("const ") and "*" not in qt) or qt.rstrip().endswith("const")):
                statics.append((name, nd.get("name")))
        for c in nd.get("inner", []) or []:
            body_walk(name, c)

    def visit(nd, owner_is_cls):
        kind = nd.get("kind")
        if kind == "CXXRecordDecl":
            is_cls = nd.get("name") == cls
            for c in nd.get("inner", []) or []:
                if is_cls and nd.get("completeDefinition") and c.get("kind") == "FieldDecl" and c.get("mutable"):
                    mut.add(c.get("name"))
                visit(c, is_cls)
        elif kind in METHOD:
            if owner_is_cls or nd.get("parentDeclContextId") in rec_ids:
                for c in nd.get("inner", []) or []:
                    body_walk(re.sub(r"<.*>$", "", nd.get("name", "?")), c)
        elif kind in ("ClassTemplateDecl", "FunctionTemplateDecl", "ClassTemplateSpecializationDecl", "NamespaceDecl"):
            for c in nd.get("inner", []) or []:
                visit(c, owner_is_cls)
    for o in objs:
        visit(o, False)
    return mut, casts, statics


def decode_stream(text):
    dec = json.JSONDecoder()
    objs, i, n = [], 0, len(text)
    while i < n:
        while i < n and text[i] in " \r\n\t":
            i += 1
        if i >= n:
            break
        try:
            obj, i = dec.raw_decode(text, i)
        except ValueError:
            break
        objs.append(obj)
    return objs


CG = ["XalanTransformer", "XSLTProcessorEnvSupportDefault", "XPathEnvSupportDefault", "XSLTEngineImpl",
      "StylesheetExecutionContextDefault", "XPathExecutionContextDefault", "StylesheetRoot"]
IFACE = {"XSLTProcessorEnvSupport": "XSLTProcessorEnvSupportDefault", "XPathEnvSupport": "XSLTProcessorEnvSupportDefault",
         "XSLTProcessor": "XSLTEngineImpl", "StylesheetExecutionContext": "StylesheetExecutionContextDefault",
         "XPathExecutionContext": "StylesheetExecutionContextDefault", "ExecutionContext": "StylesheetExecutionContextDefault"}
METHOD_KINDS = ("CXXMethodDecl", "CXXConstructorDecl", "CXXDestructorDecl", "CXXConversionDecl")


def ast_callgraph():
    """Typed call graph of the per-thread XalanTransformer API through the three classes of translate/c07_share.py section 5.
    Each class is dumped from its own translation unit (declaration ids are not comparable across clang runs), so a member call
    is resolved by the static type of its object expression + the member name, a constructor by the constructed type, and a
    call of a static member function (DeclRefExpr; the qualifier is not in the JSON) to every class of the three that declares
    a static member of that name.  -> (reachable non-static "Cls::name", reachable static candidates as {name: [Cls::name]}, problems)"""
    side = json.load(open(os.path.join(common.GEN, "C07_Share.json")))
    methods = {}     # class -> {name: is_static}
    defs = {}        # (class, name) -> [definition nodes]
    for cls in CG:
        h = os.path.join(SRC, side["class_files"][cls])
        cpp = re.sub(r"\.hpp$", ".cpp", h)
        rc, out, err = dump(cpp if os.path.exists(cpp) else h, cls)
        objs = decode_stream(out)
        if not objs:
            return None, None, ["clang produced no AST for %s: %s" % (cls, err[:200])]
        rec_ids = set()

        def recs(nd):
            if nd.get("kind") == "CXXRecordDecl" and nd.get("name") == cls:
                rec_ids.add(nd.get("id"))
                for c in nd.get("inner", []) or []:
                    if c.get("kind") in METHOD_KINDS:
                        methods.setdefault(cls, {})[c.get("name")] = methods.get(cls, {}).get(c.get("name"), False) or c.get("storageClass") == "static"
            for c in nd.get("inner", []) or []:
                if c.get("kind") in ("CXXRecordDecl", "NamespaceDecl"):
                    recs(c)
        for o in objs:
            recs(o)

        def visit(nd, inside):
            kind = nd.get("kind")
            if kind == "CXXRecordDecl":
                for c in nd.get("inner", []) or []:
                    visit(c, nd.get("name") == cls)
            elif kind in METHOD_KINDS:
                if (inside or nd.get("parentDeclContextId") in rec_ids) and any(c.get("kind") == "CompoundStmt" for c in nd.get("inner", []) or []):
                    defs.setdefault((cls, nd.get("name")), []).append(nd)
            elif kind == "NamespaceDecl":
                for c in nd.get("inner", []) or []:
                    visit(c, inside)
        for o in objs:
            visit(o, False)

    def cls_of(qt):
        qt = re.sub(r"\b(const|volatile|class|struct)\b", " ", qt or "")
        qt = re.sub(r"[&*]", " ", qt).strip()
        qt = qt.split("::")[-1].strip()
        qt = IFACE.get(qt, qt)
        return qt if qt in CG else None

    def callees(nd, acc, statics):
        kind = nd.get("kind")
        if kind == "MemberExpr":
            inner = (nd.get("inner") or [{}])[0]
            c = cls_of((inner.get("type") or {}).get("qualType", ""))
            nm = nd.get("name")
            if c and nm in methods.get(c, {}):
                acc.add((c, nm))
        if kind == "DeclRefExpr":
            rd = nd.get("referencedDecl") or {}
            if rd.get("kind") in METHOD_KINDS:
                cands = [(c, rd.get("name")) for c in CG if methods.get(c, {}).get(rd.get("name"))]
                if cands:
                    statics.setdefault(rd.get("name"), set()).update(cands)
                    acc.update(cands)
        if kind in ("CXXConstructExpr", "CXXTemporaryObjectExpr"):
            c = cls_of((nd.get("type") or {}).get("qualType", ""))
            if c:
                acc.add((c, c)); acc.add((c, "~" + c))
        for c in nd.get("inner", []) or []:
            callees(c, acc, statics)
    roots = [k for k in defs if k[0] != "StylesheetRoot" and not methods.get(k[0], {}).get(k[1])] + [k for k in defs if k == ("StylesheetRoot", "process")]
    reach, work, statics = set(), list(roots), {}
    while work:
        k = work.pop()
        if k in reach or k not in defs:
            continue
        reach.add(k)
        acc = set()
        for nd in defs[k]:
            callees(nd, acc, statics)
        work += [x for x in acc if x in defs]
    nonstatic = set("%s::%s" % k for k in reach if not methods.get(k[0], {}).get(k[1]))
    return nonstatic, {n: sorted("%s::%s" % c for c in cs) for n, cs in statics.items()}, []


def ast_guards(side):
    """For every guardedWrite entry `caller->callee#n` of the sidecar: find, in clang's AST of the class, the n-th call of `callee` in the
    const member function `caller`, collect the conditions of the enclosing IfStmts (then-branch only) as formulas over member names /
    opaque sub-expressions, and compare with the formula the regex scan produced -- as truth tables over the flags `m_*` both mention
    (opaque atoms are compared by their number only).  -> list of problems"""
    problems = []
    ents = [e for e in side["entries"] if e["kind"] == "guardedWrite" and "->" in e["name"] and "::" not in e["name"].split("->")[0]]
    by_cls = {}
    for e in ents:
        by_cls.setdefault(e["scope"], []).append(e)
    for cls, es in by_cls.items():
        h = os.path.join(SRC, side["class_files"][cls])
        cpp = re.sub(r"\.hpp$", ".cpp", h)
        rc, out, err = dump(cpp if os.path.exists(cpp) else h, cls)
        objs = decode_stream(out)
        rec_ids = set()

        def recs(nd):
            if nd.get("kind") == "CXXRecordDecl" and nd.get("name") == cls:
                rec_ids.add(nd.get("id"))
            for c in nd.get("inner", []) or []:
                if c.get("kind") in ("CXXRecordDecl", "NamespaceDecl"):
                    recs(c)
        for o in objs:
            recs(o)
        found = {}      # (caller, callee) -> [formula per call site, in source order]

        def formula(nd):
            k = nd.get("kind")
            inner = nd.get("inner") or []
            if k in ("ImplicitCastExpr", "ParenExpr", "ExprWithCleanups", "CXXBindTemporaryExpr", "MaterializeTemporaryExpr") and inner:
                return formula(inner[0])
            if k == "BinaryOperator" and nd.get("opcode") in ("&&", "||") and len(inner) == 2:
                return ("and" if nd["opcode"] == "&&" else "or", formula(inner[0]), formula(inner[1]))
            if k == "UnaryOperator" and nd.get("opcode") == "!" and inner:
                return ("not", formula(inner[0]))
            if k == "BinaryOperator" and nd.get("opcode") in ("==", "!=") and len(inner) == 2:
                a, b = inner
                def strip(x):
                    while x.get("kind") in ("ImplicitCastExpr", "ParenExpr") and x.get("inner"):
                        x = x["inner"][0]
                    return x
                a, b = strip(a), strip(b)
                if a.get("kind") == "MemberExpr" and b.get("kind") == "CXXBoolLiteralExpr":
                    return ("var", a.get("name"), (b.get("value") is True) == (nd["opcode"] == "=="))
            if k == "MemberExpr" and (nd.get("type") or {}).get("qualType") in ("bool", "const bool"):
                return ("var", nd.get("name"), True)
            return ("opaque",)

        def walk(nd, caller, guards):
            k = nd.get("kind")
            inner = nd.get("inner") or []
            if k == "IfStmt" and len(inner) >= 2:
                # inner = [cond, then, (else)] (an init / condition variable would come first; not used in this code base)
                cond, then = inner[0], inner[1]
                walk(cond, caller, guards)
                walk(then, caller, guards + [formula(cond)])
                for rest in inner[2:]:
                    # `else if (...)`: the regex scan records the inner condition only (dropping the negation of the outer one
                    # only weakens the antecedent); a plain `else` is one opaque variable in both
                    walk(rest, caller, guards if rest.get("kind") == "IfStmt" else guards + [("opaque",)])
                return
            if k == "CXXMemberCallExpr" and inner:
                me = inner[0]
                while me.get("kind") in ("ImplicitCastExpr", "ParenExpr") and me.get("inner"):
                    me = me["inner"][0]
                if me.get("kind") == "MemberExpr":
                    obj = (me.get("inner") or [{}])[0]
                    while obj.get("kind") in ("ImplicitCastExpr", "ParenExpr") and obj.get("inner"):
                        obj = obj["inner"][0]
                    if obj.get("kind") == "CXXThisExpr":
                        found.setdefault((caller, me.get("name")), []).append(list(guards))
            for c in inner:
                walk(c, caller, guards)

        def visit(nd, inside):
            k = nd.get("kind")
            if k == "CXXRecordDecl":
                for c in nd.get("inner", []) or []:
                    visit(c, nd.get("name") == cls)
            elif k in METHOD_KINDS:
                if (inside or nd.get("parentDeclContextId") in rec_ids):
                    for c in nd.get("inner", []) or []:
                        if c.get("kind") == "CompoundStmt":
                            walk(c, nd.get("name"), [])
            elif k == "NamespaceDecl":
                for c in nd.get("inner", []) or []:
                    visit(c, inside)
        for o in objs:
            visit(o, False)

        def flags(f, acc):
            if f[0] == "var":
                if isinstance(f[1], str) and f[1].startswith("m_"):
                    acc.add(f[1])
            elif f[0] in ("and", "or"):
                flags(f[1], acc); flags(f[2], acc)
            elif f[0] == "not":
                flags(f[1], acc)
            return acc

        def ev(f, env, opaque):
            if f[0] == "tt":
                return True
            if f[0] == "opaque":
                return opaque
            if f[0] == "var":
                return (env[f[1]] == f[2]) if (isinstance(f[1], str) and f[1] in env) else opaque
            if f[0] == "and":
                return ev(f[1], env, opaque) and ev(f[2], env, opaque)
            if f[0] == "or":
                return ev(f[1], env, opaque) or ev(f[2], env, opaque)
            return not ev(f[1], env, opaque)
        for e in es:
            caller, rest = e["name"].split("->")
            callee, n = rest.split("#")
            sites = found.get((caller, callee), [])
            idx = int(n) - 1
            if idx >= len(sites):
                problems.append("guards: %s|%s: the AST has %d call(s) of %s in %s" % (cls, e["name"], len(sites), callee, caller))
                continue
            fa = ("tt",)
            for g in sites[idx]:
                fa = g if fa == ("tt",) else ("and", fa, g)

            def named(c):      # the regex formula with variable indices replaced by their text
                if c[0] == "var":
                    return ("var", e["vars"][c[1]], c[2])
                if c[0] in ("and", "or"):
                    return (c[0], named(c[1]), named(c[2]))
                if c[0] == "not":
                    return ("not", named(c[1]))
                return ("tt",)
            fr = named(tuple(e["cond"]) if not isinstance(e["cond"], tuple) else e["cond"])

            def tup(x):
                return tuple(tup(y) if isinstance(y, list) else y for y in x) if isinstance(x, (list, tuple)) else x
            fr = named(tup(e["cond"]))
            fl = sorted(flags(fa, set()) | flags(fr, set()))
            import itertools
            for vals in itertools.product([False, True], repeat=len(fl)):
                env = dict(zip(fl, vals))
                for opaque in (False, True):
                    if ev(fa, env, opaque) != ev(fr, env, opaque):
                        problems.append("guards: %s|%s: the guard per the AST and per the regex scan differ at %s (opaque=%s): regex `%s`" % (
                            cls, e["name"], env, opaque, e["condtext"]))
                        break
                else:
                    continue
                break
    return problems


def main():
    side = os.path.join(common.GEN, "C07_Share.json")
    if not os.path.exists(side):
        print("c07_ast: run translate/c07_share.py first")
        return 1
    d = json.load(open(side))
    classes = d.get("class_files", {})
    entries = d["entries"]
    jobs = []
    for cls, rel in sorted(classes.items()):
        h = os.path.join(SRC, rel)
        cpp = re.sub(r"\.hpp$", ".cpp", h)
        jobs.append((cls, cpp if os.path.exists(cpp) else h))
    problems, skipped, checked = [], [], 0

    def one(job):
        cls, path = job
        rc, out, err = dump(path, cls)
        return cls, path, rc, out, err
    with ThreadPoolExecutor(max_workers=common.NPROC) as ex:
        results = list(ex.map(one, jobs))
    for cls, path, rc, out, err in results:
        if rc != 0 and not out.strip():
            skipped.append("%s (%s): clang rc=%d %s" % (cls, os.path.relpath(path, SRC), rc, err.strip().split("\n")[0][:160]))
            continue
        mut, casts, statics = analyse(out, cls)
        checked += 1
        t_mut = set(e["name"] for e in entries if e["kind"] == "mutableMember" and e["scope"] == cls)
        if mut != t_mut:
            problems.append("%s: mutable members AST=%s table=%s" % (cls, sorted(mut), sorted(t_mut)))
        t_casts = set()
        for e in entries:
            if e["kind"] == "constCast":
                fn = e["name"].split("|")[0]
                segs = fn.split("::")
                if len(segs) >= 2 and segs[-2] == cls:
                    t_casts.add(segs[-1])
        a_casts = set(casts)
        if a_casts != t_casts:
            problems.append("%s: member functions with const_cast AST=%s table=%s" % (cls, sorted(a_casts), sorted(t_casts)))
        t_stat = set()
        for e in entries:
            if e["kind"] == "localStatic":
                fn, var = e["name"].split("|")
                segs = fn.split("::")
                if len(segs) >= 2 and segs[-2] == cls:
                    t_stat.add((segs[-1], var))
        if set(statics) != t_stat:
            problems.append("%s: non-const static locals AST=%s table=%s" % (cls, sorted(set(statics)), sorted(t_stat)))
    # call graph of the per-thread API: everything the typed graph reaches must be in the regex graph the table was built from
    reach, statics, errs = ast_callgraph()
    problems += errs
    if reach is not None:
        regex_reach = set(d.get("callgraph", {}).get("reachable", []))
        missing = sorted(x for x in reach if x not in regex_reach)
        if missing:
            problems.append("call graph: reachable per the AST but not per the regex graph: %s" % missing[:12])
        for nm, cands in sorted(statics.items()):
            if not any(c in regex_reach for c in cands):
                problems.append("call graph: a reachable function calls the static member %s (one of %s); the regex graph reaches none of them" % (nm, cands))
        if "XSLTProcessorEnvSupportDefault::installExternalFunctionLocal" not in reach:
            problems.append("call graph: AST graph does not reach XSLTProcessorEnvSupportDefault::installExternalFunctionLocal from doTransform")
        print("c07_ast: call graph: %d non-static functions reachable per the AST, %d functions per the regex graph, static callees %s" % (
            len(reach), len(regex_reach), sorted(statics)))
    gp = ast_guards(d)
    problems += gp
    print("c07_ast: guard formulas of %d guardedWrite call sites compared with the AST, %d differences" % (
        sum(1 for e in entries if e["kind"] == "guardedWrite" and "->" in e["name"]), len(gp)))
    print("c07_ast: %d classes checked with clang, %d skipped, %d differences" % (checked, len(skipped), len(problems)))
    for s in skipped[:10]:
        print("  skipped:", s)
    for p in problems[:30]:
        print("  DIFF:", p)
    # a cross-check that could not look at most of the classes is not a cross-check
    if checked < 0.8 * max(1, len(jobs)):
        print("c07_ast: too many classes could not be parsed")
        return 1
    return 1 if problems else 0


if __name__ == "__main__":
    sys.exit(main())
