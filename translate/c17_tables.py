#!/usr/bin/env python3
"""C17 translator: reads the numbering tables of ElemNumber.cpp from /repo's *current working tree* and writes
lean/XalanModel/Generated/C17_NumberTables.lean:

  romanTable   : List RomanEntry     <- ElemNumber::s_romanConvertTable (DecimalToRoman initialisers)
  alphaTable   : List Nat            <- ElemNumber::s_alphaCountTable   (without the 0 terminator)
  elalphaTable : List Nat            <- ElemNumber::s_elalphaCountTable
  errorString  : List Nat            <- ElemNumber::s_errorString
  romanMax     : Nat                 <- the `val > N` guard of ElemNumber::toRoman
  alphaBufLen  : Nat                 <- `buflen` of ElemNumber::int2alphaCount
  defaultGroupingSize / defaultGroupingSeparator <- XalanNumberFormat's constructor

Character constants are resolved through PlatformSupport/XalanUnicode.hpp.  Any construct that cannot be parsed
(the table was rewritten, the guard moved) is an error: exit 1, the obligation `translate:c17_tables` is broken.
"""
import os
import re
import sys

HERE = os.path.dirname(os.path.abspath(__file__))
ROOT = os.path.dirname(HERE)
REPO = os.environ.get("VERIF_REPO", "/repo")
OUT = os.path.join(ROOT, "lean", "XalanModel", "Generated", "C17_NumberTables.lean")


def die(msg):
    sys.stderr.write("c17_tables: " + msg + "\n")
    print("c17_tables: " + msg)
    sys.exit(1)


def strip_comments(s):
    s = re.sub(r"/\*.*?\*/", " ", s, flags=re.S)
    s = re.sub(r"//[^\n]*", " ", s)
    return s


def unicode_constants():
    p = os.path.join(REPO, "src/xalanc/PlatformSupport/XalanUnicode.hpp")
    txt = strip_comments(open(p, encoding="utf-8", errors="replace").read())
    consts = {}
    # both forms occur depending on the compiler branch:  `charX = 0x41,` (enum)  or  `static const XalanDOMChar charX = 0x41;`
    for m in re.finditer(r"\b(char\w+)\s*=\s*(0[xX][0-9a-fA-F]+|\d+)\s*[,;}]", txt):
        v = int(m.group(2), 0)
        if m.group(1) in consts and consts[m.group(1)] != v:
            die("XalanUnicode.hpp: conflicting values for " + m.group(1))
        consts[m.group(1)] = v
    if len(consts) < 100:
        die("XalanUnicode.hpp: too few character constants parsed (%d)" % len(consts))
    return consts


def value(tok, consts):
    tok = tok.strip()
    m = re.fullmatch(r"XalanUnicode::(char\w+)", tok)
    if m:
        if m.group(1) not in consts:
            die("unknown character constant " + tok)
        return consts[m.group(1)]
    if re.fullmatch(r"0[xX][0-9a-fA-F]+|\d+", tok):
        return int(tok, 0)
    die("cannot evaluate table entry %r" % tok)


def balanced(txt, start):
    """txt[start] == '{' -> index just after the matching '}'"""
    depth = 0
    for i in range(start, len(txt)):
        if txt[i] == "{":
            depth += 1
        elif txt[i] == "}":
            depth -= 1
            if depth == 0:
                return i + 1
    die("unbalanced braces")


def array_body(txt, decl_re, what):
    m = re.search(decl_re, txt)
    if not m:
        die("declaration of %s not found" % what)
    b = txt.index("{", m.end() - 1)
    e = balanced(txt, b)
    return txt[b + 1:e - 1]


def char_array(txt, name, consts, terminated=True):
    body = array_body(txt, r"const\s+XalanDOMChar\s+ElemNumber::%s\s*\[\s*\]\s*=\s*\{" % name, name)
    vals = [value(t, consts) for t in body.split(",") if t.strip()]
    if terminated:
        if not vals or vals[-1] != 0:
            die("%s is not 0-terminated" % name)
        vals = vals[:-1]
    if 0 in vals:
        die("%s has an embedded 0" % name)
    return vals


def split_top(body):
    parts, depth, cur = [], 0, ""
    for ch in body:
        if ch == "{":
            depth += 1
        elif ch == "}":
            depth -= 1
        if ch == "," and depth == 0:
            parts.append(cur)
            cur = ""
        else:
            cur += ch
    if cur.strip():
        parts.append(cur)
    return [p.strip() for p in parts if p.strip()]


def letters(s, consts):
    s = s.strip()
    if not (s.startswith("{") and s.endswith("}")):
        die("roman letter initialiser is not a brace list: %r" % s)
    vals = [value(t, consts) for t in s[1:-1].split(",") if t.strip()]
    if not vals or vals[-1] != 0:
        die("roman letter array not 0-terminated: %r" % s)
    vals = vals[:-1]
    if len(vals) > 2 or 0 in vals:   # DecimalToRoman::eMaxLetter
        die("roman letter array longer than eMaxLetter: %r" % s)
    return vals


def main():
    consts = unicode_constants()
    src = os.path.join(REPO, "src/xalanc/XSLT/ElemNumber.cpp")
    txt = strip_comments(open(src, encoding="utf-8", errors="replace").read())

    alpha = char_array(txt, "s_alphaCountTable", consts)
    elalpha = char_array(txt, "s_elalphaCountTable", consts)
    err = char_array(txt, "s_errorString", consts)

    body = array_body(txt, r"const\s+DecimalToRoman\s+ElemNumber::s_romanConvertTable\s*\[\s*\]\s*=\s*\{", "s_romanConvertTable")
    roman = []
    for ent in split_top(body):
        if not (ent.startswith("{") and ent.endswith("}")):
            die("roman entry is not a brace list: %r" % ent)
        f = split_top(ent[1:-1])
        if len(f) != 4:
            die("roman entry does not have 4 fields (postValue, postLetter, preValue, preLetter): %r" % ent)
        roman.append((value(f[0], consts), letters(f[1], consts), value(f[2], consts), letters(f[3], consts)))
    if not roman:
        die("empty roman table")

    # field order of the struct (the initialisers are positional)
    hpp = strip_comments(open(os.path.join(REPO, "src/xalanc/XSLT/DecimalToRoman.hpp"), encoding="utf-8", errors="replace").read())
    m = re.search(r"struct\s+\w*\s*DecimalToRoman\s*\{", hpp)
    if not m:
        die("struct DecimalToRoman not found")
    sb = hpp.index("{", m.end() - 1)
    fields = re.findall(r"\b(m_\w+)\s*(?:\[[^\]]*\])?\s*;", hpp[sb:balanced(hpp, sb)])
    if fields != ["m_postValue", "m_postLetter", "m_preValue", "m_preLetter"]:
        die("DecimalToRoman field order changed: %r" % fields)

    # toRoman guard and int2alphaCount buffer length
    mt = re.search(r"ElemNumber::toRoman\s*\((.*?)\n\}", txt, flags=re.S)
    if not mt:
        die("ElemNumber::toRoman not found")
    mg = re.search(r"else\s+if\s*\(\s*val\s*>\s*(\d+)\s*\)", mt.group(1))
    if not mg:
        die("toRoman: `else if (val > N)` guard not found")
    roman_max = int(mg.group(1))
    ma = re.search(r"ElemNumber::int2alphaCount\s*\((.*?)\n\}", txt, flags=re.S)
    if not ma:
        die("ElemNumber::int2alphaCount not found")
    mb = re.search(r"const\s+size_t\s+buflen\s*=\s*(\d+)\s*;", ma.group(1))
    if not mb:
        die("int2alphaCount: buflen not found")
    buflen = int(mb.group(1))
    if not re.search(r"charPos\s*=\s*buflen\s*-\s*1\s*;", ma.group(1)):
        die("int2alphaCount: `charPos = buflen - 1` not found")

    nf = strip_comments(open(os.path.join(REPO, "src/xalanc/PlatformSupport/XalanNumberFormat.cpp"), encoding="utf-8", errors="replace").read())
    ms = re.search(r"s_defaultGroupingSeparator\s*\[\s*\]\s*=\s*\{([^}]*)\}", nf)
    mz = re.search(r"m_groupingSize\s*\(\s*(\d+)\s*\)", nf)
    if not ms or not mz:
        die("XalanNumberFormat defaults not found")
    gsep = [value(t, consts) for t in ms.group(1).split(",") if t.strip()]
    if not gsep or gsep[-1] != 0:
        die("default grouping separator not terminated")
    gsep = gsep[:-1]

    # formatNumberList: is a format string that is one non-alphanumeric token also appended as the suffix?
    mf = re.search(r"ElemNumber::formatNumberList\s*\((.*?)\n\}", txt, flags=re.S)
    if not mf:
        die("ElemNumber::formatNumberList not found")
    fl = re.sub(r"\s+", " ", mf.group(1))
    if not re.search(r"if \(trailerStrIt != endIt\) \{ theResult \+= \*trailerStrIt; \}", fl):
        die("formatNumberList: the trailer append `if (trailerStrIt != endIt) theResult += *trailerStrIt` was not found")
    single_both = bool(re.search(r"if \(trailerStrIt != endIt\) \{ theResult \+= \*trailerStrIt; \} else if \(theVectorSize == 1 && "
                                 r"leaderStrIt != endIt\) \{ theResult \+= \*leaderStrIt; \}", fl))
    if not single_both and re.search(r"theResult \+= \*trailerStrIt; \} else", fl):
        die("formatNumberList: unrecognised else-branch after the trailer append")

    # the numbering resource bundle for letter-value="traditional" (only the Greek one is shipped: initializeTraditionalElalphaBundle)
    mb = re.search(r"initializeTraditionalElalphaBundle\s*\((.*?)\n\}", txt, flags=re.S)
    if not mb:
        die("initializeTraditionalElalphaBundle not found")
    bt = mb.group(1)

    def num_array(name, typ):
        mm = re.search(r"static const %s\s+%s\s*\[\s*\]\s*=\s*\{([^}]*)\}" % (typ, name), bt)
        if not mm:
            die("bundle array %s not found" % name)
        return [value(t, consts) for t in mm.group(1).split(",") if t.strip()]

    def term(l, name):
        if not l or l[-1] != 0:
            die("bundle array %s is not 0-terminated" % name)
        return l[:-1]
    b_groups = num_array("elalphaNumberGroups", "NumberType")
    b_mults = num_array("elalphaMultipliers", "NumberType")
    b_mchars = term(num_array("elalphaMultiplierChars", "XalanDOMChar"), "elalphaMultiplierChars")
    b_tabs = {n: term(num_array(n, "XalanDOMChar"), n) for n in ("elalphaDigits", "elalphaTens", "elalphaHundreds")}
    flatb = re.sub(r"\s+", " ", bt)
    order = re.findall(r"XalanDOMCharVectorType\( (\w+), \w+ \+ length\(\w+\), theManager\)\.swap\(theElalphaDigitsTable\[(\d)\]\)", flatb)
    if sorted(int(i) for _, i in order) != [0, 1, 2]:
        die("bundle: the three digit tables are not assigned to theElalphaDigitsTable[0..2]")
    digits_table = [b_tabs[n] for n, i in sorted(order, key=lambda x: int(x[1]))]
    b_tt = [int(x) for x in re.findall(r"theDigitsTableTable\.push_back\((\d+)\)", flatb)]
    if len(b_tt) != len(b_groups) or any(t >= len(digits_table) for t in b_tt):
        die("bundle: digits-table table does not fit the number groups")
    mcall = re.search(r"XalanNumberingResourceBundle theElaphaBundle\((.*?)\);", flatb)
    if not mcall:
        die("bundle constructor call not found")
    call = mcall.group(1)
    if "XalanNumberingResourceBundle::eMultiplicativeAdditive" not in call:
        die("bundle: numbering method is not eMultiplicativeAdditive (re-model)")
    if "XalanNumberingResourceBundle::ePrecedes" in call:
        precedes = True
    elif "XalanNumberingResourceBundle::eFollows" in call:
        precedes = False
    else:
        die("bundle: multiplier order not found")
    # the zero character vector is the empty `XalanDOMCharVectorType(theManager)` between the multipliers and the multiplier chars
    if not re.search(r"elalphaMultipliers \+ elalphaMultipliersCount, theManager\), XalanDOMCharVectorType\(theManager\), XalanDOMCharVectorType\( elalphaMultiplierChars",
                     call):
        die("bundle: the zero-character vector is not the empty vector (re-model)")
    if len(b_mchars) != len(b_mults) or 0 in b_groups or 0 in b_mults:
        die("bundle: multipliers / multiplier characters / groups are inconsistent")

    def nats(l):
        return "[" + ", ".join(str(x) for x in l) + "]"

    out = []
    out.append("/- GENERATED by translate/c17_tables.py from %s — do not edit -/" % "src/xalanc/XSLT/ElemNumber.cpp")
    out.append("namespace XalanModel.Generated.C17\n")
    out.append("/-- one `DecimalToRoman` initialiser of `ElemNumber::s_romanConvertTable` -/")
    out.append("structure RomanEntry where\n  postValue : Nat\n  postLetter : List Nat\n  preValue : Nat\n  preLetter : List Nat\nderiving Repr, DecidableEq\n")
    out.append("def romanTable : List RomanEntry := [")
    out.append(",\n".join("  ⟨%d, %s, %d, %s⟩" % (a, nats(b), c, nats(d)) for a, b, c, d in roman))
    out.append("]\n")
    out.append("/-- `s_alphaCountTable` (index 0 is the letter for a zero remainder) -/")
    out.append("def alphaTable : List Nat := %s\n" % nats(alpha))
    out.append("def elalphaTable : List Nat := %s\n" % nats(elalpha))
    out.append("def errorString : List Nat := %s\n" % nats(err))
    out.append("def romanMax : Nat := %d\n" % roman_max)
    out.append("def alphaBufLen : Nat := %d\n" % buflen)
    out.append("def defaultGroupingSeparator : List Nat := %s\n" % nats(gsep))
    out.append("def defaultGroupingSize : Nat := %d\n" % int(mz.group(1)))
    out.append("/-- a numbering resource bundle as `traditionalAlphaCount` uses it (numbering method eMultiplicativeAdditive, empty zero character) -/")
    out.append("structure NumberingBundle where\n  groups : List Nat\n  tables : List Nat\n  multipliers : List Nat\n  multiplierChars : List Nat\n"
               "  digitsTable : List (List Nat)\n  multiplierPrecedes : Bool\nderiving Repr\n")
    out.append("/-- `s_elalphaResourceBundle` (initializeTraditionalElalphaBundle): Greek, letter-value=\"traditional\" -/")
    out.append("def elalphaBundle : NumberingBundle :=\n  { groups := %s, tables := %s, multipliers := %s, multiplierChars := %s,\n    digitsTable := [%s],\n    multiplierPrecedes := %s }\n"
               % (nats(b_groups), nats(b_tt), nats(b_mults), nats(b_mchars), ", ".join(nats(t) for t in digits_table), "true" if precedes else "false"))
    out.append("/-- `formatNumberList`: a format string consisting of one non-alphanumeric token is appended as suffix too -/")
    out.append("def singlePunctuationTokenIsAlsoSuffix : Bool := %s\n" % ("true" if single_both else "false"))
    out.append("end XalanModel.Generated.C17")
    new = "\n".join(out) + "\n"
    os.makedirs(os.path.dirname(OUT), exist_ok=True)
    old = open(OUT, encoding="utf-8").read() if os.path.exists(OUT) else None
    if old != new:
        with open(OUT, "w", encoding="utf-8") as f:
            f.write(new)
    print("c17_tables: roman=%d alpha=%d elalpha=%d romanMax=%d buflen=%d -> %s" % (
        len(roman), len(alpha), len(elalpha), roman_max, buflen, os.path.relpath(OUT, ROOT)))


if __name__ == "__main__":
    main()
