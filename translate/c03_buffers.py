#!/usr/bin/env python3
"""C03 translator: sizes and guards of the fixed-size conversion buffers  ->  Generated/C03_Buffers.lean

Reads from the CURRENT working tree:
  PlatformSupport/DOMStringHelper.cpp   MAX_PRINTF_DIGITS, the thePrintfStrings precisions, the declared size of every
                                        `theBuffer[...]`/`theResult[...]` local in the number conversion functions
  XSLT/ElemNumber.cpp                   int2alphaCount: buflen, declared buf size, start position; the alpha table sizes;
                                        numberList stack array size / threshold / comparison
  PlatformSupport/DoubleSupport.cpp     convertHelper: theBufferSize, guard comparison, NUL write
  XPathCAPI/XPathCAPI.cpp               transcodeString: maxStackArraySize, guard comparison
  + an inventory of every local fixed-size array in the files the property is anchored in (information only).
A construct that is not found in the expected shape -> exit 1.
"""
import json
import os
import re
import sys

sys.path.insert(0, os.path.dirname(os.path.abspath(__file__)))
from c03_exceptions import strip, read, die as _die, SRC, GEN  # noqa: E402


def die(msg):
    sys.stderr.write("c03_buffers: " + msg + "\n")
    print("c03_buffers: " + msg)
    sys.exit(1)


def need(pattern, txt, what, flags=0):
    m = re.search(pattern, txt, flags)
    if not m:
        die("not found: " + what)
    return m


ANCHORED = [
    "XalanTransformer/XalanTransformer.cpp", "XalanTransformer/XalanCAPI.cpp", "XPathCAPI/XPathCAPI.cpp",
    "PlatformSupport/DOMStringHelper.cpp", "PlatformSupport/DoubleSupport.cpp", "XPath/XPathProcessorImpl.cpp",
    "XPath/XPathExpression.cpp", "XSLT/StylesheetHandler.cpp", "XSLT/ElemNumber.cpp", "XSLT/FunctionFormatNumber.cpp",
    "ICUBridge/ICUFormatNumberFunctor.cpp", "XMLSupport/FormatterToXMLUnicode.hpp", "XMLSupport/FormatterToHTML.cpp",
    "PlatformSupport/XalanParsedURI.cpp", "XalanSourceTree/XalanSourceTreeContentHandler.cpp", "XSLT/Stylesheet.cpp",
]


def const_val(txt, name):
    m = need(r"\bconst\s+[\w:]+\s+%s\s*=\s*(\d+)u?\s*;" % re.escape(name), txt, "constant " + name)
    return int(m.group(1))


def main():
    dsh = strip(read(os.path.join(SRC, "PlatformSupport", "DOMStringHelper.cpp")))
    raw_dsh = read(os.path.join(SRC, "PlatformSupport", "DOMStringHelper.cpp"))
    maxd = const_val(dsh, "MAX_PRINTF_DIGITS")
    m = need(r"thePrintfStrings\[\]\s*=\s*\{(.*?)\};", raw_dsh, "thePrintfStrings table", re.S)
    precs = []
    items = [x.strip() for x in m.group(1).split(",") if x.strip()]
    if items[-1] != "0":
        die("thePrintfStrings is not 0-terminated")
    for it in items[:-1]:
        mm = re.match(r'^"%\.(\d+)f"$', it)
        if not mm:
            die("unexpected printf format " + it)
        precs.append(int(mm.group(1)))
    # constants of the file, evaluated in order of definition (+ - * parentheses, <cfloat> limits)
    consts = {"DBL_MAX_10_EXP": 308, "DBL_DIG": 15, "DBL_MANT_DIG": 53, "FLT_MAX_10_EXP": 38}

    def evaluate(expr, what, strict=True):
        def die(msg):
            if strict:
                sys.stderr.write("c03_buffers: " + msg + "\n")
                print("c03_buffers: " + msg)
                sys.exit(1)
            raise ValueError(msg)
        e = expr.strip().rstrip("u")
        if not re.match(r"^[\w\s+\-*()]+$", e):
            die("%s: cannot evaluate `%s`" % (what, expr))

        def sub(m):
            w = m.group(0)
            if w.isdigit():
                return w
            if re.match(r"^\d+u$", w):
                return w[:-1]
            if w not in consts:
                die("%s: unknown constant `%s` in `%s`" % (what, w, expr))
            return str(consts[w])
        return int(eval(re.sub(r"\w+", sub, e), {"__builtins__": {}}, {}))
    for m in re.finditer(r"\bconst\s+[\w:]+\s+(\w+)\s*=\s*([^;]+);", dsh):
        if re.match(r"^[\w\s+\-*()]+$", m.group(2).strip()) and not re.search(r"[A-Za-z_]\w*\s*\(", m.group(2)):
            try:
                consts[m.group(1)] = evaluate(m.group(2), "constant " + m.group(1), strict=False)
            except ValueError:
                pass    # a local `const T x = <runtime expression>;`
    size_of = evaluate

    decls = [(mm.group(1), mm.group(2), mm.group(3), mm.start()) for mm in re.finditer(r"\b(char|XalanDOMChar)\s+(\w+)\s*\[([^\]]+)\]\s*;", dsh)]
    sizes = set()
    wide_sizes = set()
    for ty, nm, sz, pos in decls:
        v = size_of(sz, "DOMStringHelper.cpp " + nm)
        sizes.add(v)
        if ty != "char":
            wide_sizes.add(v)
    if len(decls) < 6:
        die("DOMStringHelper.cpp: expected >= 6 local conversion buffers, found %d" % len(decls))
    # the buffers sprintf("%.Nf") writes into: for every `sprintf(theBuffer, *thePrintfString, theValue)` the nearest preceding
    # `char theBuffer[...]`; the transcoded copy `XalanDOMChar theResult[...]` of NumberToCharacters must be as large
    dbl_sizes = []
    for mm in re.finditer(r"sprintf\(\s*theBuffer\s*,\s*\*thePrintfString\s*,\s*theValue\s*\)", dsh):
        prev = [d for d in decls if d[0] == "char" and d[1] == "theBuffer" and d[3] < mm.start()]
        if not prev:
            die("sprintf(theBuffer, *thePrintfString, …) without a preceding `char theBuffer[…]`")
        dbl_sizes.append(size_of(prev[-1][2], "double buffer"))
    if len(dbl_sizes) != 2:
        die("expected the sprintf retry loop in exactly two functions (NumberToDOMString / NumberToCharacters), found %d" % len(dbl_sizes))
    res = [d for d in decls if d[0] == "XalanDOMChar" and d[1] == "theResult"]
    if len(res) != 1:
        die("expected one `XalanDOMChar theResult[…]` (NumberToCharacters), found %d" % len(res))
    printf_buf = min(dbl_sizes + [size_of(res[0][2], "theResult")])
    ptr = [d for d in decls if d[0] == "char" and d[1] == "theBuffer" and size_of(d[2], "x") not in dbl_sizes] or [d for d in decls if d[0] == "char"][:1]
    pointer_buf = min(size_of(d[2], "pointer buffer") for d in ptr)
    int_sizes = [size_of(d[2], "integer buffer") for d in decls if d[0] == "XalanDOMChar" and d[1] == "theBuffer"]
    if len(int_sizes) < 4:
        die("expected >= 4 `XalanDOMChar theBuffer[…]` of the integer conversions, found %d" % len(int_sizes))
    int_buf = min(int_sizes)
    ends = re.findall(r"&theBuffer\[([^\]]+)\]", dsh)
    end_vals = set(size_of(e, "ScalarToDecimalString end pointer") for e in ends)
    if len(ends) < 4 or len(end_vals) != 1:
        die("expected >= 4 identical `&theBuffer[<end>]` end pointers, found %r" % ends)
    int_end = end_vals.pop()
    # formatSmallNumber (c8ec637): "%.17e" into theScientific[N], expanded into theBuffer as [-]0.<zeros><18 digits>
    sci = 0
    small_digits = 0
    if re.search(r"\bformatSmallNumber\s*\(", dsh):
        m = need(r"char\s+theScientific\s*\[(\d+)\]\s*;", dsh, "formatSmallNumber: theScientific[N]")
        sci = int(m.group(1))
        m = need(r'sprintf\(theScientific,\s*"%\.(\d+)e",\s*theValue\)', raw_dsh, 'formatSmallNumber: sprintf(theScientific, "%.17e", …)')
        small_digits = int(m.group(1)) + 1
        need(r"for\s*\(int\s+theZeros\s*=\s*atoi\(theExponentMark\s*\+\s*2\)\s*-\s*1;\s*theZeros\s*>\s*0;\s*--theZeros\)", dsh, "formatSmallNumber: exponent - 1 zeros")
        need(r"theExponentMark\[1\]\s*!=\s*'-'|theExponentMark\[1\]\s*!=\s*''", dsh, "formatSmallNumber: only negative exponents")
        if len(re.findall(r"formatSmallNumber\(theValue,\s*theBuffer\)", dsh)) != 2:
            die("formatSmallNumber is not called with (theValue, theBuffer) exactly twice")
    int64_guarded = len(re.findall(r"theValue\s*>=\s*-9223372036854775808\.0\s*&&\s*theValue\s*<\s*9223372036854775808\.0\s*&&\s*static_cast<XMLInt64>\(theValue\)\s*==\s*theValue", dsh)) == 2
    # the double path is entered when static_cast<XMLInt64>(v) != v
    if len(re.findall(r"static_cast<XMLInt64>\(theValue\)\s*==\s*theValue", dsh)) != 2:
        die("the integer fast path test `static_cast<XMLInt64>(theValue) == theValue` was not found twice")

    en = strip(read(os.path.join(SRC, "XSLT", "ElemNumber.cpp")))
    raw_en = read(os.path.join(SRC, "XSLT", "ElemNumber.cpp"))
    i0 = en.find("ElemNumber::int2alphaCount(\n")
    if i0 < 0:
        i0 = need(r"(?m)^ElemNumber::int2alphaCount\(", en, "int2alphaCount definition").start()
    body = en[i0:i0 + 6000]
    buflen = const_val(body, "buflen")
    m = need(r"XalanDOMChar\s+buf\s*\[([^\]]+)\]", body, "int2alphaCount buf declaration")
    decl = m.group(1).replace(" ", "")
    bufsize = {"buflen+1": buflen + 1, "buflen": buflen}.get(decl)
    if bufsize is None:
        if decl.isdigit():
            bufsize = int(decl)
        else:
            die("int2alphaCount: buf[%s]" % decl)
    m = need(r"charPos\s*=\s*([^;]+);", body, "int2alphaCount charPos initialisation")
    init = m.group(1).replace(" ", "")
    start = {"buflen-1": buflen - 1, "buflen": buflen}.get(init)
    if start is None:
        die("int2alphaCount: charPos = %s" % init)
    need(r"buf\[charPos--\]\s*=\s*table\[lookupIndex\]", body, "int2alphaCount store `buf[charPos--] = table[lookupIndex]`")
    need(r"val\s*=\s*\(?\s*val\s*/\s*radix\s*\)?\s*;", body, "int2alphaCount `val = val / radix`")
    need(r"while\s*\(\s*val\s*>\s*0\s*\)", body, "int2alphaCount `while (val > 0)`")
    # alpha tables: s_alphaCountTableSize = sizeof(table)/sizeof(elem)  -> count initialisers
    tables = []
    uni = dict((m.group(1), int(m.group(2), 0)) for m in re.finditer(
        r"\b(char\w+)\s*=\s*(0x[0-9A-Fa-f]+|\d+)\s*;", read(os.path.join(SRC, "PlatformSupport", "XalanUnicode.hpp"))))
    need(r"#define\s+ELEMNUMBER_SIZE\(str\)\s+\(\(sizeof\(str\)\s*/\s*sizeof\(str\[0\]\)\s*-\s*1\)\)", raw_en, "ELEMNUMBER_SIZE macro (count - 1)")
    for nm in ("s_alphaCountTable", "s_elalphaCountTable"):
        m = need(r"ElemNumber::%s\[\]\s*=\s*\{(.*?)\};" % nm, strip(raw_en), "table " + nm, re.S)
        ents = []
        for x in m.group(1).split(","):
            x = x.strip()
            if not x:
                continue
            if x.startswith("XalanUnicode::"):
                if x[14:] not in uni:
                    die("unknown XalanUnicode constant " + x)
                ents.append(uni[x[14:]])
            else:
                ents.append(int(x, 0))
        if ents[-1] != 0:
            die(nm + " is not 0-terminated")
        need(r"ElemNumber::%sSize\s*=\s*ELEMNUMBER_SIZE\(%s\)" % (nm, nm), en, nm + "Size = ELEMNUMBER_SIZE(...)")
        tables.append((nm, ents[:-1]))
    calls = re.findall(r"int2alphaCount\(\s*listElement\s*,\s*(\w+)\s*,\s*(\w+)\s*,", en)
    for a, b in calls:
        if b != a + "Size" or a not in ("s_alphaCountTable", "s_elalphaCountTable"):
            die("int2alphaCount called with (%s, %s)" % (a, b))
    if len(calls) < 3:
        die("expected >= 3 calls of int2alphaCount")
    # numberList
    thr = const_val(en, "theStackArrayThreshold")
    m = need(r"if\s*\(\s*lastIndex\s*(<=|<)\s*theStackArrayThreshold\s*\)", en, "numberList guard")
    nl_strict = m.group(1) == "<"
    m = need(r"CountType\s+numberList\s*\[([^\]]+)\]", en, "numberList stack array")
    nl_size = thr if m.group(1).strip() == "theStackArrayThreshold" else int(m.group(1)) if m.group(1).strip().isdigit() else die("numberList size")
    need(r"for\s*\(\s*NodeRefListBase::size_type\s+i\s*=\s*0\s*;\s*i\s*<\s*numberListLength\s*;", en, "getCountString loop bound i < numberListLength")

    ds = strip(read(os.path.join(SRC, "PlatformSupport", "DoubleSupport.cpp")))
    ch_size = const_val(ds, "theBufferSize")
    m = need(r"if\s*\(\s*theLength\s*(<=|<)\s*theBufferSize\s*\)", ds, "convertHelper guard")
    ch_strict = m.group(1) == "<"
    m = need(r"char\s+theBuffer\s*\[([^\]]+)\]", ds, "convertHelper buffer")
    ch_arr = ch_size if m.group(1).strip() == "theBufferSize" else int(m.group(1)) if m.group(1).strip().isdigit() else die("convertHelper size")
    need(r"theBuffer\[theLength\]\s*=", ds, "convertHelper NUL store at theBuffer[theLength]")

    xc = strip(read(os.path.join(SRC, "XPathCAPI", "XPathCAPI.cpp")))
    xc_size = const_val(xc, "maxStackArraySize")
    m = need(r"if\s*\(\s*theLength\s*(>=|>)\s*maxStackArraySize\s*\)", xc, "XPathCAPI transcodeString guard")
    # heap when len >= size  <=>  stack when len < size (strict)
    xc_strict = m.group(1) == ">="
    arrs = re.findall(r"\b(?:unsigned char|XalanDOMChar)\s+\w+\s*\[([^\]]+)\]\s*;", xc)
    if len(arrs) != 2 or any(a.strip() != "maxStackArraySize" for a in arrs):
        die("XPathCAPI transcodeString: stack arrays are %r" % arrs)

    st = strip(read(os.path.join(SRC, "XSLT", "Stylesheet.cpp")))
    m = need(r"conflictsArray\s*\[(\d+)\]", st, "conflictsArray")
    conf = int(m.group(1))
    # the array is used unless `m_patternCount > sizeof(conflictsArray)/sizeof(conflictsArray[0])`, else a vector of m_patternCount
    need(r"if\s*\(\s*m_patternCount\s*>\s*sizeof\(conflictsArray\)\s*/\s*sizeof\(conflictsArray\[0\]\)\s*\)\s*\{\s*conflictsVector\.resize\(m_patternCount\);\s*conflicts\s*=\s*conflictsVector\.begin\(\);\s*\}\s*else\s*\{\s*conflicts\s*=\s*conflictsArray;",
         st, "conflictsArray / conflictsVector(m_patternCount) selection")
    need(r"addObjectIfNotFound\(bestMatchedPattern,\s*conflicts,\s*nConflicts\);\s*conflicts\[nConflicts\+\+\]\s*=\s*matchPat;", st,
         "the two stores of a conflict: addObjectIfNotFound(best) then conflicts[nConflicts++] = matchPat")
    need(r"priorityOfRule\s*>\s*priorityOfBestMatched\s*\)\s*\{\s*nConflicts\s*=\s*0;", st, "a strictly better rule resets nConflicts")
    need(r"\+\+m_patternCount;", st, "m_patternCount is incremented once per pattern entry created in addTemplate")

    # XalanOutputStream::transcode retry loop: the no-progress guard, the doubling, the target size
    xo = strip(read(os.path.join(SRC, "PlatformSupport", "XalanOutputStream.cpp")))
    guard = bool(re.search(r"else\s+if\s*\(\s*theSourceBytesEaten\s*==\s*0\s*&&\s*theTargetBytesEaten\s*==\s*0\s*\)", xo))
    need(r"theDestinationSize\s*=\s*theBufferLength\s*\*\s*(\d+)\s*;\s*size_type\s+theTargetSize\s*=\s*theDestinationSize\s*;", xo, "transcode: initial destination/target size")
    need(r"theTargetSize\s*=\s*theDestinationSize\s*;[^;]*theDestinationSize\s*=\s*theDestinationSize\s*\*\s*2\s*;", xo, "transcode: target = old size, size doubles")
    need(r"theDestination\.resize\(theDestinationSize\s*\+\s*1\)", xo, "transcode: destination resized to theDestinationSize + 1")
    need(r"\+\s*theTotalBytesFilled,\s*theTargetSize,", xo, "transcode: writes at offset theTotalBytesFilled, at most theTargetSize bytes")
    need(r"if\s*\(\s*theTotalBytesEaten\s*==\s*theBufferLength\s*\)\s*\{\s*fDone\s*=\s*true;", xo, "transcode: done when everything is eaten")

    # XPathProcessorImpl::tokenize: the index only moves forward
    xp = strip(read(os.path.join(SRC, "XPath", "XPathProcessorImpl.cpp")))
    i0 = need(r"(?m)^XPathProcessorImpl::tokenize\(", xp, "tokenize definition").start()
    i1 = xp.find("\nXPathProcessorImpl::", i0 + 10)
    tk = xp[i0:i1]
    need(r"for\(t_size_type\s+i\s*=\s*0;\s*i\s*<\s*nChars;\s*i\+\+\)", tk, "tokenize: for(i = 0; i < nChars; i++)")
    if len(re.findall(r"for\(\+\+i;\s*i\s*<\s*nChars\s*&&\s*\(c\s*=\s*pat\[i\]\)\s*!=\s*XalanUnicode::char(?:QuoteMark|Apostrophe);\s*\+\+i\);", tk)) != 2:
        die("tokenize: the two quote scans `for(++i; i < nChars && (c = pat[i]) != quote; ++i);` were not found")
    # the number scan: `while(i < nChars - 1) { ++i; … --i; break; … }` — every `--i` undoes the `++i` of the same round and leaves the loop
    need(r"while\(i\s*<\s*nChars\s*-\s*1\)\s*\{\s*\+\+i;", tk, "tokenize: number scan `while(i < nChars - 1) { ++i;`")
    if len(re.findall(r"--i;\s*break;", tk)) != len(re.findall(r"--i\b", tk)) or len(re.findall(r"--i\b", tk)) > 2:
        die("tokenize: a `--i` that is not `--i; break;` inside the number scan")
    # two-character operators: `t_size_type theEnd = i + 1; if (… pat[theEnd] == '=') ++theEnd; … i = theEnd - 1;` — forward by 0 or 1 before the i++
    tk_ops = tk
    if re.search(r"\bi\s*=\s*theEnd\s*-\s*1\s*;", tk):
        need(r"t_size_type\s+theEnd\s*=\s*i\s*\+\s*1\s*;", tk, "tokenize: theEnd = i + 1")
        if re.search(r"theEnd\s*(?:=[^=]|-=|--)|--theEnd", tk.replace("t_size_type     theEnd = i + 1", "").replace("t_size_type theEnd = i + 1", "")):
            die("tokenize: theEnd is modified other than by ++theEnd")
        tk_ops = re.sub(r"\bi\s*=\s*theEnd\s*-\s*1\s*;", "", tk)
    if re.search(r"\bi--|\bi\s*-=|\bi\s*=[^=]", tk_ops.replace("t_size_type i = 0", "")):
        die("tokenize: the scan index is assigned or decremented somewhere: the termination model no longer applies")
    # ElemNumber::getPreviousNode (level any): null checks precede both pattern tests; the walk only uses previous sibling / last child / parent
    g0 = need(r"(?m)^ElemNumber::getPreviousNode\(", en, "getPreviousNode definition").start()
    g1 = en.find("\nElemNumber::", g0 + 10)
    gp = en[g0:g1]
    need(r"if\(0\s*!=\s*next\s*&&\s*0\s*!=\s*fromMatchPattern\s*&&\s*fromMatchPattern->getMatchScore\(\s*next,", gp, "getPreviousNode: `0 != next &&` before the from test")
    need(r"if\(0\s*!=\s*pos\s*&&\s*\(0\s*==\s*countMatchPattern\s*\|\|\s*countMatchPattern->getMatchScore\(\s*pos,", gp, "getPreviousNode: `0 != pos &&` before the count test")
    nav = set(re.findall(r"->(get\w+)\(\)", gp))
    if not nav <= {"getPreviousSibling", "getParentNode", "getLastChild"}:
        die("getPreviousNode navigates with %s: the document-order measure no longer applies" % sorted(nav))

    # double -> integer conversions: are they preceded by a range test on the double?
    xpc = strip(read(os.path.join(SRC, "XPath", "XPath.cpp")))
    need(r"if\s*\(theIndex\s*<=\s*0\.0\s*\|\|", xpc, "XPath::predicates: numeric literal shortcut `if (theIndex <= 0.0 ||`")
    pred_guarded = bool(re.search(r"theIndex\s*<=\s*0\.0\s*\|\|\s*theIndex\s*>\s*double\(theLength\)\s*\|\|\s*double\(NodeRefListBase::size_type\(theIndex\)\)\s*!=\s*theIndex", xpc))
    if not pred_guarded:
        need(r"theIndex\s*<=\s*0\.0\s*\|\|\s*NodeRefListBase::size_type\(theIndex\)\s*>\s*theLength\s*\|\|", xpc, "XPath::predicates: known shape of the index test")
    need(r"DoubleSupport::lessThan\(theValue,\s*0\.5\)\s*==\s*true", en, "ElemNumber: value < 0.5 test")
    num_guarded = bool(re.search(r"DoubleSupport::lessThan\(theValue,\s*0\.5\)\s*==\s*true\s*\|\|\s*theValue\s*>=\s*double\(std::numeric_limits<CountType>::max\(\)\)\)", en))
    need(r"CountType\(DoubleSupport::round\(theValue\)\)", en, "ElemNumber: CountType(round(theValue))")

    # XalanParsedURI::resolve, step 6 c)-g): the three decrements of the "../" handling are guarded, the erase calls have the modelled shape
    pu = strip(read(os.path.join(SRC, "PlatformSupport", "XalanParsedURI.cpp")))
    u0 = need(r"void\s+XalanParsedURI::resolve\(\s*const\s+XalanParsedURI\s*&\s*base", pu, "XalanParsedURI::resolve(base)").start()
    u1 = pu.find("XalanDOMString& XalanParsedURI::resolve(", u0)
    rs = pu[u0:u1 if u1 > 0 else len(pu)]
    n_guarded = len(re.findall(r"if\s*\(\s*index\s*>\s*0\s*\)\s*--index\s*;", rs))
    n_dec = len(re.findall(r"--index\b|\bindex--", rs))
    n_scan = len(re.findall(r"for\s*\(\s*;\s*index\s*>\s*0\s*&&\s*m_path\[index-1\]\s*!=\s*XalanUnicode::charSolidus\s*;\s*index--\s*\)", rs))
    if n_scan != 2:
        die("XalanParsedURI::resolve: expected the two backward scans `for ( ; index > 0 && m_path[index-1] != '/'; index--)`, found %d" % n_scan)
    if n_dec != n_guarded + n_scan:
        uri_guarded = False     # a bare `--index`
    else:
        uri_guarded = n_guarded == 3
    need(r"m_path\.erase\(index,\s*2\);\s*continue;", rs, "resolve: erase(index, 2) for './'")
    need(r"m_path\.erase\(index,\s*1\);\s*continue;", rs, "resolve: erase(index, 1) for a trailing '.'")
    if len(re.findall(r"const\s+XalanDOMString::size_type\s+end\s*=\s*index\s*\+\s*2\s*;", rs)) != 2 or len(re.findall(r"m_path\.erase\(index,\s*end\s*-\s*index\);\s*continue;", rs)) != 2:
        die("XalanParsedURI::resolve: the two `end = index + 2 … erase(index, end - index)` blocks were not found")
    need(r"for\s*\(XalanDOMString::size_type\s+index\s*=\s*0;\s*index\s*<\s*m_path\.length\(\);\s*\)", rs, "resolve: for (index = 0; index < m_path.length(); )")
    need(r"index\s*<\s*m_path\.length\(\)-2\s*&&\s*m_path\[index\+1\]\s*==\s*XalanUnicode::charFullStop\s*&&\s*m_path\[index\+2\]\s*==\s*XalanUnicode::charSolidus", rs, "resolve: the '../' test")

    # XalanParsedURI::parse(uriString, uriStringLen): every read of uriString is one of the modelled ones; the two tests that stand outside an
    # `index < uriStringLen && …` chain either carry a bound of their own or rely on a terminating 0 behind the characters
    p0 = need(r"void\s+XalanParsedURI::parse\(\s*const\s+XalanDOMChar\s*\*\s*uriString\s*,\s*XalanDOMString::size_type\s+uriStringLen\s*\)", pu, "XalanParsedURI::parse(uriString, uriStringLen)").start()
    ps = pu[p0:u0]
    if len(re.findall(r"while\s*\(\s*index\s*<\s*uriStringLen\s*&&", ps)) != 4:
        die("XalanParsedURI::parse: expected four `while (index < uriStringLen && …)` scans")
    if len(re.findall(r"if\s*\(\s*index\s*<\s*uriStringLen\s*&&\s*uriString\[index\]\s*==\s*XalanUnicode::char(?:QuestionMark|NumberSign)\s*\)", ps)) != 2:
        die("XalanParsedURI::parse: the query / fragment tests `if (index < uriStringLen && uriString[index] == …)` were not found")
    C = r"uriString\[index\]\s*==\s*XalanUnicode::charColon\s*\)"
    if re.search(r"if\s*\(\s*index\s*>\s*0\s*&&\s*index\s*<\s*uriStringLen\s*&&\s*" + C, ps):
        scheme_bounded = True
    elif re.search(r"if\s*\(\s*index\s*>\s*0\s*&&\s*" + C, ps):
        scheme_bounded = False
    else:
        die("XalanParsedURI::parse: the scheme test `if (index > 0 [&& index < uriStringLen] && uriString[index] == ':')` was not found")
    A = r"\s*&&\s*uriString\[index\]\s*==\s*XalanUnicode::charSolidus\s*&&\s*uriString\[index\s*\+\s*1\]\s*==\s*XalanUnicode::charSolidus\s*\)"
    if re.search(r"if\s*\(\s*index\s*\+\s*1\s*<\s*uriStringLen" + A, ps):
        auth_bounded = True
    elif re.search(r"if\s*\(\s*index\s*<\s*uriStringLen\s*-\s*1" + A, ps):
        auth_bounded = False
    else:
        die("XalanParsedURI::parse: the authority test `if (index + 1 < uriStringLen | index < uriStringLen - 1 && … '/' && … '/')` was not found")
    n_reads = len(re.findall(r"uriString\s*\[", ps))
    if n_reads != 15:
        die("XalanParsedURI::parse: %d reads `uriString[…]`, the model has 15" % n_reads)
    uri_parse_bounded = scheme_bounded and auth_bounded

    # StylesheetExecutionContextDefault::pushCurrentTemplate: the depth guard.  Every push onto m_currentTemplateStack goes through it; does the
    # test count every push, or only those with a non-null template (xsl:for-each pushes 0, a named template called inside it pushes that 0 again)?
    sx = strip(read(os.path.join(SRC, "XSLT", "StylesheetExecutionContextDefault.cpp")))
    # (the constructors and reset() put one null entry at the bottom: the stack starts with one element)
    if len(re.findall(r"m_currentTemplateStack\.push_back\(", sx)) != 1 + len(re.findall(r"m_currentTemplateStack\.push_back\(0\);", sx)) or \
       len(re.findall(r"m_currentTemplateStack\.push_back\(theTemplate\);", sx)) != 1:
        die("StylesheetExecutionContextDefault: apart from the bottom entries `push_back(0)`, m_currentTemplateStack.push_back( is expected exactly once (in pushCurrentTemplate)")
    pm = need(r"StylesheetExecutionContextDefault::pushCurrentTemplate\(const\s+ElemTemplate\s*\*\s*theTemplate\)\s*\{(.*?)m_currentTemplateStack\.push_back\(theTemplate\);\s*\}", sx,
              "pushCurrentTemplate(theTemplate) { … m_currentTemplateStack.push_back(theTemplate); }", re.S)
    pbody = pm.group(1)
    dm = re.search(r"if\s*\(\s*(theTemplate\s*!=\s*0\s*&&\s*)?m_currentTemplateStack\.size\(\)\s*(>=|==)\s*eMaximumTemplateDepth\s*\)\s*\{", pbody)
    if not dm:
        die("pushCurrentTemplate: the depth test `if ([theTemplate != 0 &&] m_currentTemplateStack.size() >= | == eMaximumTemplateDepth)` was not found")
    depth_counts_null = dm.group(1) is None         # no exemption for null entries
    depth_op_ge = dm.group(2) == ">="
    if not re.search(r"throw\s+XSLTProcessorException\(", pbody) or "InfiniteRecursion_1Param" not in pbody:
        die("pushCurrentTemplate: the depth test no longer throws XSLTProcessorException(InfiniteRecursion_1Param)")
    sxh = strip(read(os.path.join(SRC, "XSLT", "StylesheetExecutionContextDefault.hpp")))
    max_depth = int(need(r"eMaximumTemplateDepth\s*=\s*(\d+)", sxh, "eMaximumTemplateDepth = <n>").group(1))
    # every instantiation of a template and every xsl:for-each pushes: the callers
    pushers = {}
    for rel in ("XSLT/ElemTemplate.cpp", "XSLT/ElemForEach.cpp"):
        t = strip(read(os.path.join(SRC, rel)))
        pushers[rel] = len(re.findall(r"pushCurrentTemplate\(|PushAndPopCurrentTemplate\s+\w+\(", t))
    if pushers["XSLT/ElemTemplate.cpp"] < 3 or pushers["XSLT/ElemForEach.cpp"] < 2:
        die("ElemTemplate / ElemForEach no longer push the current template where expected: %s" % pushers)

    # XalanDOMString.cpp: the doXercesTranscode that returns bool (local code page, used for the error message of XalanTransformer): starts with
    # source length + 1 elements, retries with `step` more until the size reaches `factor` x the source length, then gives up and clears the target
    ds = strip(read(os.path.join(SRC, "XalanDOM", "XalanDOMString.cpp")))
    gm = need(r"inline\s+bool\s+doXercesTranscode\((.*?)\n\}", ds, "inline bool doXercesTranscode(…)", re.S)
    gb = gm.group(1)
    need(r"theTargetVector\.resize\(theSourceStringLength\s*\+\s*1\);", gb, "doXercesTranscode: initial resize(theSourceStringLength + 1)")
    need(r"theTargetVector\.size\(\)\s*-\s*1,", gb, "doXercesTranscode: transcode(…, size() - 1, …)")
    fm = need(r"if\s*\(theTargetVector\.size\(\)\s*>=\s*theSourceStringLength\s*\*\s*(\d+)\)\s*\{\s*break;\s*\}\s*else\s*\{\s*theTargetVector\.resize\(theTargetVector\.size\(\)\s*\+\s*(\d+)\);", gb,
              "doXercesTranscode: `if (size() >= theSourceStringLength * F) break; else resize(size() + S)`")
    tr_factor, tr_step = int(fm.group(1)), int(fm.group(2))
    need(r"if\s*\(fSuccess\s*==\s*false\)\s*\{\s*theTargetVector\.clear\(\);", gb, "doXercesTranscode: clear() on failure")

    # inventory (information)
    inv = []
    for rel in ANCHORED:
        p = os.path.join(SRC, rel)
        if not os.path.exists(p):
            continue
        t = strip(read(p))
        for mm in re.finditer(r"(?m)^\s+(?:const\s+)?((?:unsigned\s+)?[\w:]+(?:\s*\*)?)\s+(\w+)\s*\[([^\]\n]+)\]\s*;", t):
            inv.append({"file": rel, "line": t.count("\n", 0, mm.start()) + 1, "type": mm.group(1), "name": mm.group(2), "size": mm.group(3).strip()})
    modelled = {"theBuffer", "theResult", "buf", "numberList", "theCharsCount", "theChars"}
    L = []
    L.append("/- GENERATED by translate/c03_buffers.py from the working tree — do not edit. -/")
    L.append("namespace XalanModel.Generated.C03_Buffers")
    L.append("")
    L.append("/-- DOMStringHelper.cpp: MAX_PRINTF_DIGITS -/")
    L.append("def maxPrintfDigits : Nat := %d" % maxd)
    L.append("/-- size of the `char theBuffer[…]` that the sprintf(\"%.Nf\") retry loop of NumberToDOMString / NumberToCharacters(double) writes into")
    L.append("    (minimum over both functions and the XalanDOMChar copy `theResult`) -/")
    L.append("def printfBufferSize : Nat := %d" % printf_buf)
    L.append("/-- smallest declared size of an XalanDOMChar buffer of the integer conversions, and the index their end pointer starts from -/")
    L.append("def intBufferSize : Nat := %d" % int_buf)
    L.append("def intBufferEnd : Nat := %d" % int_end)
    L.append("/-- PointerToDOMString: sprintf(\"%%p\") buffer (at most 2 + 16 characters + NUL are stored) -/")
    L.append("def pointerBufferSize : Nat := %d" % pointer_buf)
    L.append("/-- formatSmallNumber: size of `char theScientific[…]` (0 = the function does not exist) and the number of significant digits it expands -/")
    L.append("def scientificBufferSize : Nat := %d" % sci)
    L.append("def smallNumberDigits : Nat := %d" % small_digits)
    L.append("/-- the integer fast path tests the range of the double before `static_cast<XMLInt64>` -/")
    L.append("def int64CastGuarded : Bool := %s" % ("true" if int64_guarded else "false"))
    L.append("/-- precisions N of the \"%.Nf\" formats tried in order -/")
    L.append("def printfPrecisions : List Nat := [%s]" % ", ".join(str(p) for p in precs))
    L.append("")
    L.append("/-- ElemNumber::int2alphaCount -/")
    L.append("def alphaBufLen : Nat := %d" % buflen)
    L.append("def alphaBufSize : Nat := %d" % bufsize)
    L.append("def alphaStartPos : Nat := %d" % start)
    L.append("/-- the tables int2alphaCount is called with (length = radix; entry 0 stands for the radix itself) -/")
    L.append("def alphaTables : List (String × List Nat) := [%s]" % ", ".join("(\"%s\", [%s])" % (n, ", ".join(str(e) for e in es)) for n, es in tables))
    L.append("")
    L.append("/-- a stack array used only when a length passes a guard: (site, array size, guard is strict `len < bound`, bound,")
    L.append("    number of elements written beyond index len-1) -/")
    L.append("structure Guarded where")
    L.append("  site : String")
    L.append("  size : Nat")
    L.append("  strict : Bool")
    L.append("  bound : Nat")
    L.append("  extra : Nat")
    L.append("deriving DecidableEq, Repr")
    L.append("")
    L.append("def guardedBuffers : List Guarded := [")
    L.append("  ⟨\"ElemNumber::getCountNumbers numberList\", %d, %s, %d, 0⟩," % (nl_size, "true" if nl_strict else "false", thr))
    L.append("  ⟨\"DoubleSupport convertHelper theBuffer\", %d, %s, %d, 1⟩," % (ch_arr, "true" if ch_strict else "false", ch_size))
    L.append("  ⟨\"XPathCAPI transcodeString theChars/theCharsCount\", %d, %s, %d, 0⟩" % (xc_size, "true" if xc_strict else "false", xc_size))
    L.append("]")
    L.append("")
    L.append("/-- Stylesheet::findTemplate: `conflictsArray[N]`, used unless m_patternCount > N (then a vector of m_patternCount entries) -/")
    L.append("def conflictsArraySize : Nat := %d" % conf)
    L.append("/-- XPath::predicates compares the numeric literal with the list length as doubles before converting it to size_type -/")
    L.append("def predicateCastGuarded : Bool := %s" % ("true" if pred_guarded else "false"))
    L.append("/-- ElemNumber tests `theValue >= double(numeric_limits<CountType>::max())` before `CountType(round(theValue))` -/")
    L.append("def numberValueCastGuarded : Bool := %s" % ("true" if num_guarded else "false"))
    L.append("/-- XalanParsedURI::resolve: all three decrements of the \"../\" handling are written `if (index > 0) --index;` -/")
    L.append("def uriDecrementsGuarded : Bool := %s" % ("true" if uri_guarded else "false"))
    L.append("/-- eMaximumTemplateDepth -/")
    L.append("def maximumTemplateDepth : Nat := %d" % max_depth)
    L.append("/-- StylesheetExecutionContextDefault::pushCurrentTemplate: the depth test counts every push (no `theTemplate != 0 &&` in front of it) -/")
    L.append("def templateDepthGuardCountsNull : Bool := %s" % ("true" if depth_counts_null else "false"))
    L.append("/-- … and is written `size() >= eMaximumTemplateDepth` (false: `==`) -/")
    L.append("def templateDepthGuardGe : Bool := %s" % ("true" if depth_op_ge else "false"))
    L.append("/-- XalanDOMString.cpp, the growing-buffer doXercesTranscode: gives up when the target holds `factor` x the source length; grows by `step` -/")
    L.append("def transcodeGrowthFactor : Nat := %d" % tr_factor)
    L.append("def transcodeGrowthStep : Nat := %d" % tr_step)
    L.append("/-- XalanParsedURI::parse: the scheme test and the \"//\" test carry their own bound (`index < uriStringLen && uriString[index] == ':'`, `index + 1 < uriStringLen`) -/")
    L.append("def uriParseBounded : Bool := %s" % ("true" if uri_parse_bounded else "false"))
    L.append("/-- XalanOutputStream::transcode: the retry loop stops when the transcoder made no progress (`else if (src == 0 && tgt == 0)`) -/")
    L.append("def transcodeNoProgressGuard : Bool := %s" % ("true" if guard else "false"))
    L.append("")
    L.append("end XalanModel.Generated.C03_Buffers")
    os.makedirs(GEN, exist_ok=True)
    out = os.path.join(GEN, "C03_Buffers.lean")
    new = "\n".join(L) + "\n"
    old = read(out) if os.path.exists(out) else None
    if old != new:
        with open(out, "w", encoding="utf-8") as f:
            f.write(new)
    with open(os.path.join(GEN, "C03_Buffers.json"), "w") as f:
        json.dump({"inventory": inv, "unmodelled": [x for x in inv if x["name"] not in modelled]}, f, indent=1)
    print("c03_buffers: MAX_PRINTF_DIGITS=%d precisions=%d..%d alpha buf=%d/%d start=%d tables=%s guards=%s inventory=%d" % (
        maxd, precs[0], precs[-1], buflen, bufsize, start, [(n, len(e)) for n, e in tables],
        [(nl_size, nl_strict), (ch_arr, ch_strict), (xc_size, xc_strict)], len(inv)))
    return 0


if __name__ == "__main__":
    sys.exit(main())
