"""Add an entry to known_findings.json atomically (used while *building* the machinery, never by a check).
usage: python3 vlib/findings.py known <id> <property> <match-regex> <what> [where]
       python3 vlib/findings.py fixed <property> <commit> <what>
"""
import json, os, sys
sys.path.insert(0, os.path.dirname(os.path.dirname(os.path.abspath(__file__))))
from vlib import common

def main():
    p = os.path.join(common.ROOT, "known_findings.json")
    with common.Lock("findings"):
        d = json.load(open(p))
        if sys.argv[1] == "known":
            e = {"id": sys.argv[2], "property": sys.argv[3], "match": sys.argv[4], "what": sys.argv[5]}
            if len(sys.argv) > 6:
                e["where"] = sys.argv[6]
            d["known"] = [x for x in d["known"] if x["id"] != e["id"]] + [e]
        elif sys.argv[1] == "fixed":
            d["fixed"].append({"property": sys.argv[2], "commit": sys.argv[3], "what": sys.argv[4],
                               "line": "fixed: property=%s %s %s" % (sys.argv[2], sys.argv[3], sys.argv[4])})
        json.dump(d, open(p, "w"), indent=1)

if __name__ == "__main__":
    main()
