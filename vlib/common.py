"""Common machinery for every property check (see DESIGN.md section 2).

A check is a python module checks/cNN.py with `run(ctx)`.  It registers *obligations*
(theorems that must elaborate, translators that must parse the current source,
correspondence streams that must agree, audit items) and *cases* (concrete inputs on
which the real code was compared with the model/specification).  `Ctx.finish()` decides:

  all obligations discharged, no unlisted disagreement           -> exit 0
  concrete failing input not listed in known_findings.json        -> VIOLATION ... replay=<file>
  broken obligation but no concrete failing input found           -> VIOLATION ... no-failing-input-found
"""
import fcntl
import hashlib
import json
import os
import re
import shutil
import subprocess
import sys
import time

ROOT = os.path.dirname(os.path.dirname(os.path.abspath(__file__)))
REPO = os.environ.get("VERIF_REPO", "/repo")
CACHE = os.environ.get("VERIF_CACHE") or os.path.join(ROOT, ".cache")
LEAN = os.path.join(ROOT, "lean")
GEN = os.path.join(LEAN, "XalanModel", "Generated")
# runs against a scratch copy of the repository (mutation trials) must not overwrite the evidence of /repo
_SCRATCH = os.path.realpath(REPO) != "/repo"
EVID = os.path.join(CACHE, "evidence") if _SCRATCH else os.path.join(ROOT, "evidence")
REPLAYS = os.path.join(CACHE, "replays") if _SCRATCH else os.path.join(ROOT, "replays")
GUARD = "XALAN_C_VERIF_HOOKS"
NPROC = os.cpu_count() or 4

ALLOWED_AXIOMS = {"propext", "Classical.choice", "Quot.sound"}
FORBIDDEN = re.compile(
    r"\bsorry\b|\badmit\b|^\s*axiom\s|native_decide|bv_decide|implemented_by|\bunsafe\s|maxHeartbeats\s+0\b"
)

TRUSTED_BASE_COMMON = [
    "Lean 4.33.0 kernel (lake build; thorough tier re-checks the Props module with leanchecker)",
    "axioms allowed: propext, Classical.choice, Quot.sound (audited with #print axioms on every run)",
    "g++/libstdc++/glibc/ICU/Xerces-C as installed (modelled, not verified)",
]


def log(*a):
    print(*a, flush=True)


def sh(cmd, cwd=None, timeout=None, env=None, inp=None, check=False):
    """Run a command, return (rc, stdout+stderr)."""
    e = dict(os.environ)
    if env:
        e.update(env)
    p = subprocess.run(
        cmd, cwd=cwd, shell=isinstance(cmd, str), stdout=subprocess.PIPE, stderr=subprocess.STDOUT,
        timeout=timeout, env=e, input=inp,
    )
    out = p.stdout.decode("utf-8", "replace") if isinstance(p.stdout, bytes) else p.stdout
    if check and p.returncode != 0:
        raise RuntimeError("command failed (%d): %s\n%s" % (p.returncode, cmd, out[-4000:]))
    return p.returncode, out


class Lock:
    def __init__(self, name):
        os.makedirs(CACHE, exist_ok=True)
        self.path = os.path.join(CACHE, name + ".lock")

    def __enter__(self):
        self.f = open(self.path, "w")
        fcntl.flock(self.f, fcntl.LOCK_EX)
        return self

    def __exit__(self, *a):
        fcntl.flock(self.f, fcntl.LOCK_UN)
        self.f.close()


# ----------------------------------------------------------------------------------------
# building /repo's working tree

FLAVORS = {
    # name: (build type, extra CXX flags, extra linker flags)
    "hooks": ("RelWithDebInfo", "-Wno-error -D%s" % GUARD, ""),
    "nohooks": ("RelWithDebInfo", "-Wno-error", ""),
    "asan": ("RelWithDebInfo", "-Wno-error -D%s -fsanitize=address,undefined -fno-sanitize-recover=undefined -fno-omit-frame-pointer" % GUARD,
             "-fsanitize=address,undefined"),
    "tsan": ("RelWithDebInfo", "-Wno-error -D%s -fsanitize=thread -fno-omit-frame-pointer" % GUARD, "-fsanitize=thread"),
}


def build_dir(flavor):
    return os.path.join(CACHE, "build-" + flavor)


def build_repo(flavor="hooks", targets=("xalan-c", "Xalan")):
    """(Re)build /repo's current working tree into .cache/build-<flavor> (incremental)."""
    bt, cxx, ld = FLAVORS[flavor]
    bd = build_dir(flavor)
    with Lock("build-" + flavor):
        t0 = time.time()
        if not os.path.exists(os.path.join(bd, "build.ninja")):
            os.makedirs(bd, exist_ok=True)
            cmd = ["cmake", "-S", REPO, "-B", bd, "-G", "Ninja", "-DCMAKE_BUILD_TYPE=" + bt,
                   "-DCMAKE_CXX_FLAGS=" + cxx, "-Dtranscoder=icu", "-Dmessage-loader=inmemory"]
            if ld:
                cmd += ["-DCMAKE_EXE_LINKER_FLAGS=" + ld, "-DCMAKE_SHARED_LINKER_FLAGS=" + ld]
            rc, out = sh(cmd)
            if rc != 0:
                shutil.rmtree(bd, ignore_errors=True)
                raise RuntimeError("cmake configure failed for %s:\n%s" % (flavor, out[-3000:]))
        # the build runs its own tools (MsgCreator); do not let LeakSanitizer fail them in sanitizer flavors
        benv = {"ASAN_OPTIONS": "detect_leaks=0"} if flavor in ("asan",) else None
        rc, out = sh(["cmake", "--build", bd, "-j", str(NPROC), "--target"] + list(targets), env=benv)
        if rc != 0:
            raise RuntimeError("build of /repo working tree failed (%s):\n%s" % (flavor, out[-6000:]))
        return bd, time.time() - t0


def repo_includes(flavor="hooks"):
    bd = build_dir(flavor)
    return ["-I%s/src" % REPO, "-I%s/src" % bd, "-I%s/src/xalanc/PlatformSupport" % bd,
            "-I%s/src/xalanc/Include" % bd]


def repo_link(flavor="hooks"):
    bd = build_dir(flavor)
    libdir = "%s/src/xalanc" % bd
    return ["-L" + libdir, "-Wl,-rpath," + libdir, "-lxalan-c", "-lxerces-c", "-licuuc", "-licui18n", "-lpthread"]


def build_harness(name, sources, flavor="hooks", extra=(), link_repo=True, sanitize=None):
    """Compile harness/<sources> against the given build of the working tree.
    Rebuilt when any source, any /repo header (by working-tree hash) or the library changed."""
    bd = build_dir(flavor)
    out = os.path.join(CACHE, "harness", flavor, name)
    os.makedirs(os.path.dirname(out), exist_ok=True)
    srcs = [os.path.join(ROOT, "harness", s) for s in sources]
    flags = ["-std=gnu++17", "-O1", "-g", "-D" + GUARD, "-Wno-deprecated-declarations"]
    if sanitize is None:
        sanitize = flavor == "asan"
    if sanitize == "tsan" or flavor == "tsan":
        flags += ["-fsanitize=thread"]
    elif sanitize:
        flags += ["-fsanitize=address,undefined", "-fno-sanitize-recover=undefined", "-fno-omit-frame-pointer"]
    cmd = ["g++"] + flags + list(extra) + repo_includes(flavor) + ["-I" + os.path.join(ROOT, "harness")] + srcs + ["-o", out]
    if link_repo:
        cmd += repo_link(flavor)
    with Lock("harness-" + flavor + "-" + name):
        # always recompile: headers of /repo may have changed; compile is a few seconds
        rc, o = sh(cmd)
        if rc != 0:
            raise RuntimeError("harness %s failed to compile:\n%s" % (name, o[-6000:]))
    return out


# ----------------------------------------------------------------------------------------
# Lean

def lake_build(targets):
    with Lock("lake"):
        os.makedirs(GEN, exist_ok=True)
        rc, out = sh(["lake", "build"] + list(targets), cwd=LEAN, timeout=3600)
    return rc, out


def lean_sources():
    res = []
    for base, _, files in os.walk(LEAN):
        if ".lake" in base:
            continue
        for f in files:
            if f.endswith(".lean"):
                res.append(os.path.join(base, f))
    return sorted(res)


def strip_comments(src):
    # remove /- ... -/ (nested) and -- ... comments; keep string literals untouched enough for the audit
    out = []
    i, n, depth = 0, len(src), 0
    while i < n:
        if src.startswith("/-", i):
            depth += 1
            i += 2
        elif depth and src.startswith("-/", i):
            depth -= 1
            i += 2
        elif depth:
            if src[i] == "\n":
                out.append("\n")
            i += 1
        elif src.startswith("--", i):
            while i < n and src[i] != "\n":
                i += 1
        else:
            out.append(src[i])
            i += 1
    return "".join(out)


def audit_sources():
    """grep for sorry/admit/axiom/native_decide/... outside comments. Returns list of hits."""
    hits = []
    for p in lean_sources():
        txt = strip_comments(open(p, encoding="utf-8").read())
        for ln, line in enumerate(txt.split("\n"), 1):
            if FORBIDDEN.search(line):
                hits.append("%s:%d: %s" % (os.path.relpath(p, ROOT), ln, line.strip()[:120]))
    return hits


def print_axioms(module, theorems):
    """Returns {theorem: set(axioms)} or {theorem: None} if the name does not exist."""
    os.makedirs(os.path.join(CACHE, "audit"), exist_ok=True)
    f = os.path.join(CACHE, "audit", module.replace(".", "_") + "_%d.lean" % os.getpid())
    with open(f, "w") as h:
        h.write("import %s\n" % module)
        for t in theorems:
            h.write("#print axioms %s\n" % t)
    rc, out = sh(["lake", "env", "lean", f], cwd=LEAN, timeout=1800)
    os.unlink(f)
    res = {t: None for t in theorems}
    # messages: "'name' depends on axioms: [a, b]" or "'name' does not depend on any axioms"
    flat = re.sub(r"\s+", " ", out)
    for t in theorems:
        m = re.search(r"'%s' depends on axioms: \[([^\]]*)\]" % re.escape(t), flat)
        if m:
            res[t] = set(x.strip() for x in m.group(1).split(",") if x.strip())
        elif re.search(r"'%s' does not depend on any axioms" % re.escape(t), flat):
            res[t] = set()
    return res, out


# ----------------------------------------------------------------------------------------
# known findings

def load_findings():
    p = os.path.join(ROOT, "known_findings.json")
    if not os.path.exists(p):
        return {"known": [], "fixed": []}
    return json.load(open(p))


# ----------------------------------------------------------------------------------------

class Ctx:
    def __init__(self, pid, tier, seed, level="proof"):
        self.pid = pid
        self.tier = tier
        self.seed = seed
        self.level = level
        self.t0 = time.time()
        self.obligations = []   # dicts: name, kind, ok, detail
        self.failures = []      # concrete failing cases (dict with at least 'key','what','input')
        self.known_hits = {}    # finding id -> count
        self.evaluations = 0
        self.nontrivial = set()
        self.samples = []
        self.hist = {}
        self.trusted = list(TRUSTED_BASE_COMMON)
        self.assumptions = []
        self.rule = ""
        self.extra = {}
        self.exhaustive = False
        self.checker_cmds = []
        self.findings = [f for f in load_findings().get("known", []) if f.get("property") == pid]
        self.thorough = tier == "thorough"

    # ---- obligations
    def oblige(self, name, kind, ok, detail=""):
        self.obligations.append({"name": name, "kind": kind, "ok": bool(ok), "detail": detail[-2000:] if detail else ""})
        if not ok:
            log("  [obligation FAILED] %s (%s) %s" % (name, kind, detail[-1500:] if detail else ""))
        return ok

    def build(self, flavor="hooks", targets=("xalan-c", "Xalan")):
        try:
            bd, dt = build_repo(flavor, targets)
            log("  built /repo working tree (%s) in %.1fs" % (flavor, dt))
            return bd
        except RuntimeError as e:
            # A tree that does not compile is not a property violation we can decide; report and stop.
            log(str(e))
            log("ERROR: /repo working tree does not build; nothing can be checked")
            sys.exit(2)

    def translate(self, name, args=()):
        """Run translate/<name>.py (writes Generated/*.lean). Failure = obligation not discharged."""
        os.makedirs(GEN, exist_ok=True)
        with Lock("lake"):
            rc, out = sh([sys.executable, os.path.join(ROOT, "translate", name + ".py")] + list(args), cwd=ROOT)
        self.oblige("translate:" + name, "translator", rc == 0, out)
        self.checker_cmds.append("python3 translate/%s.py" % name)
        return rc == 0, out

    def lean(self, module, theorems, extra_targets=()):
        """Build module (+ driver targets); every theorem named must exist with allowed axioms."""
        rc, out = lake_build([module] + list(extra_targets))
        self.checker_cmds.append("cd lean && lake build " + " ".join([module] + list(extra_targets)))
        self.lean_log = out
        if rc != 0:
            # which theorems are broken?  Find error locations.
            errs = re.findall(r"error: ([^\n]*)", out)
            self.oblige("lake build " + module, "build", False, "\n".join(errs[:20]) or out[-1500:])
        else:
            self.oblige("lake build " + module, "build", True)
        hits = audit_sources()
        self.oblige("source audit (no sorry/admit/axiom/native_decide/bv_decide/implemented_by/unsafe/maxHeartbeats 0)",
                    "audit", not hits, "\n".join(hits[:20]))
        if rc == 0:
            ax, raw = print_axioms(module, theorems)
            for t in theorems:
                a = ax[t]
                if a is None:
                    self.oblige("theorem " + t, "theorem", False, "not found / does not elaborate")
                else:
                    bad = a - ALLOWED_AXIOMS
                    self.oblige("theorem " + t, "theorem", not bad,
                                "axioms: " + ", ".join(sorted(a)) if a else "axioms: none")
            self.extra.setdefault("axioms", {}).update({t: sorted(ax[t]) if ax[t] is not None else None for t in theorems})
        else:
            for t in theorems:
                self.oblige("theorem " + t, "theorem", False, "library does not build")
        if self.thorough and rc == 0:
            r2, o2 = sh(["lake", "env", "leanchecker", module], cwd=LEAN, timeout=3600)
            self.oblige("leanchecker " + module, "recheck", r2 == 0, o2[-1500:])
            self.checker_cmds.append("cd lean && lake env leanchecker " + module)
        return rc == 0

    def exe(self, name):
        """Path of a built driver executable (xm_cNN)."""
        p = os.path.join(LEAN, ".lake", "build", "bin", name)
        if not os.path.exists(p):
            rc, out = lake_build([name])
            if rc != 0:
                self.oblige("lake build " + name, "build", False, out[-1500:])
                return None
        return p

    # ---- cases
    def case(self, nontrivial_key=None, sample=None, cls=None):
        self.evaluations += 1
        if nontrivial_key is not None:
            self.nontrivial.add(nontrivial_key if isinstance(nontrivial_key, (str, int, tuple)) else json.dumps(nontrivial_key, sort_keys=True))
        if sample is not None and len(self.samples) < 8:
            self.samples.append(sample)
        if cls is not None:
            self.hist[cls] = self.hist.get(cls, 0) + 1

    def fail(self, key, what, inp, **more):
        """A concrete input on which the implementation violates the property
        (or disagrees with the model).  `key` is matched against known_findings.json."""
        for f in self.findings:
            pat = f.get("match")
            if pat and re.search(pat, key):
                self.known_hits.setdefault(f["id"], {"finding": f, "count": 0, "example": key})
                self.known_hits[f["id"]]["count"] += 1
                return "known"
        d = {"key": key, "what": what, "input": inp}
        d.update(more)
        self.failures.append(d)
        return "new"

    # ---- finish
    def finish(self):
        os.makedirs(EVID, exist_ok=True)
        wall = time.time() - self.t0
        n_obl = len(self.obligations)
        n_ok = sum(1 for o in self.obligations if o["ok"])
        broken = [o for o in self.obligations if not o["ok"]]
        for fid, h in sorted(self.known_hits.items()):
            log("KNOWN-FINDING: property=%s %s [%s; %d case(s) this run, e.g. %s]" % (
                self.pid, h["finding"]["what"], fid, h["count"], h["example"][:160]))
        violation = None
        if self.failures:
            violation = ("concrete", self.failures[0])
        elif broken:
            violation = ("noinput", broken)
        cov = {
            "obligations": n_obl,
            "discharged": n_ok,
            "checker_cmd": " && ".join(dict.fromkeys(self.checker_cmds)) or "cd lean && lake build",
            "trusted_base": self.trusted,
            "evaluations": self.evaluations,
            "distinct_nontrivial": len(self.nontrivial),
            "rule": self.rule,
            "samples": self.samples[:8] if self.samples else [o["name"] for o in self.obligations[:8]],
            "exhaustive": self.exhaustive,
            "input_distribution": self.hist,
            "obligation_list": [{"name": o["name"], "kind": o["kind"], "ok": o["ok"]} for o in self.obligations],
            "known_findings_hit": {k: v["count"] for k, v in self.known_hits.items()},
        }
        cov.update(self.extra)
        ev = {
            "property_id": self.pid, "tier": self.tier, "seed": self.seed, "level": self.level,
            "coverage": cov, "assumptions": self.assumptions, "wall_s": round(wall, 2),
            "violations": len(self.failures) + (1 if (broken and not self.failures) else 0),
        }
        with open(os.path.join(EVID, self.pid + ".json"), "w") as h:
            json.dump(ev, h, indent=1, default=str)
        log("%s %s: obligations %d/%d, cases %d (%d distinct non-trivial), known-finding hits %d, %.1fs" % (
            self.pid, self.tier, n_ok, n_obl, self.evaluations, len(self.nontrivial),
            sum(v["count"] for v in self.known_hits.values()), wall))
        if violation is None:
            return 0
        os.makedirs(REPLAYS, exist_ok=True)
        rp = os.path.join(REPLAYS, "%s_%s_%d.json" % (self.pid, self.tier, self.seed))
        if violation[0] == "concrete":
            with open(rp, "w") as h:
                json.dump({"property": self.pid, "kind": "failing-input", "seed": self.seed, "tier": self.tier,
                           "first": self.failures[0], "all": self.failures[:50],
                           "broken_obligations": broken}, h, indent=1, default=str)
            log("  failing input: %s -- %s" % (self.failures[0]["key"][:300], self.failures[0]["what"][:600]))
            log("VIOLATION property=%s replay=%s" % (self.pid, rp))
        else:
            with open(rp, "w") as h:
                json.dump({"property": self.pid, "kind": "obligation-no-longer-checks", "seed": self.seed,
                           "tier": self.tier, "broken_obligations": broken}, h, indent=1, default=str)
            for o in broken[:10]:
                log("  no longer checks: %s (%s)" % (o["name"], o["kind"]))
            log("VIOLATION property=%s replay=%s no-failing-input-found" % (self.pid, rp))
        return 1


def run_pair(impl_cmd, model_cmd, request_path, timeout=1800, impl_env=None):
    """Feed the same request file to the implementation harness and to the Lean driver.
    Returns (impl_lines, model_lines, impl_rc, model_rc, impl_stderr_tail)."""
    with open(request_path, "rb") as f:
        data = f.read()
    e = dict(os.environ)
    if impl_env:
        e.update(impl_env)
    p1 = subprocess.Popen(impl_cmd, stdin=subprocess.PIPE, stdout=subprocess.PIPE, stderr=subprocess.PIPE, env=e)
    p2 = subprocess.Popen(model_cmd, stdin=subprocess.PIPE, stdout=subprocess.PIPE, stderr=subprocess.PIPE)
    import threading
    res = {}

    def go(tag, p):
        try:
            o, er = p.communicate(data, timeout=timeout)
        except subprocess.TimeoutExpired:
            p.kill()
            o, er = p.communicate()
            er = (er or b"") + b"\nTIMEOUT"
        res[tag] = (o.decode("utf-8", "replace").split("\n"), p.returncode, er.decode("utf-8", "replace")[-3000:])
    t1 = threading.Thread(target=go, args=("i", p1))
    t2 = threading.Thread(target=go, args=("m", p2))
    t1.start(); t2.start(); t1.join(); t2.join()
    il, irc, ierr = res["i"]
    ml, mrc, merr = res["m"]
    if il and il[-1] == "":
        il.pop()
    if ml and ml[-1] == "":
        ml.pop()
    return il, ml, irc, mrc, ierr, merr


class Rng:
    """Small deterministic PRNG (splitmix64) so that python-version differences never change a replay."""
    def __init__(self, seed):
        # mix the seed so that Rng(s) and Rng(s+1) are unrelated streams (not one draw apart)
        z = (seed + 0x632BE59BD9B4E019) & 0xFFFFFFFFFFFFFFFF
        z = ((z ^ (z >> 32)) * 0xD6E8FEB86659FD93) & 0xFFFFFFFFFFFFFFFF
        z = ((z ^ (z >> 29)) * 0xFF51AFD7ED558CCD) & 0xFFFFFFFFFFFFFFFF
        self.s = z ^ (z >> 32)

    def next(self):
        self.s = (self.s + 0x9E3779B97F4A7C15) & 0xFFFFFFFFFFFFFFFF
        z = self.s
        z = ((z ^ (z >> 30)) * 0xBF58476D1CE4E5B9) & 0xFFFFFFFFFFFFFFFF
        z = ((z ^ (z >> 27)) * 0x94D049BB133111EB) & 0xFFFFFFFFFFFFFFFF
        return z ^ (z >> 31)

    def below(self, n):
        return self.next() % n if n > 0 else 0

    def range(self, a, b):
        return a + self.below(b - a + 1)

    def choice(self, xs):
        return xs[self.below(len(xs))]

    def chance(self, num, den):
        return self.below(den) < num

    def shuffle(self, xs):
        xs = list(xs)
        for i in range(len(xs) - 1, 0, -1):
            j = self.below(i + 1)
            xs[i], xs[j] = xs[j], xs[i]
        return xs

    def weighted(self, pairs):
        tot = sum(w for _, w in pairs)
        r = self.below(tot)
        for x, w in pairs:
            if r < w:
                return x
            r -= w
        return pairs[-1][0]
