"""Regenerate MANIFEST.json from the check modules (checks/cNN.py constants) — run by hand after
adding or changing a check:  python3 vlib/manifest.py"""
import importlib, json, os, sys
ROOT = os.path.dirname(os.path.dirname(os.path.abspath(__file__)))
sys.path.insert(0, ROOT)

NOT_YET = "check not built yet in this revision (work in progress; see DESIGN.md section 5 for the planned Lean model and tie)"

def main():
    checks, na = [], []
    for i in range(1, 21):
        pid = "C%02d" % i
        try:
            m = importlib.import_module("checks." + pid.lower())
        except ModuleNotFoundError:
            m = None
        if m is not None and getattr(m, "CLAIMED", False):
            checks.append({
                "property_id": pid,
                "quick_cmd": "./check %s --tier quick" % pid,
                "thorough_cmd": "./check %s --tier thorough" % pid,
                "evidence_file": "/verif/evidence/%s.json" % pid,
                "replay_cmd_template": "./check %s --replay {path}" % pid,
                "engine": "lean4+correspondence",
                "level_claimed": {"category": m.LEVEL, "text": m.LEVEL_TEXT, "design_ref": getattr(m, "DESIGN_REF", "DESIGN.md section 5")},
                "level_note": m.LEVEL_NOTE,
                "technique": m.TECHNIQUE,
            })
        else:
            na.append({"property_id": pid, "reason": getattr(m, "NA_REASON", NOT_YET) if m else NOT_YET})
    hooks_commits = []
    hp = os.path.join(ROOT, "hooks_commits.txt")
    if os.path.exists(hp):
        hooks_commits = [l.split()[0] for l in open(hp) if l.strip() and not l.startswith("#")]
    man = {
        "version": 1,
        "setup_cmd": "./check --setup",
        "hooks": {
            "guard": "XALAN_C_VERIF_HOOKS",
            "enable": "cmake -S /repo -B /verif/.cache/build-hooks -G Ninja -DCMAKE_BUILD_TYPE=RelWithDebInfo -DCMAKE_CXX_FLAGS='-Wno-error -DXALAN_C_VERIF_HOOKS' (done by every check, incrementally)",
            "baseline_off_cmd": "./check --baseline-off",
            "source_commits": hooks_commits,
            "add_only": True,
        },
        "engines": [{
            "name": "lean4+correspondence",
            "path": "/verif/lean (Lean 4.33 library XalanModel, drivers xm_cNN), /verif/translate, /verif/harness, /verif/checks",
            "serves_properties": [c["property_id"] for c in checks],
            "kind_free_text": "Lean 4 machine-checked proofs over hand-written and regenerated models of the code, tied to /repo's working tree on every run by translators (tables/switches regenerated from source) and by correspondence harnesses that run the real code and the compiled Lean model on the same inputs",
        }],
        "checks": checks,
        "not_applicable": na,
        "notes": "See DESIGN.md. ./check <id> rebuilds /repo's working tree (incremental cmake/ninja in .cache/), regenerates Generated/*.lean, runs lake build + axiom audit, then the correspondence run; known_findings.json lists recorded genuine defects.",
    }
    json.dump(man, open(os.path.join(ROOT, "MANIFEST.json"), "w"), indent=1)
    print("claimed:", [c["property_id"] for c in checks])

if __name__ == "__main__":
    main()
