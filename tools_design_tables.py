#!/usr/bin/env python3
"""integrator tool: regenerate the generated tables of DESIGN.md (between the BEGIN/END GENERATED markers)
from known_findings.json, seeded/*/meta.json, checks/cNN.py (THEOREMS) and design/CNN.md."""
import glob, importlib, json, os, re, sys
ROOT = os.path.dirname(os.path.abspath(__file__))
sys.path.insert(0, ROOT)

def esc(s):
    return str(s).replace("|", "\\|").replace("\n", " ")

def main():
    kf = json.load(open(os.path.join(ROOT, "known_findings.json")))
    out = []
    out.append("### 10.1 Checks as built\n")
    out.append("| Prop | theorems audited (quick) | translators | harnesses | per-property notes |")
    out.append("|---|---|---|---|---|")
    for i in range(1, 21):
        pid = "C%02d" % i
        try:
            m = importlib.import_module("checks." + pid.lower())
        except Exception as e:  # noqa
            out.append("| %s | (module missing) | | | |" % pid)
            continue
        th = getattr(m, "THEOREMS", [])
        tr = sorted(os.path.basename(p) for p in glob.glob(os.path.join(ROOT, "translate", pid.lower() + "_*.py")))
        ha = sorted(os.path.basename(p) for p in glob.glob(os.path.join(ROOT, "harness", pid.lower() + "_*.cpp")))
        out.append("| %s | %d | %s | %s | design/%s.md |" % (pid, len(th), ", ".join(tr) or "—", ", ".join(ha) or "—", pid))
    out.append("")
    out.append("### 10.2 Genuine defects repaired (`fix:` commits in /repo)\n")
    out.append("| Prop | commit | what failed |")
    out.append("|---|---|---|")
    for f in kf["fixed"]:
        out.append("| %s | %s | %s |" % (f["property"], f["commit"], esc(f["what"])))
    out.append("")
    out.append("### 10.3 Genuine defects recorded, not repaired (`known_findings.json`)\n")
    out.append("| id | what fails | where |")
    out.append("|---|---|---|")
    for k in sorted(kf["known"], key=lambda k: k["id"]):
        out.append("| %s | %s | %s |" % (k["id"], esc(k["what"])[:420], esc(k.get("where", ""))[:160]))
    out.append("")
    out.append("### 10.4 Seeded changes (independent sub-agents) and which check catches them\n")
    metas = []
    for d in sorted(glob.glob(os.path.join(ROOT, "seeded", "*"))):
        try:
            metas.append(json.load(open(os.path.join(d, "meta.json"))))
        except Exception:
            pass
    tot = len(metas)
    caught = [m for m in metas if m.get("confirmed_by_integrator", {}).get("check_quick_result") == "caught"]
    late = [m for m in caught if m.get("history")]
    out.append("%d seeded changes are kept (each confirmed in a scratch worktree: builds, 21/21 tests pass, the demonstration fails with "
               "the patch and passes without). %d are caught by the quick check of their property as it stands now; %d of those were "
               "missed or only partly caught when first delivered and are caught since the check was strengthened (column *history*; the "
               "builder was told the mechanism, never the patch or the demonstration); %d are not caught.\n"
               % (tot, len(caught), len(late), tot - len(caught)))
    out.append("| seeded | property | what it breaks (needs) | result of `./check <prop> --tier quick` on the patched tree |")
    out.append("|---|---|---|---|")
    for d in sorted(glob.glob(os.path.join(ROOT, "seeded", "*"))):
        mp = os.path.join(d, "meta.json")
        if not os.path.exists(mp):
            continue
        try:
            m = json.load(open(mp))
        except Exception:
            continue
        c = m.get("confirmed_by_integrator", {})
        res = c.get("check_quick_result", "?")
        line = c.get("check_line", "")
        if "no-failing-input-found" in line:
            res += " (obligation broken, no-failing-input-found)"
        hist = m.get("history", "")
        out.append("| %s | %s | %s | %s%s |" % (os.path.basename(d), m.get("property", ""), esc(m.get("title", ""))[:200], res,
                                            (" — " + esc(hist)) if hist else ""))
    out.append("")
    txt = "\n".join(out)
    p = os.path.join(ROOT, "DESIGN.md")
    s = open(p).read()
    b, e = "<!-- BEGIN GENERATED -->", "<!-- END GENERATED -->"
    if b in s and e in s:
        s = s[:s.index(b) + len(b)] + "\n" + txt + "\n" + s[s.index(e):]
    else:
        s += "\n" + b + "\n" + txt + "\n" + e + "\n"
    open(p, "w").write(s)
    print("DESIGN.md tables regenerated")

if __name__ == "__main__":
    main()
