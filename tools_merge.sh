#!/bin/bash
# integrator tool: merge one builder's files from /work/CNN/verif into /verif (never run by checks)
set -e
ID=$1; idl=$(echo $ID | tr A-Z a-z); SRC=/work/$ID/verif; DST=/verif
cd $SRC
files=$( (find lean/XalanModel -name '*.lean' -not -path '*/Generated/*'; ls lean/Driver/*.lean; ls checks/${idl}_*.py translate/${idl}_* translate/_${idl}_* harness/${idl}_* checks/${idl}.py gen/${idl}_* design/$ID.md proposed/$ID-* 2>/dev/null; find gen/corpus/$idl -type f 2>/dev/null) | sort -u)
for f in $files; do
  if [ -e "$DST/$f" ]; then
    if ! cmp -s "$f" "$DST/$f"; then
      case "$f" in
        lean/Driver/Util.lean) echo "SKIP(shared, differs) $f";;
        lean/Driver/$ID.lean|lean/Driver/${ID}_*.lean|checks/$idl.py|checks/${idl}_*.py|lean/XalanModel/Props/$ID.lean|harness/${idl}_*|translate/${idl}_*|translate/_${idl}_*|gen/${idl}_*|gen/corpus/$idl/*|design/$ID.md|proposed/$ID-*|lean/XalanModel/$ID/*) mkdir -p $(dirname $DST/$f); cp "$f" "$DST/$f"; echo "UPDATE $f";;
        *) if [ "$ID" = "C20" ] && [[ "$f" == lean/XalanModel/Containers/* ]]; then cp "$f" "$DST/$f"; echo "UPDATE $f"; else echo "CONFLICT $f (exists in /verif and differs)"; fi;;
      esac
    fi
  else
    mkdir -p $(dirname $DST/$f); cp "$f" "$DST/$f"; echo "NEW $f"
  fi
done
echo "--- known findings in copy not in /verif:"
python3 - <<PY
import json
a=json.load(open('$SRC/known_findings.json')); b=json.load(open('$DST/known_findings.json'))
ids={x['id'] for x in b['known']}
for x in a['known']:
    if x['id'] not in ids: print(json.dumps(x))
PY
