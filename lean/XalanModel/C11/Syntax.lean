/-!
# C11 — vocabulary for the six `XPath::executeMore` switches (XPath.cpp)

Hand-written, core Lean only.  `translate/c11_dispatch.py` regenerates
`XalanModel/Generated/C11_Dispatch.lean` in terms of these types on every run:
for every entry point and op code the *normalised case body* (`Body`), and for every
EP-specialised overload the switches call (`Union`, `literal`, `numberlit`, `group`,
`locationPath`, the character-event overloads of the arithmetic helpers) the normalised
last step (`CBody`).
-/
namespace XalanModel.C11

/-- The six public ways to ask for the value of an expression
(`XPath::execute` overloads, XPath.hpp:199-300; `executeMore` XPath.cpp:322,512,693,874,1075,1281). -/
inductive EP where
  | obj    -- const XObjectPtr execute(context, resolver, ec)
  | bool   -- void execute(..., bool& result)
  | num    -- void execute(..., double& result)
  | str    -- void execute(..., XalanDOMString& result)   "The result is appended to the supplied string."
  | chars  -- void execute(..., FormatterListener&, MemberFunctionPtr)
  | nodes  -- const XObjectPtr execute(..., MutableNodeRefList& result)
deriving DecidableEq, Repr

def EP.all : List EP := [.obj, .bool, .num, .str, .chars, .nodes]

def EP.name : EP → String
  | .obj => "obj" | .bool => "bool" | .num => "num" | .str => "str" | .chars => "chars" | .nodes => "nodes"

/-- C++ result type of a helper -/
inductive Ty where
  | b   -- bool
  | n   -- double
  | s   -- const XalanDOMString&
  | o   -- const XObjectPtr
deriving DecidableEq, Repr

/-- Helpers that compute a *core value* independent of the requested result type.
A digit suffix is the overload without (0) / with (1) a sub-expression. -/
inductive Helper where
  | Or | And | notequals | equals | lte | lt | gte | gt
  | plus | minus | mult | div | mod | neg
  | variable | runExtFunction | runFunction
  | functionPosition | functionLast | functionCount | functionNot | functionBoolean
  | functionName0 | functionName1 | functionLocalName0 | functionLocalName1
  | functionFloor | functionCeiling | functionRound
  | functionNumber0 | functionNumber1
  | functionStringLength0 | functionStringLength1 | functionSum
  | numberlitD          -- `double numberlit(opPos)`
  | constTrue | constFalse   -- the literals `true` / `false` written in the case body
deriving DecidableEq, Repr

def Helper.ty : Helper → Ty
  | .Or | .And | .notequals | .equals | .lte | .lt | .gte | .gt => .b
  | .functionNot | .functionBoolean | .constTrue | .constFalse => .b
  | .plus | .minus | .mult | .div | .mod | .neg => .n
  | .functionPosition | .functionLast | .functionCount => .n
  | .functionFloor | .functionCeiling | .functionRound => .n
  | .functionNumber0 | .functionNumber1 => .n
  | .functionStringLength0 | .functionStringLength1 | .functionSum | .numberlitD => .n
  | .functionName0 | .functionName1 | .functionLocalName0 | .functionLocalName1 => .s
  | .variable | .runExtFunction | .runFunction => .o

/-- Overloaded members that have one body per entry point and receive the out-parameter. -/
inductive Callee where
  | Union | literal | group | numberlit | locationPath
  | plus | minus | mult | div | mod | neg     -- only the FormatterListener overloads exist
deriving DecidableEq, Repr

/-- How the helper's value is turned into the entry point's result in the case body. -/
inductive Wrap where
  | ret      -- `return H(…)` / `result = H(…)` / `theXObject = H(…)`   (C++ implicit conversions apply)
  | create   -- `factory.createBoolean/createNumber/createStringReference(H(…))`
  | conv     -- `XObject::boolean(H(…))`, `XObject::number(H(…)[, mm])`, `XObject::string(H(…), result | fl, fn)`
  | viaObj   -- `H(…)->boolean(ec)`, `->num(ec)`, `->str(ec, result)`, `->str(ec, fl, fn)`
  | append   -- `result.append(H(…))`
  | assign   -- `result = H(…)` on a string result (overwrites what the caller supplied)
  | toChars  -- `stringToCharacters(H(…), fl, fn)`
deriving DecidableEq, Repr

/-- Normalised body of one `case` of one switch. -/
inductive Body where
  | missing                          -- no case label: `default: unknownOpCodeError`
  | notNodeSet                       -- `notNodeSetError(context, executionContext)`
  | xpath                            -- `executeMore(context, opPos + 2, …)` (eOP_XPATH in the node-list switch)
  | help (w : Wrap) (h : Helper)
  | call (c : Callee)                -- `C(context, opPos, ec[, out-parameter])`, overload of the same entry point
  | other (n : Nat)                  -- statement the translator does not recognise (n = source line)
deriving DecidableEq, Repr

/-- Normalised last step of an EP-specialised overload. -/
inductive CBody where
  | none                             -- no such overload
  | nsCreate                         -- node list computed, `createNodeSet(list)`
  | nsConv                           -- node list computed, `XObject::boolean/number/string(list…)`
  | nsSelf                           -- the node-list overload itself
  | tokCreate                        -- `createString(token)` / `createNumber(token)` (either m_inStylesheet branch)
  | tokBoolean                       -- `theLiteral->boolean()`
  | tokNum                           -- `theLiteral->num()`
  | tokStrAssign                     -- `theString = theLiteral->str()`
  | tokStrAppend                     -- `theString.append(theLiteral->str())`
  | tokStrChars                      -- `theLiteral->str(formatterListener, function)`
  | recurse                          -- `executeMore(context, opPos + 2, ec, <same out-parameter>)`
  | groupNodes                       -- group(…, MutableNodeRefList&): recurse, then add a returned object's nodes
  | arithConv (h : Helper)           -- `const double r = H(context, opPos, ec); XObject::string(r, fl, fn);`
  | other (n : Nat)
deriving DecidableEq, Repr

/-- Normalised body of an `XToken` member (XToken.hpp inline members, XToken.cpp). -/
inductive TExpr where
  | boolOfStr                        -- `XObject::boolean(*m_stringValue)`
  | boolOfNum                        -- `XObject::boolean(m_numberValue)`
  | ite (a b : TExpr)                -- `m_isString == true ? a : b`
  | numField                         -- `m_numberValue`
  | strField                         -- `*m_stringValue`
  | charsOfStr                       -- `string(*m_stringValue, formatterListener, function)`
  | appendStr                        -- `theBuffer.append(*m_stringValue)`
  | setFields (isString : Bool)      -- `m_stringValue = &theString; m_numberValue = theNumber; m_isString = …`
  | other (n : Nat)
deriving DecidableEq, Repr

inductive TMethod where
  | booleanInline | numInline                    -- `boolean() const`, `num() const` (what XPath::literal/numberlit call)
  | booleanV | numV | strV | str0                -- virtual `boolean(ec)`, `num(ec)`, `str(ec)`, `str()`
  | strCharsV | strChars                         -- `str(ec, listener, fn)`, `str(listener, fn)`
  | strBufV | strBuf                             -- `str(ec, buffer)`, `str(buffer)`
  | setString | setNumber                        -- `set(string, double)`, `set(double, string)`
deriving DecidableEq, Repr

def TMethod.all : List TMethod :=
  [.booleanInline, .numInline, .booleanV, .numV, .strV, .str0, .strCharsV, .strChars, .strBufV, .strBuf, .setString, .setNumber]

end XalanModel.C11
