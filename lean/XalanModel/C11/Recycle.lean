/-!
# C11 — recycled XObjects answer like fresh ones

`XObjectFactoryDefault` keeps released `XNumber`/`XString`/`XNodeSet` objects in caches and hands them out again
through `set(newValue)`.  These classes memoise conversions in `mutable` members (`XNodeSetBase::m_cachedNumberValue`,
`m_cachedStringValue`, `XStringBase::m_cachedNumberValue`, `XNumber::m_cachedStringValue`).  "Evaluate generally, then
convert" goes through such an object, the specialised entry points mostly do not — so a cached field that survives
`set()` makes the two disagree (the generic path answers with the *previous* value's conversion).

Small state machine: an object = current value + one optional memo per conversion; `ask` = `num()`/`str()`;
`reuse cleared` = `set()` with the list of members it resets (read from the source by `translate/c11_caches.py`).
Core Lean only.
-/
namespace XalanModel.C11.Recycle

structure Obj (V A : Type) where
  value : V
  cache : String → Option A

variable {V A : Type}

def fresh (v : V) : Obj V A := ⟨v, fun _ => none⟩

/-- ask conversion `f`: answer from the memo when there is one, else compute and remember -/
def ask (compute : String → V → A) (o : Obj V A) (f : String) : A × Obj V A :=
  match o.cache f with
  | some a => (a, o)
  | none => (compute f o.value, ⟨o.value, fun g => if g = f then some (compute f o.value) else o.cache g⟩)

/-- the factory hands the object out again: `set(v)`, which resets the members in `cleared` -/
def reuse (cleared : List String) (o : Obj V A) (v : V) : Obj V A :=
  ⟨v, fun f => if cleared.contains f then none else o.cache f⟩

/-- only the class's memo members can hold anything -/
def Supported (fields : List String) (o : Obj V A) : Prop := ∀ f, f ∉ fields → o.cache f = none

def allCleared (fields cleared : List String) : Bool := fields.all (cleared.contains ·)

theorem fresh_supported (fields : List String) (v : V) : Supported fields (fresh v : Obj V A) := fun _ _ => rfl

theorem ask_supported (compute : String → V → A) {fields : List String} {o : Obj V A} {f : String}
    (ho : Supported fields o) (hf : f ∈ fields) : Supported fields (ask compute o f).2 := by
  unfold ask
  cases h : o.cache f with
  | some a => simpa [h] using ho
  | none =>
    intro g hg
    have : g ≠ f := fun e => hg (e ▸ hf)
    simp [this, ho g hg]

theorem reuse_eq_fresh {fields cleared : List String} (h : allCleared fields cleared = true) {o : Obj V A}
    (ho : Supported fields o) (v : V) : reuse cleared o v = fresh v := by
  unfold reuse fresh
  congr
  funext f
  by_cases hf : f ∈ fields
  · have hm : f ∈ cleared := by simpa using List.all_eq_true.mp h f hf
    simp [hm]
  · simp [ho f hf]

/-- a memo member that survives `set()` is observable: remember for `v0`, reuse for `v1`, ask again -/
theorem stale_witness (compute : String → V → A) (cleared : List String) (f : String) (hc : cleared.contains f = false)
    (v0 v1 : V) : (ask compute (reuse cleared (ask compute (fresh v0) f).2 v1) f).1 = compute f v0 := by
  have hc' : f ∉ cleared := by simpa using hc
  simp [ask, fresh, reuse, hc']

theorem fresh_answer (compute : String → V → A) (f : String) (v : V) : (ask compute (fresh v) f).1 = compute f v := by
  simp [ask, fresh]

/-- **A recycled object answers like a fresh one iff `set()` clears every memo member** (each conversion being able to
tell at least two values apart). -/
theorem reused_like_fresh_iff (compute : String → V → A) (fields cleared : List String)
    (hdist : ∀ f ∈ fields, ∃ v0 v1, compute f v0 ≠ compute f v1) :
    (∀ (o : Obj V A), Supported fields o → ∀ v f, f ∈ fields →
        (ask compute (reuse cleared o v) f).1 = (ask compute (fresh v) f).1)
      ↔ allCleared fields cleared = true := by
  constructor
  · intro h
    unfold allCleared
    rw [List.all_eq_true]
    intro f hf
    cases hc : cleared.contains f with
    | true => rfl
    | false =>
      obtain ⟨v0, v1, hne⟩ := hdist f hf
      have h1 := h (ask compute (fresh v0) f).2 (ask_supported compute (fresh_supported fields v0) hf) v1 f hf
      rw [stale_witness compute cleared f hc, fresh_answer] at h1
      exact absurd h1 hne
  · intro h o ho v f _
    rw [reuse_eq_fresh h ho]

end XalanModel.C11.Recycle
