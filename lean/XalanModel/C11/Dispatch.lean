import XalanModel.C11.Syntax
import XalanModel.Generated.C11_Dispatch
/-!
# C11 — meaning of the six `executeMore` switches

* `Val`, `stdConv`: the XPath value model and the standard conversions boolean()/number()/string()
  (XObject.hpp:371-724 static conversions, XNodeSetBase/XString/XNumber/XBoolean virtuals).
* `Expr`: one constructor family per op code the generic switch handles (XPath.cpp:327-504).
* `helperB/N/S/O`: the helpers, transcribed (which entry point each uses for its operands:
  XPath.cpp:1692-2077, 2645-2830, XPath.hpp:2060-2240).
* `semBody`/`semCallee`: meaning of the normalised case bodies the translator emits.
* `evalAs T C`: the interpreter *driven by the table* `T` (six switches) and `C` (EP overloads).
* `eval`: the specification — a value per expression, as XPath 1.0 §3-4 defines it.

Primitive operations (IEEE arithmetic, number<->string, XObject comparison, node string-values,
document-order insertion) are parameters (`Prims`): the property is about *which* conversion is
applied *where*, not about what the conversions compute (that is C18/C02/C12).
Core Lean only.
-/
namespace XalanModel.C11
open XalanModel.Generated.C11 (Op)

/-- strings: UTF-16 code units -/
abbrev Str := List Nat

/-- XObject value (boolean / number / string / node-set / result tree fragment, the latter by its string-value) -/
inductive Val (N : Type) where
  | bool (b : Bool)
  | num (x : N)
  | str (s : Str)
  | nodes (l : List Nat)       -- node ids, in the order the implementation holds them
  | rtf (s : Str)              -- XResultTreeFrag: boolean() is true, number()/string() go through its string-value
deriving Repr

inductive CmpOp where | ne | eq | le | lt | ge | gt
deriving DecidableEq, Repr

/-- evaluation context of one `execute` call -/
structure Ctx where
  node : Nat      -- context node
  pos  : Nat      -- executionContext.getContextNodeListPosition(context)
  last : Nat      -- executionContext.getContextNodeListLength()
deriving Repr

/-- primitives the dispatch layer calls (modelled as parameters, not verified here) -/
structure Prims (N : Type) where
  n2s : N → Str              -- NumberToDOMString / NumberToCharacters
  s2n : Str → N              -- DoubleSupport::toDouble
  b2n : Bool → N             -- XObject::number(bool): 1.0 / 0.0 (also the C++ implicit bool→double)
  n2b : N → Bool             -- XObject::boolean(double): !NaN && != 0
  cxxN2B : N → Bool          -- C++ implicit double→bool (NaN ↦ true): what `result = plus(…)` would do
  ofNat : Nat → N
  add : N → N → N
  sub : N → N → N
  mul : N → N → N
  div : N → N → N
  mod : N → N → N
  neg : N → N
  floor : N → N
  ceil : N → N
  round : N → N
  cmp : CmpOp → Val N → Val N → Bool        -- XObject::equals/notEquals/lessThan/…
  nsAdd : List Nat → List Nat → List Nat    -- result.addNodesInDocOrder(x)
  nodeStr : Nat → Str                       -- DOMServices::getNodeData
  nodeName : Nat → Str                      -- DOMServices::getNameOfNode
  nodeLName : Nat → Str                     -- XPath::functionLocalName(XalanNode*)

/-- "true"/"false" (XObject::s_trueString / s_falseString) -/
def b2s (b : Bool) : Str := if b then [116, 114, 117, 101] else [102, 97, 108, 115, 101]

section
variable {N : Type} (P : Prims N)

/-! ## the standard conversions -/
def toBool : Val N → Bool
  | .bool b => b
  | .num x => P.n2b x
  | .str s => !s.isEmpty
  | .nodes l => !l.isEmpty
  | .rtf _ => true

def nodesStr : List Nat → Str
  | [] => []
  | n :: _ => P.nodeStr n

def toStr : Val N → Str
  | .bool b => b2s b
  | .num x => P.n2s x
  | .str s => s
  | .nodes l => nodesStr P l
  | .rtf s => s

def toNum : Val N → N
  | .bool b => P.b2n b
  | .num x => x
  | .str s => P.s2n s
  | .nodes l => P.s2n (nodesStr P l)
  | .rtf s => P.s2n s

/-- what an entry point delivers -/
inductive Res (N : Type) where
  | obj (v : Val N)
  | bool (b : Bool)
  | num (x : N)
  | str (s : Str)                         -- the caller's string after the call
  | chars (s : Str)                       -- concatenation of the character events
  | nodes (viaObj : Bool) (l : List Nat)  -- viaObj: returned as an XObject instead of in the out-list
  | err                                   -- an XPath error was raised (exception)
deriving Repr

/-- forget whether a node list came back in the out-parameter or as an object -/
def Res.norm : Res N → Res N
  | .nodes _ l => .nodes false l
  | r => r

/-- evaluate generally, then convert: the right-hand side of the property.
`buf` is what the caller's string held before the call (only `str` looks at it). -/
def stdConv (ep : EP) (buf : Str) (v : Val N) : Res N :=
  match ep with
  | .obj => .obj v
  | .bool => .bool (toBool P v)
  | .num => .num (toNum P v)
  | .str => .str (buf ++ toStr P v)
  | .chars => .chars (toStr P v)
  | .nodes => match v with
    | .nodes l => .nodes false l
    | _ => .err

/-! ### character events
`Res.chars` records the *concatenation* of the `characters` calls.  How the text is cut into calls is not part of the
value: a node-set's string arrives as one call per text node (`DOMServices::getNodeData`) or — once the object has
memoised its string — as a single call; the empty string arrives as no call at all. -/

/-- a cut of `s` into events as any entry point may deliver it -/
def AdmissibleEvents (s : Str) (evs : List Str) : Prop := evs.flatten = s ∧ ∀ e ∈ evs, e ≠ []

/-- the two cuts the code produces: per text node of the first node (fresh node-set), or the whole string at once -/
def eventsOf (nodeChunks : Nat → List Str) (memoised : Bool) (v : Val N) : List Str :=
  match v, memoised with
  | .nodes (n :: _), false => nodeChunks n
  | v, _ => if (toStr P v).isEmpty then [] else [toStr P v]

def convOpt (ep : EP) (buf : Str) : Option (Val N) → Res N
  | some v => stdConv P ep buf v
  | none => .err

/-! ## expressions -/
inductive K0 (N : Type) where
  | literal (s : Str)
  | numberlit (x : N)
  | variable (f : Ctx → Option (Val N))        -- executionContext.getVariable (none = error raised)
  | locationPath (f : Ctx → List Nat)          -- XPath::step … (opaque here)
  | position | last | true | false | name0 | lname0 | number0 | strlen0

inductive K1 where
  | neg | group | count | not | boolean | name1 | lname1 | floor | ceiling | round | number1 | strlen1 | sum
deriving DecidableEq, Repr

inductive K2 where
  | or | and | ne | eq | le | lt | ge | gt | plus | minus | mult | div | mod
deriving DecidableEq, Repr

inductive KN (N : Type) where
  | union
  | function (f : Ctx → List (Val N) → Option (Val N))       -- s_functions[funcID].execute
  | extfunction (f : Ctx → List (Val N) → Option (Val N))    -- executionContext.extFunction

mutual
inductive Expr (N : Type) where
  | k0 (k : K0 N)
  | k1 (k : K1) (a : Expr N)
  | k2 (k : K2) (a b : Expr N)
  | kn (k : KN N) (as : ExprList N)
inductive ExprList (N : Type) where
  | nil
  | cons (e : Expr N) (es : ExprList N)
end

def K0.op : K0 N → Op
  | .literal _ => .eOP_LITERAL | .numberlit _ => .eOP_NUMBERLIT | .variable _ => .eOP_VARIABLE
  | .locationPath _ => .eOP_LOCATIONPATH | .position => .eOP_FUNCTION_POSITION | .last => .eOP_FUNCTION_LAST
  | .true => .eOP_FUNCTION_TRUE | .false => .eOP_FUNCTION_FALSE | .name0 => .eOP_FUNCTION_NAME_0
  | .lname0 => .eOP_FUNCTION_LOCALNAME_0 | .number0 => .eOP_FUNCTION_NUMBER_0
  | .strlen0 => .eOP_FUNCTION_STRINGLENGTH_0

def K1.op : K1 → Op
  | .neg => .eOP_NEG | .group => .eOP_GROUP | .count => .eOP_FUNCTION_COUNT | .not => .eOP_FUNCTION_NOT
  | .boolean => .eOP_FUNCTION_BOOLEAN | .name1 => .eOP_FUNCTION_NAME_1 | .lname1 => .eOP_FUNCTION_LOCALNAME_1
  | .floor => .eOP_FUNCTION_FLOOR | .ceiling => .eOP_FUNCTION_CEILING | .round => .eOP_FUNCTION_ROUND
  | .number1 => .eOP_FUNCTION_NUMBER_1 | .strlen1 => .eOP_FUNCTION_STRINGLENGTH_1 | .sum => .eOP_FUNCTION_SUM

def K2.op : K2 → Op
  | .or => .eOP_OR | .and => .eOP_AND | .ne => .eOP_NOTEQUALS | .eq => .eOP_EQUALS | .le => .eOP_LTE
  | .lt => .eOP_LT | .ge => .eOP_GTE | .gt => .eOP_GT | .plus => .eOP_PLUS | .minus => .eOP_MINUS
  | .mult => .eOP_MULT | .div => .eOP_DIV | .mod => .eOP_MOD

def KN.op : KN N → Op
  | .union => .eOP_UNION | .function _ => .eOP_FUNCTION | .extfunction _ => .eOP_EXTFUNCTION

def Expr.op : Expr N → Op
  | .k0 k => k.op | .k1 k _ => k.op | .k2 k _ _ => k.op | .kn k _ => k.op

/-- the op codes an expression can have at its root = the case labels of the generic switch -/
def exprOps : List Op :=
  [.eOP_OR, .eOP_AND, .eOP_NOTEQUALS, .eOP_EQUALS, .eOP_LTE, .eOP_LT, .eOP_GTE, .eOP_GT,
   .eOP_PLUS, .eOP_MINUS, .eOP_MULT, .eOP_DIV, .eOP_MOD, .eOP_NEG, .eOP_UNION, .eOP_LITERAL,
   .eOP_VARIABLE, .eOP_GROUP, .eOP_NUMBERLIT, .eOP_EXTFUNCTION, .eOP_FUNCTION, .eOP_LOCATIONPATH,
   .eOP_FUNCTION_POSITION, .eOP_FUNCTION_LAST, .eOP_FUNCTION_COUNT, .eOP_FUNCTION_NOT,
   .eOP_FUNCTION_TRUE, .eOP_FUNCTION_FALSE, .eOP_FUNCTION_BOOLEAN, .eOP_FUNCTION_NAME_0,
   .eOP_FUNCTION_NAME_1, .eOP_FUNCTION_LOCALNAME_0, .eOP_FUNCTION_LOCALNAME_1, .eOP_FUNCTION_FLOOR,
   .eOP_FUNCTION_CEILING, .eOP_FUNCTION_ROUND, .eOP_FUNCTION_NUMBER_0, .eOP_FUNCTION_NUMBER_1,
   .eOP_FUNCTION_STRINGLENGTH_0, .eOP_FUNCTION_STRINGLENGTH_1, .eOP_FUNCTION_SUM]

/-! ## the interpreter, as written -/

/-- a sub-expression as the helpers see it: callable through any entry point -/
structure Kid (N : Type) where
  run : EP → Str → Res N
  numLit : Option N          -- `some x` iff the op code at that position is eOP_NUMBERLIT (getNumericOperand shortcut)

structure Args (N : Type) where
  k0 : Option (K0 N) := none
  kn : Option (KN N) := none
  kids : List (Kid N) := []

def kidBool (k : Kid N) : Option Bool := match k.run .bool [] with | .bool b => some b | _ => none
def kidNum (k : Kid N) : Option N := match k.run .num [] with | .num x => some x | _ => none
def kidObj (k : Kid N) : Option (Val N) := match k.run .obj [] with | .obj v => some v | _ => none
def kidChars (k : Kid N) : Option Str := match k.run .chars [] with | .chars s => some s | _ => none
def kidNodes (k : Kid N) : Option (List Nat) := match k.run .nodes [] with | .nodes _ l => some l | _ => none

/-- XPath::getNumericOperand (XPath.cpp:1860) -/
def numericOperand (k : Kid N) : Option N :=
  match k.numLit with
  | some x => some x
  | none => kidNum k

def kid1 (a : Args N) : Option (Kid N) := match a.kids with | [x] => some x | _ => none
def kid2 (a : Args N) : Option (Kid N × Kid N) := match a.kids with | [x, y] => some (x, y) | _ => none

/-- XPath::Or (1692): operands through the *bool* entry point, right one only if needed -/
def orSem (a : Args N) : Option Bool :=
  match kid2 a with
  | some (x, y) => match kidBool x with
    | some true => some true
    | some false => kidBool y
    | none => none
  | none => none

def andSem (a : Args N) : Option Bool :=
  match kid2 a with
  | some (x, y) => match kidBool x with
    | some false => some false
    | some true => kidBool y
    | none => none
  | none => none

/-- XPath::equals … gt (1740-1856): both operands through the *generic* entry point -/
def cmpSem (c : CmpOp) (a : Args N) : Option Bool :=
  match kid2 a with
  | some (x, y) => match kidObj x with
    | some vx => match kidObj y with
      | some vy => some (P.cmp c vx vy)
      | none => none
    | none => none
  | none => none

/-- XPath::plus … mod (1885-2036): both operands through getNumericOperand -/
def arithSem (f : N → N → N) (a : Args N) : Option N :=
  match kid2 a with
  | some (x, y) => match numericOperand x with
    | some vx => match numericOperand y with
      | some vy => some (f vx vy)
      | none => none
    | none => none
  | none => none

/-- functionNumber(context, opPos, ec) (XPath.hpp): operand through the *num* entry point -/
def number1Sem (a : Args N) : Option N :=
  match kid1 a with
  | some x => kidNum x
  | none => none

/-- functionBoolean: operand through the *bool* entry point -/
def boolean1Sem (a : Args N) : Option Bool :=
  match kid1 a with
  | some x => kidBool x
  | none => none

/-- operand through the *node-list* entry point (functionCount/Name/LocalName/Sum) -/
def nodes1Sem (a : Args N) : Option (List Nat) :=
  match kid1 a with
  | some x => kidNodes x
  | none => none

def sumList : List Nat → N → N
  | [], acc => acc
  | n :: ns, acc => sumList ns (P.add acc (P.s2n (P.nodeStr n)))

def firstName (f : Nat → Str) : List Nat → Str
  | [] => []
  | n :: _ => f n

def helperB (h : Helper) (a : Args N) : Option Bool :=
  match h with
  | .Or => orSem a
  | .And => andSem a
  | .notequals => cmpSem P .ne a
  | .equals => cmpSem P .eq a
  | .lte => cmpSem P .le a
  | .lt => cmpSem P .lt a
  | .gte => cmpSem P .ge a
  | .gt => cmpSem P .gt a
  | .functionNot => (boolean1Sem a).map (!·)
  | .functionBoolean => boolean1Sem a
  | .constTrue => some true
  | .constFalse => some false
  | _ => none

def helperN (ctx : Ctx) (h : Helper) (a : Args N) : Option N :=
  match h with
  | .plus => arithSem P.add a
  | .minus => arithSem P.sub a
  | .mult => arithSem P.mul a
  | .div => arithSem P.div a
  | .mod => arithSem P.mod a
  | .neg => match kid1 a with
    | some x => (numericOperand x).map P.neg
    | none => none
  | .functionPosition => some (P.ofNat ctx.pos)
  | .functionLast => some (P.ofNat ctx.last)
  | .functionCount => (nodes1Sem a).map fun l => P.ofNat l.length
  | .functionFloor => (number1Sem a).map P.floor
  | .functionCeiling => (number1Sem a).map P.ceil
  | .functionRound => (number1Sem a).map P.round
  | .functionNumber0 => some (P.s2n (P.nodeStr ctx.node))
  | .functionNumber1 => number1Sem a
  | .functionStringLength0 => some (P.ofNat (P.nodeStr ctx.node).length)
  | .functionStringLength1 => match kid1 a with          -- operand through the *chars* entry point, events counted
    | some x => (kidChars x).map fun s => P.ofNat s.length
    | none => none
  | .functionSum => (nodes1Sem a).map fun l => sumList P l (P.ofNat 0)
  | .numberlitD => match a.k0 with
    | some (.numberlit x) => some x
    | _ => none
  | _ => none

def helperS (ctx : Ctx) (h : Helper) (a : Args N) : Option Str :=
  match h with
  | .functionName0 => some (P.nodeName ctx.node)
  | .functionName1 => (nodes1Sem a).map (firstName P.nodeName)
  | .functionLocalName0 => some (P.nodeLName ctx.node)
  | .functionLocalName1 => (nodes1Sem a).map (firstName P.nodeLName)
  | _ => none

/-- arguments of a function call: each through the *generic* entry point, left to right -/
def kidsObj : List (Kid N) → Option (List (Val N))
  | [] => some []
  | k :: ks => match kidObj k with
    | some v => match kidsObj ks with
      | some vs => some (v :: vs)
      | none => none
    | none => none

def helperO (ctx : Ctx) (h : Helper) (a : Args N) : Option (Val N) :=
  match h with
  | .variable => match a.k0 with
    | some (.variable f) => f ctx
    | _ => none
  | .runFunction => match a.kn with
    | some (.function f) => match kidsObj a.kids with
      | some vs => f ctx vs
      | none => none
    | _ => none
  | .runExtFunction => match a.kn with
    | some (.extfunction f) => match kidsObj a.kids with
      | some vs => f ctx vs
      | none => none
    | _ => none
  | _ => none

/-- value a helper returns, tagged with its C++ type -/
inductive HVal (N : Type) where
  | b (x : Bool) | n (x : N) | s (x : Str) | o (v : Val N)

def helperSem (ctx : Ctx) (h : Helper) (a : Args N) : Option (HVal N) :=
  match h.ty with
  | .b => (helperB P h a).map .b
  | .n => (helperN P ctx h a).map .n
  | .s => (helperS P ctx h a).map .s
  | .o => (helperO ctx h a).map .o

/-- meaning of `Wrap` at an entry point; combinations that would not compile are `.err` -/
def applyWrap (ep : EP) (buf : Str) (w : Wrap) (hv : HVal N) : Res N :=
  match w, ep, hv with
  | .ret, .obj, .o v => .obj v
  | .ret, .bool, .b x => .bool x
  | .ret, .bool, .n x => .bool (P.cxxN2B x)      -- implicit double→bool
  | .ret, .num, .n x => .num x
  | .ret, .num, .b x => .num (P.b2n x)           -- implicit bool→double
  | .ret, .nodes, .o v => (match v with | .nodes l => .nodes true l | _ => .err)   -- getType() != eTypeNodeSet → error
  | .create, .obj, .b x => .obj (.bool x)
  | .create, .obj, .n x => .obj (.num x)
  | .create, .obj, .s x => .obj (.str x)
  | .conv, .bool, .n x => .bool (P.n2b x)
  | .conv, .bool, .s x => .bool (!x.isEmpty)
  | .conv, .num, .b x => .num (P.b2n x)
  | .conv, .num, .s x => .num (P.s2n x)
  | .conv, .str, .b x => .str (buf ++ b2s x)
  | .conv, .str, .n x => .str (buf ++ P.n2s x)
  | .conv, .chars, .b x => .chars (b2s x)
  | .conv, .chars, .n x => .chars (P.n2s x)
  | .conv, .chars, .s x => .chars x
  | .viaObj, .bool, .o v => .bool (toBool P v)
  | .viaObj, .num, .o v => .num (toNum P v)
  | .viaObj, .str, .o v => .str (buf ++ toStr P v)
  | .viaObj, .chars, .o v => .chars (toStr P v)
  | .append, .str, .s x => .str (buf ++ x)
  | .assign, .str, .s x => .str x
  | .toChars, .chars, .s x => .chars x
  | _, _, _ => .err

/-- XToken as set by the compiler (XPathExpression::pushArgumentOnOpCodeMap, XPathProcessorImpl::Literal/Number) -/
structure Token (N : Type) where
  str : Str
  num : N
  isString : Bool

def tokenOf (a : Args N) : Option (Token N) :=
  match a.k0 with
  | some (.literal s) => some ⟨s, P.s2n s, true⟩
  | some (.numberlit x) => some ⟨P.n2s x, x, false⟩
  | _ => none

/-- XPath::Union(…, MutableNodeRefList&) (2172): every operand through the node-list entry point -/
def unionKids : List (Kid N) → List Nat → Option (List Nat)
  | [], acc => some acc
  | k :: ks, acc => match kidNodes k with
    | some l => unionKids ks (P.nsAdd acc l)
    | none => none

def nsCore (ctx : Ctx) (c : Callee) (a : Args N) : Option (List Nat) :=
  match c with
  | .Union => unionKids P a.kids []
  | .locationPath => match a.k0 with
    | some (.locationPath f) => some (f ctx)
    | _ => none
  | _ => none

abbrev Table := EP → Op → Body
abbrev CTable := Callee → EP → CBody

def semCallee (C : CTable) (ctx : Ctx) (ep : EP) (buf : Str) (c : Callee) (a : Args N) : Res N :=
  match C c ep with
  | .none => .err
  | .other _ => .err
  | .nsCreate => match ep, nsCore P ctx c a with
    | .obj, some l => .obj (.nodes l)
    | _, _ => .err
  | .nsConv =>
    if ep = .obj ∨ ep = .nodes then .err else
    match nsCore P ctx c a with
    | some l => stdConv P ep buf (.nodes l)       -- XObject::boolean/number/string(list)
    | none => .err
  | .nsSelf => match ep, nsCore P ctx c a with
    | .nodes, some l => .nodes false l
    | _, _ => .err
  | .tokCreate => match ep, c, tokenOf P a with
    | .obj, .literal, some t => .obj (.str t.str)
    | .obj, .numberlit, some t => .obj (.num t.num)
    | _, _, _ => .err
  | .tokBoolean => match ep, tokenOf P a with
    | .bool, some t => .bool (if t.isString then !t.str.isEmpty else P.n2b t.num)     -- XToken::boolean
    | _, _ => .err
  | .tokNum => match ep, tokenOf P a with
    | .num, some t => .num t.num
    | _, _ => .err
  | .tokStrAssign => match ep, tokenOf P a with
    | .str, some t => .str t.str
    | _, _ => .err
  | .tokStrAppend => match ep, tokenOf P a with
    | .str, some t => .str (buf ++ t.str)
    | _, _ => .err
  | .tokStrChars => match ep, tokenOf P a with
    | .chars, some t => .chars t.str
    | _, _ => .err
  | .recurse =>
    if c = .group ∧ ep ≠ .nodes then
      match kid1 a with
      | some k => k.run ep buf
      | none => .err
    else .err
  | .groupNodes =>
    if c = .group ∧ ep = .nodes then
      match kid1 a with
      | some k => (match k.run .nodes [] with
        | .nodes viaObj l => if viaObj then .nodes false (P.nsAdd [] l) else .nodes false l   -- theResult.addNodesInDocOrder(theValue->nodeset())
        | _ => .err)
      | none => .err
    else .err
  | .arithConv h => match ep, helperN P ctx h a with
    | .chars, some x => .chars (P.n2s x)
    | _, _ => .err

/-- meaning of one normalised case body -/
def semBody (C : CTable) (ctx : Ctx) (ep : EP) (buf : Str) (a : Args N) : Body → Res N
  | .missing => .err                    -- unknownOpCodeError
  | .notNodeSet => .err                 -- notNodeSetError
  | .other _ => .err
  | .xpath => .err                      -- eOP_XPATH is not an expression op code (never at getInitialOpCodePosition())
  | .help w h => match helperSem P ctx h a with
    | some hv => applyWrap P ep buf w hv
    | none => .err
  | .call c => semCallee P C ctx ep buf c a

def Expr.numLit : Expr N → Option N
  | .k0 (.numberlit x) => some x
  | _ => none

mutual
/-- `executeMore` through entry point `ep`, following the tables -/
def evalAs (T : Table) (C : CTable) (ctx : Ctx) : Expr N → EP → Str → Res N
  | .k0 k, ep, buf => semBody P C ctx ep buf { k0 := some k } (T ep k.op)
  | .k1 k a, ep, buf =>
    semBody P C ctx ep buf { kids := [⟨fun ep' b' => evalAs T C ctx a ep' b', a.numLit⟩] } (T ep k.op)
  | .k2 k a b, ep, buf =>
    semBody P C ctx ep buf { kids := [⟨fun ep' b' => evalAs T C ctx a ep' b', a.numLit⟩,
                                      ⟨fun ep' b' => evalAs T C ctx b ep' b', b.numLit⟩] } (T ep k.op)
  | .kn k as, ep, buf => semBody P C ctx ep buf { kn := some k, kids := evalKids T C ctx as } (T ep k.op)
def evalKids (T : Table) (C : CTable) (ctx : Ctx) : ExprList N → List (Kid N)
  | .nil => []
  | .cons e es => ⟨fun ep' b' => evalAs T C ctx e ep' b', e.numLit⟩ :: evalKids T C ctx es
end

/-! ## the specification: one value per expression (XPath 1.0) -/

def K2.cmp? : K2 → Option CmpOp
  | .ne => some .ne | .eq => some .eq | .le => some .le | .lt => some .lt | .ge => some .ge | .gt => some .gt
  | _ => none

def arithOf : K2 → Option (N → N → N)
  | .plus => some P.add | .minus => some P.sub | .mult => some P.mul | .div => some P.div | .mod => some P.mod
  | _ => none

def asNodes : Val N → Option (List Nat)
  | .nodes l => some l
  | _ => none

def evalK0 (ctx : Ctx) : K0 N → Option (Val N)
  | .literal s => some (.str s)
  | .numberlit x => some (.num x)
  | .variable f => f ctx
  | .locationPath f => some (.nodes (f ctx))
  | .position => some (.num (P.ofNat ctx.pos))
  | .last => some (.num (P.ofNat ctx.last))
  | .true => some (.bool true)
  | .false => some (.bool false)
  | .name0 => some (.str (P.nodeName ctx.node))
  | .lname0 => some (.str (P.nodeLName ctx.node))
  | .number0 => some (.num (P.s2n (P.nodeStr ctx.node)))
  | .strlen0 => some (.num (P.ofNat (P.nodeStr ctx.node).length))

def evalK1 (k : K1) (v : Val N) : Option (Val N) :=
  match k with
  | .neg => some (.num (P.neg (toNum P v)))
  | .group => some v
  | .count => (asNodes v).map fun l => .num (P.ofNat l.length)
  | .not => some (.bool (!toBool P v))
  | .boolean => some (.bool (toBool P v))
  | .name1 => (asNodes v).map fun l => .str (firstName P.nodeName l)
  | .lname1 => (asNodes v).map fun l => .str (firstName P.nodeLName l)
  | .floor => some (.num (P.floor (toNum P v)))
  | .ceiling => some (.num (P.ceil (toNum P v)))
  | .round => some (.num (P.round (toNum P v)))
  | .number1 => some (.num (toNum P v))
  | .strlen1 => some (.num (P.ofNat (toStr P v).length))
  | .sum => (asNodes v).map fun l => .num (sumList P l (P.ofNat 0))

def evalK2 (k : K2) (va vb : Val N) : Val N :=
  match k with
  | .or | .and => .bool false   -- not used (lazy operators are handled in `eval`)
  | .ne => .bool (P.cmp .ne va vb) | .eq => .bool (P.cmp .eq va vb) | .le => .bool (P.cmp .le va vb)
  | .lt => .bool (P.cmp .lt va vb) | .ge => .bool (P.cmp .ge va vb) | .gt => .bool (P.cmp .gt va vb)
  | .plus => .num (P.add (toNum P va) (toNum P vb)) | .minus => .num (P.sub (toNum P va) (toNum P vb))
  | .mult => .num (P.mul (toNum P va) (toNum P vb)) | .div => .num (P.div (toNum P va) (toNum P vb))
  | .mod => .num (P.mod (toNum P va) (toNum P vb))

mutual
def eval (ctx : Ctx) : Expr N → Option (Val N)
  | .k0 k => evalK0 P ctx k
  | .k1 k a => match eval ctx a with
    | some v => evalK1 P k v
    | none => none
  | .k2 .or a b => match eval ctx a with      -- "the right operand is not evaluated if the left operand evaluates to true"
    | some va => if toBool P va then some (.bool true) else
      (match eval ctx b with
       | some vb => some (.bool (toBool P vb))
       | none => none)
    | none => none
  | .k2 .and a b => match eval ctx a with
    | some va => if toBool P va then
      (match eval ctx b with
       | some vb => some (.bool (toBool P vb))
       | none => none) else some (.bool false)
    | none => none
  | .k2 k a b => match eval ctx a with
    | some va => (match eval ctx b with
      | some vb => some (evalK2 P k va vb)
      | none => none)
    | none => none
  | .kn .union as => (evalUnion ctx as []).map .nodes
  | .kn (.function f) as => match evalList ctx as with
    | some vs => f ctx vs
    | none => none
  | .kn (.extfunction f) as => match evalList ctx as with
    | some vs => f ctx vs
    | none => none
def evalList (ctx : Ctx) : ExprList N → Option (List (Val N))
  | .nil => some []
  | .cons e es => match eval ctx e with
    | some v => (match evalList ctx es with
      | some vs => some (v :: vs)
      | none => none)
    | none => none
def evalUnion (ctx : Ctx) : ExprList N → List Nat → Option (List Nat)
  | .nil, acc => some acc
  | .cons e es, acc => match eval ctx e with
    | some (.nodes l) => evalUnion ctx es (P.nsAdd acc l)
    | _ => none
end

end

/-! ## the decidable coherence check over a table -/

/-- the generic switch as this model understands it (pins `eval` to the op codes) -/
def specRow : Op → Body
  | .eOP_OR => .help .create .Or | .eOP_AND => .help .create .And
  | .eOP_NOTEQUALS => .help .create .notequals | .eOP_EQUALS => .help .create .equals
  | .eOP_LTE => .help .create .lte | .eOP_LT => .help .create .lt
  | .eOP_GTE => .help .create .gte | .eOP_GT => .help .create .gt
  | .eOP_PLUS => .help .create .plus | .eOP_MINUS => .help .create .minus | .eOP_MULT => .help .create .mult
  | .eOP_DIV => .help .create .div | .eOP_MOD => .help .create .mod | .eOP_NEG => .help .create .neg
  | .eOP_UNION => .call .Union | .eOP_LITERAL => .call .literal | .eOP_VARIABLE => .help .ret .variable
  | .eOP_GROUP => .call .group | .eOP_NUMBERLIT => .call .numberlit
  | .eOP_EXTFUNCTION => .help .ret .runExtFunction | .eOP_FUNCTION => .help .ret .runFunction
  | .eOP_LOCATIONPATH => .call .locationPath
  | .eOP_FUNCTION_POSITION => .help .create .functionPosition | .eOP_FUNCTION_LAST => .help .create .functionLast
  | .eOP_FUNCTION_COUNT => .help .create .functionCount | .eOP_FUNCTION_NOT => .help .create .functionNot
  | .eOP_FUNCTION_TRUE => .help .create .constTrue | .eOP_FUNCTION_FALSE => .help .create .constFalse
  | .eOP_FUNCTION_BOOLEAN => .help .create .functionBoolean
  | .eOP_FUNCTION_NAME_0 => .help .create .functionName0 | .eOP_FUNCTION_NAME_1 => .help .create .functionName1
  | .eOP_FUNCTION_LOCALNAME_0 => .help .create .functionLocalName0
  | .eOP_FUNCTION_LOCALNAME_1 => .help .create .functionLocalName1
  | .eOP_FUNCTION_FLOOR => .help .create .functionFloor | .eOP_FUNCTION_CEILING => .help .create .functionCeiling
  | .eOP_FUNCTION_ROUND => .help .create .functionRound
  | .eOP_FUNCTION_NUMBER_0 => .help .create .functionNumber0 | .eOP_FUNCTION_NUMBER_1 => .help .create .functionNumber1
  | .eOP_FUNCTION_STRINGLENGTH_0 => .help .create .functionStringLength0
  | .eOP_FUNCTION_STRINGLENGTH_1 => .help .create .functionStringLength1
  | .eOP_FUNCTION_SUM => .help .create .functionSum
  | _ => .missing

/-- case bodies that deliver `stdConv ep` of a `create`d helper value (helper type b/n/s) -/
def okCreate (C : CTable) (ep : EP) (h : Helper) (B : Body) : Bool :=
  match ep, h.ty with
  | _, .o => false
  | .obj, _ => B == .help .create h
  | .bool, .b => B == .help .ret h
  | .bool, _ => B == .help .conv h
  | .num, .n => B == .help .ret h
  | .num, .b => B == .help .conv h || B == .help .ret h
  | .num, .s => B == .help .conv h
  | .str, .s => B == .help .append h
  | .str, _ => B == .help .conv h
  | .chars, .s => B == .help .toChars h || B == .help .conv h
  | .chars, .b => B == .help .conv h
  | .chars, .n => B == .help .conv h ||
      (match B with
       | .call c => C c .chars == .arithConv h
       | _ => false)
  | .nodes, _ => B == .notNodeSet

/-- case bodies that deliver `stdConv ep` of an object-valued helper (variable, function calls) -/
def okObj (ep : EP) (h : Helper) (B : Body) : Bool :=
  h.ty == .o &&
  match ep with
  | .obj | .nodes => B == .help .ret h
  | _ => B == .help .viaObj h

def okCall (C : CTable) (ep : EP) (c : Callee) (B : Body) : Bool :=
  match c, ep with
  | .Union, .obj | .locationPath, .obj => B == .call c && C c .obj == .nsCreate
  | .Union, .nodes | .locationPath, .nodes => B == .call c && C c .nodes == .nsSelf
  | .Union, _ | .locationPath, _ => B == .call c && C c ep == .nsConv
  | .literal, .obj | .numberlit, .obj => B == .call c && C c .obj == .tokCreate
  | .literal, .bool | .numberlit, .bool => B == .call c && C c .bool == .tokBoolean
  | .literal, .num => B == .call c && C c .num == .tokNum
  | .numberlit, .num => (B == .call c && C c .num == .tokNum) || B == .help .ret .numberlitD
  | .literal, .str | .numberlit, .str => B == .call c && C c .str == .tokStrAppend
  | .literal, .chars | .numberlit, .chars => B == .call c && C c .chars == .tokStrChars
  | .literal, .nodes | .numberlit, .nodes => B == .notNodeSet
  | .group, .nodes => B == .call c && C c .nodes == .groupNodes
  | .group, _ => B == .call c && C c ep == .recurse
  | _, _ => false

/-- entry point `ep` handles `op` coherently with the generic switch, and the generic switch is as modelled -/
def coherentAt (T : Table) (C : CTable) (ep : EP) (op : Op) : Bool :=
  T .obj op == specRow op &&
  match specRow op with
  | .help .create h => okCreate C ep h (T ep op)
  | .help .ret h => okObj ep h (T ep op)
  | .call c => okCall C ep c (T ep op)
  | _ => false

/-- every entry point has a case for every op code the generic switch handles -/
def totalB (T : Table) : Bool :=
  Op.all.all fun op => (T .obj op == .missing) || EP.all.all fun ep => !(T ep op == .missing)

def coherentB (T : Table) (C : CTable) : Bool :=
  exprOps.all fun op => EP.all.all fun ep => coherentAt T C ep op

/-- the (entry point, op code) pairs that are not coherent — what the check turns into witnesses -/
def incoherent (T : Table) (C : CTable) : List (EP × Op) :=
  (exprOps.flatMap fun op => EP.all.map fun ep => (ep, op)).filter fun p => !coherentAt T C p.1 p.2

end XalanModel.C11
