import XalanModel.C11.Dispatch
import XalanModel.Generated.C11_Token
/-!
# C11 — XToken: a literal carries a string *and* a number

`XPath::literal`/`XPath::numberlit` answer the bool / number / string / character-event entry points from the token
itself (`theLiteral->boolean()`, `->num()`, `->str()`, `->str(listener, fn)`), the generic path wraps the token's value in
an XObject.  `translate/c11_token.py` regenerates the normalised bodies of XToken's members (`Generated.tokenMethod`) and
the two invariants the compiler establishes when it fills the token queue.  Here: their meaning, the decidable check that
they are the expected ones, and the proof that then every member answers with the standard conversion of the value the
token denotes.  Core Lean only.
-/
namespace XalanModel.C11

variable {N : Type} (P : Prims N)

/-- the XObject value a token stands for on the generic path (`createString(token->str())` / `createNumber(token->num())`) -/
def Token.denotes (t : Token N) : Val N := if t.isString then .str t.str else .num t.num

/-- what `XPathExpression::pushArgumentOnOpCodeMap` establishes: a string literal's number is `toDouble` of its text,
a number literal's string is `NumberToDOMString` of its value -/
def Token.WF (t : Token N) : Prop := if t.isString then t.num = P.s2n t.str else t.str = P.n2s t.num

def semTBool (t : Token N) : TExpr → Option Bool
  | .boolOfStr => some (!t.str.isEmpty)
  | .boolOfNum => some (P.n2b t.num)
  | .ite a b => if t.isString then semTBool t a else semTBool t b
  | _ => none

def semTNum (t : Token N) : TExpr → Option N
  | .numField => some t.num
  | .ite a b => if t.isString then semTNum t a else semTNum t b
  | _ => none

def semTStr (t : Token N) : TExpr → Option Str
  | .strField => some t.str
  | .charsOfStr => some t.str                  -- concatenation of the events (none for the empty string)
  | .ite a b => if t.isString then semTStr t a else semTStr t b
  | _ => none

def semTAppend (buf : Str) (t : Token N) : TExpr → Option Str
  | .appendStr => some (buf ++ t.str)
  | _ => none

/-- the members are the expected ones and the compiler keeps both invariants -/
def tokenCoherentB (TK : TMethod → TExpr) (litInv numInv : Bool) : Bool :=
  litInv && numInv &&
  TK .booleanInline == .ite .boolOfStr .boolOfNum && TK .booleanV == .ite .boolOfStr .boolOfNum &&
  TK .numInline == .numField && TK .numV == .numField &&
  TK .strV == .strField && TK .str0 == .strField &&
  TK .strCharsV == .charsOfStr && TK .strChars == .charsOfStr &&
  TK .strBufV == .appendStr && TK .strBuf == .appendStr &&
  TK .setString == .setFields true && TK .setNumber == .setFields false

theorem token_sound_of (TK : TMethod → TExpr) (litInv numInv : Bool) (h : tokenCoherentB TK litInv numInv = true)
    (t : Token N) (hw : t.WF P) (buf : Str) :
    semTBool P t (TK .booleanInline) = some (toBool P t.denotes) ∧
    semTBool P t (TK .booleanV) = some (toBool P t.denotes) ∧
    semTNum t (TK .numInline) = some (toNum P t.denotes) ∧
    semTNum t (TK .numV) = some (toNum P t.denotes) ∧
    semTStr t (TK .strV) = some (toStr P t.denotes) ∧
    semTStr t (TK .str0) = some (toStr P t.denotes) ∧
    semTStr t (TK .strCharsV) = some (toStr P t.denotes) ∧
    semTStr t (TK .strChars) = some (toStr P t.denotes) ∧
    semTAppend buf t (TK .strBufV) = some (buf ++ toStr P t.denotes) ∧
    semTAppend buf t (TK .strBuf) = some (buf ++ toStr P t.denotes) := by
  unfold tokenCoherentB at h
  simp only [Bool.and_eq_true, beq_iff_eq] at h
  obtain ⟨⟨⟨⟨⟨⟨⟨⟨⟨⟨⟨⟨⟨_, _⟩, h1⟩, h2⟩, h3⟩, h4⟩, h5⟩, h6⟩, h7⟩, h8⟩, h9⟩, h10⟩, _⟩, _⟩ := h
  rw [h1, h2, h3, h4, h5, h6, h7, h8, h9, h10]
  unfold Token.WF at hw
  cases hs : t.isString <;> simp [hs] at hw <;>
    simp [semTBool, semTNum, semTStr, semTAppend, Token.denotes, hs, toBool, toNum, toStr, hw]

/-- the tokens `Dispatch.tokenOf` builds are exactly the ones the compiler builds -/
theorem tokenOf_wf (a : Args N) (t : Token N) (h : tokenOf P a = some t) : t.WF P := by
  unfold tokenOf at h
  split at h <;> simp at h <;> subst h <;> simp [Token.WF]

/-- conversion tags the model's `stdConv` is written against (what each static / virtual conversion must be) -/
def expectedConvRows : List (String × String) := [
  ("XBoolean::boolean(e)", "value"),
  ("XBoolean::num(e)", "static number(value)"),
  ("XBoolean::str(e)", "static string(value)"),
  ("XNodeSetBase::boolean(e)", "length-nonzero"),
  ("XNodeSetBase::num(e)", "memo toDouble(str())"),
  ("XNodeSetBase::str(e)", "memo data(first node)"),
  ("XNumber::num(e)", "value"),
  ("XNumber::str(e)", "memo NumberToDOMString(value)"),
  ("XNumberBase::boolean(e)", "static boolean(num())"),
  ("XObject::boolean(d)", "notNaN-and-notZero"),
  ("XObject::boolean(l)", "length-nonzero"),
  ("XObject::boolean(s)", "length-nonzero"),
  ("XObject::number(b)", "one-zero"),
  ("XObject::number(el)", "toDouble(data(first node)) or toDouble('')"),
  ("XObject::number(en)", "toDouble(data(node))"),
  ("XObject::number(sm)", "toDouble"),
  ("XObject::string(b)", "true-false"),
  ("XObject::string(bLf)", "event true-false"),
  ("XObject::string(bS)", "append true-false"),
  ("XObject::string(dLf)", "event NumberToCharacters"),
  ("XObject::string(dS)", "append NumberToDOMString"),
  ("XObject::string(leLf)", "events data(first node)"),
  ("XObject::string(leS)", "append data(first node)"),
  ("XObject::string(neLf)", "events data(node)"),
  ("XObject::string(neS)", "append data(node)"),
  ("XObject::string(sLf)", "event if nonempty"),
  ("XStringBase::boolean(e)", "str() nonempty"),
  ("XStringBase::num(e)", "memo toDouble(str())")
]

end XalanModel.C11
