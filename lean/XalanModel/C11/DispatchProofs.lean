import XalanModel.C11.Dispatch
/-! helper lemmas for Props/C11.lean: soundness of the decidable coherence check (`coherentAt`)
with respect to the meaning of the case bodies (`semBody`), and the lift to expressions. -/
namespace XalanModel.C11
open XalanModel.Generated.C11 (Op)

variable {N : Type} (P : Prims N)

/-- value of a helper result as an XObject would hold it -/
def hvVal : HVal N → Val N
  | .b x => .bool x
  | .n x => .num x
  | .s x => .str x
  | .o v => v

/-- a sub-expression handle that behaves, through every entry point, as the standard conversion of one value -/
def KidOK (K : Kid N) (ov : Option (Val N)) : Prop :=
  (∀ ep buf, (K.run ep buf).norm = convOpt P ep buf ov) ∧ (∀ x, K.numLit = some x → ov = some (.num x))

theorem norm_err_iff (r : Res N) : r.norm = .err ↔ r = .err := by
  cases r <;> simp [Res.norm]

theorem kidBool_ok {K : Kid N} {ov} (h : KidOK P K ov) : kidBool K = ov.map (toBool P) := by
  have h1 := h.1 .bool []
  unfold kidBool
  cases hr : K.run .bool [] <;> cases ov <;> simp_all [Res.norm, convOpt, stdConv]

theorem kidNum_ok {K : Kid N} {ov} (h : KidOK P K ov) : kidNum K = ov.map (toNum P) := by
  have h1 := h.1 .num []
  unfold kidNum
  cases hr : K.run .num [] <;> cases ov <;> simp_all [Res.norm, convOpt, stdConv]

theorem kidObj_ok {K : Kid N} {ov} (h : KidOK P K ov) : kidObj K = ov := by
  have h1 := h.1 .obj []
  unfold kidObj
  cases hr : K.run .obj [] <;> cases ov <;> simp_all [Res.norm, convOpt, stdConv]

theorem kidChars_ok {K : Kid N} {ov} (h : KidOK P K ov) : kidChars K = ov.map (toStr P) := by
  have h1 := h.1 .chars []
  unfold kidChars
  cases hr : K.run .chars [] <;> cases ov <;> simp_all [Res.norm, convOpt, stdConv]

theorem kidNodes_ok {K : Kid N} {ov} (h : KidOK P K ov) : kidNodes K = ov.bind asNodes := by
  have h1 := h.1 .nodes []
  unfold kidNodes
  cases hr : K.run .nodes [] <;> cases ov with
  | none => simp_all [Res.norm, convOpt, stdConv]
  | some v => cases v <;> simp_all [Res.norm, convOpt, stdConv, asNodes]

theorem numericOperand_ok {K : Kid N} {ov} (h : KidOK P K ov) : numericOperand K = ov.map (toNum P) := by
  unfold numericOperand
  cases hn : K.numLit with
  | none => simpa using kidNum_ok P h
  | some x => simp [h.2 x hn, toNum]

/-! ### rows of the table -/

theorem create_sound (C : CTable) (ctx : Ctx) (ep : EP) (h : Helper) (B : Body) (a : Args N) (buf : Str)
    (hok : okCreate C ep h B = true) :
    (semBody P C ctx ep buf a B).norm = convOpt P ep buf ((helperSem P ctx h a).map hvVal) := by
  unfold okCreate at hok
  cases hty : h.ty <;> cases ep <;> simp [hty] at hok
  all_goals
    first
    | (subst hok
       simp only [semBody, helperSem, hty]
       cases helperB P h a <;> cases helperN P ctx h a <;> cases helperS P ctx h a <;>
         simp [applyWrap, convOpt, stdConv, hvVal, Res.norm, toBool, toNum, toStr]
       done)
    | (rcases hok with hok | hok
       all_goals
         first
         | (subst hok
            simp only [semBody, helperSem, hty]
            cases helperB P h a <;> cases helperN P ctx h a <;> cases helperS P ctx h a <;>
              simp [applyWrap, convOpt, stdConv, hvVal, Res.norm, toBool, toNum, toStr]
            done)
         | (cases B <;> simp at hok
            simp only [semBody, semCallee, hok, helperSem, hty]
            cases helperN P ctx h a <;> simp [convOpt, stdConv, hvVal, Res.norm, toStr]
            done))

theorem obj_sound (C : CTable) (ctx : Ctx) (ep : EP) (h : Helper) (B : Body) (a : Args N) (buf : Str)
    (hok : okObj ep h B = true) :
    (semBody P C ctx ep buf a B).norm = convOpt P ep buf ((helperSem P ctx h a).map hvVal) := by
  unfold okObj at hok
  simp at hok
  obtain ⟨hty, hB⟩ := hok
  cases ep <;> simp at hB <;> subst hB <;> simp only [semBody, helperSem, hty] <;>
    cases helperO ctx h a <;> simp [applyWrap, convOpt, stdConv, hvVal, Res.norm]
  rename_i v
  cases v <;> simp [Res.norm]

theorem literal_sound (C : CTable) (ctx : Ctx) (ep : EP) (B : Body) (s : Str) (buf : Str)
    (hok : okCall C ep .literal B = true) :
    (semBody P C ctx ep buf { k0 := some (.literal s) } B).norm = stdConv P ep buf (.str s) := by
  unfold okCall at hok
  cases ep <;> simp at hok
  all_goals first
    | (obtain ⟨hB, hC⟩ := hok
       subst hB
       simp [semBody, semCallee, hC, tokenOf, stdConv, toBool, toNum, toStr, Res.norm])
    | (subst hok
       simp [semBody, stdConv, Res.norm])

theorem numberlit_sound (C : CTable) (ctx : Ctx) (ep : EP) (B : Body) (x : N) (buf : Str)
    (hok : okCall C ep .numberlit B = true) :
    (semBody P C ctx ep buf { k0 := some (.numberlit x) } B).norm = stdConv P ep buf (.num x) := by
  unfold okCall at hok
  cases ep <;> simp at hok
  case num =>
    rcases hok with ⟨hB, hC⟩ | hB
    · subst hB
      simp [semBody, semCallee, hC, tokenOf, stdConv, toNum, Res.norm]
    · subst hB
      simp [semBody, helperSem, Helper.ty, helperN, applyWrap, stdConv, toNum, Res.norm]
  all_goals first
    | (obtain ⟨hB, hC⟩ := hok
       subst hB
       simp [semBody, semCallee, hC, tokenOf, stdConv, toBool, toNum, toStr, Res.norm])
    | (subst hok
       simp [semBody, stdConv, Res.norm])

theorem ns_sound (C : CTable) (ctx : Ctx) (ep : EP) (c : Callee) (hc : c = .Union ∨ c = .locationPath)
    (B : Body) (a : Args N) (buf : Str) (hok : okCall C ep c B = true) :
    (semBody P C ctx ep buf a B).norm = convOpt P ep buf ((nsCore P ctx c a).map .nodes) := by
  unfold okCall at hok
  rcases hc with hc | hc <;> subst hc <;> cases ep <;> simp at hok <;> obtain ⟨hB, hC⟩ := hok <;> subst hB <;>
    simp only [semBody, semCallee, hC] <;>
    cases nsCore P ctx _ a <;> simp [convOpt, stdConv, Res.norm]

theorem group_sound (C : CTable) (ctx : Ctx) (ep : EP) (B : Body) (k : Kid N) (ov : Option (Val N)) (buf : Str)
    (hL : ∀ l, P.nsAdd [] l = l) (hk : KidOK P k ov) (hok : okCall C ep .group B = true) :
    (semBody P C ctx ep buf { kids := [k] } B).norm = convOpt P ep buf ov := by
  unfold okCall at hok
  cases ep <;> simp at hok <;> obtain ⟨hB, hC⟩ := hok <;> subst hB <;>
    simp only [semBody, semCallee, hC]
  case nodes =>
    have h1 := hk.1 .nodes []
    simp [kid1]
    cases hr : k.run .nodes [] <;> cases ov with
    | none => simp_all [Res.norm, convOpt]
    | some v => cases v <;> simp_all [Res.norm, convOpt, stdConv] <;> (split <;> simp_all [Res.norm])
  all_goals (simp [kid1]; exact hk.1 _ buf)

/-! ### helpers versus the specification -/

def k1Helper : K1 → Helper
  | .neg => .neg | .group => .neg | .count => .functionCount | .not => .functionNot | .boolean => .functionBoolean
  | .name1 => .functionName1 | .lname1 => .functionLocalName1 | .floor => .functionFloor
  | .ceiling => .functionCeiling | .round => .functionRound | .number1 => .functionNumber1
  | .strlen1 => .functionStringLength1 | .sum => .functionSum

def k2Helper : K2 → Helper
  | .or => .Or | .and => .And | .ne => .notequals | .eq => .equals | .le => .lte | .lt => .lt | .ge => .gte
  | .gt => .gt | .plus => .plus | .minus => .minus | .mult => .mult | .div => .div | .mod => .mod

/-- `eval` of a binary node in terms of the values of its operands -/
def evalK2o (k : K2) (oa ob : Option (Val N)) : Option (Val N) :=
  match k with
  | .or => match oa with
    | some va => if toBool P va then some (.bool true) else
      (match ob with
       | some vb => some (.bool (toBool P vb))
       | none => none)
    | none => none
  | .and => match oa with
    | some va => if toBool P va then
      (match ob with
       | some vb => some (.bool (toBool P vb))
       | none => none) else some (.bool false)
    | none => none
  | k => match oa with
    | some va => (match ob with
      | some vb => some (evalK2 P k va vb)
      | none => none)
    | none => none

theorem eval_k2 (ctx : Ctx) (k : K2) (a b : Expr N) :
    eval P ctx (.k2 k a b) = evalK2o P k (eval P ctx a) (eval P ctx b) := by
  cases k <;> simp only [eval, evalK2o] <;> cases eval P ctx a <;> cases eval P ctx b <;> simp

theorem k2_helper (ctx : Ctx) (k : K2) {Ka Kb : Kid N} {oa ob} (ha : KidOK P Ka oa) (hb : KidOK P Kb ob) :
    (helperSem P ctx (k2Helper k) { kids := [Ka, Kb] }).map hvVal = evalK2o P k oa ob := by
  cases k <;>
    simp [k2Helper, helperSem, Helper.ty, helperB, helperN, orSem, andSem, cmpSem, arithSem, kid2,
      kidBool_ok P ha, kidBool_ok P hb, kidObj_ok P ha, kidObj_ok P hb, numericOperand_ok P ha,
      numericOperand_ok P hb, evalK2o, evalK2] <;>
    cases oa <;> cases ob <;> simp [hvVal] <;> (try split) <;> simp_all [hvVal]

theorem k1_helper (ctx : Ctx) (k : K1) (hk : k ≠ .group) {K : Kid N} {ov} (h : KidOK P K ov) :
    (helperSem P ctx (k1Helper k) { kids := [K] }).map hvVal = ov.bind (evalK1 P k) := by
  cases k <;> simp at hk <;>
    simp [k1Helper, helperSem, Helper.ty, helperB, helperN, helperS, kid1, boolean1Sem, number1Sem, nodes1Sem,
      kidBool_ok P h, kidNum_ok P h, kidChars_ok P h, kidNodes_ok P h, numericOperand_ok P h, evalK1] <;>
    cases ov with
    | none => simp
    | some v => cases v <;> simp [hvVal, asNodes, evalK1]

theorem eval_k1 (ctx : Ctx) (k : K1) (a : Expr N) :
    eval P ctx (.k1 k a) = (eval P ctx a).bind (evalK1 P k) := by
  simp only [eval]
  cases eval P ctx a <;> simp

theorem numLit_eval (ctx : Ctx) (a : Expr N) (x : N) (h : a.numLit = some x) : eval P ctx a = some (.num x) := by
  cases a with
  | k0 k => cases k <;> simp [Expr.numLit] at h; subst h; simp [eval, evalK0]
  | k1 _ _ => simp [Expr.numLit] at h
  | k2 _ _ _ => simp [Expr.numLit] at h
  | kn _ _ => simp [Expr.numLit] at h

/-! ### the lift to expressions -/

theorem coherentAt_of {T : Table} {C : CTable} (hT : coherentB T C = true) (ep : EP) (op : Op)
    (hop : op ∈ exprOps) : coherentAt T C ep op = true := by
  unfold coherentB at hT
  rw [List.all_eq_true] at hT
  have h1 := hT op hop
  rw [List.all_eq_true] at h1
  exact h1 ep (by cases ep <;> simp [EP.all])

theorem hvVal_o_map (o : Option (Val N)) : Option.map (hvVal ∘ HVal.o) o = o := by
  cases o <;> simp [hvVal]

theorem specRow_k1 (k : K1) (hk : k ≠ .group) : specRow k.op = .help .create (k1Helper k) := by
  cases k <;> simp at hk <;> rfl

theorem specRow_k2 (k : K2) : specRow k.op = .help .create (k2Helper k) := by
  cases k <;> rfl

theorem k1Helper_ty (k : K1) : (k1Helper k).ty ≠ .o := by cases k <;> simp [k1Helper, Helper.ty]

variable (T : Table) (C : CTable)

theorem kidOK_of (ctx : Ctx) (a : Expr N)
    (ih : ∀ ep buf, (evalAs P T C ctx a ep buf).norm = convOpt P ep buf (eval P ctx a)) :
    KidOK P ⟨fun ep' b' => evalAs P T C ctx a ep' b', a.numLit⟩ (eval P ctx a) :=
  ⟨ih, fun x hx => numLit_eval P ctx a x hx⟩

mutual
theorem lift (hT : coherentB T C = true) (hL : ∀ l, P.nsAdd [] l = l) (ctx : Ctx) :
    (e : Expr N) → ∀ ep buf, (evalAs P T C ctx e ep buf).norm = convOpt P ep buf (eval P ctx e)
  | .k0 k => by
    intro ep buf
    have hc := coherentAt_of hT ep k.op (by cases k <;> simp [K0.op, exprOps])
    cases k with
    | literal s =>
      simp [coherentAt, specRow, K0.op] at hc
      simpa [evalAs, eval, evalK0, convOpt, K0.op] using literal_sound P C ctx ep _ s buf hc.2
    | numberlit x =>
      simp [coherentAt, specRow, K0.op] at hc
      simpa [evalAs, eval, evalK0, convOpt, K0.op] using numberlit_sound P C ctx ep _ x buf hc.2
    | «variable» f =>
      simp [coherentAt, specRow, K0.op] at hc
      have := obj_sound P C ctx ep _ _ { k0 := some (.variable f) } buf hc.2
      simp only [evalAs, eval, evalK0, K0.op]
      rw [this]
      cases hf : f ctx <;> simp [helperSem, Helper.ty, helperO, hvVal, hf]
    | locationPath f =>
      simp [coherentAt, specRow, K0.op] at hc
      have := ns_sound P C ctx ep .locationPath (Or.inr rfl) _ { k0 := some (.locationPath f) } buf hc.2
      simp only [evalAs, eval, evalK0, K0.op]
      rw [this]
      simp [nsCore]
    | position | last | true | false | name0 | lname0 | number0 | strlen0 =>
      simp [coherentAt, specRow, K0.op] at hc
      simp only [evalAs, eval, evalK0, K0.op]
      rw [create_sound P C ctx ep _ _ _ buf hc.2]
      simp [helperSem, Helper.ty, helperB, helperN, helperS, hvVal]
  | .k1 k a => by
    intro ep buf
    have ih := lift hT hL ctx a
    have hk := kidOK_of P T C ctx a ih
    have hc := coherentAt_of hT ep k.op (by cases k <;> simp [K1.op, exprOps])
    by_cases hg : k = .group
    · subst hg
      simp [coherentAt, specRow, K1.op] at hc
      have := group_sound P C ctx ep _ _ _ buf hL hk hc.2
      simp only [evalAs, K1.op]
      rw [this, eval_k1]
      cases eval P ctx a <;> simp [evalK1]
    · rw [coherentAt, specRow_k1 k hg] at hc
      simp at hc
      have := create_sound P C ctx ep _ _ { kids := [⟨fun ep' b' => evalAs P T C ctx a ep' b', a.numLit⟩] } buf hc.2
      simp only [evalAs]
      rw [this, k1_helper P ctx k hg hk, eval_k1]
  | .k2 k a b => by
    intro ep buf
    have ha := kidOK_of P T C ctx a (lift hT hL ctx a)
    have hb := kidOK_of P T C ctx b (lift hT hL ctx b)
    have hc := coherentAt_of hT ep k.op (by cases k <;> simp [K2.op, exprOps])
    rw [coherentAt, specRow_k2 k] at hc
    simp at hc
    have := create_sound P C ctx ep _ _ { kids := [⟨fun ep' b' => evalAs P T C ctx a ep' b', a.numLit⟩,
                                                  ⟨fun ep' b' => evalAs P T C ctx b ep' b', b.numLit⟩] } buf hc.2
    simp only [evalAs]
    rw [this, k2_helper P ctx k ha hb, eval_k2]
  | .kn k as => by
    intro ep buf
    have hl := liftList hT hL ctx as
    have hc := coherentAt_of hT ep k.op (by cases k <;> simp [KN.op, exprOps])
    cases k with
    | union =>
      simp [coherentAt, specRow, KN.op] at hc
      have := ns_sound P C ctx ep .Union (Or.inl rfl) _ { kn := some .union, kids := evalKids P T C ctx as } buf hc.2
      simp only [evalAs, KN.op]
      rw [this]
      simp [nsCore, hl.1, eval]
    | function f =>
      simp [coherentAt, specRow, KN.op] at hc
      have := obj_sound P C ctx ep _ _ { kn := some (.function f), kids := evalKids P T C ctx as } buf hc.2
      simp only [evalAs, KN.op]
      rw [this]
      simp only [helperSem, Helper.ty, helperO, hl.2, eval]
      cases evalList P ctx as with
      | none => simp
      | some vs => simp [hvVal_o_map]
    | extfunction f =>
      simp [coherentAt, specRow, KN.op] at hc
      have := obj_sound P C ctx ep _ _ { kn := some (.extfunction f), kids := evalKids P T C ctx as } buf hc.2
      simp only [evalAs, KN.op]
      rw [this]
      simp only [helperSem, Helper.ty, helperO, hl.2, eval]
      cases evalList P ctx as with
      | none => simp
      | some vs => simp [hvVal_o_map]
theorem liftList (hT : coherentB T C = true) (hL : ∀ l, P.nsAdd [] l = l) (ctx : Ctx) :
    (es : ExprList N) → (∀ acc, unionKids P (evalKids P T C ctx es) acc = evalUnion P ctx es acc) ∧
      kidsObj (evalKids P T C ctx es) = evalList P ctx es
  | .nil => by simp [evalKids, unionKids, evalUnion, kidsObj, evalList]
  | .cons e es => by
    have he := kidOK_of P T C ctx e (lift hT hL ctx e)
    have hes := liftList hT hL ctx es
    constructor
    · intro acc
      simp only [evalKids, unionKids, evalUnion, kidNodes_ok P he]
      cases eval P ctx e with
      | none => simp
      | some v => cases v <;> simp [asNodes, hes.1]
    · simp only [evalKids, kidsObj, evalList, kidObj_ok P he, hes.2]
end

end XalanModel.C11
