import XalanModel.C04.Model
import XalanModel.C04.Spec
import XalanModel.C04.BufferProofs
import XalanModel.C04.EncodingProofs
import XalanModel.C04.ReaderProofs
import XalanModel.C04.EscapeProofs
import XalanModel.C04.ForbiddenProofs
/-!
# C04 — XML output is well-formed and parses back to exactly the result tree

Property theorems only (helpers: `XalanModel/C04/*Proofs.lean`).  The model (`XalanModel/C04/Model.lean`)
transcribes `FormatterToXMLUnicode`, the three writers and both 512-entry buffer layers; character
tables, entity strings, buffer sizes and the CDATA guard come from `Generated/C04_Tables.lean`, which
`translate/c04_tables.py` rewrites from the working tree on every run.
-/
namespace XalanModel.Props.C04
open XalanModel.C04 XalanModel.Generated.C04

def asciiEnc0 : Enc := ⟨.other, fun c => decide (c < 128)⟩
abbrev asciiEnc : Enc := asciiEnc0

/-! ## buffers -/

/-- **buffer_transparent.** For every sequence of write items and every capacity: the chunks the
staging buffer delivers (final `flushBuffer` included) concatenate to exactly the units written, and
every chunk is the concatenation of *whole* items — no chunk boundary falls inside a multi-unit
character (UTF-8 sequence, surrogate pair, numeric character reference). -/
theorem buffer_transparent (items : List Item) (cap : Nat) (s' : Sink)
    (h : Sink.run items (Sink.empty cap) = some s') :
    s'.flush.chunks.flatten = unitsOf items ∧
    ∃ groups : List (List Item), groups.flatten = items ∧ s'.flush.chunks = groups.map unitsOf := by
  have he : (SinkI.mk cap [] []).erase = Sink.empty cap := rfl
  rw [← he, ← SinkI.erase_run] at h
  cases hr : SinkI.run items ⟨cap, [], []⟩ with
  | none => simp [hr] at h
  | some si =>
    simp only [hr, Option.map_some, Option.some.injEq] at h
    subst h
    obtain ⟨hall, _⟩ := SinkI.run_all items _ si hr
    have hg : si.flush.chunks.flatten = items := by
      have : si.flush.chunks.flatten = si.all := by simp [SinkI.flush, SinkI.all]
      rw [this, hall]; simp [SinkI.all]
    have hc : si.erase.flush.chunks = si.flush.chunks.map unitsOf := by
      rw [← SinkI.erase_flush]; rfl
    refine ⟨?_, si.flush.chunks, hg, hc⟩
    rw [hc, ← hg, unitsOf_flatten]

example : Sink.run [.one 1, .atom [2, 3], .one 4, .bulk [5, 6, 7, 8], .one 9] (Sink.empty 3)
    = some ⟨3, [[1, 2, 3], [4], [5, 6, 7, 8]], [9]⟩ := by decide

/-- **buffer_in_bounds.** With a non-zero capacity and every atomic store no longer than the capacity
(the serializer's atoms are 2–4 UTF-8 bytes, a surrogate pair, or `&#N;` with N ≤ 1114111: at most
10 units against 512), no store ever runs past the array (`Sink.store` never fails) and the buffer
position never exceeds the capacity. -/
theorem buffer_in_bounds (items : List Item) (cap : Nat) (hcap : 0 < cap)
    (hatom : ∀ us, Item.atom us ∈ items → us.length ≤ cap) :
    ∃ s', Sink.run items (Sink.empty cap) = some s' ∧ s'.buf.length ≤ s'.cap := by
  obtain ⟨si, hr, hi⟩ := SinkI.run_ok items ⟨cap, [], []⟩ (by simp [SinkI.Inv, unitsOf]) hcap hatom
  refine ⟨si.erase, ?_, hi⟩
  have he : (SinkI.mk cap [] []).erase = Sink.empty cap := rfl
  rw [← he, ← SinkI.erase_run, hr]; rfl

example : (0 : Nat) < 512 ∧ ∀ us, Item.atom us ∈ [Item.one 60, .atom [0xC3, 0xA9], .bulk [1, 2]] → us.length ≤ 512 := by
  refine ⟨by decide, ?_⟩
  intro us h; simp at h; subst h; decide

/-- **stream_transparent.** `XalanOutputStream`'s second buffer: the chunks handed to the transcoder
concatenate to the writer's chunks, and each is a concatenation of whole writer chunks — together
with `buffer_transparent`: no transcoder call sees a split surrogate pair. -/
theorem stream_transparent (cap : Nat) (wc sc : List (List Nat)) (h : streamChunks cap wc = some sc) :
    sc.flatten = wc.flatten ∧ ∃ groups : List (List (List Nat)), groups.flatten = wc ∧ sc = groups.map List.flatten := by
  unfold streamChunks at h
  cases hr : Sink.run (wc.map Item.bulk) (Sink.empty cap) with
  | none => simp [hr] at h
  | some s' =>
    simp only [hr, Option.map_some, Option.some.injEq] at h
    subst h
    obtain ⟨h1, groups, hg, hc⟩ := buffer_transparent _ _ _ hr
    have hu : ∀ l : List (List Nat), unitsOf (l.map Item.bulk) = l.flatten := by
      intro l; induction l with
      | nil => rfl
      | cons a t ih => simp [unitsOf, Item.units, List.flatMap_cons] at *; exact ih
    refine ⟨by rw [h1, hu], groups.map (fun g => g.map Item.units), ?_, ?_⟩
    · have : (wc.map Item.bulk).map Item.units = wc := by
        rw [List.map_map]; conv => rhs; rw [← List.map_id wc]
        apply List.map_congr_left; intro a _; rfl
      rw [← this, ← hg, List.map_flatten]
    · rw [hc, List.map_map]
      apply List.map_congr_left
      intro g _
      simp [unitsOf, List.flatMap_def]

/-! ## encodings -/

/-- **utf8_roundtrip.** For every sequence of Unicode scalar values: its UTF-16 encoding, written by
`XalanUTF8Writer::write(const XalanDOMChar*, n)` (surrogate decoding + `write(XalanUnicodeChar)`),
never raises an error and yields bytes that the strict UTF-8 decoder of the specification reads back
as exactly that sequence. -/
theorem utf8_roundtrip (cs : List Nat) (h : ∀ c ∈ cs, Spec.IsScalar c) :
    ∃ items, utf8Units (Spec.utf16Encode cs) = .ok items ∧ Spec.utf8Decode (unitsOf items) = some cs :=
  utf8Units_roundtrip cs h

example : Spec.IsScalar 0x1D4B3 ∧ Spec.IsScalar 0xE9 ∧ Spec.IsScalar 0x20AC ∧ Spec.IsScalar 0x3C := by decide

/-- **utf16_roundtrip.** The writers' surrogate handling (`decodeHead`: `isUTF16HighSurrogate`, the
`start + 1 >= length` test, `decodeUTF16SurrogatePair`) inverts UTF-16 encoding for every scalar value:
a BMP scalar is returned as it is with one unit consumed, a supplementary one from its pair with two. -/
theorem utf16_roundtrip (c : Nat) (rest : List Nat) (h : Spec.IsScalar c) :
    (c < 0x10000 → Spec.utf16EncodeOne c = [c] ∧ decodeHead c rest = .ok (c, false)) ∧
    (0x10000 ≤ c → Spec.utf16EncodeOne c = [0xD800 + (c - 0x10000) / 1024, 0xDC00 + (c - 0x10000) % 1024] ∧
      decodeHead (0xD800 + (c - 0x10000) / 1024) ((0xDC00 + (c - 0x10000) % 1024) :: rest) = .ok (c, true)) :=
  decodeHead_utf16Encode c rest h

/-! ## escaping: content and attribute values read back -/

/-- **content_roundtrip.** For every XML version, every writer family (UTF-8, UTF-16, other encoding
with *any* representability predicate that covers ASCII) and every sequence `cs` of characters that
are XML `Char`s of that version — including `< & > " TAB CR LF`, `]]>`, supplementary characters and
characters the encoding cannot represent —: `writeCharacters` on the UTF-16 form of `cs` raises no
error, its code units decode (strict UTF-8 / UTF-16 decoder) to a character sequence `out`, and the
XML reader (§2.4/§2.11/§4.1: predefined entities, decimal character references with the Legal
Character constraint, line-end normalisation) reads `out` back as exactly `cs`. -/
theorem content_roundtrip (ver : Ver) (e : Enc) (ha : AsciiOk e) (cs : List Nat)
    (hl : ∀ c ∈ cs, Spec.legalChar ver c = true) :
    ∃ items out, writeCharacters ver e (Spec.utf16Encode cs) = .ok items ∧
      Spec.decodeOut e.kind (unitsOf items) = some out ∧ Spec.readAll ver false out = some cs :=
  esc_roundtrip ver e ha false (pContent ver) (writeDefaultEscape ver e) (fun _ => by simp)
    (fun c hle hs hlc => escape_content ver e ha c hle hs hlc) cs hl

/-- **attr_roundtrip.** The same for `writeAttrString`, read back with attribute-value normalisation
(§3.3.3): TAB, LF, CR and `"` survive because they are written as references. -/
theorem attr_roundtrip (ver : Ver) (e : Enc) (ha : AsciiOk e) (cs : List Nat)
    (hl : ∀ c ∈ cs, Spec.legalChar ver c = true) :
    ∃ items out, writeAttrString ver e (Spec.utf16Encode cs) = .ok items ∧
      Spec.decodeOut e.kind (unitsOf items) = some out ∧ Spec.readAll ver true out = some cs :=
  esc_roundtrip ver e ha true (pAttribute ver) (writeDefaultAttributeEscape ver e) (fun _ => by simp)
    (fun c hle hs hlc => escape_attr ver e ha c hle hs hlc) cs hl

/-- the hypotheses are satisfiable by a non-trivial string under a restricted encoding, and the theorem's
conclusion can be computed on it: `a<&>"\t\r\n]]>é€𝒳` under US-ASCII, XML 1.0 and 1.1 -/
example : AsciiOk asciiEnc0 ∧
    (∀ c ∈ [97, 60, 38, 62, 34, 9, 13, 10, 93, 93, 62, 0xE9, 0x20AC, 0x1D4B3], Spec.legalChar .v10 c = true) ∧
    ((writeCharacters .v10 asciiEnc0 (Spec.utf16Encode [60, 13, 0xE9, 0x1D4B3])).toOption.map unitsOf
      = some [38, 108, 116, 59, 38, 35, 49, 51, 59, 38, 35, 50, 51, 51, 59, 38, 35, 49, 49, 57, 57, 56, 55, 59]) := by
  refine ⟨fun c hc => by simp [asciiEnc0]; exact hc, by decide, by decide⟩

/-- **content_forbidden_is_error.** For *every* code-unit string (well-formed or not), every writer and
version: if it contains a character the table marks forbidden (XML 1.0: every C0 control except TAB, LF,
CR), `writeCharacters` ends in an error — no output is produced for it, whatever comes before or after. -/
theorem content_forbidden_is_error (ver : Ver) (e : Enc) (s : List Nat)
    (h : ∃ c ∈ s, pForbidden ver c = true) : ∃ er, writeCharacters ver e s = .error er :=
  escLoop_forbidden ver e (pContent ver) (writeDefaultEscape ver e)
    (fun c hc => (forbidden_content_special ver c hc).1) (fun c hc => escape_content_forbidden ver e c hc)
    s false [] (fun h => by cases h) h

/-- the same for attribute values -/
theorem attr_forbidden_is_error (ver : Ver) (e : Enc) (s : List Nat)
    (h : ∃ c ∈ s, pForbidden ver c = true) : ∃ er, writeAttrString ver e s = .error er :=
  escLoop_forbidden ver e (pAttribute ver) (writeDefaultAttributeEscape ver e)
    (fun c hc => (forbidden_content_special ver c hc).2) (fun c hc => escape_attr_forbidden ver e c hc)
    s false [] (fun h => by cases h) h

example : ∃ c ∈ [97, 0xD835, 0xDCB3, 8, 98], pForbidden .v10 c = true := ⟨8, by simp, by decide⟩

/-- **content_nonchar_counterexample** (known finding `C04-noncharacter-not-rejected`,
`C04-lone-surrogate-not-rejected`): the hypothesis `legalChar` of `content_roundtrip` cannot be dropped in
favour of "the serializer reports an error": U+FFFF and an unpaired low surrogate are written, not rejected. -/
theorem content_nonchar_counterexample :
    okUnits (writeCharacters .v10 ⟨.utf8, fun _ => true⟩ [0xFFFF]) = some [0xEF, 0xBF, 0xBF] ∧
    okUnits (writeCharacters .v10 ⟨.utf8, fun _ => true⟩ [0xDC00]) = some [0xED, 0xB0, 0x80] ∧
    okUnits (writeCharacters .v10 ⟨.utf16, fun _ => true⟩ [0xD800]) = some [0xD800] ∧
    Spec.legalChar .v10 0xFFFF = false ∧ Spec.utf8Decode [0xED, 0xB0, 0x80] = none := by
  decide

/-! ## generated tables and CDATA variant -/

/-- The regenerated `s_specialChars` tables agree with the XML Recommendations on every entry:
XML 1.0 — forbidden exactly the non-`Char` code points below 0x80; `< > &` and CR/LF special in
content; additionally `"` and TAB in attributes.  XML 1.1 — nothing below 0xA0 forbidden outright,
every `RestrictedChar` (and TAB, LF, CR, NEL) written as a character reference in content. -/
theorem generated_tables_sound :
    (∀ c ∈ List.range 128, pForbidden .v10 c = !(c = 9 || c = 10 || c = 13 || decide (32 ≤ c))) ∧
    (∀ c ∈ List.range 128, pContent .v10 c = (pForbidden .v10 c || c = 10 || c = 13 || c = 60 || c = 62 || c = 38)) ∧
    (∀ c ∈ List.range 128, pAttribute .v10 c = (pContent .v10 c || c = 9 || c = 34)) ∧
    (∀ c ∈ List.range 160, pForbidden .v11 c = false) ∧
    (∀ c ∈ List.range 160, 1 ≤ c → pContent .v11 c = (decide (c < 32) || decide (127 ≤ c) || c = 60 || c = 62 || c = 38)) ∧
    (∀ c ∈ List.range 160, 1 ≤ c → pAttribute .v11 c = (pContent .v11 c || c = 34)) := by
  decide +kernel

/-- The CDATA logic read from the working tree is one of the two variants the theorems below are
about: the code as written at the pinned commit, or the code with `proposed/C04-cdata.diff` applied. -/
theorem generated_cdata_is_known_variant :
    (cdataBracketOutsideWritesOpen = false ∧ cdataReopenAtEnd = true ∧ cdataCloseOnlyIfInside = true ∧
      ∀ i ∈ List.range 6, ∀ n ∈ List.range 6, cdataGuard i n = CDataCfg.asWritten.guard i n) ∨
    (cdataBracketOutsideWritesOpen = true ∧ cdataReopenAtEnd = false ∧ cdataCloseOnlyIfInside = true ∧
      ∀ i ∈ List.range 6, ∀ n ∈ List.range 6, cdataGuard i n = CDataCfg.fixed.guard i n) := by
  decide

/-! ## CDATA: the code as written violates the property (DESIGN §6 items 17, 18) -/

def utf8Enc : Enc := ⟨.utf8, fun _ => true⟩

/-- `cdata("é")` under US-ASCII, code as written: `<![CDATA[]]>&#233;<![CDATA[` — a section is opened
at the end and never closed (the document is not well-formed).  Replayed on the real code by the
corpus of `checks/c04.py`. -/
theorem cdata_unbalanced_counterexample :
    okUnits (writeCDATA CDataCfg.asWritten .v10 asciiEnc [0xE9, 0] 1)
      = some ([60, 33, 91, 67, 68, 65, 84, 65, 91] ++ [93, 93, 62] ++ [38, 35, 50, 51, 51, 59]
              ++ [60, 33, 91, 67, 68, 65, 84, 65, 91]) := by
  decide

/-- `cdata("é]]>")` under US-ASCII, code as written: after the character reference the writer emits
`]]>` where `<![CDATA[` is needed, i.e. the forbidden sequence `]]>` in character data. -/
theorem cdata_close_outside_counterexample :
    okUnits (writeCDATA CDataCfg.asWritten .v10 asciiEnc [0xE9, 93, 93, 62, 0] 4)
      = some ([60, 33, 91, 67, 68, 65, 84, 65, 91] ++ [93, 93, 62] ++ [38, 35, 50, 51, 51, 59]
              ++ [93, 93, 62] ++ [93, 93] ++ [93, 93, 62] ++ [60, 33, 91, 67, 68, 65, 84, 65, 91] ++ [62] ++ [93, 93, 62]) := by
  decide

/-- `cdata(buf = "a]]>", length = 3)`, code as written: the unsigned guard `i - length > 2` is always
true, the look-ahead reads `buf[3]` behind `length` and the `>` that is not part of the text is
written; with the buffer ending at `length` the read is outside the array (`Err.mem`).  With the
repaired guard the text `a]]` comes out as it is. -/
theorem cdata_overread_counterexample :
    okUnits (writeCDATA CDataCfg.asWritten .v10 utf8Enc [97, 93, 93, 62] 3)
      = some ([60, 33, 91, 67, 68, 65, 84, 65, 91] ++ [97, 93, 93] ++ [93, 93, 62]
              ++ [60, 33, 91, 67, 68, 65, 84, 65, 91] ++ [62] ++ [93, 93, 62]) ∧
    errOf (writeCDATA CDataCfg.asWritten .v10 utf8Enc [97, 93, 93] 3) = some .mem ∧
    okUnits (writeCDATA CDataCfg.fixed .v10 utf8Enc [97, 93, 93, 62] 3)
      = some ([60, 33, 91, 67, 68, 65, 84, 65, 91] ++ [97, 93, 93] ++ [93, 93, 62]) ∧
    okUnits (writeCDATA CDataCfg.fixed .v10 utf8Enc [97, 93, 93] 3)
      = some ([60, 33, 91, 67, 68, 65, 84, 65, 91] ++ [97, 93, 93] ++ [93, 93, 62]) := by
  decide

/-- The repaired variant on the two failing inputs: balanced sections, no `]]>` in character data. -/
theorem cdata_fixed_on_witnesses :
    okUnits (writeCDATA CDataCfg.fixed .v10 asciiEnc [0xE9, 0] 1)
      = some ([60, 33, 91, 67, 68, 65, 84, 65, 91] ++ [93, 93, 62] ++ [38, 35, 50, 51, 51, 59]) ∧
    okUnits (writeCDATA CDataCfg.fixed .v10 asciiEnc [0xE9, 93, 93, 62, 0] 4)
      = some ([60, 33, 91, 67, 68, 65, 84, 65, 91] ++ [93, 93, 62] ++ [38, 35, 50, 51, 51, 59]
              ++ [60, 33, 91, 67, 68, 65, 84, 65, 91] ++ [93, 93] ++ [93, 93, 62]
              ++ [60, 33, 91, 67, 68, 65, 84, 65, 91] ++ [62] ++ [93, 93, 62]) := by
  decide

end XalanModel.Props.C04
