import XalanModel.C04.Model
import XalanModel.C04.Spec
import XalanModel.C04.BufferProofs
import XalanModel.C04.EncodingProofs
import XalanModel.C04.ReaderProofs
import XalanModel.C04.EscapeProofs
import XalanModel.C04.ForbiddenProofs
import XalanModel.C04.CommentPIProofs
import XalanModel.C04.CommentProofs
import XalanModel.C04.WellFormedProofs
import XalanModel.C04.TreeProofs
import XalanModel.C04.CDataTopProofs
import XalanModel.C04.IndentWsProofs
import XalanModel.C04.DocProofs
import XalanModel.C04.DocReaderProofs9
import XalanModel.C04.PrologProofs
import XalanModel.C04.IndentTextProofs
import XalanModel.C04.IndentTreeProofs
import XalanModel.C04.Transcoder
import XalanModel.C04.RawMarker
import XalanModel.C04.StreamProofs
import XalanModel.C04.OtherBulkProofs
import XalanModel.C04.BulkCheckProofs
/-!
# C04 — XML output is well-formed and parses back to exactly the result tree

Property theorems only (helpers: `XalanModel/C04/*Proofs.lean`).  The model (`XalanModel/C04/Model.lean`)
transcribes `FormatterToXMLUnicode`, the three writers and both 512-entry buffer layers; character
tables, entity strings, buffer sizes and the CDATA guard come from `Generated/C04_Tables.lean`, which
`translate/c04_tables.py` rewrites from the working tree on every run.
-/
namespace XalanModel.Props.C04
open XalanModel.C04 XalanModel.Generated.C04

def asciiEnc0 : Enc := ⟨.other, fun c => decide (c < 128), Fixes.asWritten⟩
abbrev asciiEnc : Enc := asciiEnc0

/-! ## buffers -/

/-- **buffer_transparent.** For every sequence of write items and every capacity: the chunks the
staging buffer delivers (final `flushBuffer` included) concatenate to exactly the units written, and
every chunk is the concatenation of *whole* items — no chunk boundary falls inside a multi-unit
character (UTF-8 sequence, surrogate pair, numeric character reference). -/
theorem buffer_transparent (items : List Item) (cap : Nat) (s' : Sink)
    (h : Sink.run items (Sink.empty cap) = some s') :
    s'.flush.chunks.flatten = unitsOf items ∧
    ∃ groups : List (List Item), groups.flatten = items ∧ s'.flush.chunks = groups.map unitsOf := by
  have he : (SinkI.mk cap [] [] true).erase = Sink.empty cap := rfl
  rw [← he, ← SinkI.erase_run] at h
  cases hr : SinkI.run items ⟨cap, [], [], true⟩ with
  | none => simp [hr] at h
  | some si =>
    simp only [hr, Option.map_some, Option.some.injEq] at h
    subst h
    obtain ⟨hall, _⟩ := SinkI.run_all items _ si rfl hr
    have hg : si.flush.chunks.flatten = items := by
      have : si.flush.chunks.flatten = si.all := by simp [SinkI.flush, SinkI.all]
      rw [this, hall]; simp [SinkI.all]
    have hc : si.erase.flush.chunks = si.flush.chunks.map unitsOf := by
      rw [← SinkI.erase_flush]; rfl
    refine ⟨?_, si.flush.chunks, hg, hc⟩
    rw [hc, ← hg, unitsOf_flatten]

example : Sink.run [.one 1, .atom [2, 3], .one 4, .bulk [5, 6, 7, 8], .one 9] (Sink.empty 3)
    = some ⟨3, [[1, 2, 3], [4], [5, 6, 7, 8]], [9], true⟩ := by decide

/-- **buffer_in_bounds.** With a non-zero capacity and every atomic store no longer than the capacity
(the serializer's atoms are 2–4 UTF-8 bytes, a surrogate pair, or `&#N;` with N ≤ 1114111: at most
10 units against 512), no store ever runs past the array (`Sink.store` never fails) and the buffer
position never exceeds the capacity. -/
theorem buffer_in_bounds (items : List Item) (cap : Nat) (hcap : 0 < cap)
    (hatom : ∀ us, Item.atom us ∈ items → us.length ≤ cap) :
    ∃ s', Sink.run items (Sink.empty cap) = some s' ∧ s'.buf.length ≤ s'.cap := by
  obtain ⟨si, hr, hi⟩ := SinkI.run_ok items ⟨cap, [], [], true⟩ (by simp [SinkI.Inv, unitsOf]) hcap hatom
  refine ⟨si.erase, ?_, hi⟩
  have he : (SinkI.mk cap [] [] true).erase = Sink.empty cap := rfl
  rw [← he, ← SinkI.erase_run, hr]; rfl

example : (0 : Nat) < 512 ∧ ∀ us, Item.atom us ∈ [Item.one 60, .atom [0xC3, 0xA9], .bulk [1, 2]] → us.length ≤ 512 := by
  refine ⟨by decide, ?_⟩
  intro us h; simp at h; subst h; decide

/-- the hold-back condition of `XalanOutputStream::flushBuffer(bool)` read term by term from the source is the intended
one: asked to hold back, a transcoder in use, last unit a leading surrogate — and nothing else -/
theorem generated_stream_holdback : streamHoldBack = holdIntended := by
  funext hold a last n c; rfl

/-- **stream_concat.** `XalanOutputStream`'s buffer as the working tree has it (hold-back included; the buffer may hold
`cap + 1` units): for every sequence of runs written and the final `flush()`, the transcoder calls concatenate to exactly
the runs, in order. -/
theorem stream_concat (asUTF16 : Bool) (ws : List (List Nat)) :
    (streamRun (StreamCfg.generated asUTF16) ws).flatten = ws.flatten :=
  streamRun_flatten (StreamCfg.generated asUTF16) (show bulkFlushStream = true by decide) (by intro a l n c; rw [show (StreamCfg.generated asUTF16).hb = streamHoldBack from rfl, generated_stream_holdback]; rfl) ws

/-- **stream_no_split_pair.** With the intended hold-back, for every buffer size and every sequence of runs whose
concatenation is well-formed UTF-16 (no leading surrogate followed by another, none at the very end, every trailing
surrogate directly after a leading one) — however the runs cut it, in particular between the halves of a pair, as the
legacy `FormatterToXML` does: every transcoder call is non-empty, does not end with a leading surrogate and does not
start with a trailing one. -/
theorem stream_no_split_pair (cap : Nat) (ws : List (List Nat))
    (h1 : noAdj ws.flatten = true) (h2 : endOk ws.flatten = true) (h3 : okTrail false ws.flatten = true) :
    ∀ c ∈ streamRun (StreamCfg.intended cap false) ws, c ≠ [] ∧ endOk c = true ∧ startOk c = true := by
  have hc := streamRun_chunks_ok cap ws h1 h2
  have hf := streamRun_flatten (StreamCfg.intended cap false) rfl (by intro a l n c; rfl) ws
  intro c hmem
  exact ⟨(hc c hmem).1, (hc c hmem).2, chunks_start_ok _ hc false (by rw [hf]; exact h3) rfl c hmem⟩

/-- the working tree's stream is the intended one (so `stream_no_split_pair` is about the code) -/
theorem generated_stream_is_intended (asUTF16 : Bool) :
    StreamCfg.generated asUTF16 = StreamCfg.intended streamBufferSize asUTF16 := by
  simp only [StreamCfg.generated, StreamCfg.intended, generated_stream_holdback]
  congr

/-- why the hold-back must not depend on the fill level: a buffer of 4, pairs `H L` four units apart.  After the first
hold-back the buffer holds 5 units and ends with `H` again; a condition `… && size ≤ cap` lets that `H` go to the
transcoder alone -/
theorem stream_holdback_counterexample :
    streamRun ⟨4, false, true, fun hold a last n c => holdIntended hold a last n c && decide (n ≤ c)⟩
        [[97, 97, 97, 0xD800], [0xDC00, 97, 97, 0xD800], [0xDC00, 97]]
      = [[97, 97, 97], [0xD800, 0xDC00, 97, 97, 0xD800], [0xDC00, 97]] ∧
    streamRun (StreamCfg.intended 4 false) [[97, 97, 97, 0xD800], [0xDC00, 97, 97, 0xD800], [0xDC00, 97]]
      = [[97, 97, 97], [0xD800, 0xDC00, 97, 97], [0xD800, 0xDC00, 97]] := by
  decide

/-- the flags the translator read from the bulk `write(chars, n)` of `XalanUTF8Writer` / `XalanUTF16Writer`
(`flushBuffer()` in front of `m_writer.write(theChars, 0, theLength)`) and from `XalanOutputStream::write`
(direct write only with an empty buffer) -/
theorem generated_bulk_flushes : bulkFlushUTF8 = true ∧ bulkFlushUTF16 = true ∧ bulkFlushStream = true := by decide

/-- **output_is_concatenation_of_writes** (refinement of both buffer layers, as the working tree has them, to the
unbuffered specification).  For every writer, every sequence of write calls of every kind — single units, atomic
multi-unit stores, bulk `write(chars, n)` of *every* length (fits / needs a flush, then fits / longer than the buffer:
flush + direct write), `flushIfFull` — and the final `flushBuffer`: the units handed to the transcoder (through the
writer's 512-entry buffer and `XalanOutputStream`'s buffer with its hold-back, both with the shapes the translator read) are
exactly the units of all write calls in call order; no call's units overtake an earlier call's. -/
theorem output_is_concatenation_of_writes (k : WK) (items : List Item) (wc : List (List Nat)) (asUTF16 : Bool)
    (h1 : writerChunks k items = .ok wc) :
    wc.flatten = unitsOf items ∧ (streamRun (StreamCfg.generated asUTF16) wc).flatten = unitsOf items := by
  obtain ⟨g8, g16, _⟩ := generated_bulk_flushes
  have hk : bulkFlush k = true := by cases k <;> simp [bulkFlush, g8, g16]
  have hw : wc.flatten = unitsOf items := by
    unfold writerChunks at h1
    rw [hk] at h1
    have he : Sink.emptyF (bufferSize k) true = Sink.empty (bufferSize k) := rfl
    rw [he] at h1
    cases hr : Sink.run items (Sink.empty (bufferSize k)) with
    | none => simp [hr] at h1
    | some s' =>
      simp only [hr, Except.ok.injEq] at h1
      subst h1
      exact (buffer_transparent items _ s' hr).1
  exact ⟨hw, by rw [stream_concat, hw]⟩

/-- why the flush matters: without it (`fbd = false`) a run longer than the buffer is delivered *ahead* of what is
still buffered — one unit, then a 4-unit run, capacity 3: the run comes out first -/
theorem bulk_without_flush_counterexample :
    (Sink.run [.one 1, .bulk [2, 3, 4, 5]] (Sink.emptyF 3 false)).map (fun s => s.flush.chunks) = some [[2, 3, 4, 5], [1]] ∧
    (Sink.run [.one 1, .bulk [2, 3, 4, 5]] (Sink.emptyF 3 true)).map (fun s => s.flush.chunks) = some [[1], [2, 3, 4, 5], []] := by
  decide

/-! ## the transcoder behind the stream (stateful encodings) -/

/-- **transcoding_chunked_eq_oneshot.** For every converter (any shift-state type, any step function), every sequence
of `transcode(chunk)` calls with any number of `canTranscodeTo` probes anywhere in between, and every starting state:
if the probes do not touch the converter's shift state — because they are answered by another converter object
(`own = true`) or because this converter's probe is pure — the bytes written and the final state are those of one
`transcode` call on the whole document.  Chunk boundaries (the 512-unit buffers) are then invisible in the bytes. -/
theorem transcoding_chunked_eq_oneshot {σ : Type} (t : Transcoder σ) (own : Bool)
    (h : own = true ∨ ∀ s c, t.probe s c = s) (ops : List TOp) (s : σ) :
    t.runOps own s ops = t.run s (TOp.units ops) :=
  Transcoder.runOps_eq_run t own h ops s

/-- the working tree: if `XalanOutputStream::canTranscodeTo` asks a transcoder of its own (flag read by the translator),
chunked transcoding equals one-shot transcoding for every converter, whatever its probe does -/
theorem generated_probe_isolation (hp : probeOwnTranscoder = true) {σ : Type} (t : Transcoder σ) (ops : List TOp) (s : σ) :
    t.runOps probeOwnTranscoder s ops = t.run s (TOp.units ops) :=
  Transcoder.runOps_eq_run t _ (Or.inl hp) ops s

/-- **probe_shared_converter_counterexample.** When the probe is answered by the converter that writes the document
and leaves it reset (what Xerces' `ICUTranscoder::canTranscodeTo` does: `ucnv_fromUnicode(…, flush = true)` on the one
converter), a two-state ISO-2022 style converter loses the escape sequence that returns to ASCII: a chunk ending in
kana, a probe, a chunk starting with `b` — the `b` is written without `ESC ( B` and a decoder reads it in kana mode.
With a converter of its own for the probe the bytes are those of the one-shot conversion. -/
theorem probe_shared_converter_counterexample :
    (iso2022.runOps false .ascii [.chunk [0x30A2], .probe 98, .chunk [98]]).2 = [27, 36, 66, 48, 34, 98] ∧
    (iso2022.runOps true .ascii [.chunk [0x30A2], .probe 98, .chunk [98]]).2 = [27, 36, 66, 48, 34, 27, 40, 66, 98] ∧
    (iso2022.run .ascii [0x30A2, 98]).2 = [27, 36, 66, 48, 34, 27, 40, 66, 98] := by decide

/-! ## the bulk write of the transcoding writer (raw text, DOCTYPE strings) -/

/-- **other_bulk_pair_aware.** `XalanOtherEncodingWriter::write(const XalanDOMChar*, n)` going through the positional
write (the repaired form; `otherBulkPairAware`): for every encoding whose predicate covers ASCII and every sequence of
Unicode scalar values, the UTF-16 form is written without error as — character by character — the character itself
when the encoding has it, one numeric character reference for it otherwise; a supplementary character is one character. -/
theorem other_bulk_pair_aware (e : Enc) (hk : e.kind = .other) (ha : AsciiOk e) (cs : List Nat) (hs : ∀ c ∈ cs, Spec.IsScalar c) :
    ∃ it, otherBulkLoop e (Spec.utf16Encode cs) false = .ok it ∧ unitsOf it = Spec.encodeOut .other (rawOther e cs) :=
  otherBulkLoop_enc e hk ha cs hs

/-- **other_bulk_unitwise_counterexample.** The loop as written before the repair (`write(theChars[i])` for every UTF-16
unit): U+1F600 under US-ASCII comes out as `&#55357;&#56832;` — two references to surrogate code points, which the
reader (like every XML parser) rejects — where the pair-aware loop writes `&#128512;`, which reads back as U+1F600. -/
theorem other_bulk_unitwise_counterexample :
    unitsOf (otherBulkUnits asciiEnc [0xD83D, 0xDE00]) = [38, 35, 53, 53, 51, 53, 55, 59, 38, 35, 53, 54, 56, 51, 50, 59] ∧
    Spec.readAll .v10 false (unitsOf (otherBulkUnits asciiEnc [0xD83D, 0xDE00])) = none ∧
    (otherBulkLoop asciiEnc [0xD83D, 0xDE00] false).toOption.map unitsOf = some [38, 35, 49, 50, 56, 53, 49, 50, 59] ∧
    Spec.readAll .v10 false [38, 35, 49, 50, 56, 53, 49, 50, 59] = some [0x1F600] := by
  decide +kernel

/-- **bulk_output_implies_wellformed** (the repair of `proposed/C04-r8`: `throwIfNotCharacters` in front of the bulk
writes).  With the check present, for every writer and *every* code-unit string: if a name / PI target (`wName`) or
unescaped text (`wRaw`) is written at all, the string was well-formed UTF-16 and contained none of U+0000, U+FFFE,
U+FFFF — the same guarantee `content_output_implies_wellformed` gives for the positional paths. -/
theorem bulk_output_implies_wellformed (e : Enc) (hf : e.fx.bulkCheck = true) (us : List Nat) (items : List Item)
    (h : wName e us = .ok items ∨ wRaw e us = .ok items) :
    wf16 us = true ∧ ∀ c ∈ us, c ≠ 0 ∧ c < 0xFFFE :=
  bulk_output_wf e hf us items h

/-- the check never refuses the UTF-16 form of XML characters (so the round-trip theorems hold with and without it) -/
theorem bulk_check_accepts_legal (ver : Ver) (e : Enc) (n : List Nat) (hn : ∀ c ∈ n, Spec.legalChar ver c = true) :
    checkBulk e (Spec.utf16Encode n) = .ok () :=
  checkBulk_legal ver e n hn

/-- **bulk_unchecked_counterexample** (C08's `C08-bulk-path-non-characters`): without the check a lone low surrogate is
written as an element name by the UTF-8 and the UTF-16 writer, U+FFFF as unescaped text; with it they are errors and a
proper pair still passes. -/
theorem bulk_unchecked_counterexample :
    okUnits (wName ⟨.utf16, fun _ => true, Fixes.asWritten⟩ [97, 0xDC00]) = some [97, 0xDC00] ∧
    okUnits (wName ⟨.utf8, fun _ => true, Fixes.asWritten⟩ [0xDC00]) = some [0xED, 0xB0, 0x80] ∧
    okUnits (wRaw ⟨.utf16, fun _ => true, Fixes.asWritten⟩ [0xFFFF]) = some [0xFFFF] ∧
    errOf (wName ⟨.utf16, fun _ => true, Fixes.all⟩ [97, 0xDC00]) = some .surrogate ∧
    errOf (wName ⟨.utf8, fun _ => true, Fixes.all⟩ [0xD800]) = some .surrogate ∧
    errOf (wRaw ⟨.utf16, fun _ => true, Fixes.all⟩ [0xFFFF]) = some .forbidden ∧
    okUnits (wName ⟨.utf16, fun _ => true, Fixes.all⟩ [0xD835, 0xDCB3]) = some [0xD835, 0xDCB3] := by
  decide

/-! ## the raw-text marker -/

/-- both `characters()` and `cdata()` of the working tree clear `m_nextIsRaw` when they honour it -/
theorem generated_raw_resets : RawCfg.generated = RawCfg.intended := by decide

/-- **raw_only_after_marker.** An event sequence without the marker PI is acted on as it is (no text is ever written
unescaped by itself), for every variant of the reset logic. -/
theorem raw_only_after_marker (k : RawCfg) (evs : List Event) (h : ∀ ev ∈ evs, ev.isMarker = false) :
    resolveRaw k false evs = evs :=
  resolveRaw_no_marker k evs h

/-- **raw_marker_used_once.** With the resets in place: whatever the flag was, after a non-empty `characters` or `cdata`
event it is clear — the event itself is raw exactly when the flag was set, and everything after it (containing no
further marker) is acted on unchanged, i.e. escaped by `writeCharacters` / `writeCDATA` (`content_roundtrip`,
`cdata_roundtrip`).  "Every text event not preceded by the marker round-trips." -/
theorem raw_marker_used_once (f : Bool) (buf : List Nat) (len : Nat) (hl : len ≠ 0) (rest : List Event)
    (h : ∀ ev ∈ rest, ev.isMarker = false) :
    resolveRaw RawCfg.intended f (.characters buf len :: rest) =
      (if f then .charactersRaw (buf.take len) else .characters buf len) :: rest ∧
    resolveRaw RawCfg.intended f (.cdata buf len :: rest) =
      (if f then .charactersRaw (buf.take len) else .cdata buf len) :: rest :=
  resolveRaw_text_clears f buf len hl rest h

/-- without the reset in `cdata()` the marker leaks: marker, CDATA `x`, then the ordinary text `<` — the `<` is written
unescaped as well -/
theorem raw_flag_not_reset_counterexample :
    resolveRaw ⟨true, false⟩ false [.pi rawMarkerTarget rawMarkerData, .cdata [120, 0] 1, .characters [60, 0] 1]
      = [.charactersRaw [120], .charactersRaw [60]] ∧
    resolveRaw RawCfg.intended false [.pi rawMarkerTarget rawMarkerData, .cdata [120, 0] 1, .characters [60, 0] 1]
      = [.charactersRaw [120], .characters [60, 0] 1] := by
  constructor <;> simp [resolveRaw, isRawMarker, RawCfg.intended]

/-! ## the maximum literal character of the legacy serializer -/

/-- `XalanTranscodingServices::getMaximumCharacterValue(encoding)` on upper-case names -/
def maxCharOf (name : String) : Nat :=
  match maxCharTable.find? (fun p => p.1 == name) with
  | some p => p.2
  | none => maxCharDefault

/-- is every scalar value up to `getMaximumCharacterValue(name)` representable in the encoding (by the repertoire the
translator computed with an independent codec)? -/
def maxCharSound (p : String × Nat) : Bool := decide (maxCharOf p.1 < p.2)

/-- **max_char_within_repertoire.** For every encoding of the repertoire table (US-ASCII, UTF-8/16/32, KOI8-R,
ISO-8859-1…16, windows-1250…1258) except Shift_JIS: the value below which `FormatterToXML` / `FormatterToHTML` hand
characters to the transcoder unescaped is smaller than the first scalar value the encoding cannot represent. -/
theorem max_char_within_repertoire :
    (firstUnrepresentable.filter (fun p => p.1 != "SHIFT_JIS")).all maxCharSound = true := by decide

/-- Shift_JIS is listed with 0xFFFF although U+0080 is already unrepresentable (known finding) -/
theorem max_char_shift_jis_counterexample :
    maxCharOf "SHIFT_JIS" = 65535 ∧ firstUnrepresentable.find? (fun p => p.1 == "SHIFT_JIS") = some ("SHIFT_JIS", 128) := by
  decide

/-! ## encodings -/

/-- **utf8_roundtrip.** For every sequence of Unicode scalar values: its UTF-16 encoding, written by
`XalanUTF8Writer::write(const XalanDOMChar*, n)` (surrogate decoding + `write(XalanUnicodeChar)`),
never raises an error and yields bytes that the strict UTF-8 decoder of the specification reads back
as exactly that sequence. -/
theorem utf8_roundtrip (cs : List Nat) (h : ∀ c ∈ cs, Spec.IsScalar c) :
    ∃ items, utf8Units (Spec.utf16Encode cs) = .ok items ∧ Spec.utf8Decode (unitsOf items) = some cs :=
  utf8Units_roundtrip cs h

example : Spec.IsScalar 0x1D4B3 ∧ Spec.IsScalar 0xE9 ∧ Spec.IsScalar 0x20AC ∧ Spec.IsScalar 0x3C := by decide

/-- **utf16_roundtrip.** The writers' surrogate handling (`decodeHead`: `isUTF16HighSurrogate`, the
`start + 1 >= length` test, `decodeUTF16SurrogatePair`) inverts UTF-16 encoding for every scalar value:
a BMP scalar is returned as it is with one unit consumed, a supplementary one from its pair with two. -/
theorem utf16_roundtrip (c : Nat) (rest : List Nat) (h : Spec.IsScalar c) :
    (c < 0x10000 → Spec.utf16EncodeOne c = [c] ∧ decodeHead c rest = .ok (c, false)) ∧
    (0x10000 ≤ c → Spec.utf16EncodeOne c = [0xD800 + (c - 0x10000) / 1024, 0xDC00 + (c - 0x10000) % 1024] ∧
      decodeHead (0xD800 + (c - 0x10000) / 1024) ((0xDC00 + (c - 0x10000) % 1024) :: rest) = .ok (c, true)) :=
  decodeHead_utf16Encode c rest h

/-! ## escaping: content and attribute values read back -/

/-- **content_roundtrip.** For every XML version, every writer family (UTF-8, UTF-16, other encoding
with *any* representability predicate that covers ASCII) and every sequence `cs` of characters that
are XML `Char`s of that version — including `< & > " TAB CR LF`, `]]>`, supplementary characters and
characters the encoding cannot represent — and whichever of the optional repairs (`Fixes`) are present
(`hcons`: the non-character check is never present without the pair-consuming UTF-16 writer) —: `writeCharacters` on the UTF-16 form of `cs` raises no
error, its code units decode (strict UTF-8 / UTF-16 decoder) to a character sequence `out`, and the
XML reader (§2.4/§2.11/§4.1: predefined entities, decimal character references with the Legal
Character constraint, line-end normalisation) reads `out` back as exactly `cs`. -/
theorem content_roundtrip (ver : Ver) (e : Enc) (ha : AsciiOk e)
    (hcons : e.fx.rejectNonChar = true → e.fx.utf16Pairs = true) (cs : List Nat)
    (hl : ∀ c ∈ cs, Spec.legalChar ver c = true) :
    ∃ items out, writeCharacters ver e (Spec.utf16Encode cs) = .ok items ∧
      Spec.decodeOut e.kind (unitsOf items) = some out ∧ Spec.readAll ver false out = some cs :=
  esc_roundtrip ver e ha false (pContent ver) (writeDefaultEscape ver e) (fun _ => by simp)
    (fun c hle hs hlc => escape_content ver e ha c hle hs hlc) hcons cs hl

/-- **attr_roundtrip.** The same for `writeAttrString`, read back with attribute-value normalisation
(§3.3.3): TAB, LF, CR and `"` survive because they are written as references. -/
theorem attr_roundtrip (ver : Ver) (e : Enc) (ha : AsciiOk e)
    (hcons : e.fx.rejectNonChar = true → e.fx.utf16Pairs = true) (cs : List Nat)
    (hl : ∀ c ∈ cs, Spec.legalChar ver c = true) :
    ∃ items out, writeAttrString ver e (Spec.utf16Encode cs) = .ok items ∧
      Spec.decodeOut e.kind (unitsOf items) = some out ∧ Spec.readAll ver true out = some cs :=
  esc_roundtrip ver e ha true (pAttribute ver) (writeDefaultAttributeEscape ver e) (fun _ => by simp)
    (fun c hle hs hlc => escape_attr ver e ha c hle hs hlc) hcons cs hl

/-- the hypotheses are satisfiable by a non-trivial string under a restricted encoding, and the theorem's
conclusion can be computed on it: `a<&>"\t\r\n]]>é€𝒳` under US-ASCII, XML 1.0 and 1.1 -/
example : AsciiOk asciiEnc0 ∧
    (∀ c ∈ [97, 60, 38, 62, 34, 9, 13, 10, 93, 93, 62, 0xE9, 0x20AC, 0x1D4B3], Spec.legalChar .v10 c = true) ∧
    ((writeCharacters .v10 asciiEnc0 (Spec.utf16Encode [60, 13, 0xE9, 0x1D4B3])).toOption.map unitsOf
      = some [38, 108, 116, 59, 38, 35, 49, 51, 59, 38, 35, 50, 51, 51, 59, 38, 35, 49, 49, 57, 57, 56, 55, 59]) := by
  refine ⟨fun c hc => by simp [asciiEnc0]; exact hc, by decide, by decide⟩

/-- **content_forbidden_is_error.** For *every* code-unit string (well-formed or not), every writer and
version: if it contains a character the table marks forbidden (XML 1.0: every C0 control except TAB, LF,
CR), `writeCharacters` ends in an error — no output is produced for it, whatever comes before or after. -/
theorem content_forbidden_is_error (ver : Ver) (e : Enc) (s : List Nat)
    (h : ∃ c ∈ s, pForbidden ver c = true) : ∃ er, writeCharacters ver e s = .error er :=
  escLoop_forbidden ver e (pContent ver) (writeDefaultEscape ver e)
    (fun c hc => (forbidden_content_special ver c hc).1) (fun c hc => escape_content_forbidden ver e c hc)
    s false [] (fun h => by cases h) h

/-- the same for attribute values -/
theorem attr_forbidden_is_error (ver : Ver) (e : Enc) (s : List Nat)
    (h : ∃ c ∈ s, pForbidden ver c = true) : ∃ er, writeAttrString ver e s = .error er :=
  escLoop_forbidden ver e (pAttribute ver) (writeDefaultAttributeEscape ver e)
    (fun c hc => (forbidden_content_special ver c hc).2) (fun c hc => escape_attr_forbidden ver e c hc)
    s false [] (fun h => by cases h) h

example : ∃ c ∈ [97, 0xD835, 0xDCB3, 8, 98], pForbidden .v10 c = true := ⟨8, by simp, by decide⟩

/-- the optional repairs read from the working tree are consistent (the hypothesis `hcons` of the round-trip
theorems holds for the code that is there), and are either all absent or all present up to the order in
which `proposed/C04-r1…r4` are applied -/
theorem generated_fixes_consistent :
    (Fixes.generated.rejectNonChar = true → Fixes.generated.utf16Pairs = true) ∧
    (Fixes.generated.rejectNonChar = true → Fixes.generated.cdataRef = true) ∧
    (Fixes.generated.cdataRef = true → Fixes.generated.normLiteral = true) := by
  decide

/-- with the repairs (`Fixes.all`): U+FFFF, U+FFFE, an unpaired low or high surrogate are errors in every writer,
an unencodable character in a comment is an error, CR in a CDATA section is written as `]]>&#13;<![CDATA[` -/
theorem repairs_on_witnesses :
    errOf (writeCharacters .v10 ⟨.utf8, fun _ => true, Fixes.all⟩ [0xFFFF]) = some .forbidden ∧
    errOf (writeCharacters .v10 ⟨.utf8, fun _ => true, Fixes.all⟩ [97, 0xDC00]) = some .surrogate ∧
    errOf (writeCharacters .v10 ⟨.utf16, fun _ => true, Fixes.all⟩ [0xD800]) = some .surrogate ∧
    errOf (writeCharacters .v10 ⟨.utf16, fun _ => true, Fixes.all⟩ [0xD800, 97]) = some .surrogate ∧
    okUnits (writeCharacters .v10 ⟨.utf16, fun _ => true, Fixes.all⟩ [0xD835, 0xDCB3]) = some [0xD835, 0xDCB3] ∧
    errOf (writeNormalizedData .v10 ⟨.other, fun c => decide (c < 128), Fixes.all⟩ [0xE9]) = some .unrep ∧
    okUnits (writeCDATA CDataCfg.fixed .v10 ⟨.utf8, fun _ => true, Fixes.all⟩ [97, 13, 98, 0] 3)
      = some ([60, 33, 91, 67, 68, 65, 84, 65, 91] ++ [97] ++ [93, 93, 62] ++ [38, 35, 49, 51, 59]
               ++ [60, 33, 91, 67, 68, 65, 84, 65, 91] ++ [98] ++ [93, 93, 62]) := by
  decide

/-- **content_output_implies_wellformed** (the repairs of `proposed/C04-r4`). With `throwIfNotACharacter` and the
pair-consuming UTF-16 writer present, for every version and writer and *every* code-unit string: if
`writeCharacters` / `writeAttrString` produce output at all, the string was well-formed UTF-16 (`wf16`: every
high surrogate followed by a low one, no other low surrogate) and contained neither U+FFFE nor U+FFFF —
i.e. an unpaired surrogate or a non-character anywhere always ends in an error, never in output.
(`content_nonchar_counterexample` shows this fails for the code as written.) -/
theorem content_output_implies_wellformed (ver : Ver) (e : Enc)
    (hf : e.fx.rejectNonChar = true) (hp : e.fx.utf16Pairs = true) (s : List Nat) (items : List Item)
    (h : writeCharacters ver e s = .ok items ∨ writeAttrString ver e s = .ok items) :
    wf16 s = true ∧ ∀ c ∈ s, c < 0xFFFE := by
  rcases h with h | h
  · exact (escLoop_wf ver e hf hp _ _ s false [] items h).1 rfl
  · exact (escLoop_wf ver e hf hp _ _ s false [] items h).1 rfl

example : Fixes.all.rejectNonChar = true ∧ Fixes.all.utf16Pairs = true ∧
    wf16 [97, 0xD835, 0xDCB3] = true ∧ wf16 [0xDCB3, 0xD835] = false ∧ wf16 [0xD835] = false := by decide

/-- **content_nonchar_counterexample** (known finding `C04-noncharacter-not-rejected`,
`C04-lone-surrogate-not-rejected`): the hypothesis `legalChar` of `content_roundtrip` cannot be dropped in
favour of "the serializer reports an error": U+FFFF and an unpaired low surrogate are written, not rejected. -/
theorem content_nonchar_counterexample :
    okUnits (writeCharacters .v10 ⟨.utf8, fun _ => true, Fixes.asWritten⟩ [0xFFFF]) = some [0xEF, 0xBF, 0xBF] ∧
    okUnits (writeCharacters .v10 ⟨.utf8, fun _ => true, Fixes.asWritten⟩ [0xDC00]) = some [0xED, 0xB0, 0x80] ∧
    okUnits (writeCharacters .v10 ⟨.utf16, fun _ => true, Fixes.asWritten⟩ [0xD800]) = some [0xD800] ∧
    Spec.legalChar .v10 0xFFFF = false ∧ Spec.utf8Decode [0xED, 0xB0, 0x80] = none := by
  decide

/-! ## comments and processing instructions -/

/-- **comment_roundtrip** (also the data of a processing instruction). For every version, writer family and
set of repairs: data made of characters that may stand literally in a comment / PI (`LiteralOk`: an XML `Char`,
not CR, not one the table wants as a character reference, under XML 1.1 not NEL/LSEP, representable in the
encoding) is written by `writeNormalizedData` without error, and the code units decode to exactly the data —
a comment has no escapes, so what the parser reports is what was written (LF stays LF). -/
theorem comment_roundtrip (ver : Ver) (e : Enc) (ha : AsciiOk e)
    (hcons : e.fx.rejectNonChar = true → e.fx.utf16Pairs = true)
    (data : List Nat) (hl : ∀ c ∈ data, LiteralOk ver e c) :
    ∃ items, writeNormalizedData ver e (Spec.utf16Encode data) = .ok items ∧
      Spec.decodeOut e.kind (unitsOf items) = some data := by
  obtain ⟨items, h1, h2⟩ := normLoop_identity ver e ha hcons data hl
  refine ⟨items, h1, ?_⟩
  rw [h2]
  exact decodeOut_encodeOut e.kind data (fun c hc => legal_scalar ver c (hl c hc).1)

example : ∀ c ∈ [97, 10, 60, 38, 0xE9, 0x1D4B3], LiteralOk .v10 ⟨.utf8, fun _ => true, Fixes.asWritten⟩ c := by
  intro c hc
  simp at hc
  rcases hc with h | h | h | h | h | h <;> subst h <;> exact ⟨by decide, by decide, by decide, by decide, rfl⟩

/-- **comment_repair_wellformed.** `ElemComment::endElement` / `childrenToResultComment`: for every string the
repaired data contains no `--`, does not end in `-`, contains the original as a subsequence (only spaces are
added), and data that was already fine is left alone. -/
theorem comment_repair_wellformed (s : List Nat) :
    hasDD (repairComment s) = false ∧ endsHyphen (repairComment s) = false ∧
    List.Sublist s (repairComment s) ∧
    (hasDD s = false → endsHyphen s = false → repairComment s = s) :=
  ⟨repairComment_noDD s, repairComment_noTrailingHyphen s, repairComment_sublist s, repairComment_id s⟩

/-- **pi_repair_wellformed.** `ElemPI::endElement` / `childrenToResultPI`: the repaired data never contains `?>`. -/
theorem pi_repair_wellformed (s : List Nat) : hasPIEnd (repairPI s) = false :=
  repairPI_noEnd s.length s (Nat.le_refl _)

example : repairComment [45, 45, 45, 97, 45] = [45, 32, 45, 32, 45, 97, 45, 32] ∧
    repairPI [63, 62, 63, 63, 62] = [63, 32, 62, 63, 63, 32, 62] := by decide

/-! ## documents -/

/-- **document_structure** (`document_roundtrip`, structural part; `_partial` in the sense below). For every
configuration and every result tree `t` (elements with attributes — namespace declarations are attributes at
this level —, text, CDATA, comments, PIs, nested to any depth): feeding the SAX events of `t` to the
event-driven serializer (element stack `m_elemStack`, the start tag's `>` deferred by `writeParentTagEnd`
until the first child that writes something, `/>` when no child wrote anything) produces exactly the items of
the recursive definition `serNode`: `<n attrs/>` if every child is empty character data, otherwise
`<n attrs>` children `</n>` — including which error is raised when a leaf fails. With `content_roundtrip`,
`attr_roundtrip`, `cdata_roundtrip`, `comment_roundtrip` for the leaves this is the whole document except (not proved):
a reader for the tag syntax itself (names, `="…"` delimiters).  The prolog is `writeXMLHeader` (XML declaration unless
omitted and no standalone; standalone pseudo-attribute; line break before a DOCTYPE) and `rootDoctype`: the
`<!DOCTYPE name PUBLIC "…" "…">` / `SYSTEM` declaration generated by the first start tag when a system identifier is set;
an XHTML public identifier makes empty elements end in ` />`. -/
theorem document_structure (c : Cfg) (t : XNode) :
    serializeItems c (events t) =
      (writeXMLHeader c).bind fun h => (rootDoctype c t).bind fun d => (serNode c t).bind fun a => pure (h ++ d ++ a) := by
  have hn := node_ok c t [] []
  simp only [List.append_nil] at hn
  have hr : runEvents c (events t) [] = (serNode c t).bind fun a => pure a := by
    rw [hn]
    cases serNode c t with
    | error e => rfl
    | ok a => cases hq : silent t <;> simp [pteOf, hq, parentTagEnd, runEvents, Except.bind, pure, Except.pure]
  have hd : runEventsD c (events t) = (rootDoctype c t).bind fun d => (runEvents c (events t) []).bind fun r => pure (d ++ r) := by
    cases t with
    | elem n a kids => simp only [events, runEventsD, rootDoctype, bind]
    | text s =>
      simp only [events, runEventsD, runEvents, rootDoctype, bind, Except.bind, pure, Except.pure]
      cases stepEvent c [] (Event.characters (s ++ [0]) s.length) <;> simp
    | cdata s =>
      simp only [events, runEventsD, runEvents, rootDoctype, bind, Except.bind, pure, Except.pure]
      cases stepEvent c [] (Event.cdata (s ++ [0]) s.length) <;> simp
    | comment s =>
      simp only [events, runEventsD, runEvents, rootDoctype, bind, Except.bind, pure, Except.pure]
      cases stepEvent c [] (Event.comment s) <;> simp
    | pi tg d =>
      simp only [events, runEventsD, runEvents, rootDoctype, bind, Except.bind, pure, Except.pure]
      cases stepEvent c [] (Event.pi tg d) <;> simp
  unfold serializeItems
  simp only [bind, Except.bind]
  cases writeXMLHeader c with
  | error e => rfl
  | ok h =>
    simp only [hd, hr, Except.bind]
    cases rootDoctype c t with
    | error e => rfl
    | ok d =>
      simp only
      cases serNode c t with
      | error e => rfl
      | ok a => simp [Except.bind, pure, Except.pure]

example : events (.elem [114] [([107], [34])] [.text [], .elem [97] [] [.text [60]], .comment [120]])
    = [.startElement [114] [([107], [34])], .characters [0] 0, .startElement [97] [], .characters [60, 0] 1,
       .endElement [97], .comment [120], .endElement [114]] := by
  simp [events, eventsL]

/-! ## indent="yes" (`XalanIndentWriter`) -/

/-- **indent_off_same.** With indentation off (`XalanDummyIndentWriter`) the model with the indent state is the
model without it, for every configuration and event sequence — every theorem of this file about `serializeItems`
is a theorem about the `doIndent == false` instances of `FormatterToXMLUnicode`. -/
theorem indent_off_same (c : Cfg) (amount : Nat) (evs : List Event) :
    serializeItemsI c false amount evs = serializeItems c evs :=
  serializeItemsI_off c amount evs

/-- **indent_only_inserts_whitespace** (`_partial`: the erasure half of "round trip modulo inserted whitespace").
For every configuration, indent amount and event sequence: the indenting serializer fails exactly when the plain
one fails (same error), and otherwise its output is the plain output with line feeds and spaces *inserted*
(`InsertsWs`: nothing else changed, removed or reordered).  `indent_never_after_text` says where: never directly
after character data (`m_isprevtext`) and never inside an element that already has character data
(`m_ispreserve`).  Not proved here: that the inserted blocks always fall between two markup constructs of the
re-parsed tree (needs the document reader); the check evaluates exactly that on the real output
(`equal_modulo_indent`). -/
theorem indent_only_inserts_whitespace (c : Cfg) (ha : AsciiOk c.enc) (on : Bool) (amount : Nat) (evs : List Event) :
    AgreeOut (serializeItemsI c on amount evs) (serializeItems c evs) :=
  serializeItemsI_ws c ha on amount evs

/-- what `indent()` writes: line feeds and spaces only; nothing after text or in text-bearing content -/
theorem indent_never_after_text (e : Enc) (ha : AsciiOk e) (s : IndSt) :
    ∃ it, indentItems e s = .ok it ∧ (∀ u ∈ unitsOf it, u = 10 ∨ u = 32) ∧
      ((s.isprevtext = true ∨ s.ispreserve = true ∨ s.on = false) → it = []) :=
  indentItems_ws e ha s

/-- Indentation is a SAX filter.  `decorEvents` is a pure function of the event sequence (it tracks only the
`XalanIndentWriter` state and the element stack, `nextSt`) that puts an explicit `characters` event carrying the
line feed and spaces (`wsBefore`) in front of a start tag, an end tag of an element with content, a comment or a PI.
For every configuration and every event sequence on which the indenting serializer succeeds, the plain serializer
succeeds on the filtered sequence and writes the same code units, unit for unit; the only difference is what
`endDocument` appends after the last event (`endWs`: the final line break, after the root element).  So everything
indentation adds inside the document is character data of the SAX stream, never part of a tag, comment, PI or CDATA
section. -/
theorem indent_is_whitespace_text (c : Cfg) (H : DocHyp c) (evs : List Event) (st : List Bool) (s : IndSt) (items : List Item)
    (h : runEventsI c evs st s = .ok items) :
    ∃ items', runEvents c (decorEvents evs st s) st = .ok items' ∧ unitsOf items = unitsOf items' ++ endWs evs st s :=
  runEventsI_filter c H evs st s items h

/-- The same on trees: the filtered events of a tree are the events of the *decorated* tree (`decorNode`: whitespace-only
text nodes in front of element / comment / PI children and as last child in front of an end tag), and erasing
whitespace-only text children (`dropWs`) from the decorated tree gives the same as erasing them from the tree itself:
nothing but whitespace-only text children is added, nothing is removed or reordered. -/
theorem indent_tree_decoration (t : XNode) (st : List Bool) (s : IndSt) :
    decorEvents (events t) st s = eventsL (decorNode st s t).1 ∧ dropWsL (decorNode st s t).1 = dropWsL [t] := by
  have h := decor_events t st s []
  simp only [List.append_nil, decorEvents] at h
  exact ⟨h, decor_dropWs t st s⟩

/-- Tree-level indent erasure (`indent="yes"`, any indent amount).  For every document element `t` that satisfies the
hypotheses of `document_roundtrip`: the indenting serializer succeeds on the UTF-16 form of `t`; its code units decode
strictly to `out ++ trail`, where `trail` (`endWs`) is the line break `endDocument` writes after the root element; the
document reader reads `out` back as exactly `t'`, the decorated tree; `t'` is `t` with whitespace-only text children
added and nothing else changed (`dropWs t' = dropWs t`); and `t'` again has no two adjacent character-data children
(`RTreeOk`), i.e. no added whitespace node has a text or CDATA neighbour — existing character data is never extended.
So: parse of the indented output = the tree, modulo inserted whitespace-only text where no text neighbour exists. -/
theorem indent_tree_roundtrip (c : Cfg) (H : DocHyp c) (amount : Nat) (n : List Nat) (a : List (List Nat × List Nat))
    (kids : List XNode) (hok1 : TreeOk c.ver c.enc (.elem n a kids)) (hok2 : RTreeOk c.ver (.elem n a kids)) :
    ∃ items kids' out,
      runEventsI c (events (toUnits (.elem n a kids))) [] { on := true, amount := amount } = .ok items ∧
      (decorNode [] { on := true, amount := amount } (.elem n a kids)).1 = [.elem n a kids'] ∧
      dropWs (.elem n a kids') = dropWs (.elem n a kids) ∧
      RTreeOk c.ver (.elem n a kids') ∧
      Spec.decodeOut c.enc.kind (unitsOf items) =
        some (out ++ endWs (events (toUnits (.elem n a kids))) [] { on := true, amount := amount }) ∧
      Spec.readDoc c.ver out = some (Spec.norm (.elem n a kids')) :=
  XalanModel.C04.indent_tree_roundtrip c H amount n a kids hok1 hok2

/-- the decoration is not vacuous: `<r><a/>x<b/><c/></r>` with indent amount 1 becomes
`<r>⏎␣<a/>x<b/>⏎␣<c/>⏎</r>` — nothing next to the text `x`, whitespace children elsewhere -/
example : (decorNode [] { on := true, amount := 1 }
      (.elem [114] [] [.elem [97] [] [], .text [120], .elem [98] [] [], .elem [99] [] []])).1 =
    [.elem [114] [] [.text [10, 32], .elem [97] [] [], .text [120], .elem [98] [] [], .text [10, 32], .elem [99] [] [], .text [10]]] := by
  rfl

example : InsertsWs [60, 114, 62, 10, 32, 60, 97, 47, 62, 10, 60, 47, 114, 62, 10] [60, 114, 62, 60, 97, 47, 62, 60, 47, 114, 62] := by
  refine .keep _ (.keep _ (.keep _ (.ins _ (Or.inl rfl) (.ins _ (Or.inr rfl) (.keep _ (.keep _ (.keep _ (.keep _
    (.ins _ (Or.inl rfl) (.keep _ (.keep _ (.keep _ (.keep _ (.ins _ (Or.inl rfl) .nil))))))))))))))

/-! ## generated tables and CDATA variant -/

/-- The regenerated `s_specialChars` tables meet what the Recommendations require, entry by entry:
XML 1.0 — forbidden exactly the non-`Char` code points below 0x80; `< > &`, CR and LF special in content;
additionally `"` and TAB in attributes.  XML 1.1 — every `RestrictedChar` is special in content and attributes
(written as a character reference), `< > &` and CR are special in content, `"`, TAB, LF, CR in attributes, and
nothing that is a `Char` is forbidden.  (Stated so that it holds with and without `proposed/C04-r1`, which makes
TAB/LF/CR ordinary under 1.1 and NUL forbidden.) -/
theorem generated_tables_sound :
    (∀ c ∈ List.range 128, pForbidden .v10 c = !(c = 9 || c = 10 || c = 13 || decide (32 ≤ c))) ∧
    (∀ c ∈ List.range 128, pContent .v10 c = (pForbidden .v10 c || c = 10 || c = 13 || c = 60 || c = 62 || c = 38)) ∧
    (∀ c ∈ List.range 128, pAttribute .v10 c = (pContent .v10 c || c = 9 || c = 34)) ∧
    (∀ c ∈ List.range 160, 1 ≤ c → pForbidden .v11 c = false) ∧
    (∀ c ∈ List.range 160, (Spec.restricted11 c = true ∨ c = 13 ∨ c = 60 ∨ c = 62 ∨ c = 38 ∨ c = 0x85) → pContent .v11 c = true) ∧
    (∀ c ∈ List.range 160, (pContent .v11 c = true ∨ c = 34 ∨ c = 9 ∨ c = 10) → pAttribute .v11 c = true) ∧
    (∀ c ∈ List.range 160, (32 ≤ c ∧ c < 127 ∧ c ≠ 60 ∧ c ≠ 62 ∧ c ≠ 38) → pContent .v11 c = false) := by
  decide +kernel

/-- The CDATA logic read from the working tree is one of the two variants the theorems below are
about: the code as written at the pinned commit, or the code with `proposed/C04-cdata.diff` applied. -/
theorem generated_cdata_is_known_variant :
    (cdataBracketOutsideWritesOpen = false ∧ cdataReopenAtEnd = true ∧ cdataCloseOnlyIfInside = true ∧
      ∀ i ∈ List.range 6, ∀ n ∈ List.range 6, cdataGuard i n = CDataCfg.asWritten.guard i n) ∨
    (cdataBracketOutsideWritesOpen = true ∧ cdataReopenAtEnd = false ∧ cdataCloseOnlyIfInside = true ∧
      ∀ i ∈ List.range 6, ∀ n ∈ List.range 6, cdataGuard i n = CDataCfg.fixed.guard i n) := by
  decide

/-! ## CDATA sections: the code of the working tree -/

/-- the CDATA code read from the working tree is the repaired one: look-ahead guard `length - i > 2`,
`<![CDATA[` re-opened before a split that follows a reference, no re-open after the loop, references for
CR / NEL / LSEP / restricted characters, pair-consuming UTF-16 writer.  (Breaks — by name — when any of these is
changed in `FormatterToXMLUnicode.hpp` / `XalanUTF16Writer.hpp`.) -/
theorem generated_cdata_current (e : Enc) (hfx : e.fx = Fixes.generated) (ha : AsciiOk e) :
    CDHyp CDataCfg.generated e := by
  refine ⟨?_, by decide, by decide, by decide, by rw [hfx]; decide, by rw [hfx]; decide, ha⟩
  intro i n h1 h2
  simp only [CDataCfg.generated, cdataGuard]
  congr 1
  apply propext
  constructor <;> intro h <;> omega

/-- **cdata_roundtrip.** For every XML version, every writer family (UTF-8, UTF-16, other encoding with any
representability predicate covering ASCII) and every sequence `cs` of XML `Char`s — including `]]>` (also
overlapping, `]]]>`, at the end, after a reference), characters the encoding cannot represent, CR, NEL, LSEP,
XML 1.1 restricted characters, supplementary characters —: `writeCDATA` of the working tree, given the UTF-16 form
of `cs` as a NUL-terminated buffer, raises no error; its code units decode strictly to a character sequence
`out`; and the XML reader for character data with CDATA sections (`readCD`: a section ends at the *first*
`]]>`, references and literal text between sections) reads `out` back as exactly `cs`. -/
theorem cdata_roundtrip (ver : Ver) (e : Enc) (hfx : e.fx = Fixes.generated) (ha : AsciiOk e) (cs : List Nat)
    (hl : ∀ c ∈ cs, Spec.legalChar ver c = true)
    (hlen : (Spec.utf16Encode cs).length < 18446744073709551616) :
    ∃ items out, writeCDATA CDataCfg.generated ver e (Spec.utf16Encode cs ++ [0]) (Spec.utf16Encode cs).length = .ok items ∧
      Spec.decodeOut e.kind (unitsOf items) = some out ∧ Spec.readCD ver out = some cs :=
  writeCDATA_roundtrip CDataCfg.generated ver e (generated_cdata_current e hfx ha) cs hl hlen

/-- the conclusion computed on a non-trivial string under US-ASCII: `]]]>é]]>\r` -/
example :
    (writeCDATA CDataCfg.fixed .v10 ⟨.other, fun c => decide (c < 128), Fixes.all⟩
        (Spec.utf16Encode [93, 93, 93, 62, 0xE9, 93, 93, 62, 13] ++ [0]) 9).toOption.bind
      (fun items => Spec.readCD .v10 (unitsOf items)) = some [93, 93, 93, 62, 0xE9, 93, 93, 62, 13] := by
  decide

/-- **document_encoding** (`document_roundtrip`, second part). For every configuration of the working tree and every
result tree `t` whose strings are XML characters (names, comment and PI data: characters the encoding can write
literally): the serializer, given the UTF-16 form of the tree, raises no error and the code units it writes for
the whole tree are exactly the output encoding of the *character-level document* `absNode t` —
`<name attr="escaped value"…>`, escaped text, CDATA sections with their splits and references, `<!--data-->`,
`<?target data?>`, `/>` for elements without written content — built from `absEscAll` / `absCDATA`, whose reading
back is `content_roundtrip`, `attr_roundtrip`, `cdata_roundtrip`, `comment_roundtrip`.  Together with
`document_structure` (events ↔ tree, prolog) what remains for `document_roundtrip` is a reader for the tag syntax
of `absNode` on characters — no encodings, buffers, surrogates or event stack are left in that statement. -/
theorem document_encoding (c : Cfg) (H : DocHyp c) (t : XNode) (hok : TreeOk c.ver c.enc t) :
    ∃ items out, serNode c (toUnits t) = .ok items ∧
      absNode c.ver (canEncOf c.enc) (spaceBeforeClose c) t = .ok out ∧ unitsOf items = Spec.encodeOut c.enc.kind out :=
  node_enc c H t hok

/-- **document_roundtrip.** For every configuration of the working tree (every XML version, every writer family, any
representability predicate covering ASCII) and every result tree with an element root `t = <n a…>kids</n>` —
any nesting depth, attributes, text, CDATA sections, comments, processing instructions; strings made of XML
characters (`TreeOk`), and in the form a parser can return unchanged (`RTreeOk`: names without delimiters, no empty
and no two adjacent character-data children, comment / PI data without `--`, trailing `-`, `?>`) —: the serializer,
given the UTF-16 form of the tree, raises no error; the code units it writes decode strictly to a character sequence
`out`; and the document reader (`Spec.readDoc`: start / end / empty-element tags with attribute values, text runs
with entities, character references and CDATA sections, comments, PIs) reads `out` back as exactly the tree, CDATA
sections being reported as text (`Spec.norm`).  With `document_structure` these items are what
`serializeItems c (events (toUnits t))` writes after the prolog. -/
theorem document_roundtrip (c : Cfg) (H : DocHyp c) (n : List Nat) (a : List (List Nat × List Nat)) (kids : List XNode)
    (hok1 : TreeOk c.ver c.enc (.elem n a kids)) (hok2 : RTreeOk c.ver (.elem n a kids)) :
    ∃ items out, serNode c (toUnits (.elem n a kids)) = .ok items ∧
      Spec.decodeOut c.enc.kind (unitsOf items) = some out ∧
      Spec.readDoc c.ver out = some (Spec.norm (.elem n a kids)) := by
  obtain ⟨items, out, h1, h2, h3⟩ := node_enc c H (.elem n a kids) hok1
  refine ⟨items, out, h1, ?_, readDoc_absNode c.ver (canEncOf c.enc) (spaceBeforeClose c) n a kids hok2 out h2⟩
  rw [h3]
  exact decodeOut_encodeOut c.enc.kind out (node_sc c.ver c.enc (spaceBeforeClose c) _ hok1 out h2)

/-- The whole document, prolog included.  For every configuration whose `encoding` name, `standalone` value and
DOCTYPE identifiers are printable ASCII without `"`, `>`, `?` (`Printable`; what `xsl:output` can sensibly carry) and
every tree as in `document_roundtrip` (the root name ASCII when a DOCTYPE is written, because `m_writer.write(name)`
of the transcoding writer goes unit by unit): everything `startDocument … endDocument` writes — XML declaration
(with `standalone`, or omitted), the line break, `<!DOCTYPE name PUBLIC "…" "…">` / `SYSTEM`, the root element —
decodes strictly to a character sequence which the document reader *with its prolog steps* (`Spec.readDocument`:
skip one `<?xml …?>`, one line break, one `<!DOCTYPE … >` and its line break, then `readDoc`) reads back as
exactly the tree. -/
theorem document_roundtrip_prolog (c : Cfg) (H : DocHyp c)
    (hE : Printable c.encName) (hS : Printable c.standalone) (hP : Printable c.doctypePublic) (hY : Printable c.doctypeSystem)
    (n : List Nat) (a : List (List Nat × List Nat)) (kids : List XNode)
    (hN : c.doctypeSystem.isEmpty = false → Ascii n)
    (hok1 : TreeOk c.ver c.enc (.elem n a kids)) (hok2 : RTreeOk c.ver (.elem n a kids)) :
    ∃ items out, serializeItems c (events (toUnits (.elem n a kids))) = .ok items ∧
      Spec.decodeOut c.enc.kind (unitsOf items) = some out ∧
      Spec.readDocument c.ver out = some (Spec.norm (.elem n a kids)) := by
  obtain ⟨h, hh1, hh2, hhA⟩ := header_enc c H.ha hE hS
  obtain ⟨d, hd1, hd2, hdA⟩ := doctype_enc' c H.ha hP hY n hN (fun x hx => by
    simp only [TreeOk] at hok1; exact (hok1.1 x hx).1)
  obtain ⟨items, body, h1, h2, h3⟩ := node_enc c H (.elem n a kids) hok1
  obtain ⟨rest, hb⟩ := absNode_elem_shape _ _ _ n a kids body h2
  have hsc := node_sc c.ver c.enc (spaceBeforeClose c) _ hok1 body h2
  refine ⟨h ++ d ++ items, absHeader c ++ absDoctype c n ++ body, ?_, ?_, ?_⟩
  · rw [document_structure, hh1]
    have : rootDoctype c (toUnits (.elem n a kids)) = doctypeItems c (Spec.utf16Encode n) := by simp [toUnits, rootDoctype]
    rw [this, hd1, h1]; rfl
  · have : unitsOf (h ++ d ++ items) = Spec.encodeOut c.enc.kind (absHeader c ++ absDoctype c n ++ body) := by
      simp only [unitsOf_append, encodeOut_append, hh2, hd2, h3]
    rw [this]
    apply decodeOut_encodeOut
    intro x hx
    rcases List.mem_append.mp hx with hx | hx
    · rcases List.mem_append.mp hx with hx | hx
      · exact ascii_scalar _ hhA x hx
      · exact ascii_scalar _ hdA x hx
    · exact hsc x hx
  · have hg : GoodName c.ver n := by simp only [RTreeOk] at hok2; exact hok2.1
    unfold Spec.readDocument
    rw [hb, strip_prolog c hE hS hP hY n hg rest, ← hb]
    exact readDoc_absNode c.ver (canEncOf c.enc) (spaceBeforeClose c) n a kids hok2 body h2

/-- the reader-side hypothesis is satisfiable by a tree that exercises every construct:
`<r k="&quot;é"><a/>&lt;𝒳<!--x--><![CDATA[]]>é]]><?p d?></r>` (its `TreeOk` is the example after `document_encoding`) -/
example : RTreeOk .v10 (.elem [114] [([107], [34, 0xE9])]
    [.elem [97] [] [], .text [60, 0x1D4B3], .comment [120], .cdata [93, 93, 62, 0xE9], .pi [112] [100]]) := by
  simp only [RTreeOk, RKidsOk, GoodName, RAttrsOk, textLike]
  refine ⟨⟨by decide, by decide⟩, ?_, ?_⟩
  · intro p hp; simp at hp; subst hp; exact ⟨⟨by decide, by decide⟩, by decide⟩
  · refine ⟨⟨⟨by decide, by decide⟩, ?_, trivial⟩, ?_, ?_⟩
    · intro p hp; simp at hp
    · refine ⟨⟨by decide, by decide⟩, ?_, ?_⟩
      · refine ⟨⟨by decide, by decide, by decide⟩, ?_, ?_⟩
        · refine ⟨⟨by decide, by decide⟩, ?_, ?_⟩
          · exact ⟨⟨⟨by decide, by decide⟩, by decide, by decide, by decide⟩, trivial, by simp [textLike]⟩
          · simp [textLike]
        · simp [textLike]
      · simp [textLike]
    · simp [textLike]

/-- the hypotheses of `document_encoding` hold for the code of the working tree -/
theorem generated_doc_hyp (c : Cfg) (hcd : c.cdata = CDataCfg.generated) (hfx : c.enc.fx = Fixes.generated)
    (ha : AsciiOk c.enc) : DocHyp c :=
  ⟨ha, by rw [hfx]; exact generated_fixes_consistent.1, by rw [hcd]; exact generated_cdata_current c.enc hfx ha⟩

example : TreeOk .v10 ⟨.other, fun c => decide (c < 128), Fixes.all⟩
    (.elem [114] [([107], [34, 0xE9])] [.text [60, 0x1D4B3], .cdata [93, 93, 62, 0xE9], .comment [120], .pi [112] [100]]) := by
  simp only [TreeOk, KidsOkT, NameOk, AttrsOk, LiteralOk]
  refine ⟨by decide, ?_, ?_⟩
  · intro p hp; simp at hp; subst hp; exact ⟨by decide, by decide⟩
  · refine ⟨by decide, ⟨by decide, by decide⟩, ?_, ⟨by decide, ?_⟩, trivial⟩
    · intro c hc; simp at hc; subst hc; exact ⟨by decide, by decide, by decide, by decide, rfl⟩
    · intro c hc; simp at hc; subst hc; exact ⟨by decide, by decide, by decide, by decide, rfl⟩

/-! ## CDATA: the code as written violates the property (DESIGN §6 items 17, 18) -/

def utf8Enc : Enc := ⟨.utf8, fun _ => true, Fixes.asWritten⟩

/-- `cdata("é")` under US-ASCII, code as written: `<![CDATA[]]>&#233;<![CDATA[` — a section is opened
at the end and never closed (the document is not well-formed).  Replayed on the real code by the
corpus of `checks/c04.py`. -/
theorem cdata_unbalanced_counterexample :
    okUnits (writeCDATA CDataCfg.asWritten .v10 asciiEnc [0xE9, 0] 1)
      = some ([60, 33, 91, 67, 68, 65, 84, 65, 91] ++ [93, 93, 62] ++ [38, 35, 50, 51, 51, 59]
              ++ [60, 33, 91, 67, 68, 65, 84, 65, 91]) := by
  decide

/-- `cdata("é]]>")` under US-ASCII, code as written: after the character reference the writer emits
`]]>` where `<![CDATA[` is needed, i.e. the forbidden sequence `]]>` in character data. -/
theorem cdata_close_outside_counterexample :
    okUnits (writeCDATA CDataCfg.asWritten .v10 asciiEnc [0xE9, 93, 93, 62, 0] 4)
      = some ([60, 33, 91, 67, 68, 65, 84, 65, 91] ++ [93, 93, 62] ++ [38, 35, 50, 51, 51, 59]
              ++ [93, 93, 62] ++ [93, 93] ++ [93, 93, 62] ++ [60, 33, 91, 67, 68, 65, 84, 65, 91] ++ [62] ++ [93, 93, 62]) := by
  decide

/-- `cdata(buf = "a]]>", length = 3)`, code as written: the unsigned guard `i - length > 2` is always
true, the look-ahead reads `buf[3]` behind `length` and the `>` that is not part of the text is
written; with the buffer ending at `length` the read is outside the array (`Err.mem`).  With the
repaired guard the text `a]]` comes out as it is. -/
theorem cdata_overread_counterexample :
    okUnits (writeCDATA CDataCfg.asWritten .v10 utf8Enc [97, 93, 93, 62] 3)
      = some ([60, 33, 91, 67, 68, 65, 84, 65, 91] ++ [97, 93, 93] ++ [93, 93, 62]
              ++ [60, 33, 91, 67, 68, 65, 84, 65, 91] ++ [62] ++ [93, 93, 62]) ∧
    errOf (writeCDATA CDataCfg.asWritten .v10 utf8Enc [97, 93, 93] 3) = some .mem ∧
    okUnits (writeCDATA CDataCfg.fixed .v10 utf8Enc [97, 93, 93, 62] 3)
      = some ([60, 33, 91, 67, 68, 65, 84, 65, 91] ++ [97, 93, 93] ++ [93, 93, 62]) ∧
    okUnits (writeCDATA CDataCfg.fixed .v10 utf8Enc [97, 93, 93] 3)
      = some ([60, 33, 91, 67, 68, 65, 84, 65, 91] ++ [97, 93, 93] ++ [93, 93, 62]) := by
  decide

/-- The repaired variant on the two failing inputs: balanced sections, no `]]>` in character data. -/
theorem cdata_fixed_on_witnesses :
    okUnits (writeCDATA CDataCfg.fixed .v10 asciiEnc [0xE9, 0] 1)
      = some ([60, 33, 91, 67, 68, 65, 84, 65, 91] ++ [93, 93, 62] ++ [38, 35, 50, 51, 51, 59]) ∧
    okUnits (writeCDATA CDataCfg.fixed .v10 asciiEnc [0xE9, 93, 93, 62, 0] 4)
      = some ([60, 33, 91, 67, 68, 65, 84, 65, 91] ++ [93, 93, 62] ++ [38, 35, 50, 51, 51, 59]
              ++ [60, 33, 91, 67, 68, 65, 84, 65, 91] ++ [93, 93] ++ [93, 93, 62]
              ++ [60, 33, 91, 67, 68, 65, 84, 65, 91] ++ [62] ++ [93, 93, 62]) := by
  decide

end XalanModel.Props.C04
