import XalanModel.C01.PendingProofs
import XalanModel.C01.VariablesProofs
import XalanModel.C01.WalkerProofs
import XalanModel.C01.CoreProofs
import XalanModel.C01.CoreSpecProofs
import XalanModel.C01.CoreCompile
import XalanModel.C01.SpecScope
import XalanModel.C01.Avt
/-!
# C01 — the transformation result is the tree XSLT 1.0 defines

Property theorems only.  The full statement — *for every error-free stylesheet of the core language
and every document, the engine's result is `Spec.transform`* — is **not** proved: no Lean model of the
whole of `XSLT/*.cpp` exists, so that statement is decided by the correspondence run only (real
`XalanTransformer` vs `XalanModel.C01.transform`).  What is proved, for all inputs:

* the iterative instruction walker (`Walker.lean`, mirrors `ElemTemplateElement::execute` and the
  `startElement/endElement/getInvoker/getNextChildElemToExecute` overrides): `walker_eq_recursion`, `walker_restores_stack`;
* the engine with data (`Core.lean`: walker + current-node / node-list stacks + pending start tag):
  `core_refines_spec_partial` (any oracle: engine model = recursive instantiation), `core_refines_spec` and
  `core_refines_spec_total` (oracle instantiated with `Spec.eval`, program produced by the proved compiler
  `CoreSpec.compile`: engine model = `Spec.transform`, on the fragment `CoreSpec.inFragment`);
* the variables stack (`Variables.lean`, mirrors `VariablesStack.cpp`): `variables_lexical`, `variables_lexical_params`,
  `variables_lookup_pure`, `variables_balanced`, and the counterexample for parameter activation across templates;
* the pending start tag (`Pending.lean`, mirrors `XSLTEngineImpl::startElement/flushPending/
  addResultAttribute/characters/endElement`): `pending_refines_spec`, `pending_wellformed`,
  and the counterexamples for the unguarded attribute path and the zero-length text.
-/
namespace XalanModel.Props.C01
open XalanModel.C01 XalanModel.C01.Pending XalanModel.C01.VStack

/-! ## Pending start tag -/

/-- **Refinement to §7.1.3.**  For every sequence of engine calls in which attributes are only added
through the guarded path and no zero-length text is sent, the events delivered to the
FormatterListener are exactly the specification's placement of attributes (`placeAttrs`), hence the
result tree is `normalize` of the call sequence: attributes before the first child are kept, later
ones (and top-level ones) are ignored, nothing else changes. -/
theorem pending_refines_spec (evs : List REv) (hg : Guarded evs) (he : NoEmptyText evs) :
    Pending.run evs = placeAttrs [] evs ∧ Pending.result evs = normalize evs := by
  have h := runFrom_eq_placeAttrs evs {} [] (by simp [Clean]) (by simp [Rel, topFlag]) hg
  have h' : Pending.run evs = placeAttrs [] evs := by simpa [Pending.run, flushEv] using h
  exact ⟨h', by simp [Pending.result, normalize, h', dropEmpty_id evs he]⟩

example : Guarded [.start "out", .attr "x" "1", .text "t", .attr "late" "2", .start "b", .stop "b", .stop "out"]
    ∧ NoEmptyText [.start "out", .attr "x" "1", .text "t", .attr "late" "2", .start "b", .stop "b", .stop "out"] := by
  simp [Guarded, NoEmptyText]

/-- **Shape of the delivered stream, for every call sequence whatsoever** (guarded or not): an
attribute is only ever delivered inside a start tag (directly after the start or another attribute),
and the stream opens/closes exactly the elements the calls open/close — so a balanced call sequence
yields a balanced, well-formed event stream. -/
theorem pending_wellformed (evs : List REv) :
    attrsOk false (Pending.run evs) = true ∧ depthAfter 0 (Pending.run evs) = depthAfter 0 evs := by
  refine ⟨attrsOk_runFrom evs {} false, ?_⟩
  have := depthAfter_runFrom evs {} 0
  simpa [Pending.run, pendDepth] using this

example : depthAfter 0 [REv.start "a", .attrU "x" "1", .start "b", .stop "b", .stop "a"] = some 0 := by decide

/-- **The unguarded path violates §7.1.3** (the code as it is: `ElemAttribute::startElement` with a
`namespace` attribute never tests `isElementPending()`, and `startElement(name)` does not clear the
pending attribute list): the attribute added after `<a/>` is delivered on the *next* element `<b>`.
Replayed on the real engine by the corpus case `attribute[ns]` of `checks/c01.py`. -/
theorem pending_unguarded_attribute_counterexample :
    Pending.run [.start "out", .start "a", .stop "a", .attrU "x" "1", .start "b", .stop "b", .stop "out"]
      = [.start "out", .start "a", .stop "a", .start "b", .attr "x" "1", .stop "b", .stop "out"]
    ∧ normalize [.start "out", .start "a", .stop "a", .attrU "x" "1", .start "b", .stop "b", .stop "out"]
      = [.start "out", .start "a", .stop "a", .start "b", .stop "b", .stop "out"] := by
  decide

/-- **A zero-length text call closes the start tag** (`xsl:copy-of` of an empty string reaches
`characters` with length 0): the following attribute is lost although §7.2 creates no text node. -/
theorem pending_empty_text_counterexample :
    Pending.result [.start "out", .text "", .attr "y" "2", .stop "out"] = [.start "out", .stop "out"]
    ∧ normalize [.start "out", .text "", .attr "y" "2", .stop "out"] = [.start "out", .attr "y" "2", .stop "out"] := by
  decide

/-! ## Variables stack -/

/-- **Lexical scoping.**  Whatever the callers' frames (`older`) contain — variables, parameters,
element frames, further context markers, of any depth of recursion — a variable reference evaluated in
the current frame returns the innermost binding of the current template instance (its variables and
the parameters it has claimed), else the global binding; never a caller's binding.  Stack shape:
current frame, its context marker, callers, the marker pushed by `markGlobalStackFrame`, the global
variables, element frame 0, bottom marker. -/
theorem variables_lexical (frame older globals : List Entry) (n : Nat) (act : Bool)
    (hf : NoMarker frame) (hg : NoMarker globals) :
    let stack := frame ++ .ctxMarker :: (older ++ .ctxMarker :: (globals ++ [.elemFrame 0, .ctxMarker]))
    let s : VStack := { stack := stack, cur := stack.length, glob := globals.length + 2, marked := true, activating := act }
    (s.getVariable n).map (·.1) =
      some (LexEnv.lookup { locals := frameBindings frame, globals := globalBindings globals } n) := by
  intro stack s
  have hlen : stack.length = frame.length + 1 + (older.length + 1 + (globals.length + 2)) := by
    simp [stack]; omega
  have hpart : stack.dropLast =
      frame ++ .ctxMarker :: (older ++ .ctxMarker :: (globals ++ [.elemFrame 0])) := by
    have : stack = (frame ++ .ctxMarker :: (older ++ .ctxMarker :: (globals ++ [.elemFrame 0]))) ++ [.ctxMarker] := by
      simp [stack]
    rw [this, List.dropLast_concat]
  have hloc := findLocal_frame n frame (older ++ .ctxMarker :: (globals ++ [.elemFrame 0])) hf act
  have hdrop : stack.drop (stack.length - (globals.length + 2)) = globals ++ [.elemFrame 0, .ctxMarker] := by
    have hs : stack = (frame ++ Entry.ctxMarker :: (older ++ [Entry.ctxMarker])) ++ (globals ++ [Entry.elemFrame 0, Entry.ctxMarker]) := by
      simp [stack]
    have hl : stack.length - (globals.length + 2) = (frame ++ Entry.ctxMarker :: (older ++ [Entry.ctxMarker])).length := by
      simp [hlen]; omega
    rw [hl, hs, List.drop_left]
  have hdl : (globals ++ [Entry.elemFrame 0, Entry.ctxMarker]).dropLast = globals ++ [Entry.elemFrame 0] := by
    have : globals ++ [Entry.elemFrame 0, Entry.ctxMarker] = (globals ++ [Entry.elemFrame 0]) ++ [Entry.ctxMarker] := by simp
    rw [this, List.dropLast_concat]
  have hglob : findGlobal n (globals ++ [Entry.elemFrame 0]) = (globalBindings globals).lookup n :=
    findGlobal_globals n globals [Entry.elemFrame 0] hg (by simp [findGlobal])
  simp only [getVariable, findEntry, s]
  simp only [Nat.lt_irrefl, if_false, Nat.sub_self, List.take_zero, List.drop_zero, List.nil_append, hpart]
  cases hfl : findLocal n false act (frame ++ Entry.ctxMarker :: (older ++ Entry.ctxMarker :: (globals ++ [Entry.elemFrame 0]))) with
  | some r =>
    have : (frameBindings frame).lookup n = some r.1 := by rw [← hloc, hfl]; rfl
    simp [LexEnv.lookup, this]
  | none =>
    have hnone : (frameBindings frame).lookup n = none := by rw [← hloc, hfl]; rfl
    have hgt : ¬ (globals.length + 2 > stack.length) := by rw [hlen]; omega
    simp [LexEnv.lookup, hnone, hgt, hdrop, hdl, hglob]

example : NoMarker [Entry.var 1 10, .elemFrame 7, .activeParam 2 20, .param 3 30] ∧ NoMarker [Entry.var 1 99, .var 4 40] := by
  simp [NoMarker]

/-- **Frames are discarded whole.**  Whatever a template instance pushed after its context marker
(variables, parameters, element frames — even unbalanced ones), `popContextMarker` gives the caller
back exactly the stack and start index it had. -/
theorem variables_balanced (s : VStack) (es : List Entry) (hc : s.cur = s.stack.length) (hm : s.marked = true)
    (hes : NoMarker es) :
    (es.foldl VStack.push s.pushContextMarker).popContextMarker = s := by
  obtain ⟨st, cur, glob, marked, act⟩ := s
  simp only at hc hm
  subst hc hm
  have h0 : (VStack.pushContextMarker ⟨st, st.length, glob, true, act⟩) = ⟨Entry.ctxMarker :: st, st.length + 1, glob, true, act⟩ := by
    simp [pushContextMarker, push, Entry.isVar]
  rw [h0, pushes_shape es _ (by simp) (by simp)]
  have hrev : NoMarker es.reverse := fun e he => hes e (by simpa using he)
  have key := popContextMarkerAux_frame es.reverse hrev
    ((es.reverse ++ Entry.ctxMarker :: st).length) st glob true act (by simp)
  have e : es.length + (Entry.ctxMarker :: st).length = (es.reverse ++ Entry.ctxMarker :: st).length := by simp
  show popContextMarkerAux _ ⟨es.reverse ++ Entry.ctxMarker :: st, es.length + (Entry.ctxMarker :: st).length, glob, true, act⟩ = _
  rw [e]
  exact key

example : ({ stack := [Entry.ctxMarker], cur := 1, marked := true } : VStack).cur = 1 := rfl

/-- **Parameters are lexical too.**  `xsl:param` (a parameter lookup) evaluated in the current frame finds the
innermost binding of that name among the frame's variables and the parameters passed to *this* call — never a
parameter passed to a caller — whichever `findEntry` the tree has. -/
theorem variables_lexical_params (frame older globals : List Entry) (n : Nat) (act : Bool)
    (hf : NoMarker frame) :
    let stack := frame ++ .ctxMarker :: (older ++ .ctxMarker :: (globals ++ [.elemFrame 0, .ctxMarker]))
    let s : VStack := { stack := stack, cur := stack.length, glob := globals.length + 2, marked := true, activating := act }
    (s.getParamVariable n).map (·.1) = some ((frameParamBindings frame).lookup n) := by
  intro stack s
  have hpart : stack.dropLast =
      frame ++ .ctxMarker :: (older ++ .ctxMarker :: (globals ++ [.elemFrame 0])) := by
    have : stack = (frame ++ .ctxMarker :: (older ++ .ctxMarker :: (globals ++ [.elemFrame 0]))) ++ [.ctxMarker] := by
      simp [stack]
    rw [this, List.dropLast_concat]
  have hloc := findLocal_param_frame n frame (older ++ .ctxMarker :: (globals ++ [.elemFrame 0])) hf act
  simp only [getParamVariable, findEntry, s]
  simp only [Nat.lt_irrefl, if_false, Nat.sub_self, List.take_zero, List.drop_zero, List.nil_append, hpart]
  cases hfl : findLocal n true act (frame ++ Entry.ctxMarker :: (older ++ Entry.ctxMarker :: (globals ++ [Entry.elemFrame 0]))) with
  | some r =>
    have : (frameParamBindings frame).lookup n = some r.1 := by rw [← hloc, hfl]; rfl
    simp [this]
  | none =>
    have hnone : (frameParamBindings frame).lookup n = none := by rw [← hloc, hfl]; rfl
    simp [hnone]

/-- **Lookups do not change the stack** (the repaired `findEntry`, `activating = false`): whatever the stack,
the name, the kind of lookup — the stack afterwards is the stack before.  Hence no history of lookups made by
one template instance can influence what another one sees: together with `variables_lexical`,
`variables_lexical_params` and `variables_balanced` this is lexical scoping for variables *and* parameters, for
every history.  (With `activating = true` it fails: `variables_activation_leak_counterexample`.) -/
theorem variables_lookup_pure (s : VStack) (n : Nat) (isParam searchGlobal : Bool)
    (r : Option Nat × VStack) (ha : s.activating = false) (h : s.findEntry n isParam searchGlobal = some r) :
    r.2 = s := by
  obtain ⟨st, cur, glob, marked, act⟩ := s
  simp only at ha
  subst ha
  simp only [findEntry] at h
  split at h
  · cases h
  · cases hfl : findLocal n isParam false ((st.drop (st.length - cur)).dropLast) with
    | some x =>
      have hx := findLocal_pure n isParam _ x hfl
      simp only [hfl] at h
      cases h
      simp only [hx]
      congr 1
      exact split_recombine st (st.length - cur)
    | none =>
      simp only [hfl] at h
      split at h
      · split at h
        · cases h
        · cases h; rfl
      · cases h; rfl

/-- **Parameter activation outlives the template that claimed it** (the code before the repair, `activating = true`): within one
`xsl:apply-templates` the passed parameters sit below every per-node frame; once a template has
claimed `X` (`eParam → eActiveParam`), a *later* template of the same call that does not declare `X`
finds it with `getVariable` and no longer sees the global `X`.  History: globals `[X=1]`, marker,
params `[X=2]`; template A: frame, `getParamVariable X`, pop frame; template B: frame, `getVariable X`. -/
theorem variables_activation_leak_counterexample :
    let s0 : VStack := { stack := [.ctxMarker, .var 0 1, .elemFrame 0, .ctxMarker], cur := 4, glob := 3, marked := true }
    let s1 := (s0.pushContextMarker).pushParams [(0, 2)]
    -- template B first: the global is seen
    ((s1.pushElementFrame 5).getVariable 0).map (·.1) = some (some 1)
    -- template A claims X, its frame is popped, then template B: the passed value is seen
    ∧ (((s1.pushElementFrame 4).getParamVariable 0).bind fun r =>
         (((r.2.popElementFrame).1.pushElementFrame 5).getVariable 0).map (·.1)) = some (some 2) := by
  decide

/-! ## Iterative walker -/

open XalanModel.C01.Walker in
/-- **The loop is the recursion.**  For every program (any number of templates, any nesting of blocks,
`call-template`, `choose` taking any branch or none, `for-each` over any number of nodes, `apply-templates`
selecting any sequence of templates, elements with `use-attribute-sets` naming any sequence of (nested) attribute
sets, any call graph including recursion) and every template `t0`: whenever the recursive
traversal of `t0` is defined (terminates, all targets exist) with event sequence `tr`, the iterative
`execute` loop finishes, has issued exactly `tr` (the same `startElement`/`endElement` calls in the same
order), and has left the invoker stack and the node-list stack exactly as it found them. -/
theorem walker_eq_recursion (P : Walker.Prog) (fuel t0 : Nat) (stk : List (Option Walker.Addr))
    (its : List Nat) (tr : List Walker.Ev) (h : Walker.recRun P fuel t0 = some tr) :
    ∃ n, Walker.execute P n t0 stk its = some (tr, stk, its) := by
  simp only [recRun, Option.map_eq_some_iff] at h
  obtain ⟨b, hb, rfl⟩ := h
  obtain ⟨nt, hnt⟩ := recBody_lookup hb
  obtain ⟨k, hk⟩ := (sim P fuel).1 (t0, []) nt (none :: stk) its [] b hnt hb
  refine ⟨k + 1, ?_⟩
  simp only [execute]
  rw [iter_add, hk]
  simp [iter, Walker.step, hnt, popIf_pushIf, popIters_midIters, getInvoker]

open XalanModel.C01.Walker in
/-- **…and nothing else can happen**: the loop is deterministic and `done` is absorbing, so *every*
finished run of `execute` (whatever number of turns it was given) reports that same trace and the
restored stacks. -/
theorem walker_restores_stack (P : Walker.Prog) (fuel t0 : Nat) (stk : List (Option Walker.Addr))
    (its : List Nat) (tr : List Walker.Ev) (h : Walker.recRun P fuel t0 = some tr)
    (n : Nat) (r : List Walker.Ev × List (Option Walker.Addr) × List Nat)
    (hr : Walker.execute P n t0 stk its = some r) :
    r = (tr, stk, its) := by
  obtain ⟨n0, h0⟩ := walker_eq_recursion P fuel t0 stk its tr h
  have absorbing : ∀ (k : Nat) (s : St), s.phase = .done → iter P k s = s := by
    intro k
    induction k with
    | zero => intro s _; rfl
    | succ k ih =>
      intro s hs
      have : Walker.step P s = s := by simp [Walker.step, hs]
      simp [iter, this, ih s hs]
  simp only [execute] at hr h0
  split at hr
  · rename_i hd
    split at h0
    · rename_i hd0
      simp only [Option.some.injEq] at hr h0
      rcases Nat.le_total n n0 with hle | hle
      · obtain ⟨d, rfl⟩ := Nat.exists_eq_add_of_le hle
        rw [iter_add, absorbing d _ hd] at h0
        rw [← hr, h0]
      · obtain ⟨d, rfl⟩ := Nat.exists_eq_add_of_le hle
        rw [iter_add, absorbing d _ hd0] at hr
        rw [← hr, h0]
    · cases h0
  · cases hr

/-- a program with nested blocks, a for-each over two nodes containing a call with a parameter, an
apply-templates selecting three templates after a parameter, an apply-templates selecting nothing, a
for-each over nothing: the hypothesis of the two theorems is satisfiable and the loop agrees -/
example :
    let P : Walker.Prog :=
      [ .mk .block [.mk .leaf [], .mk (.loop 2) [.mk .leaf [], .mk (.call 1) [.mk .leaf []]],
                    .mk (.apply [1, 2, 1]) [.mk .leaf []], .mk (.apply []) [], .mk (.loop 0) [.mk .leaf []],
                    .mk (.apply [2]) [], .mk (.pick 1) [.mk .block [.mk .leaf []], .mk .block [.mk .leaf []]],
                    .mk (.pick 5) [.mk .leaf []]],
        .mk .block [.mk .leaf []], .mk .block [] ]
    (Walker.recRun P 30 0).map List.length = some 56 ∧
    (Walker.execute P 200 0 [] []).map (fun r => (r.1.length, r.2)) = some (56, [], []) := by
  decide +kernel

/-! ## Core: the engine with data refines the recursive specification (fragment) -/

open XalanModel.C01.Core in
/-- **Refinement for the fragment** value-of / attributes (xsl:attribute and literal ones: guarded adds, so a late
attribute is dropped exactly as §7.1.3 says) / copy-of, comment, processing-instruction (`emit`: any calls the oracle
lists, provided they are guarded and carry no empty text — `hO`) / literal result elements / blocks / call-template /
choose / for-each / apply-templates, with the XPath and pattern layer as an arbitrary oracle (every select, every chosen
template rule, every branch, every string value may depend on the current node, its position and the size of the
current node list in any way): whenever the
recursive specification `instRun` is defined with event list `tr`, the iterative engine (`Core.run`: the
`execute` loop with invoker stack, node-list stack and current-node stack, output through the pending start tag)
terminates and delivers exactly the result tree `normalize tr` that XSLT defines.
`_partial`: variables/parameters, attributes, copy, sort keys and the other instructions are outside the
fragment (their mechanisms are covered separately by `variables_*` and `pending_*`), and the oracle is not tied
to `Spec.eval` by proof (it is by the correspondence runs). -/
theorem core_refines_spec_partial (P : Core.Prog) (O : Core.Oracle) (hO : ∀ a n, Core.Plain (O.evs a n))
    (fuel t0 : Nat) (root : Core.SrcNode)
    (tr : List REv) (h : Core.instRun P O fuel t0 root = some tr) :
    ∃ n, Core.run P O n t0 root = some (normalize tr) := by
  obtain ⟨n, hn⟩ := run_calls P O fuel t0 root tr h
  have hp := plain_guarded tr (plain_instRun P O hO fuel t0 root tr h)
  refine ⟨n, ?_⟩
  simp only [Core.run, hn, if_true]
  rw [(pending_refines_spec tr hp.1 hp.2).2]

/-- the hypothesis is satisfiable: a root rule with a for-each over two nodes producing `<x/>` each and an
apply-templates whose two selected nodes get the rule `<y/>` (8 events).  (The driver `xm_c01 core` evaluates
larger instances and compares `Core.run` with the real engine and with `Spec.transform`.) -/
example :
    let P : Core.Prog := [ .mk .block [.mk .forEach [.mk (.lre "x") []], .mk .apply []], .mk (.lre "y") [] ]
    let O : Core.Oracle :=
      { sel := fun _ n => if n.1 = 0 then [(1, 1, 2), (2, 2, 2)] else [], tmpl := fun _ _ => 1, branch := fun _ _ => 0,
        str := fun _ _ => "" }
    (Core.instRun P O 9 0 (0, 1, 1)).map List.length = some 8 := by
  simp [Core.instRun, Core.inst, Core.instKids, Core.instNodes, Core.instTmpls, Core.lookup, Core.child, Core.Node.get,
    Core.Node.kind, Core.Node.kids, Core.endOut]

open XalanModel.C01.CoreSpec in
/-- **The engine model yields the specification's result, with no abstract oracle** (fragment).  `P` with the
annotation `I` and layout `L` represents the stylesheet `ss` (`Represents`: every instruction of every template sits
at its address with the right kind; the built-in rules are extra templates); the oracle is `oracleOf ss d L I`, whose
every answer is `Spec.eval` / `chooseTemplateIdx` / `toStr` itself.  Then whatever tree `Spec.transform` defines, the
iterative engine model `Core.run` (invoker stack, walker, pending start tag) produces exactly that tree.
Fragment: literal text, value-of, literal result elements with attribute value templates, if, choose, for-each and
apply-templates without sort keys or parameters, call-template without parameters, all built-in rules; no
variables, keys, strip-space, global variables (those are compared with the real engine, not proved).
`exRepresents` shows the hypothesis holds for a concrete stylesheet and every document. -/
theorem core_refines_spec (P : Core.Prog) (I : Core.Addr → Info) (L : Layout) (ss : Stylesheet) (d : Doc)
    (hR : Represents P I L ss d) (hstrip : ss.stripSpace = []) (hglob : ss.globals = []) (hm : none ∈ L.modes)
    (fuel : Nat) (tr : List REv) (h : transform ss d fuel = some tr) :
    ∃ n, Core.run P (oracleOf ss d L I) n (tmplFor ss d L none 0) (0, 1, 1) = some tr := by
  obtain ⟨g, tr0, h0, ht⟩ := transform_eq_instRun P I L ss d hR hstrip hglob hm fuel tr h
  obtain ⟨n, hn⟩ := core_refines_spec_partial P _ (fun _ _ => Core.plain_nil) g _ _ tr0 h0
  exact ⟨n, ht ▸ hn⟩

open XalanModel.C01.CoreSpec in
/-- the theorem applies: for the stylesheet `exSheet` and every document -/
example (d : Doc) (fuel : Nat) (tr : List REv) (h : transform exSheet d fuel = some tr) :
    ∃ n, Core.run exProg (oracleOf exSheet d exLayout exInfo) n (tmplFor exSheet d exLayout none 0) (0, 1, 1) = some tr :=
  core_refines_spec _ _ _ _ d (exRepresents d) rfl rfl (by simp [exLayout]) fuel tr h

open XalanModel.C01.CoreSpec in
/-- **`core_refines_spec` with nothing left to assume about the program**: `compile` is a total function from the
specification's stylesheets to Core programs, `infoOf` / `layoutOf` the annotation and layout it comes with, and
`inFragment` a decidable test (`CoreCompile.lean`).  For *every* stylesheet that passes the test and every document:
whatever tree `Spec.transform` defines, the iterative engine model run on the compiled program, with every oracle
answer computed by the specification's own evaluator, produces exactly that tree.
(`represents_compile` proves the hypothesis `Represents` of `core_refines_spec` for `compile ss`.) -/
theorem core_refines_spec_total (ss : Stylesheet) (d : Doc) (hf : inFragment ss = true)
    (fuel : Nat) (tr : List REv) (h : transform ss d fuel = some tr) :
    ∃ n, Core.run (compile ss) (oracleOf ss d (layoutOf ss) (infoOf ss)) n (tmplFor ss d (layoutOf ss) none 0) (0, 1, 1)
      = some tr := by
  have hf' := hf
  simp only [inFragment, Bool.and_eq_true, List.isEmpty_iff] at hf'
  obtain ⟨⟨⟨⟨_, _⟩, hs⟩, hg⟩, _⟩ := hf'
  exact core_refines_spec _ _ _ ss d (represents_compile ss d hf) hs hg (by simp [layoutOf]) fuel tr h

open XalanModel.C01.CoreSpec in
/-- the fragment test accepts `exSheet` (two rules: literal result element, apply-templates, text, value-of, if, for-each) -/
example : inFragment exSheet = true := by
  simp [inFragment, exSheet, layoutOf, modesL, modesI, fragL, fragI]

/-! ## the scope of attribute sets (XSLT §7.1.4: only top-level variables and parameters are visible) -/

/-- **Specification level.**  Whatever the instruction that uses attribute sets (literal result element, `xsl:element`,
`xsl:copy`, another attribute set) has bound locally — variables `v`, passed parameters `p` — the events the named
sets produce are the same: their bodies are instantiated with the global bindings `genv` only. -/
theorem attribute_sets_see_only_globals (q : Quirks) (ss : Stylesheet) (d : Doc) (genv : List (String × Val)) (f : Nat)
    (names : List String) (c : Ctx) (v p : List (String × Val)) :
    useAttrSets q ss d genv f names { c with vars := v, passed := p } = useAttrSets q ss d genv f names c :=
  (useAttr_scope q ss d genv f).1 names c v p

/-- **Engine level** (`ElemAttributeSet::startElement`: `pushCurrentStackFrameIndex(getGlobalStackFrameIndex())`).
With the current stack frame index set to the global one, a variable reference returns the global binding — whatever
the frame of the template instance that uses the set (`frame`: its variables, claimed and passed parameters, element
frames) and all its callers (`older`) hold, including bindings of the same name. -/
theorem variables_attribute_set_scope (frame older globals : List Entry) (n : Nat) (act : Bool)
    (hg : ∀ e ∈ globals, ∃ m v, e = Entry.var m v) :
    let stack := frame ++ .ctxMarker :: (older ++ .ctxMarker :: (globals ++ [.elemFrame 0, .ctxMarker]))
    let s : VStack := { stack := stack, cur := stack.length, glob := globals.length + 2, marked := true, activating := act }
    ((s.setCurrentStackFrameIndex (some s.glob)).getVariable n).map (·.1) = some ((globalBindings globals).lookup n) := by
  intro stack s
  have hlen : stack.length = frame.length + 1 + (older.length + 1 + (globals.length + 2)) := by
    simp [stack]; omega
  have hdrop : stack.drop (stack.length - (globals.length + 2)) = globals ++ [.elemFrame 0, .ctxMarker] := by
    have hs : stack = (frame ++ Entry.ctxMarker :: (older ++ [Entry.ctxMarker])) ++ (globals ++ [Entry.elemFrame 0, Entry.ctxMarker]) := by
      simp [stack]
    have hl : stack.length - (globals.length + 2) = (frame ++ Entry.ctxMarker :: (older ++ [Entry.ctxMarker])).length := by
      simp [hlen]; omega
    rw [hl, hs, List.drop_left]
  have hdl : (globals ++ [Entry.elemFrame 0, Entry.ctxMarker]).dropLast = globals ++ [Entry.elemFrame 0] := by
    have : globals ++ [Entry.elemFrame 0, Entry.ctxMarker] = (globals ++ [Entry.elemFrame 0]) ++ [Entry.ctxMarker] := by simp
    rw [this, List.dropLast_concat]
  have hnm : NoMarker globals := by
    intro e he hm
    obtain ⟨m, v, hv⟩ := hg e he
    rw [hv] at hm; cases hm
  have hloc := findLocal_globals n act globals hg
  have hglob : findGlobal n (globals ++ [Entry.elemFrame 0]) = (globalBindings globals).lookup n :=
    findGlobal_globals n globals [Entry.elemFrame 0] hnm (by simp [findGlobal])
  have hgt : ¬ (globals.length + 2 > stack.length) := by rw [hlen]; omega
  simp only [getVariable, findEntry, setCurrentStackFrameIndex, Option.getD_some, s, hgt, if_false, hdrop, hdl]
  cases hfl : findLocal n false act (globals ++ [Entry.elemFrame 0]) with
  | some r =>
    have : (globalBindings globals).lookup n = some r.1 := by rw [← hloc, hfl]; rfl
    simp [this]
  | none =>
    have hnone : (globalBindings globals).lookup n = none := by rw [← hloc, hfl]; rfl
    simp [hnone, hgt, hdrop, hdl, hglob]

/-- the hypotheses are met: two globals, a using template with a same-named variable and a same-named passed parameter -/
example : ∀ e ∈ [Entry.var 1 99, .var 4 40], ∃ m v, e = Entry.var m v := by
  intro e he; simp at he; rcases he with h | h <;> subst h <;> exact ⟨_, _, rfl⟩

/-- **What the index buys** (`_counterexample`, by `decide`): the same lookup with the *current* frame index left in
place — `pushCurrentStackFrameIndex(getCurrentStackFrameIndex())` — returns the using template's local binding of the
name (10) instead of the global one (99). -/
theorem variables_attribute_set_wrong_index_counterexample :
    let stack : List Entry := [.var 1 10, .ctxMarker, .ctxMarker, .var 1 99, .elemFrame 0, .ctxMarker]
    let s : VStack := { stack := stack, cur := 6, glob := 3, marked := true, activating := false }
    ((s.setCurrentStackFrameIndex (some s.cur)).getVariable 1).map (·.1) = some (some 10) ∧
    ((s.setCurrentStackFrameIndex (some s.glob)).getVariable 1).map (·.1) = some (some 99) := by
  decide

/-! ## attribute value templates (XSLT §7.6.2) -/

/-- **Braces inside a string literal of an expression are not template syntax** — for either quote style.
`q` is `'` or `"`, `s` any characters other than `q` (so `{`, `}`, `{{`, `}}` and the *other* quote are allowed).
(1) Lexing: when the expression part of a template reaches the literal `q s q`, exactly those characters are appended
to the expression text and lexing goes on in the expression, whatever follows (`rest`) and whatever came before
(`cur`, `out`).  (2) The whole template `{q s q}` parses to the one expression part `Literal s`. -/
theorem avt_literals_opaque (q : Char) (hq : q = '\'' ∨ q = '"') (s rest cur : List Char) (out : List Avt.Part)
    (hs : q ∉ s) :
    Avt.lex .expr (q :: s ++ q :: rest) cur out = Avt.lex .expr rest (cur ++ q :: s ++ [q]) out ∧
    Avt.avtParse (String.ofList ('{' :: q :: s ++ [q, '}'])) = some [.inr (.lit (String.ofList s))] := by
  have hq' : Avt.isQuote q = true := by rcases hq with h | h <;> subst h <;> decide
  exact ⟨Avt.lex_literal_in_expr q hq' s rest cur out hs, Avt.avtParse_literal q hq' s hs⟩

/-- non-trivial instance: a double-quoted literal holding `{`, `}}` and an apostrophe -/
example : ('"' : Char) ∉ ['{', 'x', '}', '}', '\''] := by decide

end XalanModel.Props.C01
