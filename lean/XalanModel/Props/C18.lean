import XalanModel.C18.ToDoubleProofs
import XalanModel.C18.GrammarProofs
import XalanModel.C18.ToStringProofs
import XalanModel.C18.RoundTripProofs
import XalanModel.C18.RoundProofs
import XalanModel.C18.FastPathProofs
import XalanModel.C18.PrintfRoundTripProofs
import XalanModel.Generated.C18_Recycle
/-!
# C18 — number/string conversions follow XPath and round-trip

Property theorems only; helper lemmas are in `XalanModel/C18/*Proofs.lean`.

Model (as written in DOMStringHelper.cpp / DoubleSupport.cpp): `numberToString`, `doValidate`,
`toDoubleT`, `round`; doubles are exact dyadics (`Dbl`), `sprintf("%.Nf")`/`atof` are exact decimal
arithmetic with one explicit rounding.  Specifications: `matchesNumber` (the XPath `Number`
production inside optional whitespace and an optional '-'), `XPathNumeral` (the output shape of
`string(number)`), `toDoubleSpec`, `roundSpec`.  Constants (`thePrintfStrings`, buffer sizes,
`theLongHackThreshold`) come from `XalanModel.Generated.C18` which the translator rewrites from the
current source on every run.
-/
namespace XalanModel.Props.C18
open XalanModel.C18 XalanModel.C18.Dbl

/-! ## string → number: validation -/

/-- **The `doValidate` state machine accepts exactly the Number grammar**, for every string (every list
of UTF-16 code units): `doValidate s` is true iff `s` has a derivation
`ws* '-'? (Digits ('.' Digits?)? | '.' Digits) ws*` (`NumberGrammar`, XPath 1.0 production [30] inside the
whitespace/sign wrapper of the `number()` function). -/
theorem validate_iff_grammar (s : List Nat) : doValidate s = true ↔ NumberGrammar s := by
  rw [doValidate_eq_matchesNumber]; exact matchesNumber_iff_grammar s

/-- the same against the executable matcher (the decidable form of the grammar used by the driver,
the oracle cross-check and the other theorems) -/
theorem validate_eq_matcher (s : List Nat) : doValidate s = matchesNumber s :=
  doValidate_eq_matchesNumber s

example : NumberGrammar [32, 45, 49, 50, 46, 53, 10] :=
  ⟨[32], [45], [49, 50], [46, 53], [10], by decide, by decide, by decide, Or.inr rfl, by decide,
    Or.inr ⟨[53], rfl, by decide, Or.inl (by decide)⟩⟩

example : matchesNumber [32, 45, 49, 50, 46, 53, 10] = true ∧ matchesNumber [45, 46] = false ∧
    matchesNumber [49, 32, 50] = false ∧ matchesNumber [49, 101, 51] = false := by decide

/-- every string that is not a numeral converts to NaN (for any fast-path threshold) -/
theorem toDouble_invalid_is_nan (threshold : Nat) (s : List Nat) (h0 : ∀ c ∈ s, c ≠ 0)
    (h : matchesNumber s = false) : toDoubleT threshold s = .nan := by
  have hs : s.takeWhile (· ≠ 0) = s := by
    clear h
    induction s with
    | nil => rfl
    | cons c t ih =>
      have hc : c ≠ 0 := h0 c (by simp)
      simp only [List.takeWhile_cons, ne_eq, hc, not_false_eq_true, decide_true, if_true]
      rw [ih (fun d hd => h0 d (by simp [hd]))]
  have hv : doValidate s = false := by rw [doValidate_eq_matchesNumber]; exact h
  unfold toDoubleT toDoubleK
  simp only [hs]
  split
  · rfl
  · have : (doValidate2 s).1 = false := hv
    cases hd : doValidate2 s with
    | mk a b => simp_all

example : toDoubleT 10 [49, 101, 51] = .nan := by decide

/-! ## number → string -/

/-- every precision in the regenerated `thePrintfStrings` table is at least 1 (so `sprintf` always
writes a decimal point), the table is not empty, the wide-character buffers are as large as the
narrow one, the literal strings are the XPath ones, and the integer fast path of `convertHelper`
(< threshold characters, through `long`) stays below 2^53.  Re-checked against the current source. -/
theorem generated_constants_sane :
    Generated.C18.printfPrecisions ≠ [] ∧
    (∀ p ∈ Generated.C18.printfPrecisions, 1 ≤ p ∧ p ≤ 35) ∧
    21 ≤ Generated.C18.scalarBuffer ∧
    Generated.C18.toCharactersBuffer ≤ Generated.C18.toCharactersResult ∧
    Generated.C18.nanString = [78, 97, 78] ∧
    Generated.C18.posInfString = [73, 110, 102, 105, 110, 105, 116, 121] ∧
    Generated.C18.negInfString = [45, 73, 110, 102, 105, 110, 105, 116, 121] ∧
    Generated.C18.zeroString = [48] ∧
    Generated.C18.longHackThreshold ≤ 16 ∧ 1 ≤ Generated.C18.convertBuffer := by
  decide

/-- **Output shape of `string(number)`, for every double and every configuration whose precisions are
≥ 1**: NaN and the infinities give the three literal strings, both zeros give `0`, and every other
value gives `DecimalForm (signOf neg)`: a `-` exactly when the sign bit is set, then at least one
digit without superfluous leading zero, then nothing or a point followed by at least one digit the
last of which is not `0` — no exponent, no trailing fractional zero, a digit on each side of the
point.  (`numberToString … = ok s`: the runs that stay inside the buffer, see `toString_no_overflow`.) -/
theorem toString_format (cfg : NumCfg) (x : Dbl) (s : List Nat) (hP : ∀ p ∈ cfg.precisions, 1 ≤ p)
    (h : numberToString cfg x = .ok s) :
    match x with
    | .nan => s = cfg.nanS
    | .inf false => s = cfg.posInfS
    | .inf true => s = cfg.negInfS
    | .fin neg m _ => if m = 0 then s = cfg.zeroS else DecimalForm (signOf neg) s :=
  numberToString_format cfg x s hP h

/-- the same over the constants of the current source, literals spelled out -/
theorem toString_format_generated (x : Dbl) (s : List Nat) (h : numberToString genCfg x = .ok s) :
    match x with
    | .nan => s = [78, 97, 78]
    | .inf false => s = [73, 110, 102, 105, 110, 105, 116, 121]
    | .inf true => s = [45, 73, 110, 102, 105, 110, 105, 116, 121]
    | .fin neg m _ => if m = 0 then s = [48] else DecimalForm (signOf neg) s := by
  have hs := generated_constants_sane
  have := toString_format genCfg x s (fun p hp => (hs.2.1 p hp).1) h
  cases x with
  | nan => simpa [genCfg, hs.2.2.2.2.1] using this
  | inf n => cases n
             · simpa [genCfg, hs.2.2.2.2.2.1] using this
             · simpa [genCfg, hs.2.2.2.2.2.2.1] using this
  | fin neg m e => simpa [genCfg, hs.2.2.2.2.2.2.2.1] using this

/-- the shape predicate is satisfiable by a non-trivial string: "-123.0125" -/
example : DecimalForm (signOf true) [45, 49, 50, 51, 46, 48, 49, 50, 53] :=
  ⟨[49, 50, 51], by decide, by decide, Or.inr (by decide), Or.inr ⟨[48, 49, 50], 53, by decide, by decide, by decide, by decide⟩⟩

example : numberToString genCfg (Dbl.ofBits 0xc05ec0ca45d1ca7e) = .ok [45, 49, 50, 51, 46, 48, 49, 50, 51, 52, 53, 55, 52, 55, 56, 50, 55, 53, 52] := by
  decide +kernel

/-- NaN, the infinities and both zeros print as the literal strings -/
theorem toString_special_values (cfg : NumCfg) :
    numberToString cfg .nan = .ok cfg.nanS ∧ numberToString cfg (.inf false) = .ok cfg.posInfS ∧
    numberToString cfg (.inf true) = .ok cfg.negInfS ∧
    numberToString cfg (Dbl.zero false) = .ok cfg.zeroS ∧ numberToString cfg (Dbl.zero true) = .ok cfg.zeroS := by
  refine ⟨rfl, rfl, rfl, ?_, ?_⟩ <;> simp [numberToString, Dbl.zero]

/-- **Buffer bound.**  If `⌊|x|⌋ + 2 ≤ 10^k` (the integer part has at most `k` digits even after
rounding up), every precision is in `[1, P]`, and `sign + k + 1 + P + 1 ≤ sizeof theBuffer`
(and the integer path's buffer holds 20 characters + NUL), no `sprintf` overruns the buffer and the
zero-stripping scan stays inside it: the model never reaches `memErr`.  When `formatSmallNumber` is
compiled in it writes at most 1 + 2 + 323 + 18 characters + NUL, so 345 bytes are enough for it. -/
theorem toString_no_overflow (cfg : NumCfg) (neg : Bool) (m : Nat) (e : Int) (k P : Nat)
    (hne : cfg.precisions ≠ []) (hP : ∀ p ∈ cfg.precisions, 1 ≤ p ∧ p ≤ P) (hk : 1 ≤ k)
    (hx : truncNat m e + 2 ≤ 10 ^ k)
    (hB : (if neg then 1 else 0) + k + 1 + P + 1 ≤ cfg.buffer) (hS : 21 ≤ cfg.scalarBuffer)
    (hT : cfg.tinyFallback = true → 345 ≤ cfg.buffer) :
    numberToString cfg (.fin neg m e) ≠ .memErr :=
  numberToString_no_overflow cfg neg m e k P hne hP hk hx hB hS hT

example : truncNat (2^52) 11 + 2 ≤ 10 ^ 19 ∧ (0 + 19 + 1 + 35 + 1 ≤ 101) := by decide

/-- a finite binary64 value: 53-bit significand, exponent at most 971 -/
def IsBinary64 : Dbl → Prop
  | .fin _ m e => m < 2 ^ 53 ∧ e ≤ 971
  | _ => True

/-- **A buffer of `1 + 309 + 1 + P + 1` bytes is enough for every double** (P = largest precision;
347 for the current table): this is the size the proposed repair gives `theBuffer`. -/
theorem toString_no_overflow_all_doubles (cfg : NumCfg) (P : Nat) (x : Dbl) (hx : IsBinary64 x)
    (hne : cfg.precisions ≠ []) (hP : ∀ p ∈ cfg.precisions, 1 ≤ p ∧ p ≤ P)
    (hB : 1 + 309 + 1 + P + 1 ≤ cfg.buffer) (hS : 21 ≤ cfg.scalarBuffer)
    (hT : cfg.tinyFallback = true → 345 ≤ cfg.buffer) :
    numberToString cfg x ≠ .memErr := by
  cases x with
  | nan => simp [numberToString]
  | inf n => cases n <;> simp [numberToString]
  | fin neg m e =>
    obtain ⟨hm, he⟩ := hx
    have hbig : 2 ^ 53 * 2 ^ 971 + 2 ≤ 10 ^ 309 := by decide +kernel
    have ht : truncNat m e + 2 ≤ 10 ^ 309 := by
      unfold truncNat
      split
      · have h1 : 2 ^ e.toNat ≤ 2 ^ 971 := Nat.pow_le_pow_right (by decide) (by omega)
        have h2 : m * 2 ^ e.toNat ≤ 2 ^ 53 * 2 ^ 971 := Nat.mul_le_mul (by omega) h1
        omega
      · have h1 : m / 2 ^ (-e).toNat ≤ m := Nat.div_le_self _ _
        have h3 : (2 : Nat) ^ 53 ≤ 2 ^ 53 * 2 ^ 971 := Nat.le_mul_of_pos_right _ (Nat.pow_pos (by decide))
        omega
    apply toString_no_overflow cfg neg m e 309 P hne hP (by decide) ht _ hS hT
    cases neg <;> simp <;> omega

/-- if the regenerated buffer sizes pass that test, `NumberToDOMString` cannot overrun for any double -/
theorem toString_no_overflow_generated (h : generatedBufferCoversAllDoubles = true) (x : Dbl) (hx : IsBinary64 x) :
    numberToString genCfg x ≠ .memErr := by
  have hs := generated_constants_sane
  have hb : 1 + 309 + 1 + 35 + 1 ≤ Generated.C18.toStringBuffer := by
    have := of_decide_eq_true h; exact this.1
  exact toString_no_overflow_all_doubles genCfg 35 x hx hs.1 hs.2.1 hb hs.2.2.1 (fun _ => by show 345 ≤ Generated.C18.toStringBuffer; omega)

/-- **The unchanged code violates the full statement**: with `char theBuffer[101]` (or smaller) and
`"%.10f"` first in the table, `string(1e90)` needs 91 + 1 + 10 + 1 = 103 bytes: buffer overrun
(replayed under ASan by the check: stack-buffer-overflow in `NumberToDOMString`). -/
theorem toString_overflow_counterexample (cfg : NumCfg) (rest : List Nat) (hB : cfg.buffer ≤ 101)
    (hp : cfg.precisions = 10 :: rest) :
    numberToString cfg (Dbl.ofBits 0x52b38f9d01e4d940) = .memErr := by
  have hx : Dbl.ofBits 0x52b38f9d01e4d940 = .fin false 5505929061914944 248 := by decide +kernel
  have hm : (5505929061914944 : Nat) ≠ 0 := by decide
  have hi : (Dbl.ofInt (castInt64 false 5505929061914944 248)).ieeeEq (.fin false 5505929061914944 248) = false := by
    decide +kernel
  have hl : (printfF 10 false 5505929061914944 248).length = 102 := by decide +kernel
  rw [hx]
  have hit : intTest cfg false 5505929061914944 248 = false := by rw [intTest_iff]; exact hi
  simp only [numberToString, hm, if_false, hit, Bool.false_eq_true, finalBuffer, hp, printLoop, hl]
  have : 102 + 1 > cfg.buffer := by omega
  simp [this]

example : ({ buffer := 101, scalarBuffer := 101, precisions := [10, 11], nanS := [], posInfS := [], negInfS := [], zeroS := [] } : NumCfg).buffer ≤ 101 := by decide

/-- **Tiny numbers do not round-trip without `formatSmallNumber`** (the code before
proposed/C18-tiny-numbers.diff, `tinyFallback = false`): with the current precision table
`string(1e-40)` is `"0"`, which reads back as 0. -/
theorem toString_roundtrip_counterexample_tiny :
    numberToString { genCfg with buffer := 400, tinyFallback := false } (Dbl.ofBits 0x37a16c262777579c) = .ok [48] ∧
    toDoubleSpec [48] ≠ Dbl.ofBits 0x37a16c262777579c := by
  decide +kernel

/-- … and `string(-1e-40)` is `"-0"`; `1.2344908527986638e-21` keeps only 15 significant digits
(`0.00000000000000000000123449085279866`) -/
theorem toString_negative_tiny_counterexample :
    numberToString { genCfg with buffer := 400, tinyFallback := false } (Dbl.ofBits 0xb7a16c262777579c) = .ok [45, 48] ∧
    numberToString { genCfg with buffer := 400, tinyFallback := false } (Dbl.ofBits 0x3b9751a1a7a1b1ee) =
      .ok [48, 46, 48, 48, 48, 48, 48, 48, 48, 48, 48, 48, 48, 48, 48, 48, 48, 48, 48, 48, 48, 48, 49, 50, 51, 52, 52, 57, 48, 56, 53, 50, 55, 57, 56, 54, 54] ∧
    toDoubleSpec [48, 46, 48, 48, 48, 48, 48, 48, 48, 48, 48, 48, 48, 48, 48, 48, 48, 48, 48, 48, 48, 48, 49, 50, 51, 52, 52, 57, 48, 56, 53, 50, 55, 57, 56, 54, 54] ≠ Dbl.ofBits 0x3b9751a1a7a1b1ee := by
  decide +kernel

/-- with `formatSmallNumber` (`tinyFallback = true`) the same values print 18 significant digits in
positional form and read back exactly (instances; the general statement is
`toString_roundtrip_printf_partial` with `readsBack`) -/
theorem toString_tiny_fixed_examples :
    ([Dbl.ofBits 0x37a16c262777579c, Dbl.ofBits 0xb7a16c262777579c, Dbl.ofBits 0x3b9751a1a7a1b1ee,
      Dbl.ofBits 0x0000000000000001, Dbl.ofBits 0x8000000000000001, Dbl.ofBits 0x0010000000000000].all fun x =>
      match numberToString { genCfg with buffer := 400, tinyFallback := true } x with
      | .ok s => toDoubleSpec s == x
      | .memErr => false) = true ∧
    numberToString { genCfg with buffer := 400, tinyFallback := true } (Dbl.ofBits 0xb7a16c262777579c) =
      .ok ([45, 48, 46] ++ List.replicate 40 48 ++ [57, 57, 57, 57, 57, 57, 57, 57, 57, 57, 57, 57, 57, 57, 57, 57, 50, 57]) := by
  decide +kernel

/-! ## string → number: value -/

/-- **`number(s)` is the nearest double to the numeral** (`toDoubleSpec`: exact decimal value, one
round-to-nearest-even, sign kept) **for every numeral that takes the `atof` path** of
`convertHelper`: a decimal point was seen, or the string has at least `threshold` characters.
`_partial`: `atof` itself is modelled (glibc, trusted base) as exact value + `roundNE`, so this
theorem carries the glue (validation, whitespace trimming, path selection), not glibc's rounding. -/
theorem toDouble_spec_partial (threshold : Nat) (s : List Nat) (h0 : ∀ c ∈ s, c ≠ 0)
    (hm : matchesNumber s = true) (hslow : (doValidate2 s).2 = true ∨ threshold ≤ s.length) :
    toDoubleT threshold s = toDoubleSpec s :=
  atof_path threshold s h0 hm hslow

example : matchesNumber [32, 45, 49, 46, 53] = true ∧ (doValidate2 [32, 45, 49, 46, 53]).2 = true := by decide

/-- **The integer fast path computes the numeral's value**: for `ws* '-'? digits+ ws*` shorter than
the threshold, `toDouble` is `double(long)` of exactly the integer the digits denote (the
`WideStringToIntegral` loop, as written).  With `generated_constants_sane` (threshold ≤ 16) that
integer is below 10^15 < 2^53, hence exactly representable.  `_partial`: differs from the
specification in the sign of zero only (`toDouble_negative_zero_counterexample`). -/
theorem toDouble_fast_path_partial (threshold : Nat) (w1 : List Nat) (neg : Bool) (ds w2 : List Nat)
    (h1 : ∀ c ∈ w1, isWs c = true) (hds : ∀ c ∈ ds, isDigit c = true) (hne : ds ≠ [])
    (h2 : ∀ c ∈ w2, isWs c = true) (hlen : (numeralString w1 neg ds w2).length < threshold) :
    toDoubleT threshold (numeralString w1 neg ds w2) =
      Dbl.ofInt (if neg then -(natOfDigits ds : Int) else (natOfDigits ds : Int)) :=
  fast_path threshold w1 neg ds w2 h1 hds hne h2 hlen

example : numeralString [32] true [52, 50] [10] = [32, 45, 52, 50, 10] ∧
    toDoubleT 10 [32, 45, 52, 50, 10] = Dbl.ofInt (-42) := by decide +kernel

/-- fast path before the repair (`keepSign = false`): `number("-0")` is `+0`, the nearest double to
the numeral `-0` is `-0` (and `number("-0.0")`, which goes through `atof`, is `-0`). -/
theorem toDouble_negative_zero_counterexample :
    toDoubleT 10 [45, 48] = Dbl.zero false ∧ toDoubleSpec [45, 48] = Dbl.zero true ∧
    toDoubleT 10 [45, 48, 46, 48] = Dbl.zero true := by
  decide +kernel

/-- **Repaired fast path (`keepSign = true`, proposed/C18-negzero-fastpath.diff) = specification**:
for `ws* '-'? digits+ ws*` shorter than the threshold (≤ 16, so the value is below 10^15 < 2^53)
`toDouble` is the nearest double to the numeral *including the sign of zero*. -/
theorem toDouble_fast_path_fixed_spec (threshold : Nat) (hth : threshold ≤ 16) (w1 : List Nat) (neg : Bool)
    (ds w2 : List Nat) (h1 : ∀ c ∈ w1, isWs c = true) (hds : ∀ c ∈ ds, isDigit c = true) (hne : ds ≠ [])
    (h2 : ∀ c ∈ w2, isWs c = true) (hlen : (numeralString w1 neg ds w2).length < threshold) :
    toDoubleK true threshold (numeralString w1 neg ds w2) = toDoubleSpec (numeralString w1 neg ds w2) :=
  fast_path_fixed_spec threshold hth w1 neg ds w2 h1 hds hne h2 hlen

example : toDoubleK true 10 [45, 48] = Dbl.zero true ∧ toDoubleK true 10 [32, 45, 48, 48, 10] = Dbl.zero true ∧
    toDoubleK true 10 [45, 52, 50] = Dbl.ofInt (-42) := by decide +kernel

/-! ## round trip -/

/-- the `do { *--p = '0' + v % 10 } while (v /= 10)` loop of `ScalarToDecimalString` writes the
exact decimal numeral of its argument: reading the digits back gives the same integer. -/
theorem scalarToDecimal_exact (n : Nat) : natOfDigits (decDigits n) = n ∧ (∀ c ∈ decDigits n, isDigit c = true) ∧
    decDigits n ≠ [] :=
  ⟨natOfDigits_decDigits n, decDigits_all n, decDigits_ne_nil n⟩

/-- **`number(string(x)) = x` for every integral double whose numeral is short enough for the
integer fast path** (|x| < 10^k with k + 1 < threshold; with the current constants: |x| < 10^8):
`string(x)` is the exact numeral of the integer (`ScalarToDecimalString`), and `toDouble` of that
string compares IEEE-equal to `x`.  `_partial`: the full statement (every double) is false —
`toString_roundtrip_counterexample_tiny` — and for the printf/atof paths it depends on glibc's
exactness, which is modelled, not proved. -/
theorem toString_roundtrip_partial (cfg : NumCfg) (threshold : Nat) (neg : Bool) (m : Nat) (e : Int) (hm : m ≠ 0)
    (hint : (Dbl.ofInt (castInt64 neg m e)).ieeeEq (.fin neg m e) = true)
    (hS : 21 ≤ cfg.scalarBuffer) (k : Nat) (hk : 1 ≤ k) (hsmall : (castInt64 neg m e).natAbs < 10 ^ k)
    (hth : k + 1 < threshold) :
    ∃ s, numberToString cfg (.fin neg m e) = .ok s ∧
      natOfDigits (s.dropWhile (· == cMinus)) = (castInt64 neg m e).natAbs ∧
      (toDoubleT threshold s).ieeeEq (.fin neg m e) = true :=
  roundtrip_small_int cfg threshold neg m e hm hint hS k hk hsmall hth

/-- hypotheses satisfiable: x = -1234567 = -(1234567·2^32)·2^-32 -/
example : (Dbl.ofInt (castInt64 true (1234567 * 2 ^ 32) (-32))).ieeeEq (.fin true (1234567 * 2 ^ 32) (-32)) = true ∧
    (castInt64 true (1234567 * 2 ^ 32) (-32)).natAbs < 10 ^ 8 ∧ 8 + 1 < Generated.C18.longHackThreshold := by
  decide +kernel

/-- **Round trip of the precision-loop path**: for every double that is not printed through the
int64 path and for which the loop ends with a read-back match (`readsBack cfg … = true`: decidable per
value; it is `false` exactly for the values left at the last precision without a match), the final
string `s` — after zero stripping and point repair — is a numeral whose specified value
`toDoubleSpec s` is IEEE-equal to `x`, and `toDouble s` returns exactly `toDoubleSpec s` whenever `s`
takes the `atof` path (it contains a decimal point or has at least `threshold` characters).
Key facts proved: stripping trailing fractional zeros does not change the value `atof` reads
(`roundRat` depends on the value only).  `_partial`: that the loop does reach a match for a given `x`
is the hypothesis, not proved from a digits bound (17 significant digits within 35 places); it is
evaluated per value by the driver/oracle, and is false below about 1e-19. -/
theorem toString_roundtrip_printf_partial (cfg : NumCfg) (keep : Bool) (threshold : Nat) (neg : Bool) (m : Nat)
    (e : Int) (hm : m ≠ 0) (hP : ∀ p ∈ cfg.precisions, 1 ≤ p)
    (hnint : (Dbl.ofInt (castInt64 neg m e)).ieeeEq (.fin neg m e) = false)
    (hexit : readsBack cfg neg m e = true) :
    ∃ s, numberToString cfg (.fin neg m e) = .ok s ∧ matchesNumber s = true ∧
      (toDoubleSpec s).ieeeEq (.fin neg m e) = true ∧
      (((doValidate2 s).2 = true ∨ threshold ≤ s.length) → toDoubleK keep threshold s = toDoubleSpec s) := by
  unfold readsBack at hexit
  cases hl : finalBuffer cfg neg m e with
  | none => rw [hl] at hexit; cases hexit
  | some buf =>
    rw [hl] at hexit
    exact roundtrip_printf cfg keep threshold neg m e hm hP hnint buf hl hexit

/-- hypotheses satisfiable: x = 0.1 reads back; x = 1e-40 does not without `formatSmallNumber` and does with it,
as does the smallest subnormal -/
example : readsBack genCfg false 0x1999999999999a (-56) = true ∧
    (Dbl.ofInt (castInt64 false 0x1999999999999a (-56))).ieeeEq (.fin false 0x1999999999999a (-56)) = false ∧
    readsBack { genCfg with tinyFallback := false } false 0x116c262777579c (-185) = false ∧
    readsBack { genCfg with tinyFallback := true } false 0x116c262777579c (-185) = true ∧
    readsBack { genCfg with tinyFallback := true } true 1 (-1074) = true := by
  decide +kernel

/-- **Guarding the int64 cast does not change any result** (proposed/C18-int64-cast-range.diff): wherever
C++ leaves `static_cast<XMLInt64>(x)` undefined (`castIsUB`: |trunc x| outside [-2^63, 2^63)) the x86
result never compares equal to `x`, so the integer path is taken for exactly the same values with or
without the range test — and with it the undefined conversion is never evaluated. -/
theorem cast_guard_equiv (cfg : NumCfg) (neg : Bool) (m : Nat) (e : Int) :
    intTest cfg neg m e = (Dbl.ofInt (castInt64 neg m e)).ieeeEq (.fin neg m e) ∧
    (castIsUB neg m e = true → intTest cfg neg m e = false) := by
  refine ⟨intTest_iff cfg neg m e, fun h => ?_⟩
  rw [intTest_iff]; exact castUB_not_eq neg m e h

example : castIsUB false (2 ^ 52) 12 = true ∧ castIsUB true (2 ^ 52) 11 = false := by decide +kernel

/-- `formatSmallNumber` ("%.17e" expanded, proposed/C18-tiny-numbers.diff) always leaves a printf-shaped
buffer `[-]0.` + zeros + digits of at most 344 characters (345 bytes with the NUL ≤ 347). -/
theorem formatSmallNumber_fits (neg : Bool) (m : Nat) (e : Int) (b : List Nat) (h : sciExpand neg m e = some b) :
    PrintfShape (signOf neg) b ∧ b.length ≤ 344 :=
  sciExpand_shape neg m e b h

example : sciExpand true 1 (-1074) = some ([45, 48, 46] ++ List.replicate 323 48 ++
    [52, 57, 52, 48, 54, 53, 54, 52, 53, 56, 52, 49, 50, 52, 54, 53, 52, 52]) := by decide +kernel

/-- **Round trip for the `%.Nf` range under the 17-digit lemma.**  `Digits17Suffice` is the precisely stated
assumption about decimal ↔ binary rounding (17 significant digits identify a double; an explicit
hypothesis, not an axiom).  Under it, for every canonical non-zero `x` that does not take the int64 path
and whose last-precision rendering shows at least 17 significant digits (`|x|·10^P ≥ 10^16`:
`|x| ≳ 1e-19` for P = 35), the printed string is a numeral whose specified value is IEEE-equal to `x`. -/
theorem toString_roundtrip_digits17 (H : Digits17Suffice) (cfg : NumCfg) (keep : Bool) (threshold : Nat)
    (neg : Bool) (m : Nat) (e : Int) (hc : Canonical m e) (hm : m ≠ 0) (hP : ∀ p ∈ cfg.precisions, 1 ≤ p)
    (hnint : (Dbl.ofInt (castInt64 neg m e)).ieeeEq (.fin neg m e) = false)
    (P : Nat) (hlast : cfg.precisions.getLast? = some P) (h17 : 10 ^ 16 ≤ scaledQ P m e)
    (buf : List Nat) (hfin : finalBuffer cfg neg m e = some buf) :
    ∃ s, numberToString cfg (.fin neg m e) = .ok s ∧ matchesNumber s = true ∧
      (toDoubleSpec s).ieeeEq (.fin neg m e) = true ∧
      (((doValidate2 s).2 = true ∨ threshold ≤ s.length) → toDoubleK keep threshold s = toDoubleSpec s) :=
  roundtrip_printf cfg keep threshold neg m e hm hP hnint buf hfin
    (readsBack_of_digits17 H cfg neg m e hc hm hP P hlast h17 buf hfin)

/-- hypotheses satisfiable: x = 0.1 with the current table (P = 35) -/
example : Canonical 0x1999999999999a (-56) ∧ Generated.C18.printfPrecisions.getLast? = some 35 ∧
    10 ^ 16 ≤ scaledQ 35 0x1999999999999a (-56) ∧ (finalBuffer genCfg false 0x1999999999999a (-56)).isSome = true := by
  refine ⟨Or.inr (by decide), by decide, by decide +kernel, by decide +kernel⟩

/-! ## round / floor / ceiling

`Canonical m e`: the finite values a bit pattern decodes to (`ofBits_canonical`). -/

/-- every 64-bit pattern decodes to NaN, an infinity, or a canonical finite value: the hypotheses
`Canonical m e` below cover every IEEE double. -/
theorem all_doubles_canonical (b : Nat) : match Dbl.ofBits b with
    | .fin _ m e => Canonical m e
    | _ => True :=
  ofBits_canonical b

/-- **`floor` is XPath floor for every finite double** (largest integer ≤ x, sign of zero as IEEE) -/
theorem floor_spec (neg : Bool) (m : Nat) (e : Int) (hc : Canonical m e) :
    floor (.fin neg m e) = floorSpec (.fin neg m e) :=
  floor_eq_spec neg m e hc

/-- **`ceiling` is XPath ceiling for every finite double** (smallest integer ≥ x; (-1, 0) ↦ -0) -/
theorem ceiling_spec (neg : Bool) (m : Nat) (e : Int) (hc : Canonical m e) :
    ceiling (.fin neg m e) = ceilingSpec (.fin neg m e) :=
  ceiling_eq_spec neg m e hc

example : Canonical (3 * 2 ^ 51) (-52) ∧ floor (.fin true (3 * 2 ^ 51) (-52)) = Dbl.ofInt (-2) := by
  refine ⟨Or.inr (by decide), by decide +kernel⟩

/-- **The repaired `round` (variant 1: `modf`, then `ceil`/`floor`/integral part) is XPath round for
every double**: the integer closest to x, ties toward +∞, NaN/±∞/±0 unchanged, [-0.5, 0) ↦ -0. -/
theorem round_fixed_spec (x : Dbl) (hx : match x with | .fin _ m e => Canonical m e | _ => True) :
    roundV1 x = roundSpec x := by
  cases x with
  | nan => rfl
  | inf n => rfl
  | fin neg m e => exact roundV1_eq_spec neg m e hx

/-- the same for `round` of the current source once the translator recognises the repaired form -/
theorem round_spec_generated (h : Generated.C18.roundVariant = 1) (x : Dbl)
    (hx : match x with | .fin _ m e => Canonical m e | _ => True) : round x = roundSpec x := by
  unfold round; rw [if_pos h]; exact round_fixed_spec x hx

/-- the three deviations of variant 0 are gone in variant 1 -/
example : roundV1 (Dbl.ofBits 0x3fdfffffffffffff) = Dbl.zero false ∧
    roundV1 (Dbl.ofBits 0x4330000000000001) = Dbl.ofBits 0x4330000000000001 ∧
    roundV1 (Dbl.ofBits 0xbfd3333333333333) = Dbl.zero true ∧ roundV1 (Dbl.zero true) = Dbl.zero true := by
  decide +kernel

/-- variant 0 (`long(x + 0.5)`, the code before proposed/C18-round.diff):
`round(0.49999999999999994)` is 1 (and `round(-0.49999999999999994)` is -1): `x + 0.5` is
rounded up to 1.0 before the truncation.  XPath: 0 / -0. -/
theorem round_spec_counterexample_half_ulp :
    roundV0 (Dbl.ofBits 0x3fdfffffffffffff) = Dbl.ofBits 0x3ff0000000000000 ∧
    roundSpec (Dbl.ofBits 0x3fdfffffffffffff) = Dbl.zero false ∧
    roundV0 (Dbl.ofBits 0xbfdfffffffffffff) = Dbl.ofBits 0xbff0000000000000 ∧
    roundSpec (Dbl.ofBits 0xbfdfffffffffffff) = Dbl.zero true := by
  decide +kernel

/-- variant 0: `round(2^52 + 1)` is `2^52 + 2`: the tie `x + 0.5` goes to the even neighbour. -/
theorem round_spec_counterexample_big_odd :
    roundV0 (Dbl.ofBits 0x4330000000000001) = Dbl.ofBits 0x4330000000000002 ∧
    roundSpec (Dbl.ofBits 0x4330000000000001) = Dbl.ofBits 0x4330000000000001 := by
  decide +kernel

/-- variant 0: `round(-0.3)` and `round(-0)` are `+0`; XPath prescribes `-0`. -/
theorem round_spec_counterexample_negative_zero :
    roundV0 (Dbl.ofBits 0xbfd3333333333333) = Dbl.zero false ∧
    roundSpec (Dbl.ofBits 0xbfd3333333333333) = Dbl.zero true ∧
    roundV0 (Dbl.zero true) = Dbl.zero false ∧ roundSpec (Dbl.zero true) = Dbl.zero true := by
  decide +kernel

/-! ## the engine's recycled value objects -/

/-- **A recycled XNumber / XString takes the new value unconditionally**: in the current source
`XNumber::set` is exactly `m_value = theValue; m_cachedStringValue.clear();`, `XString::set` is exactly
`m_value = theString; clearCachedNumberValue();`, and the factory's recycle branches go through `set`.
(An "unchanged?" shortcut on `==` would keep +0 where -0 is set, and a stale cached string.)  The
behaviour itself is observed by the engine stream of the check (values bound to variables after equal
but not identical values were created and dropped in the same transformation). -/
theorem recycled_objects_take_the_new_value :
    Generated.C18.xnumberSetUnconditional = true ∧ Generated.C18.xstringSetUnconditional = true ∧
    Generated.C18.factoryRecyclesThroughSet = true := by
  decide

end XalanModel.Props.C18
