import XalanModel.C03.StatusProofs
import XalanModel.C03.BuffersProofs
import XalanModel.C03.LoopsProofs
import XalanModel.C03.Structure
import XalanModel.C03.GuardProofs
import XalanModel.C03.UriProofs
import XalanModel.C03.Depth
import XalanModel.Generated.C03_Messages
/-!
# C03 — no input crashes, hangs or corrupts memory; every failure is a reported error

Property theorems only (helper lemmas: `XalanModel/C03/*Proofs.lean`).

Full-strength statement of the property: *for every byte string given as stylesheet, source, XPath or parameter,
every entry point returns normally — success, or a non-zero status with a non-empty message — without touching
memory outside its objects, and the object stays usable.*  No executable model carries the memory safety of
200 kLOC of C++; what is proved here, for all inputs, is the part that is logic:

* **error mapping** (`Generated.C03_Exceptions`, regenerated from the source on every run): C++ handler dispatch
  over the class table; which thrown classes each catch chain turns into which status/message;
* **fixed-size buffers** (`Generated.C03_Buffers`): the transcribed loops never store outside their arrays and
  terminate, for every 64-bit input.

Where the unchanged code violates the full statement a `…_counterexample` is proved and the same witness is
replayed on the real library by `checks/c03.py` (known findings).  The rest of the property is *searched*
(sanitizer build + malformed inputs), not proved — see `design/C03.md`.
-/
namespace XalanModel.Props.C03
open XalanModel.C03 XalanModel.Generated.C03_Exceptions XalanModel.Generated.C03_Buffers XalanModel.Generated.C03_Structure

/-! ## (a) error mapping -/

/-- **[except.handle] dispatch, soundness and completeness, any chain, any class.**  `dispatch` returns `h`
    exactly when `h` is the first handler in order of appearance that matches. -/
theorem dispatch_first_match (chain : List Handler) (c : Cls) (h : Handler) :
    dispatch chain c = some h ↔
      ∃ pre post, chain = pre ++ h :: post ∧ handlerMatches h c = true ∧ ∀ g ∈ pre, handlerMatches g c = false :=
  dispatch_eq_some_iff chain c h

/-- an exception leaves the entry point iff no handler of the chain matches its class -/
theorem dispatch_none_iff (chain : List Handler) (c : Cls) :
    dispatch chain c = none ↔ ∀ g ∈ chain, handlerMatches g c = false :=
  dispatch_eq_none_iff chain c

example : dispatch chain_doTransform .XPathParserException = some ⟨some .XSLException, -1, true, .defaultFormat, false⟩ := by
  decide

/-- **Every class of the library's four exception families — thrown anywhere or merely declared — has a handler
    in each of compileStylesheet / parseSource / doTransform, that handler sets a non-zero status and does not
    re-throw.**  (`decide` over the complete regenerated class table × the three regenerated chains.) -/
theorem every_library_exception_caught :
    ∀ c : Cls, rooted c = true → ∀ e ∈ transformerChains,
      ∃ h, dispatch e.2 c = some h ∧ h.status ≠ 0 ∧ h.rethrows = false := by
  intro c
  cases c <;> decide

example : Cls.XPathParserException ∈ thrownByLibrary ∧ rooted .XPathParserException = true := by decide

/-- **Reported error (partial).**  For an exception of the four families whose own text is non-empty, each of the
    three chain-bearing methods returns normally with a non-zero status *and a non-empty message*, whatever the
    problem listener wrote.  Partial: (1) the hypothesis `msgEmpty = false` is needed — see
    `empty_message_counterexample`; (2) classes outside the four families are covered by
    `every_exception_caught` / `foreign_exceptions_reported`; (3) it speaks about the dispatch model of the catch chains, not about
    what the C++ does before the `throw`. -/
theorem reported_error_partial :
    ∀ e : Exc, rooted e.cls = true → e.msgEmpty = false → ∀ ch ∈ transformerChains, ∀ l : Bool,
      Reported (outcome ch.2 e l) := by
  intro ⟨c, me, f⟩ hr hm
  simp only at hm; subst hm
  revert hr
  cases c <;> cases f <;> decide

example : rooted (Exc.mk .xerces_SAXParseException false false).cls = true := by decide

/-- Without the hypothesis the statement is false in the model *and in the code*: a `SAXException` with an empty
    text through `doTransform` gives status −2 with an empty message (replayed by the injection harness:
    `inject doTransform xerces_SAXException 1` → `rc=-2 msg=0`). -/
theorem empty_message_counterexample :
    outcome chain_doTransform ⟨.xerces_SAXException, true, false⟩ false = .returned (-2) false ∧
    ¬ Reported (outcome chain_doTransform ⟨.xerces_SAXException, true, false⟩ false) := by
  decide

/-- **Every exception is caught — full strength (DESIGN §6 item 20 repaired).**  Each of compileStylesheet / parseSource /
    doTransform ends in `catch(...)`, every handler assigns a non-zero status and none re-throws; hence *whatever* is thrown
    inside the `try` — a class of the table or not, the proof does not look at the class — the method returns normally with a
    non-zero status.  (General lemma `returnsError_of_catchAll`; `decide` for the side conditions of the regenerated chains.) -/
theorem every_exception_caught :
    ∀ ch ∈ transformerChains, ∀ (e : Exc) (l : Bool), ReturnsError (outcome ch.2 e l) := by
  intro ch hch e l
  have h1 : ∀ ch ∈ transformerChains, (∃ h ∈ ch.2, h.cls = none) ∧ ∀ h ∈ ch.2, h.status ≠ 0 ∧ h.rethrows = false := by
    decide
  exact returnsError_of_catchAll ch.2 (h1 ch hch).1 (h1 ch hch).2 e l

/-- … and for the exceptions that used to escape — `std::bad_alloc`, Xerces `OutOfMemoryException` (thrown by Xalan's own
    default memory manager), Xerces `DOMException`, `std::out_of_range` (XalanVector::at) — the report is complete: non-zero
    status *and* a non-empty message, whatever text the exception object carries (the handlers use literals / a formatted code). -/
theorem foreign_exceptions_reported :
    ∀ c ∈ [Cls.std_bad_alloc, .xerces_OutOfMemoryException, .xerces_DOMException, .std_out_of_range, .std_exception],
      ∀ ch ∈ transformerChains, ∀ me f l : Bool, Reported (outcome ch.2 ⟨c, me, f⟩ l) := by
  decide

example : transformerChains.length = 3 := by decide

/-- the set of classes with a `throw` site in the library that are outside the four families is exactly this
    (a new kind of foreign exception thrown by the library breaks this theorem) -/
theorem thrown_foreign_classes_pinned :
    thrownByLibrary.filter (fun c => !rooted c) = [.std_out_of_range, .xerces_OutOfMemoryException] := by
  decide

/-- no typed handler of any chain is shadowed by an earlier one (e.g. `SAXException` before `SAXParseException`, `std::exception`
    before `std::bad_alloc`): each is selected for at least one class of the table (`catch(...)` is exempt: it is there for the
    types the table does not know) -/
theorem no_dead_handler :
    ∀ ch ∈ transformerChains ++ xpathCapiChains, ∀ h ∈ ch.2, h.cls ≠ none → ∃ c ∈ Cls.all, dispatch ch.2 c = some h := by
  decide

/-- every exported `int` function of XalanCAPI.cpp calls only methods of XalanTransformer that are protected by a
    chain (directly, or through the `transform` overloads, which call nothing else), or has `catch(...)` itself -/
theorem capi_reaches_only_protected_methods :
    (∀ e ∈ capi, e.2.1 = "int" → capiProtected e = true) ∧ (∀ e ∈ transformerCalls, callsOk e = true) ∧
    1 ≤ inlineDoTransformOverloads := by
  decide

/-- **XPath C API: nothing escapes, whatever is thrown.**  Every exported function with a `try` ends in `catch(...)`,
    every handler sets a non-zero code and none re-throws; hence for *any* class (of the table or not — the proof does
    not look at the class) the function returns a non-zero status.  General lemma `returnsError_of_catchAll` + `decide`
    for the side conditions over the regenerated chains. -/
theorem xpath_capi_catches_everything :
    ∀ ch ∈ xpathCapiChains, ∀ (e : Exc) (l : Bool), ReturnsError (outcome ch.2 e l) := by
  intro ch hch e l
  have h1 : ∀ ch ∈ xpathCapiChains, (∃ h ∈ ch.2, h.cls = none) ∧ ∀ h ∈ ch.2, h.status ≠ 0 ∧ h.rethrows = false := by
    decide
  exact returnsError_of_catchAll ch.2 (h1 ch hch).1 (h1 ch hch).2 e l

example : xpathCapiChains ≠ [] := by decide

/-! ## (b) fixed-size buffers, (c) termination of their loops -/

/-- **ElemNumber::int2alphaCount** — for every 64-bit value and every table of radix ≥ 2 the loop terminates
    (never runs out of its fuel `val + 1`), never stores outside `buf[buflen + 1]`, and produces at most 64
    characters.  Buffer size and start position are the regenerated ones. -/
theorem int2alpha_no_memerr_terminates (val : Nat) (table : List Nat) (hr : 2 ≤ table.length) (hv : val < 2 ^ 64) :
    ∃ out, int2alphaCount val table = .ok out ∧ out.length ≤ 64 := by
  have hpow : val < table.length ^ 64 := Nat.lt_of_lt_of_le hv (Nat.pow_le_pow_left hr 64)
  obtain ⟨s', e, _, h2, _⟩ := alphaLoop_ok table.length table hr 64 (val + 1) (alphaInit val) (by omega)
    (by simpa [alphaInit] using hpow) (by simp [alphaInit]) (by simp [alphaInit, alphaStartPos])
    (by simp [alphaInit, alphaStartPos, alphaBufSize])
  refine ⟨alphaResult s', by simp [int2alphaCount, e], ?_⟩
  simp only [alphaResult, List.length_take, List.length_drop]
  simp only [alphaInit, alphaStartPos] at h2
  simp only [alphaBufLen]
  omega

example : int2alphaCount 703 [90, 65, 66, 67, 68, 69, 70, 71, 72, 73, 74, 75, 76, 77, 78, 79, 80, 81, 82, 83, 84, 85, 86,
    87, 88, 89] = .ok [65, 65, 65] := by decide

/-- the radix hypothesis is necessary: with a one-entry table the loop never ends and runs off the buffer -/
theorem int2alpha_radix1_counterexample : int2alphaCount 200 [90] = .memErr := by
  decide +kernel

/-- … and it holds for the tables the code passes (regenerated) -/
theorem alpha_tables_radix_ge_2 : ∀ t ∈ alphaTables, 2 ≤ t.2.length := by
  decide

/-- **ScalarToDecimalString** (all integer → string conversions) — for every 64-bit magnitude, signed or not: the
    loop terminates, every store is inside `theBuffer[MAX_PRINTF_DIGITS + 1]`, at most 21 characters result. -/
theorem scalarToDecimal_no_memerr_terminates (neg : Bool) (mag : Nat) (hv : mag < 2 ^ 64) :
    ∃ out, scalarToDecimal neg mag = .ok out ∧ out.length ≤ 21 := by
  have h20 : mag < 10 ^ 20 := Nat.lt_of_lt_of_le hv (by decide)
  have hstore : store (List.replicate intBufferSize 65535) intBufferEnd 0 =
      some ((List.replicate intBufferSize 65535).set intBufferEnd 0) :=
    store_some _ _ _ (by simp [intBufferSize, intBufferEnd])
  obtain ⟨p, b, e, h1, h2, h3⟩ := decLoop_ok 20 (mag + 1) mag intBufferEnd
    ((List.replicate intBufferSize 65535).set intBufferEnd 0) (by omega) h20 (by omega)
    (by simp [intBufferEnd]) (by simp [intBufferSize, intBufferEnd])
  simp only [List.length_set, List.length_replicate, intBufferSize] at h3
  simp only [intBufferEnd] at h1 h2
  cases neg with
  | false =>
    refine ⟨_, by simp only [scalarToDecimal, hstore, e]; rfl, ?_⟩
    simp only [List.length_take, List.length_drop, intBufferEnd]
    omega
  | true =>
    have hp : p ≠ 0 := by omega
    have hs2 : store b (p - 1) 45 = some (b.set (p - 1) 45) := store_some _ _ _ (by omega)
    refine ⟨_, by simp only [scalarToDecimal, hstore, e, hs2, if_neg hp]; rfl, ?_⟩
    simp only [List.length_take, List.length_drop, List.length_set, intBufferEnd]
    omega

/-- **ScalarToDecimalString = the decimal numeral (refinement to the specification `decSpec`).**  For every 64-bit
    magnitude the backwards-writing loop returns exactly `-`? followed by the digits of the number, most significant
    first — i.e. besides staying inside the buffer it computes the right string. -/
theorem scalarToDecimal_refines_spec (neg : Bool) (mag : Nat) (hv : mag < 2 ^ 64) :
    scalarToDecimal neg mag = .ok ((if neg then [45] else []) ++ decSpec mag) := by
  have h20 : mag < 10 ^ 20 := Nat.lt_of_lt_of_le hv (by decide)
  have hstore : store (List.replicate intBufferSize 65535) intBufferEnd 0 =
      some ((List.replicate intBufferSize 65535).set intBufferEnd 0) :=
    store_some _ _ _ (by simp [intBufferSize, intBufferEnd])
  obtain ⟨p, b, e, h1, h2⟩ := decLoop_spec 20 (mag + 1) mag intBufferEnd
    ((List.replicate intBufferSize 65535).set intBufferEnd 0) (by omega) h20 (by omega)
    (by simp [intBufferEnd]) (by simp [intBufferSize, intBufferEnd])
  have hlen : ((List.replicate intBufferSize 65535).set intBufferEnd 0).length = intBufferSize := by simp
  have hpl : p ≤ ((List.replicate intBufferSize 65535).set intBufferEnd 0).length := by
    rw [hlen]; simp only [intBufferSize, intBufferEnd] at *; omega
  have htk : (((List.replicate intBufferSize 65535).set intBufferEnd 0).take p).length = p := by
    rw [List.length_take]; omega
  cases neg with
  | false =>
    simp only [scalarToDecimal, hstore, e]
    simp only [Bool.false_eq_true, if_false, List.nil_append]
    congr 1
    rw [h2, List.append_assoc, List.drop_append_of_le_length (by omega)]
    rw [List.drop_of_length_le (by omega), List.nil_append]
    rw [List.take_append_of_le_length (by omega)]
    exact List.take_of_length_le (by omega)
  | true =>
    obtain ⟨p', b', e', _, hb2, _⟩ := decLoop_ok 20 (mag + 1) mag intBufferEnd
      ((List.replicate intBufferSize 65535).set intBufferEnd 0) (by omega) h20 (by omega)
      (by simp [intBufferEnd]) (by simp [intBufferSize, intBufferEnd])
    have hpp : p' = p := by
      rw [e] at e'; cases e'; rfl
    subst hpp
    have hp : p' ≠ 0 := by simp only [intBufferEnd] at hb2; omega
    have hblen : b.length = intBufferSize := by
      rw [h2]; simp only [List.length_append, List.length_take, List.length_drop, hlen]
      simp only [intBufferSize, intBufferEnd] at *; omega
    have hs2 : store b (p' - 1) 45 = some (b.set (p' - 1) 45) :=
      store_some _ _ _ (by rw [hblen]; simp only [intBufferSize, intBufferEnd] at *; omega)
    simp only [scalarToDecimal, hstore, e, hs2, if_neg hp]
    simp only [if_true, List.singleton_append]
    congr 1
    rw [drop_set_at _ _ _ (by rw [hblen]; simp only [intBufferSize, intBufferEnd] at *; omega)]
    have h11 : p' - 1 + 1 = p' := by omega
    rw [h11, h2, List.append_assoc, List.drop_append_of_le_length (by omega)]
    rw [List.drop_of_length_le (by omega), List.nil_append]
    have h12 : intBufferEnd - (p' - 1) = (intBufferEnd - p') + 1 := by
      simp only [intBufferEnd] at *; omega
    rw [h12, List.take_succ_cons]
    congr 1
    rw [List.take_append_of_le_length (by omega)]
    exact List.take_of_length_le (by omega)

example : scalarToDecimal true 9223372036854775808 =
    .ok [45, 57, 50, 50, 51, 51, 55, 50, 48, 51, 54, 56, 53, 52, 55, 55, 53, 56, 48, 56] := by decide +kernel

/-- **NumberToDOMString(double), sprintf path (partial).**  Whatever libc's rounding does (`carry`) and however many
    of the 26 formats are tried (`rt`), every `sprintf` fits `char[MAX_PRINTF_DIGITS + 1]` as long as
    ⌊|x|⌋ + 1 < 10^63.  Superseded on the repaired tree by `number_to_string_fits_all_doubles`; kept because it does not depend on the buffer being
    that large (it is what held before the repair). -/
theorem sprintf_fits_partial (x : DblAbs) (rt carry : Nat → Bool) (hx : x.ip + 1 < 10 ^ 63)
    (hp : int64Exact x = false) :
    ∃ b, numberToString x rt carry = .ok (.printf b) ∧ b ≤ printfBufferSize := by
  have hprec : ∀ p ∈ printfPrecisions, p ≤ 35 := by decide
  have hall : ∀ p ∈ printfPrecisions, ∀ c, sprintfBytes x p c ≤ printfBufferSize := by
    intro p hpm c
    have h1 := hprec p hpm
    have h2 : numDigits (x.ip + (if c then 1 else 0)) ≤ 63 :=
      numDigits_le 63 _ (by omega) (by cases c <;> simp <;> omega)
    unfold sprintfBytes printfBufferSize
    cases x.neg <;> simp <;> omega
  obtain ⟨b, e, hb⟩ := sprintfLoop_ok x rt carry printfPrecisions 0 (by decide) hall
  exact ⟨b, by simp [numberToString, hp, e], hb⟩

example : int64Exact ⟨false, 2 ^ 63, true⟩ = false ∧ (2 ^ 63 + 1 < 10 ^ 63) := by decide

/-- for integer-valued doubles (all |x| ≥ 2^63 are; glibc prints them exactly, so the first format round-trips and
    nothing carries) the bound is 10^88 -/
theorem integer_valued_sprintf_fits_partial (x : DblAbs) (rt carry : Nat → Bool) (hx : x.ip < 10 ^ 88)
    (hp : int64Exact x = false) (hrt : rt 0 = true) (hc : carry 0 = false) :
    ∃ b, numberToString x rt carry = .ok (.printf b) ∧ b ≤ printfBufferSize := by
  have h2 : numDigits x.ip ≤ 88 := numDigits_le 88 _ (by omega) hx
  have hfit : sprintfBytes x 10 false ≤ printfBufferSize := by
    unfold sprintfBytes printfBufferSize
    cases x.neg <;> simp <;> omega
  refine ⟨sprintfBytes x 10 false, ?_, hfit⟩
  simp [numberToString, hp, printfPrecisions, sprintfLoop, hc, hrt, hfit]

set_option exponentiation.threshold 2000 in
/-- **How large the sprintf buffer has to be (both directions, for the regenerated size).**  If the buffer has fewer
    than 322 bytes there is a finite double (−DBL_MAX, 309 integer digits) whose first `sprintf("%.10f")` does not fit;
    if it has at least 347 bytes every finite double fits with every format of the table, whatever libc rounds and however
    often the loop retries.  With the current 101 bytes the first half is the live one (DESIGN §6 item 10); after a repair
    that enlarges the buffer the second half is the full-strength bounds theorem. -/
theorem number_to_string_buffer_dichotomy :
    (printfBufferSize < 322 →
      ∃ x : DblAbs, x.ip ≤ maxDouble ∧ ∀ rt carry, numberToString x rt carry = .memErr) ∧
    (347 ≤ printfBufferSize →
      ∀ x : DblAbs, x.ip ≤ maxDouble → int64Exact x = false → ∀ rt carry,
        ∃ b, numberToString x rt carry = .ok (.printf b) ∧ b ≤ printfBufferSize) := by
  constructor
  · intro hsmall
    refine ⟨⟨true, maxDouble, true⟩, Nat.le_refl _, ?_⟩
    intro rt carry
    have hi : int64Exact ⟨true, maxDouble, true⟩ = false := by decide +kernel
    have hpp : printfPrecisions = 10 :: printfPrecisions.tail := by decide +kernel
    have hd : 309 ≤ numDigits (maxDouble + (if carry 0 then 1 else 0)) := by
      have := numDigits_ge 308 (maxDouble + (if carry 0 then 1 else 0)) (by
        have : 10 ^ 308 ≤ maxDouble := by decide +kernel
        omega)
      omega
    have hbig : printfBufferSize < sprintfBytes ⟨true, maxDouble, true⟩ 10 (carry 0) := by
      unfold sprintfBytes
      simp only [if_true]
      omega
    unfold numberToString
    rw [hi, hpp, sprintfLoop_memErr _ _ _ _ _ _ hbig]
    simp
  · intro hbig x hx hp rt carry
    have hprec : ∀ p ∈ printfPrecisions, p ≤ 35 := by decide +kernel
    have hall : ∀ p ∈ printfPrecisions, ∀ c, sprintfBytes x p c ≤ printfBufferSize := by
      intro p hpm c
      have h1 := hprec p hpm
      have hm : maxDouble + 1 < 10 ^ 309 := by decide +kernel
      have h2 : numDigits (x.ip + (if c then 1 else 0)) ≤ 309 :=
        numDigits_le 309 _ (by omega) (by cases c <;> simp <;> omega)
      unfold sprintfBytes
      cases x.neg <;> simp <;> omega
    obtain ⟨b, e, hb⟩ := sprintfLoop_ok x rt carry printfPrecisions 0 (by decide) hall
    exact ⟨b, by simp [numberToString, hp, e], hb⟩

/-- **NumberToDOMString / NumberToCharacters(double): every `sprintf` fits, for every finite double** (full strength; true
    since the repair of DESIGN §6 item 10 sized the buffers `MAX_FLOAT_CHARACTERS` = 347).  Whatever libc's rounding carries
    and however many of the formats are tried, no store leaves `char theBuffer[MAX_FLOAT_CHARACTERS]`. -/
theorem number_to_string_fits_all_doubles (x : DblAbs) (hx : x.ip ≤ maxDouble) (hp : int64Exact x = false)
    (rt carry : Nat → Bool) :
    ∃ b, numberToString x rt carry = .ok (.printf b) ∧ b ≤ printfBufferSize :=
  number_to_string_buffer_dichotomy.2 (by decide) x hx hp rt carry

example : (⟨true, maxDouble, true⟩ : DblAbs).ip ≤ maxDouble ∧ int64Exact ⟨true, maxDouble, true⟩ = false := by
  decide +kernel

set_option exponentiation.threshold 2000 in
/-- **formatSmallNumber (the path for numbers no "%.Nf" reproduces, since c8ec637) stays inside both buffers.**  For either sign,
    every decimal exponent a double can have (−1 … −324: `2^1074 ≤ 10^324`, and 4.9e-324 is the smallest double) and an exponent
    field of up to three digits, `sprintf("%.17e")` fits `theScientific` and the expansion `[-]0.` + (e − 1) zeros + 18 digits + NUL
    (at most 1 + 2 + 323 + 18 + 1 = 345 bytes) fits `char theBuffer[MAX_FLOAT_CHARACTERS]`.  Sizes and digit count are the
    regenerated ones. -/
theorem small_number_path_fits (neg : Bool) (e expDigits : Nat) (he : e ≤ 324) (hd : expDigits ≤ 3) :
    (∃ b, formatSmallNumber neg e expDigits = .ok b ∧ b ≤ printfBufferSize) ∧ (2 : Nat) ^ 1074 ≤ 10 ^ 324 := by
  refine ⟨?_, by decide +kernel⟩
  have h1 : scientificBytes neg expDigits ≤ scientificBufferSize := by
    unfold scientificBytes scientificBufferSize smallNumberDigits
    cases neg <;> simp <;> omega
  have h2 : smallNumberBytes neg e ≤ printfBufferSize := by
    unfold smallNumberBytes printfBufferSize smallNumberDigits
    cases neg <;> simp <;> omega
  exact ⟨_, by simp [formatSmallNumber, h1, h2], h2⟩

example : decExpOf 1 1074 400 0 = 324 ∧ formatSmallNumber true 324 3 = .ok 345 := by decide +kernel

/-- **length-guarded stack arrays** (xsl:number `numberList`, `convertHelper theBuffer`, XPath C API
    `transcodeString`): whenever the guard selects the stack array, everything the code then stores
    (`len` elements + the terminating NUL where there is one) fits the declared size.  General lemma
    `guardOk_sound` (any sizes) + `decide` on the regenerated table. -/
theorem guarded_buffers_safe :
    ∀ g ∈ guardedBuffers, ∀ len, guardPasses g len = true → len + g.extra ≤ g.size := by
  intro g hg len hp
  have h : ∀ g ∈ guardedBuffers, guardOk g = true := by decide
  exact guardOk_sound g len (h g hg) hp

example : guardPasses ⟨"DoubleSupport convertHelper theBuffer", 200, true, 200, 1⟩ 199 = true := by decide


/-! ## (c) more loops: conflicts bookkeeping, transcode retry, backwards walk of xsl:number -/

/-- **Stylesheet::findTemplate — `conflictsArray[100]` / `conflictsVector(m_patternCount)`.**  Whatever the matching and
    the priorities decide for each entry (`acts` is arbitrary), as long as the pattern table of the node has no more entries
    than the stylesheet has pattern entries (`m_patternCount`, incremented once per entry created in `addTemplate`), neither
    `addObjectIfNotFound` nor `conflicts[nConflicts++] = matchPat` stores outside the selected storage, and at most one
    conflict per entry is recorded.  Invariant (`ConfInv`): after k entries `nConflicts ≤ k`, with one slot to spare while the best
    pattern is not yet in the list.  Capacity and selection are the regenerated ones. -/
theorem conflicts_array_safe (acts : List ConfAct) (patternCount : Nat) (h : acts.length ≤ patternCount) :
    ∃ s', confRun (conflictsCapacity patternCount) ⟨none, []⟩ 0 acts = some s' ∧ s'.conf.length ≤ acts.length := by
  have hcap : 0 + acts.length ≤ conflictsCapacity patternCount := by
    unfold conflictsCapacity; split <;> omega
  obtain ⟨s', e, hi⟩ := confRun_ok (conflictsCapacity patternCount) acts ⟨none, []⟩ 0 ⟨by simp, by intro b hb; cases hb⟩ hcap
  exact ⟨s', e, by simpa using hi.1⟩

example : ([ConfAct.better, .tie, .skip, .tie] : List ConfAct).length ≤ 7 := by decide

/-- the switch to a vector of `m_patternCount` entries is necessary: with only the stack array, one best match followed by
    as many equal-priority matches as the array has slots runs off its end -/
theorem conflicts_array_alone_counterexample :
    confRun conflictsArraySize ⟨none, []⟩ 0 (ConfAct.better :: List.replicate conflictsArraySize ConfAct.tie) = none := by
  decide +kernel

/-- **XalanOutputStream::transcode — the grow-and-retry loop terminates and stays inside the destination.**  For every input
    length and every transcoder that respects its interface (the model clamps what it reports to `remaining` / `target`) and
    never reports output without having consumed input, the loop — with the no-progress guard that the regenerated flag says is
    present — ends within `len + 1` rounds, and every round offers the transcoder only room that exists
    (`filled + target ≤ dest`, else `memErr`). -/
theorem transcode_loop_terminates_in_bounds (len : Nat) (tr : Transcoder)
    (hprog : ∀ s, (tr s).1 = 0 → min (tr s).2 s.target = 0) :
    ∃ s', transcodeLoop len transcodeNoProgressGuard tr (len + 1) (transcodeInit len) = .ok s' := by
  have hg : transcodeNoProgressGuard = true := rfl
  rw [hg]
  exact transcodeLoop_ok len tr hprog (len + 1) (transcodeInit len) (by simp [transcodeInit]) (by simp [transcodeInit])
    (by simp [transcodeInit])

example : ∀ s : TrSt, ((fun s => (s.remaining, s.remaining * 3)) s : Nat × Nat).1 = 0 →
    min ((fun s => (s.remaining, s.remaining * 3)) s : Nat × Nat).2 s.target = 0 := by
  intro s h; simp at h; simp [h]

/-- without that guard (the code before 99e2481) a transcoder that makes no progress — the input ends in half a surrogate
    pair — keeps the loop doubling the destination for ever: no amount of fuel is enough -/
theorem transcode_without_guard_counterexample (fuel : Nat) :
    transcodeLoop 1 false (fun _ => (0, 0)) fuel (transcodeInit 1) = .outOfFuel := by
  have gen : ∀ (fuel : Nat) (s : TrSt), s.eaten = 0 → s.filled + s.target ≤ s.dest →
      transcodeLoop 1 false (fun _ => (0, 0)) fuel s = .outOfFuel := by
    intro fuel
    induction fuel with
    | zero => intro s _ _; rfl
    | succ f ih =>
      intro s he hb
      simp only [transcodeLoop]
      rw [if_pos hb]
      simp only [Nat.zero_min, Nat.add_zero, he]
      rw [if_neg (by omega)]
      simp only [Bool.false_and, Bool.false_eq_true, if_false]
      exact ih _ rfl (by simp only; omega)
  exact gen fuel (transcodeInit 1) rfl (by simp [transcodeInit])

/-- **ElemNumber::getPreviousNode, level="any" (after f84b15b).**  On any document (`prev` = the reverse document-order
    successor, which has a smaller document-order number), for any `from` / `count` patterns — present or absent — the backwards
    walk from node `p` ends within `p + 1` steps, and a pattern is only ever evaluated on an existing node (the model has no
    other way to call one: the null check precedes both tests). -/
theorem getPreviousNode_terminates (prev : Nat → Option Nat) (matchFrom matchCount : Option (Nat → Bool))
    (hdec : ∀ p n, prev p = some n → n < p) (p : Nat) :
    ∃ r, prevLoop prev matchFrom matchCount (p + 1) (some p) = .ok r :=
  prevLoop_ok prev matchFrom matchCount hdec (p + 1) p (Nat.le_refl _)

example : prevLoop (fun p => if p = 0 then none else some (p - 1)) (some fun n => n == 2) (some fun n => n % 2 == 1) 8 (some 7)
    = .ok (some 5) := by decide

/-- **XPathProcessorImpl::tokenize — control skeleton.**  For every expression string the outer scan, the nested quote scans and
    the number scan (whose `--i` only undoes the `++i` of the same round) only move forward: the loop ends within `nChars + 1` rounds, either with all characters consumed or with
    `UnterminatedStringLiteral` (`none`). -/
theorem tokenize_terminates (pat : List Nat) :
    ∃ r, tokenizeLoop pat (pat.length + 1) 0 0 = .ok r :=
  tokenizeLoop_ok pat (pat.length + 1) 0 0 (by omega) (by omega)

example : tokenizeLoop [97, 39, 98, 99, 39, 100] 7 0 0 = .ok (some 3) ∧ tokenizeLoop [34, 97] 3 0 0 = .ok none ∧
    tokenizeLoop [49, 46, 53, 46, 50] 6 0 0 = .ok (some 3) := by decide

set_option exponentiation.threshold 2000 in
/-- **double → integer conversions in XPath::predicates and ElemNumber (both directions, for the regenerated guards).**
    With the range tests on the double in place every conversion that is evaluated has a defined result, for every double,
    every list length below 2^53 and either rounding direction; without them `1e30` reaches a conversion whose result the C++
    standard leaves undefined (x86-64 yields 2^63, which the following comparison happens to reject — not observable with the
    sanitizer flags of the `asan` flavor, GCC's `-fsanitize=undefined` does not include float-cast-overflow).
    `proposed/C03-float-cast-guards.diff` adds the tests. -/
theorem float_casts_defined_iff_guarded :
    (∀ (x : DblAbs) (len : Nat) (up : Bool), IsDouble x → len < 2 ^ 53 →
        (∀ y ∈ predicateCastOperands true x len, castDefined y = true) ∧
        (∀ y ∈ numberCastOperands true x up, castDefined y = true)) ∧
    (∃ x : DblAbs, IsDouble x ∧ (∃ y ∈ predicateCastOperands false x 3, castDefined y = false) ∧
        (∃ y ∈ numberCastOperands false x false, castDefined y = false)) := by
  constructor
  · intro x len up hd hl
    constructor
    · intro y hy
      unfold predicateCastOperands at hy
      cases hn : x.neg
      · simp only [hn, Bool.false_eq_true, if_false, if_true] at hy
        cases hg : gtLen x len
        · simp only [hg, Bool.false_eq_true, if_false, List.mem_singleton] at hy
          rw [hy]
          simp only [gtLen, hn, Bool.not_false, Bool.true_and, Bool.or_eq_false_iff, decide_eq_false_iff_not] at hg
          have h1 : ¬ x.ip > len := hg.1
          simp only [castDefined, hn, Bool.not_false, Bool.true_or, Bool.true_and, decide_eq_true_eq]
          omega
        · simp [hg] at hy
      · simp [hn] at hy
    · intro y hy
      unfold numberCastOperands at hy
      cases hn : x.neg
      · simp only [hn, Bool.false_eq_true, if_false, Bool.true_and, decide_eq_true_eq] at hy
        by_cases hbig : x.ip ≥ 2 ^ 64
        · rw [if_pos hbig] at hy; simp at hy
        · rw [if_neg hbig, List.mem_singleton] at hy
          rw [hy]
          simp only [castDefined, Bool.not_false, Bool.true_or, Bool.true_and, decide_eq_true_eq]
          have h53 := hd.1
          cases hi : x.isInt
          · have := h53 hi
            cases up <;> simp <;> omega
          · cases up <;> simp <;> omega
      · simp [hn] at hy
  · refine ⟨⟨false, 10 ^ 30, true⟩, ⟨by simp, by decide +kernel⟩, ?_, ?_⟩
    · exact ⟨⟨false, 10 ^ 30, true⟩, by simp [predicateCastOperands], by decide⟩
    · exact ⟨⟨false, 10 ^ 30, true⟩, by simp [numberCastOperands], by decide⟩

example : IsDouble ⟨false, 7, false⟩ ∧ predicateCastOperands true ⟨false, 2, true⟩ 3 = [⟨false, 2, true⟩] := by
  refine ⟨⟨by intro _; decide, by decide +kernel⟩, by decide⟩

/-! ## (d) where an element may stand -/

/-- **No element token falls through the stylesheet handler.**  For every token of `eElementToken`, both inside a template
    (`StylesheetHandler::startElement`) and at the top level (`processTopLevelElement`) the case group that handles it ends in
    `break;` and creates an element, processes the declaration, or reports an error (unknown tokens: error, or a
    forward-compatible element when the stylesheet declares a later version).  `decide` over the regenerated tables. -/
theorem structure_no_fall_through :
    ∀ t : Tok, actDecided (inTemplateAction t) = true ∧ actDecided (topLevelAction t) = true := by
  intro t
  cases t <;> decide

/-- **A context-dependent element is refused everywhere but under its parents** (full strength after
    `proposed/C03-with-param-placement.diff`).  For every parent token and each of `xsl:with-param`, `xsl:sort`, `xsl:when`,
    `xsl:otherwise`: if the parent is not one the XSLT 1.0 content model names, then either `childTypeAllowed` of the parent's
    class refuses the child (→ "is not allowed in this position") or the handler tests the parent itself.  Before the repair the
    base class accepted `xsl:with-param` anywhere: `<out><xsl:with-param name="p"/></out>` compiled, and executing it pushed a
    parameter onto a parameter-frame stack that has no frame (SIGSEGV; 14 parent kinds found by the structural stream). -/
theorem context_dependent_children_rejected_elsewhere :
    ∀ p c : Tok, ∀ ps, requiredParents c = some ps → p ∉ ps → rejectedSomewhere p c = true := by
  intro p c
  cases c <;> simp only [requiredParents, Option.some.injEq, reduceCtorEq, false_implies, implies_true, forall_eq'] <;>
    cases p <;> decide

example : requiredParents .x_with_param = some [.x_apply_templates, .x_call_template] ∧
    childAllowed .x_call_template .x_with_param = true ∧ childAllowed .x_text_literal_result .x_with_param = false := by decide

/-! ## (e) the recursion guard of lazily evaluated top-level variables -/

/-- **Every evaluation of a top-level variable ends — in a value or in `CircularVariableDefWasDetected` — for every dependency
    graph.**  `deps` is arbitrary (any number of variables, any references between them: cycles of every length, through selects,
    bodies, parameters' defaults, predicates, sort keys …).  With the guard test the regenerated flag says the code has — a search
    of the *whole* guard stack — the nesting depth of evaluations never exceeds the number of variables (the guard stack stays
    duplicate-free; pigeonhole), so `N + 1` levels always suffice: no C++ stack overflow. -/
theorem guard_stack_every_cycle_detected (deps : Nat → List Nat) (N : Nat) (hd : ∀ u, ∀ d ∈ deps u, d < N) (v : Nat) (hv : v < N) :
    evalVar guardSearchesWholeStack deps (N + 1) [] v ≠ .outOfFuel := by
  have hg : guardSearchesWholeStack = true := rfl
  rw [hg]
  exact evalVar_whole_ne_outOfFuel deps N hd (N + 1) [] v hv List.nodup_nil (by simp) (by simp)

/-- … and it is detected at the first repeated element: a variable that is on the guard stack — anywhere — is reported at once -/
theorem guard_stack_reports_first_repetition (deps : Nat → List Nat) (fuel : Nat) (guard : List Nat) (v : Nat) (h : v ∈ guard) :
    evalVar true deps (fuel + 1) guard v = .circular v := by
  simp [evalVar, onGuard, h]

example : evalVar true (fun v => [(v + 1) % 3]) 4 [] 0 = .circular 0 ∧
    evalVar true (fun v => if v = 0 then [1, 2] else if v = 1 then [2] else []) 4 [] 0 = .value := by decide

/-- comparing only with the top of the guard stack (`m_guardStack.back() == var`) still reports a self-reference, but a cycle
    through two variables a → b → a is never seen — the evaluations nest without end (C++ stack overflow), whatever the fuel -/
theorem guard_top_only_counterexample :
    (∀ fuel, evalVar false (fun v => [1 - v]) fuel [] 0 = .outOfFuel) ∧
    evalVar false (fun _ => [0]) 3 [] 0 = .circular 0 := by
  constructor
  · have gen : ∀ fuel (guard : List Nat) (v : Nat), v ≤ 1 → guard.head? ≠ some v →
        evalVar false (fun v => [1 - v]) fuel guard v = .outOfFuel := by
      intro fuel
      induction fuel with
      | zero => intro guard v _ _; rfl
      | succ f ih =>
        intro guard v hv hh
        simp only [evalVar, onGuard, Bool.false_eq_true, if_false]
        have : (guard.head? == some v) = false := by simpa using hh
        simp only [this, Bool.false_eq_true, if_false, List.foldl_cons, List.foldl_nil]
        exact ih (v :: guard) (1 - v) (by omega) (by simp; omega)
    intro fuel
    exact gen fuel [] 0 (by omega) (by simp)
  · decide

/-! ## (f) error-message buffers; URI resolution -/

open XalanModel.Generated.C03_Messages in
/-- **Every `XalanMessageLoader::getMessage` overload hands load()/loadMsg() a CHARACTER limit that its stack buffer can hold**
    (limit + the terminating NUL ≤ the declared element count of `sBuffer`; a `sizeof(sBuffer)` limit counts bytes and fails this),
    and every message of the catalogue has an overload with enough substitution slots.  `load()` passes that limit on to
    `XMLString::replaceTokens(toFill, maxChars, …)`, which truncates at `maxChars` (Xerces-C, modelled-not-verified).
    `decide` over the regenerated overload table and catalogue. -/
theorem message_buffers_bounded :
    (∀ o ∈ overloads, o.limit + 1 ≤ o.elems) ∧
    (∀ n ∈ catalogueSlots, ∃ o ∈ overloads, n ≤ o.reps) ∧
    longestMessageText ≤ maxMessageLength := by
  decide +kernel

example : XalanModel.Generated.C03_Messages.overloads.length = 6 := by decide

/-- **XalanParsedURI::resolve, removal of "./", "<segment>/../", trailing "." and "..": in bounds and terminating for every path.**
    For every merged path (any characters, any length) the loop — with the decrements guarded as the regenerated flag says —
    never reads or erases outside the string (`memErr`) and ends within `(n + 2)²` rounds: every round erases at least one
    character or moves the index forward (measure `length·K + (K − index)`). -/
theorem uri_dot_removal_in_bounds_and_terminates (p : List Nat) :
    ∃ r, dotLoop uriDecrementsGuarded (dotFuel p.length) p 0 = .ok r := by
  have hg : uriDecrementsGuarded = true := rfl
  rw [hg]
  have h1 := dotLoop_guarded_ne_memErr (dotFuel p.length) p 0
  have h2 := dotLoop_guarded_ne_outOfFuel (p.length + 2) (dotFuel p.length) p 0 (Nat.le_refl _) (by omega)
    (by unfold dotFuel; rw [Nat.add_mul]; omega)
  cases h : dotLoop true (dotFuel p.length) p 0 with
  | ok r => exact ⟨r, rfl⟩
  | memErr => exact absurd h h1
  | outOfFuel => exact absurd h h2

/-- **XalanParsedURI::parse(uriString, uriStringLen) reads inside its buffer and terminates, for every string.**  Two tests stand outside
    an `index < uriStringLen && …` chain: `uriString[index] == ':'` after the scheme scan (index may equal the length) and the "//" test
    behind `index < uriStringLen - 1` (unsigned: for length 0 it lets index 0 through).  The regenerated flag `uriParseBounded` says
    whether they carry a bound of their own.  If they do, parse stays inside an EXACTLY sized buffer; if they do not, it stays inside a
    buffer that carries a terminating 0 behind the characters (what `XalanDOMString::c_str()` hands in — every caller inside Xalan) and
    reads at most that one element more. -/
theorem uri_parse_in_bounds (s : List Nat) :
    ∃ u, parseBuf uriParseBounded (bufferOf (!uriParseBounded) s) s.length = .ok u :=
  parseBuf_ok _ _ _ (bufferOf_fits uriParseBounded s)

/-- on terminated buffers parse is in bounds whatever the form of the two tests -/
theorem uri_parse_terminated_in_bounds (bounded : Bool) (s : List Nat) :
    ∃ u, parseBuf bounded (bufferOf true s) s.length = .ok u :=
  parseBuf_ok _ _ _ (bufferOf_terminated_fits bounded s)

/-- the unbounded form on exactly sized buffers: "x" (no delimiter: the scheme test reads element 1 of 1) and "" (the "//" test reads
    element 0 of 0); the bounded form reads neither -/
theorem uri_parse_unterminated_counterexample :
    parseBuf false [120] 1 = .memErr ∧ parseBuf false [] 0 = .memErr ∧
    parseBuf true [120] 1 = .ok ⟨none, none, [120], none, none⟩ ∧ parseBuf true [] 0 = .ok ⟨none, none, [], none, none⟩ := by
  decide +kernel

/-- the index form of parse and the regular-expression form `^(([^:/?#]+):)?(//([^/?#]*))?([^?#]*)(\?([^#]*))?(#(.*))?` agree (sample; the
    driver compares the two on every pair of the correspondence run) -/
example : parseBuf true [104, 116, 116, 112, 58, 47, 47, 97, 47, 98, 63, 113, 35, 102] 14 =
    .ok (parseUri [104, 116, 116, 112, 58, 47, 47, 97, 47, 98, 63, 113, 35, 102]) := by decide +kernel

/-- … hence resolving any reference against any base is total: parse, merge, dot removal and make never leave their strings
    (buffers exactly sized if parse is bounded, terminated otherwise — see `uri_parse_in_bounds`) -/
theorem uri_resolve_total (rel base : List Nat) :
    ∃ r, resolveStrings uriDecrementsGuarded uriParseBounded (!uriParseBounded) rel base = .ok r := by
  have key : ∀ r b : Uri, ∃ u, resolveUri uriDecrementsGuarded r b = .ok u := by
    intro r b
    unfold resolveUri
    by_cases h1 : b.scheme.isNone = true
    · rw [if_pos h1]; exact ⟨_, rfl⟩
    · rw [if_neg h1]
      by_cases h2 : r.scheme.isNone = true ∧ r.authority.isNone = true ∧ r.query.isNone = true ∧ r.path.isEmpty = true
      · rw [if_pos h2]; exact ⟨_, rfl⟩
      · rw [if_neg h2]
        by_cases h3 : r.scheme.isNone = true ∨ (r.authority.isNone = true ∧ (r.scheme.map (·.map lower)) = (b.scheme.map (·.map lower)))
        · rw [if_pos h3]
          simp only
          by_cases h4 : r.authority.isNone = true
          · rw [if_pos h4]
            by_cases h5 : r.path.head? = some cSlash
            · rw [if_pos h5]; exact ⟨_, rfl⟩
            · rw [if_neg h5]
              obtain ⟨q, e⟩ := uri_dot_removal_in_bounds_and_terminates
                (b.path.take (b.path.length - (b.path.reverse.takeWhile (· ≠ cSlash)).length) ++ r.path)
              rw [e]
              exact ⟨_, rfl⟩
          · rw [if_neg h4]; exact ⟨_, rfl⟩
        · rw [if_neg h3]; exact ⟨_, rfl⟩
  obtain ⟨r, e1⟩ := uri_parse_in_bounds rel
  obtain ⟨b, e2⟩ := uri_parse_in_bounds base
  obtain ⟨u, e⟩ := key r b
  exact ⟨makeUri u, by simp only [resolveStrings, e1, e2, e]⟩

example : resolveStrings true true false [46, 46, 47, 103] [104, 116, 116, 112, 58, 47, 47, 97, 47, 98, 47, 99] =
    .ok [104, 116, 116, 112, 58, 47, 47, 97, 47, 103] := by decide +kernel

/-- with a bare `--index` (the guard `if (index > 0)` gone) a "../" at index 0 of the merged path wraps the unsigned index and the
    backward scan reads in front of the string: `../x` against a base whose path has no '/' (`file:main.xsl`) -/
theorem uri_unguarded_decrement_counterexample :
    dotLoop false (dotFuel 4) [46, 46, 47, 120] 0 = .memErr ∧
    resolveStrings false true false [46, 46, 47, 120] [102, 105, 108, 101, 58, 109, 97, 105, 110, 46, 120, 115, 108] = .memErr := by
  decide +kernel

/-! ## (g) the template depth guard -/

/-- **Every recursion without an end is reported.**  A running stylesheet pushes an entry onto the stack of current templates for every
    template it instantiates and every `xsl:for-each` it enters (null for `xsl:for-each` and for a named template called inside one) and
    pops it when that is done; the stack starts with its one bottom entry.  With the test in `pushCurrentTemplate` as the regenerated
    flag describes it (it counts every push), ANY sequence of pushes and pops — whatever the mixture of null and non-null entries —
    under which the stack would come to hold more than `eMaximumTemplateDepth` entries is stopped by the guard ("Infinite recursion"). -/
theorem template_depth_guard_reports_every_unbounded_recursion (evs : List DepthEv)
    (h : depthExceeds maximumTemplateDepth 1 evs = true) :
    depthRun templateDepthGuardCountsNull templateDepthGuardGe maximumTemplateDepth 1 evs = none := by
  have hg : templateDepthGuardCountsNull = true := rfl
  rw [hg, depthRun_counting_operator_irrelevant _ _ _ 1 (by decide)]
  exact (depthRun_counting_none_iff maximumTemplateDepth evs 1 (by decide)).mpr h

/-- … after at most `eMaximumTemplateDepth` pushes when nothing returns in between -/
theorem template_depth_guard_at_most_limit_pushes (flags : List Bool) (h : maximumTemplateDepth ≤ flags.length) :
    depthRun templateDepthGuardCountsNull templateDepthGuardGe maximumTemplateDepth 1 (flags.map DepthEv.push) = none := by
  have hg : templateDepthGuardCountsNull = true := rfl
  rw [hg, depthRun_counting_operator_irrelevant _ _ _ 1 (by decide)]
  exact depthRun_counting_pushes maximumTemplateDepth flags 1 (by decide) (by omega)

/-- no false alarm, and the stack never holds more than the limit: a run that stays within the limit goes through -/
theorem template_depth_guard_bounded_no_false_alarm (evs : List DepthEv)
    (h : depthExceeds maximumTemplateDepth 1 evs = false) :
    ∃ n, depthRun templateDepthGuardCountsNull templateDepthGuardGe maximumTemplateDepth 1 evs = some n ∧ n ≤ maximumTemplateDepth := by
  have hg : templateDepthGuardCountsNull = true := rfl
  rw [hg, depthRun_counting_operator_irrelevant _ _ _ 1 (by decide)]
  cases hr : depthRun true true maximumTemplateDepth 1 evs with
  | none =>
    have := (depthRun_counting_none_iff maximumTemplateDepth evs 1 (by decide)).mp hr
    rw [h] at this; cases this
  | some n => exact ⟨n, rfl, depthRun_counting_bounded maximumTemplateDepth evs 1 n (by decide) hr⟩

example : depthExceeds 3 1 [.push true, .push false, .pop, .push true, .push true] = true := by decide
example : depthRun true true 3 1 [.push true, .push false, .pop, .push true, .push true] = none := by decide
example : depthRun true true 3 1 [.push true, .push false, .pop, .pop, .push true] = some 2 := by decide

/-- the test written `theTemplate != 0 && size >= limit` is skipped for null entries: `xsl:for-each` around `xsl:call-template` pushes
    nothing but null entries, and any number of them goes through — the recursion ends only when memory does -/
theorem template_depth_guard_null_skipping_counterexample (ge : Bool) (n : Nat) :
    depthRun false ge maximumTemplateDepth 1 (List.replicate n (DepthEv.push true)) = some (1 + n) :=
  depthRun_skipping_null ge maximumTemplateDepth n 1

/-- `size == limit` together with exempt pushes: a stack of `limit` entries on which an exempt (null) push lands steps over the limit, and
    from there on NO push is refused, counted or not — the other parity (a counted push lands on `limit`) is still refused -/
theorem template_depth_guard_equality_counterexample (flags : List Bool) :
    depthRun false false maximumTemplateDepth maximumTemplateDepth (DepthEv.push true :: flags.map DepthEv.push)
      = some (maximumTemplateDepth + 1 + flags.length) ∧
    depthRun false false maximumTemplateDepth maximumTemplateDepth [DepthEv.push false] = none := by
  constructor
  · have := depthRun_eq_stepped_over false maximumTemplateDepth flags (maximumTemplateDepth + 1) (by omega)
    simpa [depthRun, depthStep] using this
  · simp [depthRun, depthStep]

/-! ## (h) the growing buffer of the local-code-page transcoding -/

/-- **The retry loop of `doXercesTranscode` (the form that reports failure; it fills `XalanTransformer`'s error message) reaches a target that is
    large enough before it gives up**, for every source of n ≥ 1 UTF-16 units whose transcoded form needs at most 3 bytes per unit (UTF-8: 3 for a
    BMP character, 4 for a surrogate PAIR; EUC, Shift-JIS, Big5, ISO-8859-x need less) — with the regenerated give-up factor and step. -/
theorem local_transcode_growth_covers_three_bytes_per_unit (n need : Nat) (hn : 1 ≤ n) (h : need ≤ 3 * n) :
    growLoop transcodeGrowthFactor transcodeGrowthStep n need (transcodeGrowthFactor * n) (n + 1) = true := by
  have hf : 4 ≤ transcodeGrowthFactor := by decide
  have hs : 1 ≤ transcodeGrowthStep := by decide
  have h4 : n * 4 ≤ n * transcodeGrowthFactor := Nat.mul_le_mul_left n hf
  have h5 : transcodeGrowthFactor * n = n * transcodeGrowthFactor := Nat.mul_comm _ _
  exact growLoop_reaches _ _ n need hs (by omega) _ _ (by omega)

/-- giving up at twice the source length: 1000 CJK characters (3000 bytes) are never reached -/
theorem local_transcode_growth_factor_two_counterexample :
    growLoop 2 10 1000 3000 2000 1001 = false := by
  decide +kernel

end XalanModel.Props.C03
