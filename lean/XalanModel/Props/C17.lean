import XalanModel.C17.CountersProofs
import XalanModel.C17.FormatListGroupingProofs
import XalanModel.C17.PatternCache
import XalanModel.C17.TraditionalProofs
import XalanModel.C17.ForestProofs
import XalanModel.C17.NavigateProofs
/-!
# C17 — `xsl:number` counts per the Recommendation, independent of history; formatting decodes back

Property theorems only (helper lemmas: `XalanModel/C17/*Proofs.lean`).

* **Counting, history half.** `countNode` (CountersTable.cpp) over abstract `getTargetNode` / `getPreviousNode`
  / `isNodeAfter`: for *every* history of calls and *every* oracle the answer is the length of the
  `getPreviousNode` chain from the target — what an empty cache answers (`counters_history_independent`).
  The only hypothesis is that `getPreviousNode` moves backwards in document order (`prev n = some m → m < n`),
  which `getPreviousNode_decreases` proves for the transcribed navigation on every well-formed document.
* **Counting, specification half.** `number_spec_partial`: for every well-formed document, instruction and
  history the list produced by the transcribed navigation + cache is the XSLT 1.0 §7.7 list (`Spec.lean`);
  the only reservation is the zero list of `level="any"` (`number_spec_any_zero_counterexample`, known finding).
* **Formatting.** `alpha_roundtrip` (all n ≥ 1, with the 100-slot buffer), `roman_roundtrip` (1…3999, complete
  kernel evaluation), `decimal_roundtrip` (all n, any padding width), over the tables regenerated from
  `ElemNumber.cpp` by `translate/c17_tables.py`.
-/
namespace XalanModel.Props.C17
open XalanModel.C17 XalanModel.Generated.C17

/-! ## The counters cache -/

/-- One call: under the invariant (every cached vector is a complete `getPreviousNode` chain, start count 0)
the answer is the chain length from the target, for any `isNodeAfter` oracle, and the invariant is kept. -/
theorem counters_invariant (target prev : Nat → Option Nat) (hdec : ∀ n m, prev n = some m → m < n)
    (after : Nat → Nat → Bool) (cs : List Counter) (hinv : CountersInv prev cs) (node : Nat) :
    (countNode target prev after cs node).2 = countSpec target prev node ∧
    CountersInv prev (countNode target prev after cs node).1 :=
  countNode_spec target hdec after cs hinv node

/-- **C17 (history independence).** Whatever nodes were numbered before (`history`), in whatever order, and
whatever `isNodeAfter` answered along the way, `countNode` returns for `node` exactly what it returns on an
empty table — the from-scratch chain length `countSpec`. -/
theorem counters_history_independent (target prev : Nat → Option Nat)
    (hdec : ∀ n m, prev n = some m → m < n) (after after' : Nat → Nat → Bool)
    (history : List Nat) (node : Nat) :
    (countNode target prev after (stateAfter target prev after [] history) node).2
      = (countNode target prev after' [] node).2 ∧
    (countNode target prev after' [] node).2 = countSpec target prev node := by
  have hempty : CountersInv prev [] := fun c h => by simp at h
  have hst := stateAfter_inv target hdec after history [] hempty
  exact ⟨by rw [(countNode_spec target hdec after _ hst node).1, (countNode_spec target hdec after' [] hempty node).1],
         (countNode_spec target hdec after' [] hempty node).1⟩

/-- the answers along a whole history are the per-node specifications -/
theorem counters_history_answers (target prev : Nat → Option Nat)
    (hdec : ∀ n m, prev n = some m → m < n) (after : Nat → Nat → Bool) (history : List Nat) :
    runHistory target prev after [] history = history.map (countSpec target prev) :=
  runHistory_spec target hdec after history [] (fun c h => by simp at h)

/-- non-vacuity: a decreasing `prev` with two interleaved chains (odd / even numbers), a history that hits
the cache in the middle, extends a cached vector and creates a second counter, with an oracle that always
says "after" (so `getPreviouslyCounted` gives up immediately and node 3 gets a second, redundant counter). -/
example :
    let prev : Nat → Option Nat := fun n => if n ≥ 2 then some (n - 2) else none
    (∀ n m, prev n = some m → m < n) ∧
    runHistory some prev (fun _ _ => true) [] [5, 9, 3, 8, 9, 4] = [3, 5, 2, 5, 5, 3] ∧
    (stateAfter some prev (fun _ _ => true) [] [5, 9, 3, 8]).length = 3 := by
  refine ⟨?_, by decide, by decide⟩
  intro n m h
  simp only at h
  split at h
  · simp only [Option.some.injEq] at h; omega
  · cases h

/-! ## The number list against XSLT 1.0 §7.7 -/

/-- the transcribed `getPreviousNode` satisfies the hypothesis of the history theorems on every well-formed
document (so they apply to the navigation code, not only to an abstract `prev`) -/
theorem getPreviousNode_decreases (d : Doc) (hwf : d.WF) (hcl : d.Closed) (c : NumCfg) :
    ∀ n m, getPreviousNode d c n = some m → m < n :=
  XalanModel.C17.getPreviousNode_decreases hwf hcl c

/-- one `xsl:number` instruction executed for a sequence of context nodes within one transformation
(the counters of the instruction persist from one node to the next) -/
def runNumber (d : Doc) (c : NumCfg) (after : Nat → Nat → Bool) : List Counter → List Nat → List (List Nat)
  | _, [] => []
  | cs, n :: rest =>
    let r := getCountList d c after cs n
    r.2 :: runNumber d c after r.1 rest

/-- "the count pattern is one pattern": what `getCountMatchPattern` guarantees for the default pattern
(same type and name) and what an explicit `count` attribute trivially satisfies -/
def CountConsistent (c : NumCfg) : Prop := ∀ a b, c.countAt a b = true → c.countAt b = c.countAt a

/-- the list §7.7 defines for node `n` under instruction `c`, as the code prints it.  `zeroPrintsNothing` = the
`level="any"` branch of `getCountString` guards `formatNumberList` with `if (theNumber != 0)`: then a zero count
prints nothing, where the XSLT 1.0 text constructs the list `[0]` (XSLT 2.0 §12.2 made the empty result normative;
`number_spec_any_zero_counterexample`, `proposed/C17-any-zero.diff`).  Without the guard it is the §7.7 list. -/
def printedSpecZ (zeroPrintsNothing : Bool) (d : Doc) (c : NumCfg) (n : Nat) : List Nat :=
  match c.level with
  | .any => if zeroPrintsNothing then (numberSpec d .any (c.countAt n) c.fromP n).filter (· ≠ 0)
            else numberSpec d .any (c.countAt n) c.fromP n
  | l => numberSpec d l (c.countAt n) c.fromP n

/-- with the flag read from the current source -/
def printedSpec (d : Doc) (c : NumCfg) (n : Nat) : List Nat := printedSpecZ anyZeroPrintsNothing d c n

/-- one instruction over a history, for either form of the zero guard -/
def runNumberZ (z : Bool) (d : Doc) (c : NumCfg) (after : Nat → Nat → Bool) : List Counter → List Nat → List (List Nat)
  | _, [] => []
  | cs, n :: rest =>
    let r := getCountListZ z d c after cs n
    r.2 :: runNumberZ z d c after r.1 rest

theorem runNumber_eq (d : Doc) (c : NumCfg) (after : Nat → Nat → Bool) : ∀ (h : List Nat) (cs : List Counter),
    runNumber d c after cs h = runNumberZ anyZeroPrintsNothing d c after cs h := by
  intro h
  induction h with
  | nil => intro _; rfl
  | cons n rest ih => intro cs; simp only [runNumber, runNumberZ, getCountList, ih]

/-- **number_spec**, for either form of the zero guard: for every well-formed document, every instruction — any
level, any `count` (explicit or default), with or without `from` — every history of context nodes and every
`isNodeAfter` oracle, the navigation code + counters cache print for each node exactly `printedSpecZ`. -/
theorem number_spec_general (z : Bool) (d : Doc) (hwf : d.WF) (hcl : d.Closed) (c : NumCfg) (hcons : CountConsistent c)
    (after : Nat → Nat → Bool) (history : List Nat) (hh : ∀ n ∈ history, n < d.size) :
    runNumberZ z d c after [] history = history.map (printedSpecZ z d c) := by
  suffices H : ∀ (hist : List Nat) (cs : List Counter), (∀ n ∈ hist, n < d.size) →
      CountersInv (getPreviousNode d c) cs →
      runNumberZ z d c after cs hist = hist.map (printedSpecZ z d c) from
    H history [] hh (fun _ h => by simp at h)
  intro hist
  induction hist with
  | nil => intro _ _ _; rfl
  | cons n rest ih =>
    intro cs hh hinv
    have hn := hh n (by simp)
    have hstep : (getCountListZ z d c after cs n).2 = printedSpecZ z d c n ∧
        CountersInv (getPreviousNode d c) (getCountListZ z d c after cs n).1 := by
      unfold printedSpecZ
      cases hl : c.level with
      | any => simpa [numberSpec] using getCountListZ_any hwf hcl c hl hcons n hn after cs hinv z
      | single => simpa [numberSpec] using getCountListZ_single hwf hcl c hl hcons n hn after cs hinv z
      | multiple => simpa [numberSpec] using getCountListZ_multiple hwf hcl c hl hcons n hn after cs hinv z
    simp only [runNumberZ, List.map_cons, hstep.1]
    rw [ih _ (fun m hm => hh m (by simp [hm])) hstep.2]

/-- **number_spec** for the current source (`_partial` only by the zero list of `level="any"` while the guard
`if (theNumber != 0)` is in the code — see `printedSpecZ`, `number_spec_full`). -/
theorem number_spec_partial (d : Doc) (hwf : d.WF) (hcl : d.Closed) (c : NumCfg) (hcons : CountConsistent c)
    (after : Nat → Nat → Bool) (history : List Nat) (hh : ∀ n ∈ history, n < d.size) :
    runNumber d c after [] history = history.map (printedSpec d c) := by
  rw [runNumber_eq]
  exact number_spec_general anyZeroPrintsNothing d hwf hcl c hcons after history hh

/-- **number_spec at full strength**: once the guard is gone (`anyZeroPrintsNothing = false`, i.e. after
`proposed/C17-any-zero.diff`) every level prints exactly the XSLT 1.0 §7.7 list. -/
theorem number_spec_full (hz : anyZeroPrintsNothing = false) (d : Doc) (hwf : d.WF) (hcl : d.Closed) (c : NumCfg)
    (hcons : CountConsistent c) (after : Nat → Nat → Bool) (history : List Nat) (hh : ∀ n ∈ history, n < d.size) :
    runNumber d c after [] history = history.map fun n => numberSpec d c.level (c.countAt n) c.fromP n := by
  rw [number_spec_partial d hwf hcl c hcons after history hh]
  apply List.map_congr_left
  intro n _
  unfold printedSpec printedSpecZ
  rw [hz]
  cases c.level <;> rfl

/-- **Every document is well-formed.** For every ordered forest (first-child / next-sibling form), the document
`Doc.ofForest` — document node 0, nodes in document order, parent / previous sibling / last child tabulated during the
traversal — satisfies `Doc.WF` and `Doc.Closed`.  The driver builds its documents this way, so the hypotheses of the
counting theorems are theorems, not run-time evaluations. -/
theorem forest_doc_wf (top : Forest) : (Doc.ofForest top).WF ∧ (Doc.ofForest top).Closed :=
  ⟨Doc.ofForest_wf top, Doc.ofForest_closed top⟩

/-- **number_spec over all documents**: no well-formedness hypothesis — every forest, every instruction, every
history of nodes of the document, every oracle, either form of the zero guard. -/
theorem number_spec_forest (z : Bool) (top : Forest) (c : NumCfg) (hcons : CountConsistent c)
    (after : Nat → Nat → Bool) (history : List Nat) (hh : ∀ n ∈ history, n < 1 + top.size) :
    runNumberZ z (Doc.ofForest top) c after [] history = history.map (printedSpecZ z (Doc.ofForest top) c) := by
  apply number_spec_general z (Doc.ofForest top) (Doc.ofForest_wf top) (Doc.ofForest_closed top) c hcons after history
  intro n hn
  have := hh n hn
  show n < (docInfos top).length
  simp only [docInfos, List.length_cons, Forest.infos_length]
  omega

/-- and the cache half for the transcribed navigation on every document: `getPreviousNode` moves backwards -/
theorem getPreviousNode_decreases_forest (top : Forest) (c : NumCfg) :
    ∀ n m, getPreviousNode (Doc.ofForest top) c n = some m → m < n :=
  XalanModel.C17.getPreviousNode_decreases (Doc.ofForest_wf top) (Doc.ofForest_closed top) c

/-- non-vacuity: the forest of `<r><h/><x/><x/><h/><x><x/></x></r>` flattens to the document `exDoc'` used below -/
example :
    let top : Forest := .cons (.cons .nil (.cons .nil (.cons .nil (.cons .nil (.cons (.cons .nil .nil) .nil))))) .nil
    top.size = 7 ∧ (List.range 8).map (Doc.ofForest top).parent = [none, some 0, some 1, some 1, some 1, some 1, some 1, some 6] ∧
    (Doc.ofForest top).prevSib 6 = some 5 ∧ (Doc.ofForest top).lastChild 1 = some 6 := by decide

/-- `level="single"` and `level="multiple"`: full strength, the printed list *is* the §7.7 list -/
theorem number_spec_single_multiple (d : Doc) (hwf : d.WF) (hcl : d.Closed) (c : NumCfg) (hl : c.level ≠ .any)
    (hcons : CountConsistent c) (after : Nat → Nat → Bool) (history : List Nat) (hh : ∀ n ∈ history, n < d.size) :
    runNumber d c after [] history = history.map fun n => numberSpec d c.level (c.countAt n) c.fromP n := by
  rw [number_spec_partial d hwf hcl c hcons after history hh]
  apply List.map_congr_left
  intro n _
  unfold printedSpec printedSpecZ
  cases hlv : c.level with
  | any => exact absurd hlv hl
  | single => rfl
  | multiple => rfl

/-! ### witnesses -/

/-- `<r><h/><x/><x/><h/><x><x/></x></r>`: 0 = root, 1 = r, 2 = h, 3 = x, 4 = x, 5 = h, 6 = x, 7 = x (child of 6) -/
def exDoc : Doc := Doc.ofParents [-1, 0, 1, 1, 1, 1, 1, 6]
def isX (n : Nat) : Bool := n == 3 || n == 4 || n == 6 || n == 7
def isH (n : Nat) : Bool := n == 2 || n == 5

example : exDoc.WF ∧ exDoc.Closed := ⟨by decide, Doc.ofParents_closed _⟩

/-- non-vacuity: `level="any" count="x" from="h"` (childless `from` nodes, one of them visited), shuffled history
with repeats: the x at 6 is the first x after the h at 5 -/
example :
    let c : NumCfg := { level := .any, countAt := fun _ n => isX n, fromP := some isH }
    CountConsistent c ∧ (∀ n ∈ [7, 3, 6, 1, 7, 4, 5], n < exDoc.size) ∧
    runNumberZ true exDoc c (fun a b => decide (a ≤ b)) [] [7, 3, 6, 1, 7, 4, 5] = [[2], [1], [1], [], [2], [2], [2]] ∧
    runNumberZ false exDoc c (fun a b => decide (a ≤ b)) [] [7, 3, 6, 1] = [[2], [1], [1], [0]] := by
  refine ⟨fun _ _ _ => rfl, by decide, by decide +kernel, by decide +kernel⟩

/-- non-vacuity: `level="multiple" count="x|r" from="r"`-like instruction (`from` = node 1, itself visited) and
`level="single"` with `from` = node 6 at node 7 -/
example :
    let cm : NumCfg := { level := .multiple, countAt := fun _ n => isX n || n == 1, fromP := some (fun n => n == 1) }
    let cs : NumCfg := { level := .single, countAt := fun _ n => n == 1, fromP := some (fun n => n == 6) }
    CountConsistent cm ∧ CountConsistent cs ∧
    runNumberZ true exDoc cm (fun a b => decide (a ≤ b)) [] [7, 1, 6] = [[3, 1], [1], [3]] ∧
    runNumberZ true exDoc cs (fun a b => decide (a ≤ b)) [] [7, 6] = [[], [1]] := by
  refine ⟨fun _ _ _ => rfl, fun _ _ _ => rfl, by decide +kernel, by decide +kernel⟩

/-- a zero count: `level="any" count="x"` at node 2: with the guard `if (theNumber != 0)` nothing is printed, without
it the list `[0]`; §7.7 (1.0 text) constructs `[0]`.  (known finding C17-any-zero while the guard is in the code) -/
theorem number_spec_any_zero_counterexample :
    let c : NumCfg := { level := .any, countAt := fun _ n => isX n, fromP := none }
    (getCountListZ true exDoc c (fun a b => decide (a ≤ b)) [] 2).2 = [] ∧
    (getCountListZ false exDoc c (fun a b => decide (a ≤ b)) [] 2).2 = [0] ∧
    numberSpec exDoc .any (c.countAt 2) c.fromP 2 = [0] := by
  exact ⟨by decide +kernel, by decide +kernel, by decide +kernel⟩

/-! ## The run-time pattern cache behind the default count pattern -/

/-- **pattern_cache_never_serves_prefixed.** `createMatchPattern(str, resolver)`, with the admission condition the
current source has (`Generated.C17.bypassesCache`, 64-bit `size_type` arithmetic): every pattern string that has a
colon which is not its last character and is not followed by a second colon — i.e. every string with a namespace
prefix, whatever its length — is compiled with the caller's resolver and never answered from, nor stored into, the
cache that is keyed on the string alone.  (Otherwise the default count pattern compiled for the first node named
`p:x` would be reused for a node whose `p` is bound to another namespace.) -/
theorem pattern_cache_never_serves_prefixed (s : List Nat) (hlen : s.length < 2 ^ 64) (h : PrefixColon s) :
    servedFromCache s = false := by
  obtain ⟨h1, h2⟩ := h
  unfold servedFromCache bypassesCache
  simp only [Bool.not_eq_false', Bool.and_eq_true, decide_eq_true_eq]
  refine ⟨?_, h2⟩
  omega

/-- the strings `getCountMatchPattern` builds for a node with a prefixed name — `prefix:local` for an element,
`@prefix:local` for an attribute, for prefixes of **any** length ≥ 0 — bypass the cache -/
theorem default_count_pattern_not_cached (lead pre loc : List Nat) (hl : 58 ∉ lead) (hp : 58 ∉ pre) (c : Nat)
    (cs : List Nat) (hloc : loc = c :: cs) (hc : c ≠ 58) (hlen : (lead ++ pre ++ 58 :: loc).length < 2 ^ 64) :
    servedFromCache (lead ++ pre ++ 58 :: loc) = false :=
  pattern_cache_never_serves_prefixed _ hlen (qname_prefixColon lead pre loc hl hp c cs hloc hc)

/-- **pattern_cache_transparent.** The run-time match-pattern cache is a bounded least-recently-used map
(`createMatchPattern` + `addToXPathCache`; capacity `eXPathCacheMax` and the eviction shape are read from the source).
For every history of lookups — any keys, any order, any number of distinct keys, hence any number of evictions — the
pattern handed out for a key is the pattern that key compiles to.  So `xsl:number` without `count` gets the default
count pattern of *its* node however many other default patterns were built before.  The proof needs the eviction to
erase the victim and insert the new pattern under its own key (`evictionAction = eraseVictimInsertNewKey`, checked here by
`rfl` against the generated constant); it holds for every capacity. -/
theorem pattern_cache_transparent {α : Type} (compile : List Nat → α) (history : List (List Nat)) :
    runLookups compile evictionAction patternCacheCapacity [] 0 history = history.map compile := by
  have hact : evictionAction = .eraseVictimInsertNewKey := rfl
  rw [hact]
  exact runLookups_spec compile patternCacheCapacity history [] 0 (fun e he => by simp at he)

/-- the class of defect the theorem excludes: if a full cache *overwrites the victim's value in place*, the victim's
key is left bound to the new pattern — capacity 2, keys a b c a: the second lookup of `a` is answered with the pattern
of `c` -/
theorem pattern_cache_overwrite_counterexample :
    runLookups (fun k => k) .overwriteVictimValueInPlace 2 [] 0 [[97], [98], [99], [97]] = [[97], [98], [99], [99]] ∧
    runLookups (fun k => k) .eraseVictimInsertNewKey 2 [] 0 [[97], [98], [99], [97]] = [[97], [98], [99], [97]] := by
  decide

/-- non-vacuity: `p:i` (one-letter prefix), `@pre:k`; and an unprefixed name *is* cached -/
example : servedFromCache [112, 58, 105] = false ∧ servedFromCache [64, 112, 114, 101, 58, 107] = false ∧
    servedFromCache [105] = true ∧ PrefixColon [112, 58, 105] := by decide

/-! ## Alphabetic numbering -/

/-- **alpha_roundtrip.** For every n ≥ 1 that fits the buffer (`n < 26^100`, in particular every 64-bit
value) `int2alphaCount` over the generated table writes inside `buf`, and the string reads back as n in
bijective base 26. -/
theorem alpha_roundtrip (n : Nat) (h1 : 1 ≤ n) (hb : n < 26 ^ alphaBufLen) :
    ∃ s, int2alphaCount alphaTable n = some s ∧ decodeAlpha s = some n ∧ s.length ≤ alphaBufLen :=
  int2alphaCount_roundtrip n h1 hb

/-- no write outside `buf[buflen + 1]` for any 64-bit value, and at most 14 characters are produced -/
theorem alpha_no_overflow (n : Nat) (h : n < 2 ^ 64) :
    (int2alphaCount alphaTable n).isSome = true ∧ (alphaIndices 26 n).length ≤ 14 := by
  have h14 : n < 26 ^ 14 := Nat.lt_trans h (by decide)
  have hlen := alphaLoop_length 14 (n + 1) n 0 1 (by decide) h14
  refine ⟨?_, hlen⟩
  unfold int2alphaCount
  rw [alphaTable_length, writeBackward_ok alphaBufLen _ (by
    simp only [List.length_map]
    exact Nat.le_trans hlen (by decide)) (by decide)]
  rfl

example : int2alphaCount alphaTable 18446744073709551615 = some [71, 75, 71, 87, 66, 89, 76, 87, 82, 88, 84, 76, 80, 79] := by
  decide +kernel

/-! ## Traditional (Greek) numbering -/

/-- **traditional_roundtrip_partial.** `format="α" letter-value="traditional"`: `traditionalAlphaCount` over the
resource bundle read from the source (`elalphaBundle`: the only bundle the code ships — hundreds / tens / units letters,
multiplier 1000 written with a preceding multiplier character) writes every n in 1 … 9999 as a numeral that reads back
as n (letter values taken from the bundle, a multiplier character multiplying the letter after it).
`_partial`: from 10000 on the algorithm is not injective — the multiplicative part emits one letter for the *leading
digit* of the number of thousands and drops the rest (`traditional_collision_counterexample`), and from 1 000 000 on
it answers `#error`. -/
theorem traditional_roundtrip_partial (n : Nat) (h1 : 1 ≤ n) (h2 : n ≤ 9999) :
    decodeTraditional elalphaBundle (traditionalAlphaCount elalphaBundle n) = some n :=
  traditional_roundtrip_aux n h1 h2

/-- 10000 and 11000 are written identically (`ϙι`): in `traditionalAlphaCount` the inner loop over the number groups
`break`s after the first group that divides the multiplier count (11 / 10 = 1 → `ι`), the remainder 1 is never
written.  Replayed on the real code by the check (known finding C17-traditional-beyond-9999). -/
theorem traditional_collision_counterexample :
    traditionalAlphaCount elalphaBundle 10000 = traditionalAlphaCount elalphaBundle 11000 ∧
    traditionalAlphaCount elalphaBundle 10000 = [985, 953] ∧
    traditionalAlphaCount elalphaBundle 1000000 = errorString := by
  exact ⟨traditional_collision, by decide +kernel, by decide +kernel⟩

example : traditionalAlphaCount elalphaBundle 2345 = [985, 946, 964, 956, 949] ∧
    decodeTraditional elalphaBundle [985, 946, 964, 956, 949] = some 2345 := by decide +kernel

/-! ## Roman numbering -/

/-- **roman_roundtrip.** Every value 1 … 3999 (= `romanMax`) is written over `s_romanConvertTable` as a
numeral that the standard subtractive reading maps back to it (complete kernel evaluation of the range). -/
theorem roman_roundtrip (n : Nat) (h1 : 1 ≤ n) (h2 : n ≤ 3999) :
    ∃ s, toRoman n = some s ∧ decodeRoman s = some n :=
  toRoman_roundtrip n h1 h2

/-- above the table's range the code answers `#error` (not a numeral): the round trip is stated for 1…3999 only -/
theorem roman_out_of_range (n : Nat) (h : 3999 < n) : toRoman n = some errorString := by
  unfold toRoman
  have : ¬ n = 0 := by omega
  have h' : n > romanMax := h
  simp [this, h']

example : toRoman 1994 = some [77, 67, 77, 88, 67, 73, 86] ∧ decodeRoman [77, 67, 77, 88, 67, 73, 86] = some 1994 := by
  decide

/-! ## Decimal numbering with zero padding -/

/-- **decimal_roundtrip.** Without grouping, for every n and every token width the padded decimal string
reads back as n. -/
theorem decimal_roundtrip (n width : Nat) :
    decodeDecimal [] (formatDecimal {} width n) = some n :=
  formatDecimal_roundtrip n width

example : formatDecimal {} 5 42 = [48, 48, 48, 52, 50] := by decide

/-- **decimal_grouping_roundtrip.** With grouping in use — a one-character separator that is not a digit (what
`getNumberFormatter` admits), any group size, any padding width — `applyGrouping` stays inside its
`len + len/size + 2` buffer (no digit is dropped by the `p > buffer` guard) and the string, separators removed,
reads back as n. -/
theorem decimal_grouping_roundtrip (g : Grouping) (sc : Nat) (hs : g.sep = [sc])
    (hnd : ¬ (48 ≤ sc ∧ sc ≤ 57)) (n width : Nat) :
    decodeDecimal g.sep (formatDecimal g width n) = some n :=
  formatDecimal_grouping_roundtrip g sc hs hnd n width

example : formatDecimal { used := true, sep := [44], size := 3 } 11 1234567 = [48, 48, 49, 44, 50, 51, 52, 44, 53, 54, 55] := by
  decide +kernel

/-! ## Number lists -/

/-- **formatList_roundtrip.** For every format string (any mix of the tokens `1`, `01`, `a`, `A`, `i`, `I`, other
decimal-style tokens, any separators, leader and trailer) and every non-empty list of numbers, each of which fits
the numbering type that the format assigns to its position (`NumFits`: ≥ 1; < 26^100 under an alphabetic token — in
particular every 64-bit value; ≤ 3999 under a roman token; unbounded under a decimal token), `formatNumberList`
produces a string from which `decodeList` — splitting at the letter/digit runs and reading the i-th run with the
i-th format token's type, the last one repeating — recovers exactly the list.  `alnum` (`isXMLLetterOrDigit`) is
any predicate that accepts ASCII letters and digits and rejects `.`; the numbering types occurring in the format
must not be the ones for which `getFormattedNumber` raises an error (`TypeOK`).  No grouping
(`decimal_grouping_roundtrip` covers grouping for a single number). -/
theorem formatList_roundtrip (alnum : Nat → Bool) (ha : AlnumOK alnum) (fmt : Str) (l : List Nat) (hl : l ≠ [])
    (hr : ∀ i, i < l.length →
      NumFits ((numberTypes alnum fmt).getD i ((numberTypes alnum fmt).getLastD 49)) (l.getD i 0))
    (ht : ∀ t ∈ numberTypes alnum fmt, TypeOK t) :
    ∃ out, formatNumberList alnum {} fmt l = some out ∧ decodeList alnum {} fmt out = some l :=
  formatList_roundtrip_aux alnum ha fmt l hl hr ht

/-- the common-range corollary: numbers in 1…3999 fit every numbering type -/
theorem formatList_roundtrip_3999 (alnum : Nat → Bool) (ha : AlnumOK alnum) (fmt : Str) (l : List Nat) (hl : l ≠ [])
    (hr : ∀ n ∈ l, 1 ≤ n ∧ n ≤ 3999) (ht : ∀ t ∈ numberTypes alnum fmt, TypeOK t) :
    ∃ out, formatNumberList alnum {} fmt l = some out ∧ decodeList alnum {} fmt out = some l := by
  apply formatList_roundtrip alnum ha fmt l hl _ ht
  intro i hi
  have hm : l.getD i 0 ∈ l := by
    simp [List.getD, List.getElem?_eq_getElem hi]
  have := hr _ hm
  exact ⟨this.1, fun _ => Nat.lt_of_le_of_lt this.2 (by decide), fun _ => this.2⟩

/-- **formatList_grouping_roundtrip.** The same with grouping in use: a one-character grouping separator that is
neither a letter/digit nor `.` nor NUL and does not occur in the format string, any group size ≥ 1.  `decodeList`
reads a letter/digit run *including* grouping separators as one number. -/
theorem formatList_grouping_roundtrip (alnum : Nat → Bool) (ha : AlnumOK alnum) (g : Grouping) (sc : Nat)
    (hu : g.used = true) (hz : g.size ≠ 0) (hs : g.sep = [sc]) (hraw : g.rawSepLen ≤ 1) (hpsc : alnum sc = false)
    (hdot : sc ≠ 46) (h0 : sc ≠ 0)
    (fmt : Str) (hfmt : sc ∉ fmt) (l : List Nat) (hl : l ≠ [])
    (hr : ∀ i, i < l.length →
      NumFits ((numberTypes alnum fmt).getD i ((numberTypes alnum fmt).getLastD 49)) (l.getD i 0))
    (ht : ∀ t ∈ numberTypes alnum fmt, TypeOK t) :
    ∃ out, formatNumberList alnum g fmt l = some out ∧ decodeList alnum g fmt out = some l :=
  formatList_roundtrip_grouping_real alnum ha g sc hu hz hs hraw hpsc hdot h0 fmt hfmt l hl hr ht

example :
    let alnum : Nat → Bool := fun c => (48 ≤ c && c ≤ 57) || (65 ≤ c && c ≤ 90) || (97 ≤ c && c ≤ 122)
    let g : Grouping := { used := true, sep := [44], size := 3 }
    formatNumberList alnum g [49, 46, 65] [1234567, 28] = some [49, 44, 50, 51, 52, 44, 53, 54, 55, 46, 65, 66] ∧
    decodeList alnum g [49, 46, 65] [49, 44, 50, 51, 52, 44, 53, 54, 55, 46, 65, 66] = some [1234567, 28] := by
  exact ⟨by decide +kernel, by decide +kernel⟩

/-- non-vacuity: format `(1.a-I)` with four numbers (the last token repeats, leader and trailer present) -/
example :
    let alnum : Nat → Bool := fun c => (48 ≤ c && c ≤ 57) || (65 ≤ c && c ≤ 90) || (97 ≤ c && c ≤ 122)
    let fmt : Str := [40, 49, 46, 97, 45, 73, 41]
    AlnumOK alnum ∧ (∀ t ∈ numberTypes alnum fmt, TypeOK t) ∧
    (∀ i, i < 4 → NumFits ((numberTypes alnum fmt).getD i ((numberTypes alnum fmt).getLastD 49)) ([123456789012, 18446744073709551615, 1994, 4].getD i 0)) ∧
    formatNumberList alnum {} fmt [12, 27, 1994, 4] =
      some [40, 49, 50, 46, 97, 97, 45, 77, 67, 77, 88, 67, 73, 86, 45, 73, 86, 41] ∧
    decodeList alnum {} fmt [40, 49, 50, 46, 97, 97, 45, 77, 67, 77, 88, 67, 73, 86, 45, 73, 86, 41] = some [12, 27, 1994, 4] := by
  refine ⟨⟨?_, ?_, ?_, by decide⟩, by decide, by decide +kernel, by decide +kernel, by decide +kernel⟩
  · intro c h1 h2; simp; omega
  · intro c h1 h2; simp; omega
  · intro c h1 h2; simp; omega

end XalanModel.Props.C17
