import XalanModel.C17.CountersProofs
import XalanModel.C17.GroupingProofs
import XalanModel.C17.NavigateProofs
/-!
# C17 — `xsl:number` counts per the Recommendation, independent of history; formatting decodes back

Property theorems only (helper lemmas: `XalanModel/C17/*Proofs.lean`).

* **Counting, history half.** `countNode` (CountersTable.cpp) over abstract `getTargetNode` / `getPreviousNode`
  / `isNodeAfter`: for *every* history of calls and *every* oracle the answer is the length of the
  `getPreviousNode` chain from the target — what an empty cache answers (`counters_history_independent`).
  The only hypothesis is that `getPreviousNode` moves backwards in document order (`prev n = some m → m < n`),
  which `getPreviousNode_decreases` proves for the transcribed navigation on every well-formed document.
* **Counting, specification half.** `number_spec_*`: the list produced by the transcribed navigation +
  cache equals the XSLT 1.0 §7.7 list (`Spec.lean`) — proved where the code follows the Recommendation;
  `…_counterexample` theorems exhibit the deviations of the unchanged code (replayed on the real library by
  `checks/c17.py`, recorded in `known_findings.json`).
* **Formatting.** `alpha_roundtrip` (all n ≥ 1, with the 100-slot buffer), `roman_roundtrip` (1…3999, complete
  kernel evaluation), `decimal_roundtrip` (all n, any padding width), over the tables regenerated from
  `ElemNumber.cpp` by `translate/c17_tables.py`.
-/
namespace XalanModel.Props.C17
open XalanModel.C17 XalanModel.Generated.C17

/-! ## The counters cache -/

/-- One call: under the invariant (every cached vector is a complete `getPreviousNode` chain, start count 0)
the answer is the chain length from the target, for any `isNodeAfter` oracle, and the invariant is kept. -/
theorem counters_invariant (target prev : Nat → Option Nat) (hdec : ∀ n m, prev n = some m → m < n)
    (after : Nat → Nat → Bool) (cs : List Counter) (hinv : CountersInv prev cs) (node : Nat) :
    (countNode target prev after cs node).2 = countSpec target prev node ∧
    CountersInv prev (countNode target prev after cs node).1 :=
  countNode_spec target hdec after cs hinv node

/-- **C17 (history independence).** Whatever nodes were numbered before (`history`), in whatever order, and
whatever `isNodeAfter` answered along the way, `countNode` returns for `node` exactly what it returns on an
empty table — the from-scratch chain length `countSpec`. -/
theorem counters_history_independent (target prev : Nat → Option Nat)
    (hdec : ∀ n m, prev n = some m → m < n) (after after' : Nat → Nat → Bool)
    (history : List Nat) (node : Nat) :
    (countNode target prev after (stateAfter target prev after [] history) node).2
      = (countNode target prev after' [] node).2 ∧
    (countNode target prev after' [] node).2 = countSpec target prev node := by
  have hempty : CountersInv prev [] := fun c h => by simp at h
  have hst := stateAfter_inv target hdec after history [] hempty
  exact ⟨by rw [(countNode_spec target hdec after _ hst node).1, (countNode_spec target hdec after' [] hempty node).1],
         (countNode_spec target hdec after' [] hempty node).1⟩

/-- the answers along a whole history are the per-node specifications -/
theorem counters_history_answers (target prev : Nat → Option Nat)
    (hdec : ∀ n m, prev n = some m → m < n) (after : Nat → Nat → Bool) (history : List Nat) :
    runHistory target prev after [] history = history.map (countSpec target prev) :=
  runHistory_spec target hdec after history [] (fun c h => by simp at h)

/-- non-vacuity: a decreasing `prev` with two interleaved chains (odd / even numbers), a history that hits
the cache in the middle, extends a cached vector and creates a second counter, with an oracle that always
says "after" (so `getPreviouslyCounted` gives up immediately and node 3 gets a second, redundant counter). -/
example :
    let prev : Nat → Option Nat := fun n => if n ≥ 2 then some (n - 2) else none
    (∀ n m, prev n = some m → m < n) ∧
    runHistory some prev (fun _ _ => true) [] [5, 9, 3, 8, 9, 4] = [3, 5, 2, 5, 5, 3] ∧
    (stateAfter some prev (fun _ _ => true) [] [5, 9, 3, 8]).length = 3 := by
  refine ⟨?_, by decide, by decide⟩
  intro n m h
  simp only at h
  split at h
  · simp only [Option.some.injEq] at h; omega
  · cases h

/-! ## The number list against XSLT 1.0 §7.7 -/

/-- the transcribed `getPreviousNode` satisfies the hypothesis of the history theorems on every well-formed
document (so they apply to the navigation code, not only to an abstract `prev`) -/
theorem getPreviousNode_decreases (d : Doc) (hwf : d.WF) (hcl : d.Closed) (c : NumCfg) :
    ∀ n m, (getPreviousNode d c n).toOption = some m → m < n :=
  XalanModel.C17.getPreviousNode_decreases hwf hcl c

/-- one `xsl:number` instruction executed for a sequence of context nodes within one transformation
(the counters of the instruction persist from one node to the next) -/
def runNumber (d : Doc) (c : NumCfg) (after : Nat → Nat → Bool) : List Counter → List Nat → List (List Nat)
  | _, [] => []
  | cs, n :: rest =>
    let r := getCountList d c after cs n
    r.2 :: runNumber d c after r.1 rest

/-- "the count pattern is one pattern": what `getCountMatchPattern` guarantees for the default pattern
(same type and name) and what an explicit `count` attribute trivially satisfies -/
def CountConsistent (c : NumCfg) : Prop := ∀ a b, c.countAt a b = true → c.countAt b = c.countAt a

/-- **number_spec, full strength** would read: for every well-formed document, every instruction and every
history, `runNumber d c after [] history = history.map (numberSpec d c.level (c.countAt ·) c.fromP ·)`.
The unchanged code violates it (the `…_counterexample` theorems below), so it is proved in three parts:

`number_spec_any_partial`: `level="any"` **without `from`** and a count pattern that does not match the root
node: every history yields the §7.7 count, except that a zero count prints nothing (`filter (· ≠ 0)`).
Missing: `from` (see `number_spec_any_from_counterexample`, `number_spec_from_self_counterexample`), the zero list
(`number_spec_any_zero_counterexample`), count patterns matching `/`. -/
theorem number_spec_any_partial (d : Doc) (hwf : d.WF) (hcl : d.Closed) (c : NumCfg) (hl : c.level = .any)
    (hf : c.fromP = none) (hcons : CountConsistent c) (after : Nat → Nat → Bool)
    (history : List Nat) (hh : ∀ n ∈ history, n < d.size ∧ c.countAt n 0 = false) :
    runNumber d c after [] history =
      history.map fun n => (numberSpec d .any (c.countAt n) none n).filter (· ≠ 0) := by
  suffices H : ∀ (hist : List Nat) (cs : List Counter), (∀ n ∈ hist, n < d.size ∧ c.countAt n 0 = false) →
      CountersInv (fun n => (getPreviousNode d c n).toOption) cs →
      runNumber d c after cs hist = hist.map fun n => (numberSpec d .any (c.countAt n) none n).filter (· ≠ 0) from
    H history [] hh (fun _ h => by simp at h)
  intro hist
  induction hist with
  | nil => intro _ _ _; rfl
  | cons n rest ih =>
    intro cs hh hinv
    have hn := hh n (by simp)
    have := getCountList_any_nofrom hwf hcl c hl hf hcons n hn.1 hn.2 after cs hinv
    simp only [runNumber, List.map_cons, this.1, numberSpec]
    rw [ih _ (fun m hm => hh m (by simp [hm])) this.2]
    rfl

/-- `number_spec_any_from_partial`: `level="any"` **with** `from`, in documents where only nodes that have
children match `from` (sections, chapters — not childless markers), for visited nodes that do not themselves
match `from`, count pattern not matching `/`: every history prints the §7.7 count (zero prints nothing).
Missing: childless `from` nodes (`number_spec_any_from_counterexample`), current node matching `from`. -/
theorem number_spec_any_from_partial (d : Doc) (hwf : d.WF) (hcl : d.Closed) (c : NumCfg) (hl : c.level = .any)
    (f : Nat → Bool) (hf : c.fromP = some f) (hcons : CountConsistent c)
    (hleaf : ∀ m, m < d.size → f m = true → (d.lastChild m).isSome = true)
    (after : Nat → Nat → Bool)
    (history : List Nat) (hh : ∀ n ∈ history, n < d.size ∧ c.countAt n 0 = false ∧ f n = false) :
    runNumber d c after [] history =
      history.map fun n => (numberSpec d .any (c.countAt n) (some f) n).filter (· ≠ 0) := by
  suffices H : ∀ (hist : List Nat) (cs : List Counter),
      (∀ n ∈ hist, n < d.size ∧ c.countAt n 0 = false ∧ f n = false) →
      CountersInv (fun n => (getPreviousNode d c n).toOption) cs →
      runNumber d c after cs hist = hist.map fun n => (numberSpec d .any (c.countAt n) (some f) n).filter (· ≠ 0) from
    H history [] hh (fun _ h => by simp at h)
  intro hist
  induction hist with
  | nil => intro _ _ _; rfl
  | cons n rest ih =>
    intro cs hh hinv
    have hn := hh n (by simp)
    have := getCountList_any_from hwf hcl c hl f hf hcons n hn.1 hn.2.1 hleaf hn.2.2 after cs hinv
    simp only [runNumber, List.map_cons, this.1, numberSpec]
    rw [ih _ (fun m hm => hh m (by simp [hm])) this.2]
    rfl

/-- `number_spec_multiple_partial`: `level="multiple"`, with or without `from`: every history yields the §7.7
list, provided no visited node itself matches `from`.  Missing: current node matching `from`
(`number_spec_from_self_counterexample`). -/
theorem number_spec_multiple_partial (d : Doc) (hwf : d.WF) (hcl : d.Closed) (c : NumCfg)
    (hl : c.level = .multiple) (hcons : CountConsistent c) (after : Nat → Nat → Bool)
    (history : List Nat) (hh : ∀ n ∈ history, n < d.size ∧ c.fromMatches n = false) :
    runNumber d c after [] history =
      history.map fun n => numberSpec d .multiple (c.countAt n) c.fromP n := by
  suffices H : ∀ (hist : List Nat) (cs : List Counter), (∀ n ∈ hist, n < d.size ∧ c.fromMatches n = false) →
      CountersInv (fun n => (getPreviousNode d c n).toOption) cs →
      runNumber d c after cs hist = hist.map fun n => numberSpec d .multiple (c.countAt n) c.fromP n from
    H history [] hh (fun _ h => by simp at h)
  intro hist
  induction hist with
  | nil => intro _ _ _; rfl
  | cons n rest ih =>
    intro cs hh hinv
    have hn := hh n (by simp)
    have := getCountList_multiple hwf hcl c hl hcons n hn.1 hn.2 after cs hinv
    simp only [runNumber, List.map_cons, this.1, numberSpec]
    rw [ih _ (fun m hm => hh m (by simp [hm])) this.2]
    rfl

/-- `number_spec_single_partial`: `level="single"`: every history yields the §7.7 list *of the instruction
with its `from` attribute removed*; hence the §7.7 list when `from` is absent.  Missing: `from`
(`number_spec_single_from_counterexample`). -/
theorem number_spec_single_partial (d : Doc) (hwf : d.WF) (hcl : d.Closed) (c : NumCfg)
    (hl : c.level = .single) (hcons : CountConsistent c) (after : Nat → Nat → Bool)
    (history : List Nat) (hh : ∀ n ∈ history, n < d.size) :
    runNumber d c after [] history =
      history.map fun n => numberSpec d .single (c.countAt n) none n := by
  suffices H : ∀ (hist : List Nat) (cs : List Counter), (∀ n ∈ hist, n < d.size) →
      CountersInv (fun n => (getPreviousNode d c n).toOption) cs →
      runNumber d c after cs hist = hist.map fun n => numberSpec d .single (c.countAt n) none n from
    H history [] hh (fun _ h => by simp at h)
  intro hist
  induction hist with
  | nil => intro _ _ _; rfl
  | cons n rest ih =>
    intro cs hh hinv
    have := getCountList_single hwf hcl c hl hcons n (hh n (by simp)) after cs hinv
    simp only [runNumber, List.map_cons, this.1, numberSpec]
    rw [ih _ (fun m hm => hh m (by simp [hm])) this.2]
    rfl

/-- corollary: `level="single"` **with** `from` prints the §7.7 list for every visited node none of whose proper
ancestors matches `from` (the nodes for which `from` does not restrict anything) -/
theorem number_spec_single_from_partial (d : Doc) (hwf : d.WF) (hcl : d.Closed) (c : NumCfg)
    (hl : c.level = .single) (f : Nat → Bool) (hf : c.fromP = some f) (hcons : CountConsistent c)
    (after : Nat → Nat → Bool) (history : List Nat)
    (hh : ∀ n ∈ history, n < d.size ∧ ∀ a ∈ d.ancestors (n + 1) n, f a = false) :
    runNumber d c after [] history =
      history.map fun n => numberSpec d .single (c.countAt n) c.fromP n := by
  rw [number_spec_single_partial d hwf hcl c hl hcons after history (fun n hn => (hh n hn).1)]
  apply List.map_congr_left
  intro n hn
  simp only [numberSpec, hf]
  exact (specSingle_from_irrelevant d (c.countAt n) f n (hh n hn).2).symm

/-! ### witnesses: the hypotheses are satisfiable, and where the unchanged code leaves §7.7 -/

/-- `<r><h/><x/><x/><h/><x><x/></x></r>`: 0 = root, 1 = r, 2 = h, 3 = x, 4 = x, 5 = h, 6 = x, 7 = x (child of 6) -/
def exDoc : Doc := Doc.ofParents [-1, 0, 1, 1, 1, 1, 1, 6]
def isX (n : Nat) : Bool := n == 3 || n == 4 || n == 6 || n == 7
def isH (n : Nat) : Bool := n == 2 || n == 5

example : exDoc.WF ∧ exDoc.Closed := ⟨by decide, Doc.ofParents_closed _⟩

/-- non-vacuity of the three partial theorems: a history in shuffled order with repeats on `exDoc` -/
example :
    let c : NumCfg := { level := .any, countAt := fun _ n => isX n, fromP := none }
    CountConsistent c ∧ (∀ n ∈ [7, 3, 6, 1, 7, 4], n < exDoc.size ∧ c.countAt n 0 = false) ∧
    runNumber exDoc c (fun a b => decide (a ≤ b)) [] [7, 3, 6, 1, 7, 4] = [[4], [1], [3], [], [4], [2]] := by
  refine ⟨fun _ _ _ => rfl, by decide, by decide +kernel⟩

example :
    let c : NumCfg := { level := .multiple, countAt := fun _ n => isX n || n == 1, fromP := some (fun n => n == 0) }
    CountConsistent c ∧ (∀ n ∈ [7, 3, 6, 7], n < exDoc.size ∧ c.fromMatches n = false) ∧
    runNumber exDoc c (fun a b => decide (a ≤ b)) [] [7, 3, 6, 7] = [[1, 3, 1], [1, 1], [1, 3], [1, 3, 1]] := by
  refine ⟨fun _ _ _ => rfl, by decide, by decide +kernel⟩

/-- non-vacuity of `number_spec_any_from_partial`: `from` = the `r` element (node 1, has children), count = `x` -/
example :
    let c : NumCfg := { level := .any, countAt := fun _ n => isX n, fromP := some (fun n => n == 1) }
    CountConsistent c ∧ (∀ m, m < exDoc.size → (m == 1) = true → (exDoc.lastChild m).isSome = true) ∧
    (∀ n ∈ [7, 3, 6, 2, 4], n < exDoc.size ∧ c.countAt n 0 = false ∧ (n == 1) = false) ∧
    runNumber exDoc c (fun a b => decide (a ≤ b)) [] [7, 3, 6, 2, 4] = [[4], [1], [3], [], [2]] := by
  refine ⟨fun _ _ _ => rfl, by decide, by decide, by decide +kernel⟩

/-- `level="any" count="x" from="h"` at node 6: the code answers 3 (the childless `h` at 5 is walked over),
§7.7 defines 1.  (known finding C17-any-from-childless) -/
theorem number_spec_any_from_counterexample :
    let c : NumCfg := { level := .any, countAt := fun _ n => isX n, fromP := some isH }
    (getCountList exDoc c (fun a b => decide (a ≤ b)) [] 6).2 = [3] ∧
    numberSpec exDoc .any (c.countAt 6) c.fromP 6 = [1] := by
  exact ⟨by decide +kernel, by decide +kernel⟩

/-- `level="single"` with count = the `r` element (node 1) and from = the `x` numbered 6, at node 7 (inside 6):
the only count match among the ancestors lies *outside* the nearest `from` ancestor, so §7.7 defines the empty
list; the code does not consult `from` and answers `[1]`.  (known finding C17-single-from-ignored) -/
theorem number_spec_single_from_counterexample :
    let c : NumCfg := { level := .single, countAt := fun _ n => n == 1, fromP := some (fun n => n == 6) }
    (getCountList exDoc c (fun a b => decide (a ≤ b)) [] 7).2 = [1] ∧
    numberSpec exDoc .single (c.countAt 7) c.fromP 7 = [] := by
  exact ⟨by decide +kernel, by decide +kernel⟩

/-- current node matches `from` (`count="x|h" from="h"` at the `h` numbered 5): the code prints nothing for
`any` and for `multiple`; §7.7 looks for `from` only before / above the current node.
(known finding C17-from-self) -/
theorem number_spec_from_self_counterexample :
    let ca : NumCfg := { level := .any, countAt := fun _ n => isX n || isH n, fromP := some isH }
    let cm : NumCfg := { ca with level := .multiple }
    (getCountList exDoc ca (fun a b => decide (a ≤ b)) [] 5).2 = [] ∧
    numberSpec exDoc .any (ca.countAt 5) ca.fromP 5 = [3] ∧
    (getCountList exDoc cm (fun a b => decide (a ≤ b)) [] 5).2 = [] ∧
    numberSpec exDoc .multiple (cm.countAt 5) cm.fromP 5 = [4] := by
  exact ⟨by decide +kernel, by decide +kernel, by decide +kernel, by decide +kernel⟩

/-- a zero count: `level="any" count="x"` at node 2 prints nothing; §7.7 constructs the list `[0]`.
(known finding C17-any-zero) -/
theorem number_spec_any_zero_counterexample :
    let c : NumCfg := { level := .any, countAt := fun _ n => isX n, fromP := none }
    (getCountList exDoc c (fun a b => decide (a ≤ b)) [] 2).2 = [] ∧
    numberSpec exDoc .any (c.countAt 2) c.fromP 2 = [0] := by
  exact ⟨by decide +kernel, by decide +kernel⟩

/-- `level="any"` with `from` and a count pattern matching the root (`count="/"`, or the default pattern when
the root itself is numbered): the as-written condition in `getPreviousNode` passes a null node to
`getMatchScore`.  (proposed fix C17-getPreviousNode-null.diff; known finding C17-null-from-crash) -/
theorem number_null_deref_counterexample :
    let c : NumCfg := { level := .any, countAt := fun _ n => n == 0, fromP := some isH }
    getPreviousNode exDoc c 0 = .nullDeref ∧ derefsNull exDoc c 0 = true ∧ derefsNull exDoc c 1 = true := by
  exact ⟨by decide +kernel, by decide +kernel, by decide +kernel⟩

/-- and it cannot happen without `from`, or when the count pattern does not match the root -/
theorem number_null_deref_only_at_root (d : Doc) (c : NumCfg) (n : Nat) (h : getPreviousNode d c n = .nullDeref) :
    c.level = .any ∧ c.fromP.isSome = true := by
  unfold getPreviousNode at h
  cases hl : c.level with
  | single => simp [hl] at h
  | multiple => simp [hl] at h
  | any =>
    refine ⟨rfl, ?_⟩
    simp only [hl] at h
    cases hf : c.fromP with
    | some f => rfl
    | none =>
      exfalso
      have : ∀ (fuel pos : Nat), prevAny d c n fuel pos ≠ .nullDeref := by
        intro fuel
        induction fuel with
        | zero => intro pos; simp [prevAny]
        | succ f ih =>
          intro pos
          simp only [prevAny]
          cases d.prevSib pos with
          | none =>
            cases d.parent pos with
            | none => simp [hf]
            | some nx =>
              simp only
              split
              · simp
              · split
                · simp
                · exact ih nx
          | some s =>
            simp only
            split
            · simp
            · exact ih _
      exact this _ _ h

/-! ## Alphabetic numbering -/

/-- **alpha_roundtrip.** For every n ≥ 1 that fits the buffer (`n < 26^100`, in particular every 64-bit
value) `int2alphaCount` over the generated table writes inside `buf`, and the string reads back as n in
bijective base 26. -/
theorem alpha_roundtrip (n : Nat) (h1 : 1 ≤ n) (hb : n < 26 ^ alphaBufLen) :
    ∃ s, int2alphaCount alphaTable n = some s ∧ decodeAlpha s = some n ∧ s.length ≤ alphaBufLen :=
  int2alphaCount_roundtrip n h1 hb

/-- no write outside `buf[buflen + 1]` for any 64-bit value, and at most 14 characters are produced -/
theorem alpha_no_overflow (n : Nat) (h : n < 2 ^ 64) :
    (int2alphaCount alphaTable n).isSome = true ∧ (alphaIndices 26 n).length ≤ 14 := by
  have h14 : n < 26 ^ 14 := Nat.lt_trans h (by decide)
  have hlen := alphaLoop_length 14 (n + 1) n 0 1 (by decide) h14
  refine ⟨?_, hlen⟩
  unfold int2alphaCount
  rw [alphaTable_length, writeBackward_ok alphaBufLen _ (by
    simp only [List.length_map]
    exact Nat.le_trans hlen (by decide)) (by decide)]
  rfl

example : int2alphaCount alphaTable 18446744073709551615 = some [71, 75, 71, 87, 66, 89, 76, 87, 82, 88, 84, 76, 80, 79] := by
  decide +kernel

/-! ## Roman numbering -/

/-- **roman_roundtrip.** Every value 1 … 3999 (= `romanMax`) is written over `s_romanConvertTable` as a
numeral that the standard subtractive reading maps back to it (complete kernel evaluation of the range). -/
theorem roman_roundtrip (n : Nat) (h1 : 1 ≤ n) (h2 : n ≤ 3999) :
    ∃ s, toRoman n = some s ∧ decodeRoman s = some n :=
  toRoman_roundtrip n h1 h2

/-- above the table's range the code answers `#error` (not a numeral): the round trip is stated for 1…3999 only -/
theorem roman_out_of_range (n : Nat) (h : 3999 < n) : toRoman n = some errorString := by
  unfold toRoman
  have : ¬ n = 0 := by omega
  have h' : n > romanMax := h
  simp [this, h']

example : toRoman 1994 = some [77, 67, 77, 88, 67, 73, 86] ∧ decodeRoman [77, 67, 77, 88, 67, 73, 86] = some 1994 := by
  decide

/-! ## Decimal numbering with zero padding -/

/-- **decimal_roundtrip.** Without grouping, for every n and every token width the padded decimal string
reads back as n. -/
theorem decimal_roundtrip (n width : Nat) :
    decodeDecimal [] (formatDecimal {} width n) = some n :=
  formatDecimal_roundtrip n width

example : formatDecimal {} 5 42 = [48, 48, 48, 52, 50] := by decide

/-- **decimal_grouping_roundtrip.** With grouping in use — a one-character separator that is not a digit (what
`getNumberFormatter` admits), any group size, any padding width — `applyGrouping` stays inside its
`len + len/size + 2` buffer (no digit is dropped by the `p > buffer` guard) and the string, separators removed,
reads back as n. -/
theorem decimal_grouping_roundtrip (g : Grouping) (sc : Nat) (hs : g.sep = [sc])
    (hnd : ¬ (48 ≤ sc ∧ sc ≤ 57)) (n width : Nat) :
    decodeDecimal g.sep (formatDecimal g width n) = some n :=
  formatDecimal_grouping_roundtrip g sc hs hnd n width

example : formatDecimal { used := true, sep := [44], size := 3 } 11 1234567 = [48, 48, 49, 44, 50, 51, 52, 44, 53, 54, 55] := by
  decide +kernel

/-! ## Number lists -/

/-- **formatList_roundtrip.** For every format string (any mix of the tokens `1`, `01`, `a`, `A`, `i`, `I`, other
decimal-style tokens, any separators, leader and trailer), every non-empty list of numbers in 1…3999 (the common
range of all numbering types) is formatted by `formatNumberList` into a string from which `decodeList` —
splitting at the letter/digit runs and reading the i-th run with the i-th format token's type, the last one
repeating — recovers exactly the list.  `alnum` (`isXMLLetterOrDigit`) is any predicate that accepts ASCII
letters and digits and rejects `.`; the numbering types occurring in the format must not be the ones for which
`getFormattedNumber` raises an error (`TypeOK`).  No grouping (`decimal_grouping` is separate). -/
theorem formatList_roundtrip (alnum : Nat → Bool) (ha : AlnumOK alnum) (fmt : Str) (l : List Nat) (hl : l ≠ [])
    (hr : ∀ n ∈ l, 1 ≤ n ∧ n ≤ 3999) (ht : ∀ t ∈ numberTypes alnum fmt, TypeOK t) :
    ∃ out, formatNumberList alnum {} fmt l = some out ∧ decodeList alnum {} fmt out = some l :=
  formatList_roundtrip_aux alnum ha fmt l hl hr ht

/-- non-vacuity: format `(1.a-I)` with four numbers (the last token repeats, leader and trailer present) -/
example :
    let alnum : Nat → Bool := fun c => (48 ≤ c && c ≤ 57) || (65 ≤ c && c ≤ 90) || (97 ≤ c && c ≤ 122)
    let fmt : Str := [40, 49, 46, 97, 45, 73, 41]
    AlnumOK alnum ∧ (∀ t ∈ numberTypes alnum fmt, TypeOK t) ∧
    formatNumberList alnum {} fmt [12, 27, 1994, 4] =
      some [40, 49, 50, 46, 97, 97, 45, 77, 67, 77, 88, 67, 73, 86, 45, 73, 86, 41] ∧
    decodeList alnum {} fmt [40, 49, 50, 46, 97, 97, 45, 77, 67, 77, 88, 67, 73, 86, 45, 73, 86, 41] = some [12, 27, 1994, 4] := by
  refine ⟨⟨?_, ?_, ?_, by decide⟩, by decide, by decide +kernel, by decide +kernel⟩
  · intro c h1 h2; simp; omega
  · intro c h1 h2; simp; omega
  · intro c h1 h2; simp; omega

end XalanModel.Props.C17
