import XalanModel.C06.ApiProofs
import XalanModel.C06.VarStackProofs
import XalanModel.C06.Scope
/-!
# C06 — a reused transformer behaves like a fresh one

Property theorems only (helpers: `XalanModel/C06/StmtProofs.lean`, `ApiProofs.lean`).

The objects are the tables `XalanModel.Generated.C06.*`, regenerated from `/repo`'s working tree by
`translate/c06_reset.py` on every run: the member list of the long-lived objects, their freshly
constructed values, the fully inlined statement list of `XalanTransformer::EnsureReset::~EnsureReset`
(`ensureReset`), and what `doTransform` installs before a transformation (`setup`).  Each theorem is
*for all states / all histories*; what it takes from the tables is a closed decidable check over the
complete table (`by decide`), lifted by the soundness lemma of the static analysis (`aRun_sound`,
proved by induction over statement lists).

"Fail at any point" = the member state `mid` in which a transformation stops is universally
quantified (every non-sticky member arbitrary), restricted only by the `VariablesStack` invariant
`0 ≤ m_currentStackFrameIndex ≤ m_stack.size()` (`MidOk`) — without it the code does *not* restore
the index (`varstack_index_counterexample`).
-/
namespace XalanModel.Props.C06
open XalanModel.C06 XalanModel.Generated.C06

/-- Every data member found in the headers has a role in `gen/c06_members.json`, the tables are
consistent, `doTransform` does not write a sticky member and the `EnsureReset` guard is constructed after
the per-call objects and before the first of them is installed. -/
theorem all_members_classified :
    unclassified = [] ∧ stickyWrittenByTransform = [] ∧ guardOrderProblems = [] ∧
    roles.length = memberNames.length ∧ kinds.length = memberNames.length ∧
    freshVals.length = memberNames.length := by decide +kernel

/-- **reset_restores_partial.** In whatever state a transformation stops (`s` arbitrary, within the
`VariablesStack` invariant), after `~EnsureReset` every member classified *transient* has the value it
has in a freshly constructed transformer.

*Partial* w.r.t. the full statement "every member that is not sticky by contract is restored from every state":
(1) the hypothesis `MidOk` (reachable interpreter states satisfy it -- `varstack_reset_from_any_history` for the
hand model of the stack operations; the call discipline of the interpreter itself is modelled, not verified;
without it the statement is false: `varstack_index_counterexample`); (2) members of role `cache` are excluded
(argued unobservable in gen/c06_members.json; for the four `XalanObjectStackCache` members the full statement is
false: `reset_restores_objstack_counterexample`). -/
theorem reset_restores_partial (s : State) (hs : MidOk s) :
    ∀ m ∈ transientIds, run ensureReset s m = freshState m :=
  fun m hm => reset_restores_of_checks (by decide +kernel) (by decide +kernel) s hs m hm

example : MidOk (fun k => if k = vsStack then .seq [4, 5, 6] else if k = vsIndex then .num 2 else .seq [9]) := by
  decide

/-- The state a transformation starts from (every member that is *transient* or *per-call*, after
`doTransform`'s set-up) is the same after any earlier transformation — however it ended — as on a freshly
constructed transformer.  *Partial* in the same two respects as `reset_restores_partial`. -/
theorem start_state_independent_partial (s : State) (hs : MidOk s) :
    view (run setup (run ensureReset s)) = view (run setup freshState) :=
  view_congr _ _ fun m hm => start_of_checks (by decide +kernel) (by decide +kernel) s hs m hm

/-- Set-up and reset never write a member that is sticky by contract (`m_params`, `m_functions`, owned
stylesheets / sources, trace listeners), a configuration option or a constant. -/
theorem sticky_untouched (s : State) :
    ∀ m ∈ keptIds, run (setup ++ ensureReset) s m = s m :=
  fun m hm => kept_of_checks (by decide +kernel) s m hm

example : 3 ∈ keptIds ∧ memberNames.getD 3 "" = "T.m_params" := by decide +kernel

/-- **guard_sites_all_guarded.** Members that `reset()` does not touch and the interpreter restores with scope
guards (role `guarded`: the four containers of the execution context's shared `NodeSorter`): at *every* site the
translator finds that mutates one of them — member functions of the owner, users of an accessor handing out a
mutable reference (`getSortKeys()` in `ElemForEach::sortChildren`), constructions of a helper class that reaches it
through its owner — a `CollectionClearGuard` on it is declared before the first mutation, in the same block; each
guarded member has at least one such site; every user of the scratch QName assigns it before reading; and no RAII
helper class of the execution contexts touches a member that neither `reset()` nor a guard restores.  Caches whose
entries carry mutable state and live as long as the transformer (the ICU collators cached per `lang`, the ICU decimal
formats cached per symbol set): at every use the state the result depends on (`UCOL_CASE_FIRST`; the pattern) is set
unconditionally before the use, and cached collators are only compared through the overload that sets it. -/
theorem guard_sites_all_guarded :
    guardSites.all (fun x => x.2.2) = true ∧
    guardedIds.all (fun m => guardSites.any (fun x => x.1 == m)) = true ∧
    scratchSites.all (fun x => x.2) = true ∧ guardClassProblems = [] ∧
    statefulCacheSites.all (fun x => x.2) = true := by decide +kernel

/-- **pooled_objects_reinitialised.** Objects that are pooled and handed out again (the execution context's
`FormatterToSourceTree`, `FormatterToText`, `MutableNodeRefList` and `XalanDOMString` pools / caches): the borrowing site
calls every re-initialiser, and *every* data member found in the class and its bases is assigned by one of them or is on
the justified allow-list with the only functions that may write it (closed check over `Generated.reinitSites`); and, for
the re-initialisation as a statement list over the object's own members (`Generated.pooledReinit`), every member that
holds per-use data has a value that does not depend on what the previous user left behind — for *all* previous
states (`history_erased`, induction over statement lists). -/
theorem pooled_objects_reinitialised :
    reinitSites.all (fun x => x.2) = true ∧
    ∀ c ∈ pooledReinit, ∀ m ∈ c.2.2, ∀ s1 s2 : State, run c.2.1 s1 m = run c.2.1 s2 m := by
  refine ⟨by decide +kernel, ?_⟩
  have hall : pooledReinit.all (fun c => c.2.2.all fun m => (lk m (aRun c.2.1 [])).isSome) = true := by decide +kernel
  intro c hc m hm s1 s2
  have h1 := List.all_eq_true.mp hall c hc
  exact history_erased c.2.1 m (List.all_eq_true.mp h1 m hm) s1 s2

example : pooledReinit.length = 4 ∧ (pooledReinit.map fun c => c.2.2.length) = [8, 0, 2, 2] := by decide +kernel

/-- **cache_keys_complete.** Caches that outlive a transformation are keyed on every input of the cached value: each
data member of `XalanDecimalFormatSymbols` (the key of the ICU decimal-format cache) takes part in `operator=`,
`operator==` and the copy constructor; the cache is filled with a copy of, and searched by comparison with, the whole
key; the collator cache is searched by the locale name, the only input of `createCollator`. -/
theorem cache_keys_complete : cacheKeySites.all (fun x => x.2) = true := by decide +kernel

/-- **scratch_qname_history_free.** With the `else m_namespace.clear()` of proposed/C06-scratch-qname.diff the result of
resolving a prefixed name on the execution context's scratch QName does not depend on what the previous lookup left in
it — for all previous contents, all resolver answers, all local parts. -/
theorem scratch_qname_history_free (p1 p2 : ScratchQName) (lookup : Option (List Nat)) (lp : List Nat) :
    resolvePrefixed true p1 lookup lp = resolvePrefixed true p2 lookup lp := by
  cases lookup <;> rfl

/-- **scratch_qname_stale_counterexample.** Without it (the tree as found) an undeclared prefix resolves to the namespace
of the previous lookup instead of being reported, while on a fresh instance it is reported: history dependence.
Replayed on the real library by corpus case `qname-lookups` (`transformsrc qn_ea_decl d1 ; transformsrc qn_ea_undecl d1`). -/
theorem scratch_qname_stale_counterexample :
    resolvePrefixed false ⟨[7], [1]⟩ none [2] = .ok ⟨[7], [2]⟩ ∧
    resolvePrefixed false ⟨[], []⟩ none [2] = .prefixNotDeclared := by decide

/-- **scope_guard_restores.** Semantics of a C++ block holding `CollectionClearGuard`s, with exceptions
(`XalanModel/C06/Scope.lean`): if every mutation of member `m` lies inside a scope that guards `m`, then after the
code ran — to completion or to an exception at *any* point — `m` is empty again. -/
theorem scope_guard_restores (p : Prog) (m : Nat) (hg : p.Guarded m = true) (s : State) (hs : s m = .seq []) :
    (p.exec s).1 m = .seq [] :=
  Prog.guarded_restores p m hg s hs

example : (Prog.scope [7] (.seq (.mutate 7 (.seq [1])) (.seq .throw (.mutate 7 (.seq [2]))))).Guarded 7 = true ∧
    ((Prog.scope [7] (.seq (.mutate 7 (.seq [1])) (.seq .throw (.mutate 7 (.seq [2]))))).exec freshState).2 = .thrown ∧
    ¬ (Prog.seq (.mutate 7 (.seq [1])) (.seq .throw (.scope [7] (.mutate 7 (.seq []))))).Guarded 7 = true := by
  decide

/-- **guarded_members_stay_fresh.** Over every API history, the guarded members keep their freshly-constructed
value at every point between calls: set-up and reset never write them (closed check over the statement tables) and
the interpreter leaves them as it found them on every exit (`scope_guard_restores` + `guard_sites_all_guarded`,
which is why `havoc` does not treat them as volatile). -/
theorem guarded_members_stay_fresh (ops : List Op) :
    ∀ m ∈ guardedIds, (runOps Tx.init ops).1.mem m = freshState m :=
  fun m hm => runOps_guarded (by decide +kernel) ops Tx.init m hm

example : guardedIds.length = 4 := by decide +kernel

/-- Full strength ("*every* non-sticky member is restored") is false on the tree as found: the four
`XalanObjectStackCache` members keep the objects that were checked out when the transformation
aborted (`reset()` neither zeroes `m_numObjectsOnStack` nor does its reset functor do anything).
Stated so that it stays true should the code be repaired (then `objStackResetZeroesDepth = true`). -/
theorem reset_restores_objstack_counterexample :
    objStackResetZeroesDepth = false →
    ∃ s : State, MidOk s ∧ ∃ m ∈ objStackIds, run ensureReset s m ≠ freshState m := by
  first
    | (intro h; exact absurd h (by decide))
    | (intro _
       refine ⟨fun k => if objStackIds.contains k then .seq [7] else freshState k, by decide, ?_⟩
       refine ⟨objStackIds.headD 0, by decide, by decide +kernel⟩)

/-- Without the invariant the index is not restored: `reset()` never assigns
`m_currentStackFrameIndex`; the pop loop only decrements it while it equals the size. -/
theorem varstack_index_counterexample :
    ∃ s : State, ¬ MidOk s ∧ run ensureReset s vsIndex ≠ freshState vsIndex :=
  ⟨fun k => if k = vsIndex then .num 5 else freshState k, by decide, by decide +kernel⟩

/-- the closed form behind `reset_restores_partial` for the index: within the stack ⇒ 0, past the top ⇒ unchanged -/
theorem varstack_index_restored (n : Nat) (i : Int) :
    (0 ≤ i → i ≤ (n : Int) → popIdx n i = 0) ∧ ((n : Int) < i → popIdx n i = i) :=
  ⟨popIdx_le n i, popIdx_gt n i⟩

/-- **varstack_reset_from_any_history.** Hand model of the `VariablesStack` operations that write `m_stack`'s
size and `m_currentStackFrameIndex` (push, pop, setCurrentStackFrameIndex): after *any* sequence of them that
respects the call discipline (pop only when non-empty, an explicit index only within the stack) the invariant
`MidOk` needs holds, and `reset()`'s pop loop brings both back to 0 -- the loop being the `popIdx` of the
generated statement language.  (The call discipline itself is modelled, not verified.) -/
theorem varstack_reset_from_any_history (ops : List VOp) (w : VarStack)
    (hr : VarStack.runOps ⟨0, 0⟩ ops = some w) :
    w.Inv ∧ w.reset = ⟨0, 0⟩ ∧ popIdx w.size (w.idx : Int) = 0 := by
  have hinv : w.Inv := VarStack.runOps_inv ops ⟨0, 0⟩ w (Nat.le_refl 0) hr
  refine ⟨hinv, ?_, ?_⟩
  · have h1 := VarStack.popAll_size w.size w rfl
    have h2 := VarStack.popAll_idx w.size w rfl hinv
    unfold VarStack.reset
    cases hw : VarStack.popAll w.size w with
    | mk s i => rw [hw] at h1 h2; simp at h1 h2; simp [h1, h2]
  · rw [← VarStack.popAll_eq_popIdx w.size w rfl hinv, VarStack.popAll_idx w.size w rfl hinv]; rfl

example : VarStack.runOps ⟨0, 0⟩ [.push, .push, .setIdx (some 1), .push, .pop, .setIdx none, .push] = some ⟨3, 3⟩ := by
  decide

/-- **interpreter_abort_states_midok.** The interpreter's use of the variables stack is a properly nested
block program (`Block`: every `startElement` push has its `endElement` pop, frames pop down to their marker,
`pushCurrentStackFrameIndex` / `popCurrentStackFrameIndex` come in pairs and are given indices within the
stack).  Wherever an exception leaves such a program — after *any prefix* of its stack operations — the stack
satisfies `0 ≤ m_currentStackFrameIndex ≤ m_stack.size()`, i.e. every member state with that stack satisfies
the hypothesis `MidOk` of `reset_restores_partial` / `history_independent_partial`.  The only thing assumed about the
interpreter is the hypothesis object `WalkerPairing` (the C01 walker statement: every `startElement` push has its
`endElement` pop, properly nested; `XalanModel.Props.C01.walker_eq_recursion`, `variables_balanced`). -/
theorem interpreter_abort_states_midok (w : WalkerPairing) (pre post : List VOp)
    (h : (w.block.ops ⟨0, 0⟩).1 = pre ++ post) :
    ∃ v, VarStack.runOps ⟨0, 0⟩ pre = some v ∧ v.Inv ∧
      ∀ mid : State, (mid vsStack).items.length = v.size → mid vsIndex = .num (v.idx : Int) → MidOk mid := by
  obtain ⟨v, hr, hi⟩ := Block.abort_anywhere w.block pre post h w.wf
  refine ⟨v, hr, hi, ?_⟩
  intro mid h1 h2
  unfold MidOk VarStack.Inv at *
  rw [h2, h1]
  simp only [Val.int]
  omega

example : (Block.frame (.seq .var (.withIdx (some 1) (.frame (.seq .var .var))))).WF ⟨0, 0⟩ ∧
    ((Block.frame (.seq .var (.withIdx (some 1) (.frame (.seq .var .var))))).ops ⟨0, 0⟩).1 =
      [.push, .push, .setIdx (some 1), .push, .push, .push, .pop, .pop, .pop, .setIdx (some 2), .pop, .pop] := by
  refine ⟨?_, by decide⟩
  simp [Block.WF, Block.ops, VarStack.step]

/-- **reset_after_any_abort.** End to end for the transient members: under the C01 walker statement (`WalkerPairing`),
wherever an exception leaves a transformation — after any prefix `pre` of its variables-stack operations, every other
volatile member of `mid` arbitrary — `~EnsureReset` restores every transient member.  (`interpreter_abort_states_midok`
discharging the `MidOk` hypothesis of `reset_restores_partial`.) -/
theorem reset_after_any_abort (w : WalkerPairing) (pre post : List VOp)
    (h : (w.block.ops ⟨0, 0⟩).1 = pre ++ post) :
    ∃ v, VarStack.runOps ⟨0, 0⟩ pre = some v ∧
      ∀ mid : State, (mid vsStack).items.length = v.size → mid vsIndex = .num (v.idx : Int) →
        ∀ m ∈ transientIds, run ensureReset mid m = freshState m := by
  obtain ⟨v, hr, _, hmid⟩ := interpreter_abort_states_midok w pre post h
  exact ⟨v, hr, fun mid h1 h2 => reset_restores_partial mid (hmid mid h1 h2)⟩

/-- **guarded_member_restored.** With the hypothesis object `GuardedCode m` (what the translator's site enumeration
establishes for a `guarded` member), the interpreter leaves `m` empty on every exit, normal or exceptional. -/
theorem guarded_member_restored (m : Nat) (c : GuardedCode m) (s : State) (hs : s m = .seq []) :
    (c.prog.exec s).1 m = .seq [] :=
  scope_guard_restores c.prog m c.guarded s hs

/-- **history_independent_partial.** For every finite history of API operations on one transformer — compile,
parse, set / clear parameters, install / uninstall functions, destroy, and transformations that stop in
an arbitrary member state — every reply (in particular: everything a transformation starts from, the
parameters and functions it is given, the stylesheet and source it runs on) equals the reply of the
specification, in which each transformation is performed by a *freshly constructed* transformer that was
given the currently-set parameters, functions and handles.

*Partial*: every `mid` must satisfy `MidOk` (see `reset_restores_partial`), `cache` members are not part of the
observation, and the XSLT interpreter is not modelled -- that equal start states give equal output is what the
correspondence run (harness/c06_reuse.cpp) samples on the real library. -/
theorem history_independent_partial (ops : List Op) (hops : ∀ op ∈ ops, op.MidOk) :
    (runOps Tx.init ops).2 = (Spec.init.runOps ops).2 :=
  (runOps_sim (by decide +kernel) (by decide +kernel) (by decide +kernel) ops sim_init hops).2

example : ∀ op ∈ [Op.setParamExpr "p" "'x'", Op.compile 0 "s1" true, Op.parse 0 "d1" true,
    Op.transform 0 0 (fun k => if k = vsStack then .seq [1, 2, 3] else if k = vsIndex then .num 3 else .seq [8]),
    Op.transform 0 0 freshState], op.MidOk := by
  intro op h
  simp only [List.mem_cons, List.mem_nil_iff, or_false] at h
  rcases h with h | h | h | h | h <;> subst h <;> first | trivial | decide

/-- **params_sticky.** A transformation (however it ends) leaves the parameter map, the installed
functions, the configuration options and the owned handles exactly as they were; `clearStylesheetParams` empties the map. -/
theorem params_sticky (t : Tx) (sheet src : Nat) (ssrc dsrc : String) (mid : State) :
    (step t (.transform sheet src mid)).1.params = t.params ∧
    (step t (.transformSrc ssrc dsrc mid)).1.params = t.params ∧
    (step t (.transform sheet src mid)).1.funcs = t.funcs ∧
    (step t (.transform sheet src mid)).1.sheets = t.sheets ∧
    (step t (.transform sheet src mid)).1.sources = t.sources ∧
    (step t (.transform sheet src mid)).1.config = t.config ∧
    (step t (.transformSrc ssrc dsrc mid)).1.config = t.config ∧
    (step t .clearParams).1.params = [] := by
  refine ⟨?_, rfl, ?_, ?_, ?_, ?_, rfl, rfl⟩ <;>
    (simp only [step]; cases t.sheets.lookup sheet <;> cases t.sources.lookup src <;> rfl)

/-- **config_last_write_wins.** Reference semantics of every per-transformer configuration operation (install /
uninstall an extension function under a QName, locally or process-wide; set an option; add / remove a listener): for
*every* history of `set key value` / `remove key` operations and every key, the model's configuration holds exactly what
the history's last operation on that key says — the value of the last `set`, nothing after a `remove`, nothing if the key
was never set.  The API model files functions, global functions and options with exactly these operations
(`step`: `putA` / `removeA`), and the correspondence run gives a fresh transformer this net configuration. -/
theorem config_last_write_wins (ops : List COp) (k : String) :
    (ops.foldl applyC []).lookup k = ops.foldl (lastWrite k) none :=
  foldl_applyC_lookup ops [] k

example : ([COp.set "f1" "v1", .set "g" "x", .set "f1" "v2", .remove "g"].foldl applyC []).lookup "f1" = some "v2" ∧
    ([COp.set "f1" "v1", .set "g" "x", .set "f1" "v2", .remove "g"].foldl applyC []).lookup "g" = none := by decide

/-- **config_setters_replace.** Every configuration setter performs a container operation compatible with that
reference semantics (closed check over `Generated.setterOps`, which the translator derives from each function that
writes a sticky / configuration member of the transformer or its execution context): map members are written through
`operator[]` assignment / `erase` / `clear`, never `insert` (which keeps an existing entry); scalar options are assigned
unconditionally; the local and process-wide function tables replace or erase an existing entry. -/
theorem config_setters_replace : setterOps.all (fun x => x.2) = true ∧ setterOps.length ≥ 20 := by decide +kernel

/-- the model's `install` / `uninstall` / `ginstall` / `guninstall` / `config` steps are these map operations -/
theorem config_steps_are_map_ops (t : Tx) (f i : String) :
    (step t (.install f i)).1.funcs = applyC t.funcs (.set f i) ∧
    (step t (.uninstall f)).1.funcs = applyC t.funcs (.remove f) ∧
    (step t (.ginstall f i)).1.gfuncs = applyC t.gfuncs (.set f i) ∧
    (step t (.guninstall f)).1.gfuncs = applyC t.gfuncs (.remove f) ∧
    (step t (.config f i)).1.config = applyC t.config (.set f i) := ⟨rfl, rfl, rfl, rfl, rfl⟩

/-- **param_last_write_wins.** If setting a parameter one way dropped the value stored the other way
(`clearsOther`, i.e. with `proposed/C06-param-overwrite.diff`), the stylesheet would always see the
value of the *last* `setStylesheetParam` call for that key, and other keys would be unaffected. -/
theorem param_last_write_wins (ps : ParamMap) (k e : String) (he : e.length > 0) (o : String) :
    ((setExpr true ps k e).find k).effective = .expr e ∧
    ((setObj true ps k o).find k).effective = .obj o ∧
    (∀ j, j ≠ k → (setExpr true ps k e).find j = ps.find j) ∧
    (∀ j, j ≠ k → (setObj true ps k o).find j = ps.find j) := by
  refine ⟨?_, ?_, ?_, ?_⟩
  · simp [setExpr, ParamMap.find, put_lookup_same, Holder.effective, he]
  · simp [setObj, ParamMap.find, put_lookup_same, Holder.effective]
  · intro j hj; simp [setExpr, ParamMap.find, put_lookup_other _ _ _ _ hj]
  · intro j hj; simp [setObj, ParamMap.find, put_lookup_other _ _ _ _ hj]

/-- … for whole histories of parameter operations: with `clearsOther` the parameters handed to the
stylesheet are exactly the specification's (last write per key since the last clear). -/
theorem params_follow_spec (ops : List POp) (h : ∀ op ∈ ops, op.NonEmpty) :
    effectiveAll (ops.foldl (applyP true) []) = ops.foldl specP [] :=
  foldl_applyP_spec ops [] h

example : ∀ op ∈ [POp.expr "k" "'a'", .num "k" "5", .clear, .num "j" "1"], op.NonEmpty := by
  intro op h; simp at h; rcases h with h | h | h | h <;> subst h <;> first | trivial | (show "'a'".length > 0; decide)

/-- On the tree as found (`clearsOther = false`) the last write does **not** win: after
`setStylesheetParam(k, "'a'")`, `setStylesheetParam(k, 5.0)` the stylesheet still sees `'a'`
(XalanTransformer.cpp:865, 873, 1352). Replayed on the real library by the harness (corpus case
`param-overwrite`). -/
theorem param_overwrite_counterexample :
    ((setObj false (setExpr false [] "k" "'a'") "k" "5").find "k").effective = .expr "'a'" ∧
    ((setObj false [] "k" "5").find "k").effective = .obj "5" ∧
    effectiveAll ([POp.expr "k" "'a'", .num "k" "5"].foldl (applyP false) []) ≠
      [POp.expr "k" "'a'", .num "k" "5"].foldl specP [] := by decide

/-- **handles_valid_until_destroyed.** A compiled stylesheet stays registered, with the stylesheet it
was compiled from, across every operation other than its own `destroyStylesheet` or a re-use of its slot
by `compile`. -/
theorem handles_valid_until_destroyed (t : Tx) (slot : Nat) (sh : String) (op : Op)
    (h : t.sheets.lookup slot = some sh)
    (hd : ∀ s, op ≠ .destroySheet s ∨ s ≠ slot) (hc : ∀ s x b, op ≠ .compile s x b ∨ s ≠ slot) :
    (step t op).1.sheets.lookup slot = some sh := by
  have erase_other : ∀ (l : List (Nat × String)) (s : Nat), s ≠ slot →
      (eraseSlot l s).lookup slot = l.lookup slot := by
    intro l s hs
    induction l with
    | nil => rfl
    | cons p r ih =>
      obtain ⟨a, b⟩ := p
      by_cases ha : a = s
      · subst ha
        have h1 : (slot == a) = false := by simp; exact fun x => hs x.symm
        simp [eraseSlot, List.lookup, h1] at ih ⊢
        exact ih
      · by_cases hb : slot = a
        · subst hb; simp [eraseSlot, List.lookup, ha]
        · have h1 : (slot == a) = false := by simp [hb]
          simp [eraseSlot, List.lookup, ha, h1] at ih ⊢
          exact ih
  cases op with
  | compile s x b =>
    have hs : s ≠ slot := by rcases hc s x b with h' | h'; exact absurd rfl h'; exact h'
    cases b
    · simpa [step] using h
    · have h1 : (slot == s) = false := by simp; exact fun x => hs x.symm
      simp [step, List.lookup, h1, erase_other _ s hs, h]
  | destroySheet s =>
    have hs : s ≠ slot := by rcases hd s with h' | h'; exact absurd rfl h'; exact h'
    simp only [step]
    cases t.sheets.lookup s with
    | none => exact h
    | some _ => simp [erase_other _ s hs, h]
  | transform a b mid =>
    simp only [step]
    cases t.sheets.lookup a <;> cases t.sources.lookup b <;> exact h
  | destroySource s =>
    simp only [step]
    cases t.sources.lookup s <;> exact h
  | parse s x b => cases b <;> exact h
  | _ => exact h

end XalanModel.Props.C06
