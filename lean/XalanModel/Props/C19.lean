import XalanModel.C19.XVecProofs
import XalanModel.C19.XListProofs
import XalanModel.C19.ArenaProofs
import XalanModel.C19.XDeque
import XalanModel.C19.XBVecProofs
import XalanModel.C19.RArenaProofs
import XalanModel.C19.AutoPtrProofs
import XalanModel.Generated.C19_Construct
import XalanModel.C19.OStreamProofs
import XalanModel.C19.XMapProofs
import XalanModel.C19.XBDequeProofs
import XalanModel.C19.StrCacheProofs
import XalanModel.C19.XArrProofs
import XalanModel.C19.LruProofs
import XalanModel.Generated.C19_Caches
/-!
# C19 — pluggable memory manager: balanced use; allocation failure is survivable

Property theorems only (helper lemmas: `XalanModel/C19/*Proofs.lean`).

The property, at full strength, quantifies over *every allocation site of the library*.  What is
proved here is the part that is logic: the allocation discipline of the building blocks every
site is made of — `XalanVector` (copy-construct-into-a-temporary-then-swap), `XalanList` (lazy
sentinel, `constructNode`, free list), `XalanAllocationGuard`/`XalanConstruct`, and the
"reserve before create" idiom of `XalanTransformer` — over a ledger of outstanding blocks in
which the k-th request, for an arbitrary k, is refused once (`Ledger.failAt`; `0` = never).
All theorems are for every history, every frame of foreign blocks and every `failAt`, so
"balanced" (no refusal) and "failure contained" (refusal at k) are one statement.
The remaining quantifier (the ~1000 sites per transformation) is covered by the exhaustive
fault enumeration of `checks/c19.py`, hence `_partial` in the names that speak for the property.
-/
namespace XalanModel.Props.C19
open XalanModel.C19 XalanModel.C19.Ledger

/-- **Recorded traces are judged by the same ledger the theorems are about.** The replay of the
events recorded from the real manager (`harness/c19_memmgr.cpp`, evaluated by `xm_c19` with
`Ledger.replayAll` / `Ledger.Balanced`) coincides with the model's own primitives: a granted
request is `alloc` (and only the id the ledger would hand out is accepted), a refused request is
`alloc` at the refusal index, a free is `free`. -/
theorem ledger_replay_agrees_with_primitives (l l1 : Ledger) (b : Nat) :
    (l.alloc = (some b, l1) → l.replay (.alloc b) = some l1) ∧
    (l.alloc = (none, l1) → l.replay .refuse = some l1) ∧
    (l.replay (.free b) = some (l.free b)) ∧
    (∀ id, id ≠ l.next → l.replay (.alloc id) = none) := by
  refine ⟨fun h => ?_, fun h => ?_, rfl, fun id hid => by simp [Ledger.replay, hid]⟩
  · unfold Ledger.alloc at h
    split at h
    · cases h
    · simp only [Prod.mk.injEq, Option.some.injEq] at h
      obtain ⟨rfl, rfl⟩ := h
      simp [Ledger.replay]
  · unfold Ledger.alloc at h
    split at h
    · simp only [Prod.mk.injEq, true_and] at h
      subst h; simp [Ledger.replay]
    · cases h

/-- **Vector, one step.** Any operation, any refusal index: the vector stays well-formed, owns
exactly its buffer (`live = owned + frame`, so no double/foreign free, `bad` unchanged), a
throwing operation leaves the vector unchanged, and the only undefined step is `pop_back` on an
empty vector (outside the std contract). -/
theorem vector_step_contained (v : XVec) (op : XVec.Op) (l : Ledger) (frame : List Nat) (n : Nat)
    (hw : v.WF) (h : Holds l v.owned frame n) :
    (XVec.step v l op).2.1.WF ∧
    Holds (XVec.step v l op).2.2 (XVec.step v l op).2.1.owned frame n ∧
    ((XVec.step v l op).1 = .oom → (XVec.step v l op).2.1 = v) ∧
    ((XVec.step v l op).1 = .ub → op = .pop ∧ v.items = []) :=
  XVec.step_spec v op l frame n hw h

/-- **Vector: balanced and failure-contained.** For every history run on a fresh vector, every
refusal index (`l.failAt` arbitrary) and every frame: after the destructor exactly the frame is
outstanding, no bad free happened, and the destructor made no allocation request. -/
theorem vector_balanced_and_failure_contained (ops : List XVec.Op) (l : Ledger) (frame : List Nat)
    (hl : l.live.Perm frame) :
    let r := XVec.run ops {} l
    (r.2.1.destroy r.2.2).live.Perm frame ∧ (r.2.1.destroy r.2.2).bad = l.bad ∧
    (r.2.1.destroy r.2.2).reqs = r.2.2.reqs := by
  intro r
  have h0 : Holds l (XVec.owned {}) frame l.bad := holds_of_perm hl
  obtain ⟨hw, hh⟩ := XVec.run_spec ops {} l frame l.bad (by decide) h0
  have := holds_nil_perm (XVec.release_holds hw hh)
  exact ⟨this.1, this.2, XVec.release_reqs _ _⟩

/-- **Vector of allocating elements: balanced and failure-contained.** Element type whose copy
construction allocates (XalanDOMString, nested vectors): every history of push_back / reserve /
resize / pop_back / clear / copy-construction on a fresh vector, every refusal index — in
particular every index *inside* the element-copy loops of grow, reserve, the copy constructor and
resize — and every frame: exactly the constructed prefix is destroyed when a copy throws, so after
`~XalanVector` exactly the frame is outstanding, nothing was freed twice or foreign, and the
destructor makes no request. -/
theorem vector_alloc_elems_balanced_and_failure_contained (ops : List XBVec.Op) (l : Ledger)
    (frame : List Nat) (hl : l.live.Perm frame) :
    let r := XBVec.run false ops {} l
    (r.2.1.destroy r.2.2).live.Perm frame ∧ (r.2.1.destroy r.2.2).bad = l.bad ∧
    (r.2.1.destroy r.2.2).reqs = r.2.2.reqs := by
  intro r
  have h0 : XBVec.Good {} l frame l.bad := ⟨by decide, by simpa [XBVec.owned] using holds_of_perm hl⟩
  obtain ⟨hw, hh⟩ := XBVec.run_spec ops {} l frame l.bad h0
  have := holds_nil_perm (XBVec.release_spec _ _ [] frame l.bad hw (by simpa using hh))
  exact ⟨this.1, this.2, XBVec.release_reqs _ _⟩

/-- **Mutation "m_size = theTotalSize before the construction loop"**: vector [1,2] at capacity,
third push grows: temporary buffer = request 6, copy of element 1 = request 7 refused — the
temporary's destructor runs over storage that was never constructed (`ub`); as written the same
refusal is a clean `oom` that leaves the vector unchanged. -/
theorem vector_size_before_loop_counterexample :
    let ops := [XBVec.Op.push 1, .push 2, .push 3]
    (XBVec.run true ops {} { failAt := 7 }).1 = .ub ∧
    (XBVec.run false ops {} { failAt := 7 }).1 = .ok ∧
    (XBVec.run false ops {} { failAt := 7 }).2.1.elems.map (·.1) = [1, 2] := by decide

/-- **Vector: strong guarantee of the growth paths** (copy-construct-then-swap): a refused
`push_back` / `reserve` leaves contents, capacity and buffer as they were. -/
theorem vector_strong_guarantee (v : XVec) (x : Int) (m : Nat) (l : Ledger) (frame : List Nat) (n : Nat)
    (hw : v.WF) (h : Holds l v.owned frame n) :
    ((v.pushBack x l).1 = .oom → (v.pushBack x l).2.1 = v) ∧
    ((v.reserve m l).1 = .oom → (v.reserve m l).2.1 = v) :=
  ⟨(XVec.pushBack_spec v x l frame n hw h).2.2.1, (XVec.reserve_spec v m l frame n hw h).2.2.1⟩

/-- **List, one step** (with `newNode->next = 0` written after `allocate(1)`, i.e.
`cfg.nextInit`; `clearGuard` arbitrary): any operation, any refusal index — ownership is exact,
the free list never ends in a wild pointer, and the only undefined steps are `pop_*` on an
empty list. -/
theorem list_step_contained (cfg : Cfg) (s : XList) (op : XList.Op) (l : Ledger) (frame : List Nat)
    (n : Nat) (hc : cfg.nextInit = true) (hwild : s.wild = false) (hf : s.HeadFirst)
    (h : Holds l s.owned frame n) :
    Holds (XList.step cfg s l op).2.2 (XList.step cfg s l op).2.1.owned frame n ∧
    (XList.step cfg s l op).2.1.wild = false ∧
    ((XList.step cfg s l op).1 = .ub → (op = .popFront ∨ op = .popBack) ∧ s.nodes = []) :=
  XList.step_spec cfg s op l frame n hc hwild hf h

/-- **List: balanced and failure-contained** — `_partial`: holds for the repaired
`constructNode` (`cfg.nextInit`); for the code as written it fails, see
`list_throwing_copy_counterexample`. Every history on a fresh list with an element type whose
copy allocates (and may be the refused request), every refusal index, every frame: the
destructor is defined (no wild pointer), returns every block, frees nothing foreign or twice. -/
theorem list_balanced_and_failure_contained_partial (cfg : Cfg) (ops : List XList.Op) (l : Ledger)
    (frame : List Nat) (hc : cfg.nextInit = true) (hl : l.live.Perm frame) :
    let r := XList.run cfg ops {} l
    (r.2.1.destroy r.2.2).1 = .ok ∧ (r.2.1.destroy r.2.2).2.live.Perm frame ∧
    (r.2.1.destroy r.2.2).2.bad = l.bad := by
  intro r
  have h0 : Holds l (XList.owned {}) frame l.bad := holds_of_perm hl
  obtain ⟨hh, hwild⟩ := XList.run_spec cfg ops {} l frame l.bad hc rfl (by intro _; exact ⟨rfl, rfl⟩) h0
  have hf := XList.run_headFirst cfg ops {} l (by intro _; exact ⟨rfl, rfl⟩)
  obtain ⟨a, b, _⟩ := XList.destroy_spec _ _ frame l.bad hwild hf hh
  have := holds_nil_perm b
  exact ⟨a, this.1, this.2⟩

/-- **`~XalanList` does not allocate** (it tests `m_listHead != 0` first), whatever the state. -/
theorem list_destructor_does_not_allocate (s : XList) (l : Ledger) :
    (s.destroy l).2.reqs = l.reqs := by
  unfold XList.destroy
  cases s.head with
  | none => rfl
  | some h => simp only; split <;> simp [free_reqs, freeAll_reqs]

/-- **`clear()`/`empty()` with the null-head guard make no allocation request** — so they are
safe in a destructor; with a sentinel already present the unguarded code does not allocate
either. -/
theorem list_clear_guarded_does_not_allocate (cfg : Cfg) (s : XList) (l : Ledger)
    (hg : cfg.clearGuard = true ∨ s.head.isSome) :
    (s.clear cfg l).2.2.reqs = l.reqs ∧ (s.isEmpty cfg l).2.2.reqs = l.reqs := by
  unfold XList.clear XList.isEmpty XList.getListHead
  cases hh : s.head with
  | none =>
    have : cfg.clearGuard = true := by
      cases hg with
      | inl h => exact h
      | inr h => simp [hh] at h
    simp [this]
  | some b => simp [XList.freeAllNodes_spec, freeAll_reqs]

/-- **Code as written: `clear()` on a never-used list allocates** (the lazy sentinel), and when
that request is the refused one it throws — inside a destructor that is `std::terminate`
(DESIGN §6 item 5; replayed on the real template and on the real API by the check). -/
theorem list_clear_allocates_counterexample :
    (XList.clear Cfg.asWritten {} {}).2.2.reqs = 1 ∧
    (XList.clear Cfg.asWritten {} { failAt := 1 }).1 = .oom := by decide

/-- **Code as written: a throwing element copy on a freshly allocated node leaves
`m_freeListHeadPtr` pointing at a block whose `next` was never written; `~XalanList` walks it**
(DESIGN §6 item 4): sentinel = request 1, node = request 2, element copy = request 3 refused. -/
theorem list_throwing_copy_counterexample :
    let r := XList.run Cfg.asWritten [.pushBack 1] {} { failAt := 3 }
    r.1 = .ok ∧ r.2.1.wild = true ∧ (r.2.1.destroy r.2.2).1 = .ub := by decide

/-- **`XalanAllocationGuard` / `XalanConstruct` idiom.** If the constructor body is
exception-neutral (when it throws, what it allocated is given back: ownership as on entry),
then so is `XalanConstruct`: on failure nothing stays outstanding and no bad free happens; on
success exactly the new block plus what the body keeps is added. -/
theorem guard_idiom_sound (body : Ledger → Bool × Ledger) (kept : List Nat)
    (hbody : ∀ l1 o f n, Holds l1 o f n →
      ((body l1).1 = false → Holds (body l1).2 o f n) ∧
      ((body l1).1 = true → Holds (body l1).2 (kept ++ o) f n))
    (l : Ledger) (frame : List Nat) (n : Nat) (h : Holds l [] frame n) :
    ((xalanConstruct body l).1 = none → Holds (xalanConstruct body l).2 [] frame n) ∧
    (∀ b, (xalanConstruct body l).1 = some b → Holds (xalanConstruct body l).2 (kept ++ [b]) frame n) := by
  unfold xalanConstruct
  cases ha : l.alloc with
  | mk ob l1 =>
    cases ob with
    | none => exact ⟨fun _ => holds_alloc_none h ha, fun b hb => by simp at hb⟩
    | some b =>
      have h1 := holds_alloc h ha
      obtain ⟨hf, ht⟩ := hbody l1 [b] frame n h1
      cases hb : body l1 with
      | mk ok l2 =>
        rw [hb] at hf ht
        cases ok with
        | false =>
          simp only [hb]
          exact ⟨fun _ => holds_free (hf rfl), fun b' hb' => by simp at hb'⟩
        | true =>
          simp only [hb]
          refine ⟨fun hn => by simp at hn, fun b' hb' => ?_⟩
          simp only [Option.some.injEq] at hb'; subst hb'
          exact ht rfl

/-- **`XalanMemMgrAutoPtr`: balanced and failure-contained.** Two auto pointers and a caller that
keeps what it `release()`d: every history of `reset(mgr, T::create(mgr))` (creation may be refused
at the object or inside its constructor), assignment (ownership transfer), `release()`, `reset()`,
every refusal index and every frame — every object has exactly one owner at every moment, so after
both destructors and the caller's clean-up exactly the frame is outstanding and nothing was freed
twice or foreign. -/
theorem autoptr_balanced_and_failure_contained (ops : List APState.Op) (l : Ledger) (frame : List Nat)
    (hl : l.live.Perm frame) :
    let r := APState.run ops {} l
    (r.1.finish r.2).live.Perm frame ∧ (r.1.finish r.2).bad = l.bad := by
  intro r
  have h0 : Holds l (APState.owned {}) frame l.bad := by simpa [APState.owned] using holds_of_perm hl
  exact holds_nil_perm (APState.finish_spec _ _ frame l.bad (APState.run_spec ops {} l frame l.bad h0))

/-- **Every `XalanConstruct` / `XalanCopyConstruct` overload of the working tree has the guard
shape** (table regenerated from Include/XalanMemoryManagement.hpp on every run): it declares a
`XalanAllocationGuard`, constructs with placement-new on `theGuard.get()`, releases the guard only
after the constructor returned, and never constructs directly on the result of `allocate()`.
With `guard_idiom_sound` this makes each of them exception-neutral for *any* exception the
constructor throws — also an XSLT error in a failing, non-out-of-memory compilation. -/
theorem all_construct_overloads_guarded :
    ∀ o ∈ Generated.C19Construct.overloads,
      o.hasGuard = true ∧ o.newOnGuard = true ∧ o.releasesAfter = true ∧ o.newOnRawAllocate = false := by
  decide

/-- **Every placement-new expression under src/xalanc constructs in storage that has an owner while
the constructor runs** (table regenerated on every run): an allocation guard that is released
afterwards, `XMemory::operator new(size, MemoryManager*)` (paired operator delete), an arena slot
between `allocateBlock()` and `commitAllocation()`, or a container's own tracked storage — never
the bare result of `MemoryManager::allocate`. -/
theorem all_placement_sites_owned :
    ∀ s ∈ Generated.C19Construct.sites,
      s.storage ≠ .rawAllocate ∧ s.storage ≠ .unknown := by
  have h : Generated.C19Construct.sites.all
      (fun s => decide (s.storage ≠ .rawAllocate) && decide (s.storage ≠ .unknown)) = true := by
    decide +kernel
  intro s hs
  have := List.all_eq_true.mp h s hs
  simpa using this

/-- **Output stream transcoder slot: no double destroy, balanced, under arbitrary failures.**
An application-owned `XalanOutputStream` reused for any sequence of results: every history of
`setOutputEncoding` over UTF-16 (no transcoder), supported encodings (a transcoder is made; making it
may be refused at any request, and the copy of the encoding name after it may throw) and unsupported
encodings (exception), every refusal index, every
frame — the slot owns a transcoder or is empty, never names a destroyed one; after
`~XalanOutputStream` exactly the frame is outstanding and nothing was freed twice or foreign. -/
theorem ostream_transcoder_no_double_destroy (es : List (Enc × Bool)) (l : Ledger) (frame : List Nat)
    (hl : l.live.Perm frame) :
    let r := OStream.run false es {} l
    r.1.stale = false ∧ (r.1.destroy r.2).live.Perm frame ∧ (r.1.destroy r.2).bad = l.bad := by
  intro r
  have h0 : OStream.Good {} l frame l.bad := ⟨rfl, by simpa [OStream.owned] using holds_of_perm hl⟩
  have hg := OStream.run_spec es {} l frame l.bad h0
  have := holds_nil_perm (OStream.destroy_spec _ _ frame l.bad hg)
  exact ⟨hg.1, this.1, this.2⟩

/-- **Mutation "m_transcoder not reset after destroyTranscoder"**: ISO-8859-1 then UTF-16 on one
stream — the destructor destroys the ISO-8859-1 transcoder a second time (two blocks freed twice);
and ISO-8859-1 then US-ASCII with the second transcoder refused (request 3) does the same.
As written both histories are clean. -/
theorem ostream_stale_pointer_counterexample :
    (let r := OStream.run true [(.latin1, false), (.utf16, false)] {} {}
     r.1.stale = true ∧ (r.1.destroy r.2).bad = 2) ∧
    (let r := OStream.run true [(.latin1, false), (.ascii, false)] {} { failAt := 3 }
     (r.1.destroy r.2).bad = 2) ∧
    (let r := OStream.run false [(.latin1, false), (.utf16, false)] {} {}
     (r.1.destroy r.2).bad = 0 ∧ (r.1.destroy r.2).live = []) ∧
    (let r := OStream.run false [(.latin1, false), (.ascii, false)] {} { failAt := 3 }
     (r.1.destroy r.2).bad = 0 ∧ (r.1.destroy r.2).live = []) := by decide

/-- **XalanMap: balanced and failure-contained.** The map as it is after 3252d20 (bucket slot reserved before the
entry is linked), with `m_minBuckets ≥ 1`: every history of insert / erase / clear on a fresh map — initial bucket
table, rehash into a temporary table and swap, bucket growth, entries recycled through `m_freeEntries`, stale
bucket iterators of erased entries — every refusal index and every frame, as long as the history is defined (see
`map_stale_bucket_counterexample` for the one undefined step of the code as written): nothing is freed
twice or foreign, and after `~XalanMap` exactly the frame is outstanding plus `lostAll`: the `value_type` blocks
whose `m_freeEntries.push_back(Entry(allocate(1)))` was refused after the `allocate(1)`, and — for mapped types whose
copy allocates (`boxed`, e.g. XalanDOMString values: the value copy is one more refusable request) — the values
left constructed in a free entry when the splice into `m_entries` was refused (overwritten by the next insertion or
handed back raw by the destructor). These are the only places where the model records a leak; leaks on failure are
allowed by the property. -/
theorem map_balanced_and_failure_contained (minB : Nat) (boxed : Bool) (hmin : 1 ≤ minB) (ops : List XMap.Op)
    (l : Ledger) (frame : List Nat) (hl : l.live.Perm frame) :
    let r := XMap.run ops { minB := minB, boxed := boxed } l
    (r.2.1.destroy r.2.2).live.Perm (r.2.1.lostAll ++ frame) ∧ (r.2.1.destroy r.2.2).bad = l.bad := by
  intro r
  have h0 : XMap.Inv { minB := minB, boxed := boxed } l frame l.bad :=
    ⟨fun _ hb => by simp at hb, by simpa [XMap.owned] using holds_of_perm hl, rfl, fun _ => ⟨rfl, rfl, rfl⟩, hmin⟩
  have hi := XMap.run_spec ops _ l frame l.bad h0
  have hd := XMap.destroy_spec _ _ frame l.bad hi
  refine ⟨List.perm_iff_count.mpr (fun a => ?_), hd.2⟩
  have := hd.1 a
  simp only [List.count_append] at this ⊢
  exact this

/-- **Code as written: after a refused value copy in `insert()` the free entry already says `erased = false` and
carries the new key; a bucket that still holds its stale iterator makes `find()` return it.** One bucket; `ins 3; ins 1;
erase 1` (entry of key 1 goes to the free list, its iterator stays in the bucket); `ins 2` with the value copy = request
13 refused; `erase 2` finds the FREE entry: undefined (on the real map: double free and a wrong size()).  With
`erased = false` set only after the splice (`lateUnerase`) the same history is defined and balanced. -/
theorem map_stale_bucket_counterexample :
    let ops := [XMap.Op.insert 3 30, .insert 1 10, .erase 1, .insert 2 20, .erase 2]
    (XMap.run ops { minB := 1, boxed := true } { failAt := 13 }).1 = .ub ∧
    (let r := XMap.run ops { minB := 1, boxed := true, lateUnerase := true } { failAt := 13 }
     r.1 = .ok ∧ r.2.1.size = 1 ∧ (r.2.1.destroy r.2.2).live = r.2.1.lostAll ∧ (r.2.1.destroy r.2.2).bad = 0) := by
  decide

/-- every single map operation keeps the invariant and is defined (`insert` never reaches an undefined step) -/
theorem map_insert_contained (k : Nat) (v : Int) (m : XMap) (l : Ledger) (frame : List Nat) (n : Nat)
    (hi : XMap.Inv m l frame n) :
    XMap.Inv (m.insert k v l).2.1 (m.insert k v l).2.2 frame n ∧ (m.insert k v l).1 ≠ .ub :=
  XMap.insert_spec k v m l frame n hi

/-- **XalanDeque (push_back / pop_back / clear, values whose copy may allocate): balanced and failure-contained.**
For the code as written *and* for the repaired code (any `repaired`, `boxed`, block size): every history, every
refusal index, every frame — blocks are recycled through the free vector, the two pointer vectors grow by
copy-and-swap, element copies may be the refused request — after `~XalanDeque` exactly the frame is outstanding and
nothing was freed twice or foreign. -/
theorem deque_balanced_and_failure_contained (bs : Nat) (boxed repaired : Bool) (ops : List XBDeque.Op) (l : Ledger)
    (frame : List Nat) (hl : l.live.Perm frame) :
    let r := XBDeque.run ops { bs := bs, boxed := boxed, repaired := repaired } l
    (r.2.1.destroy r.2.2).live.Perm frame ∧ (r.2.1.destroy r.2.2).bad = l.bad := by
  intro r
  have h0 : XBDeque.Good { bs := bs, boxed := boxed, repaired := repaired } l frame l.bad :=
    ⟨by show ({} : XVec).WF; decide, by show ({} : XVec).WF; decide, by simpa [XBDeque.owned, XVec.owned] using holds_of_perm hl⟩
  exact holds_nil_perm (XBDeque.destroy_spec _ _ frame l.bad (XBDeque.run_spec ops _ l frame l.bad h0))

/-- **Repaired XalanDeque: every step is defined.** With proposed/C19-deque-push-empty-block.diff no block named by
the index is ever empty and parked blocks hold nothing, for every history and every refusal index; the only
undefined step is `pop_back()` on an empty deque (the caller's error). -/
theorem deque_repaired_steps_defined (bs : Nat) (boxed : Bool) (ops : List XBDeque.Op) (op : XBDeque.Op) (l : Ledger)
    (frame : List Nat) (hl : l.live.Perm frame) :
    let r := XBDeque.run ops { bs := bs, boxed := boxed, repaired := true } l
    (∀ b ∈ r.2.1.inIdx, b.elems ≠ []) ∧
    ((XBDeque.step r.2.1 r.2.2 op).1 = .ub → op = .pop ∧ r.2.1.inIdx = []) := by
  intro r
  have h0 : XBDeque.Good { bs := bs, boxed := boxed, repaired := true } l frame l.bad :=
    ⟨by show ({} : XVec).WF; decide, by show ({} : XVec).WF; decide, by simpa [XBDeque.owned, XVec.owned] using holds_of_perm hl⟩
  have t0 : XBDeque.Tidy { bs := bs, boxed := boxed, repaired := true } :=
    ⟨fun _ hb => by simp at hb, fun _ hb => by simp at hb, rfl⟩
  obtain ⟨g, t⟩ := XBDeque.run_full ops _ l frame l.bad h0 t0
  exact ⟨t.ne, (XBDeque.step_full _ op _ frame l.bad g t).2.2⟩

/-- **Code as written: a refused element copy right after a new block was appended leaves an empty block at the end
of the index; `pop_back()` then runs on an empty XalanVector.** Block size 1, `push 1; push 2` with request 8 (the
copy of the second element) refused: size() still says 1, `pop_back()` is undefined.  Repaired: the same history
leaves a deque of one block, and `pop_back()` returns it to the empty state. -/
theorem deque_empty_trailing_block_counterexample :
    (let r := XBDeque.run [.push 1, .push 2] { bs := 1, boxed := true } { failAt := 8 }
     r.2.1.inIdx.length = 2 ∧ r.2.1.size = 1 ∧ (XBDeque.popBack r.2.1 r.2.2).1 = .ub) ∧
    (let r := XBDeque.run [.push 1, .push 2] { bs := 1, boxed := true, repaired := true } { failAt := 8 }
     r.2.1.inIdx.length = 1 ∧ r.2.1.size = 1 ∧ (XBDeque.popBack r.2.1 r.2.2).1 = .ok ∧
     (XBDeque.popBack r.2.1 r.2.2).2.1.size = 0) := by decide

/-- **"Reserve before create" (XalanTransformer.cpp:607-620, 747-778, 966-970).** After a
successful `reserve(size()+1)` the `push_back` of the created object makes no allocation request
and cannot throw: a created object is always stored in the vector that owns it. -/
theorem reserve_before_create_sound (create : Ledger → Option Nat × Ledger) (v : XVec) (l : Ledger)
    (frame : List Nat) (n : Nat) (hw : v.WF) (h : Holds l v.owned frame n) :
    let r := reserveThenCreate create v l
    ∀ obj, r.2.2.1 = some obj → r.1 = .ok ∧ r.2.1.items = v.items ++ [Int.ofNat obj] := by
  intro r obj hobj
  obtain ⟨rw', _, _, rnub, rok⟩ := XVec.reserve_spec v (v.items.length + 1) l frame n hw h
  simp only [r, reserveThenCreate] at hobj ⊢
  cases hr : v.reserve (v.items.length + 1) l with
  | mk o rest =>
    obtain ⟨v1, l1⟩ := rest
    rw [hr] at rw' rok rnub hobj
    cases o with
    | ub => exact absurd rfl rnub
    | oom => simp at hobj
    | ok =>
      simp only at hobj ⊢
      obtain ⟨hitems, hcap⟩ := rok rfl
      cases hc : create l1 with
      | mk oo l2 =>
        rw [hc] at hobj
        cases oo with
        | none => simp at hobj
        | some ob =>
          simp only [Option.some.injEq] at hobj; subst hobj
          have hlt : v1.items.length < v1.cap := by
            simp only at hitems hcap; rw [hitems]; omega
          simp only [XVec.pushBack, hlt, if_true]
          simp only at hitems
          exact ⟨trivial, by rw [hitems]⟩

/-- **Without the reservation the created object can be lost**: vector full (size 1, capacity
1), object created (requests 2 and 3), growth (request 4) refused — the object is in no vector
and its two blocks stay outstanding. This is the mutation "drop the reserve call". -/
theorem create_then_push_leaks_counterexample :
    let create := fun l => xalanConstruct (fun l1 => match l1.alloc with
      | (none, l2) => (false, l2) | (some _, l2) => (true, l2)) l
    let v0 := (XVec.pushBack {} 7 { failAt := 4 })
    let r := createThenPush create v0.2.1 v0.2.2
    r.1 = .oom ∧ r.2.2.1 = some 2 ∧ r.2.1.items = [7] ∧ r.2.2.2.live = [3, 2, 1] := by decide

/-- **Arena block (ReusableArenaBlock + allocate/construct/commit protocol): balanced and
failure-contained** — `_partial`: one block (the block list is `arena_blocklist_balanced_and_failure_contained`); for the destructor that skips
an allocated-but-uncommitted slot (58854b0). Every
history of `T::create` (constructor = one refusable allocation) and `destroyObject` on a freshly
created block, every refusal index, every frame: the free-list discipline holds, `XalanDestroy` of
the block runs no destructor on a slot without an object, returns every block and frees nothing
twice or foreign. A history stops being defined only at a `destroyObject` of an empty slot (caller)
or an exhausted free list. -/
theorem arena_balanced_and_failure_contained_partial (n : Nat) (ops : List Arena.Op) (l : Ledger)
    (frame : List Nat) (hl : l.live.Perm frame) :
    (∀ l1, Arena.create n l = (none, l1) → l1.live.Perm frame ∧ l1.bad = l.bad) ∧
    (∀ a l1, Arena.create n l = (some a, l1) →
      let r := Arena.run ops a l1
      (r.2.1.destroy true r.2.2).1 = .ok ∧ (r.2.1.destroy true r.2.2).2.live.Perm frame ∧
      (r.2.1.destroy true r.2.2).2.bad = l.bad) := by
  have h0 : Holds l [] frame l.bad := holds_of_perm hl
  obtain ⟨hn, hs⟩ := Arena.create_spec n l frame l.bad h0
  refine ⟨fun l1 he => holds_nil_perm (hn l1 he), fun a l1 he => ?_⟩
  obtain ⟨hi, hh, _⟩ := hs a l1 he
  intro r
  obtain ⟨ri, rh⟩ := Arena.run_spec ops a l1 frame l.bad hi hh
  obtain ⟨d1, d2⟩ := Arena.destroy_spec _ _ frame l.bad ri rh
  have := holds_nil_perm d2
  exact ⟨d1, this.1, this.2⟩

/-- **Code as written: a constructor that throws between `allocateBlock()` and
`commitAllocation()` makes `~ReusableArenaBlock` run a destructor on a slot that holds no object**
(finding #6; block = requests 1–2, element = request 3 refused). -/
theorem arena_uncommitted_slot_counterexample :
    let c := Arena.create 2 { failAt := 3 }
    ∃ a, c.1 = some a ∧
      let r := Arena.run [.create 1] a c.2
      r.1 = .ok ∧ r.2.1.pending = true ∧ (r.2.1.destroy false r.2.2).1 = .ub ∧
      (r.2.1.destroy true r.2.2).1 = .ok ∧ (r.2.1.destroy true r.2.2).2.live = [] := by
  refine ⟨_, rfl, ?_⟩
  decide

/-- **Free list of an arena block is never exhausted early.** In every state reachable from `ReusableArenaBlock::create`
(every slot without an object is on the free list; `m_objectCount` ≤ block size and ≥ the number of objects), the
allocate/construct/commit step is defined: `allocateBlock()` finds a free slot whenever `m_objectCount < m_blockSize`. -/
theorem arena_free_list_not_exhausted (a : Arena) (x : Int) (l : Ledger) (frame : List Nat) (n : Nat) (hi : a.Inv)
    (h : Holds l a.owned frame n) :
    (a.construct x l).1 ≠ .ub ∧ (a.construct x l).2.2.1.Inv :=
  ⟨(Arena.construct_spec x a l frame n hi h).2.2, (Arena.construct_spec x a l frame n hi h).1⟩

/-- the operations of `ReusableArenaAllocator` on the objects it made: create, and destroyObject by (block, slot) -/
inductive RAOp where
  | create (x : Int)
  | destroy (blk slot : Nat)
deriving Repr, DecidableEq

def raStep (r : RArena) (l : Ledger) : RAOp → RArena × Ledger
  | .create x => ((r.create x l).2.2.1, (r.create x l).2.2.2)
  | .destroy blk slot => ((r.destroyObject false blk slot l).2.1, (r.destroyObject false blk slot l).2.2)

def raRun : List RAOp → RArena → Ledger → RArena × Ledger
  | [], r, l => (r, l)
  | op :: ops, r, l => let s := raStep r l op; raRun ops s.1 s.2

/-- **Arena block list (ReusableArenaAllocator): balanced and failure-contained.** The allocator as an owner state
machine — lazily headed list of blocks with a node free list, new block when the front is unavailable, full blocks
to the tail, `destroyObject` with both scans and the move to the front, every block's commit protocol — for every
history of `create` (block object, object array, list head, list node and the element's own allocation all
refusable) and `destroyObject` (named objects, including objects that do not exist), every refusal index, every
frame: every block keeps its invariant, the destructor destroys every block without touching a slot that holds no
object, and afterwards exactly the frame is outstanding plus `lost` — the blocks whose `push_front` was refused
after `ReusableArenaBlock::create` (recorded by the model in that one place; a leak on failure). Nothing is freed
twice or foreign. -/
theorem arena_blocklist_balanced_and_failure_contained (bs : Nat) (ops : List RAOp) (l : Ledger) (frame : List Nat)
    (hl : l.live.Perm frame) :
    let s := raRun ops { bs := bs } l
    (s.1.destroy s.2).1 = .ok ∧ (s.1.destroy s.2).2.live.Perm (s.1.lost ++ frame) ∧ (s.1.destroy s.2).2.bad = l.bad := by
  intro s
  have h0 : RArena.RInv { bs := bs } l frame l.bad :=
    ⟨fun _ hb => by simp at hb, by simpa [RArena.owned] using holds_of_perm hl, fun h => absurd rfl h⟩
  have key : ∀ (ops : List RAOp) (r : RArena) (l' : Ledger), RArena.RInv r l' frame l.bad →
      RArena.RInv (raRun ops r l').1 (raRun ops r l').2 frame l.bad := by
    intro ops
    induction ops with
    | nil => intro r l' h; exact h
    | cons op ops ih =>
      intro r l' h
      simp only [raRun]
      apply ih
      cases op with
      | create x => exact (RArena.create_spec x r l' frame l.bad h).1
      | destroy blk slot => exact RArena.destroyObject_balance blk slot r l' frame l.bad h
  have hi := key ops _ l h0
  obtain ⟨d1, d2⟩ := RArena.destroy_balance _ _ frame l.bad hi
  refine ⟨d1, List.perm_iff_count.mpr (fun a => ?_), d2.2⟩
  have := d2.1 a
  simp only [List.count_append] at this ⊢
  exact this

/-- **`ReusableArenaAllocator::destroyObject` makes no allocation request** (it runs under
`XObjectPtr::~XObjectPtr`, where a refused request would be std::terminate): whatever the object,
whichever scan finds it, the block is moved to the front by `erase` *then* `push_front`, and the
insertion reuses the list node that the erase has just parked.  (Hypothesis: the block list has
its sentinel, i.e. some block was ever created.) -/
theorem arena_destroyObject_makes_no_request (r : RArena) (blk slot : Nat) (l : Ledger)
    (hh : r.head.isSome) :
    (r.destroyObject false blk slot l).2.2.reqs = l.reqs :=
  RArena.destroyObject_reqs blk slot r l hh

/-- the allocator state used below: block size 2, five objects → blocks `[o5 -] [o1 o2] [o3 o4]` -/
def raFive (failAt : Nat) : RArena × Ledger :=
  let step := fun (s : RArena × Ledger) (x : Int) => let c := s.1.create x s.2; (c.2.2.1, c.2.2.2)
  let s := [1, 2, 3, 4, 5].foldl step (({ bs := 2 } : RArena), ({ failAt := failAt } : Ledger))
  s

/-- **Mutation "push_front, then erase"**: releasing `o1` (owner not at the head) must move a
block to the front; pushing first finds no parked node and makes a request — refused, it throws out
of `destroyObject`.  As written the same release makes no request. -/
theorem arena_push_then_erase_allocates_counterexample :
    let s := raFive 0
    let blkOfO1 := (s.1.nodes.map (·.2.blk))[1]!
    (s.1.destroyObject false blkOfO1 0 s.2).2.2.reqs = s.2.reqs ∧
    (s.1.destroyObject true blkOfO1 0 s.2).2.2.reqs = s.2.reqs + 1 ∧
    (let t := raFive 16
     t.2.reqs = 15 ∧ ((t.1.destroyObject true blkOfO1 0 t.2).1 = .oom) ∧ ((t.1.destroyObject false blkOfO1 0 t.2).1 = .ok)) := by
  decide

/-- **Code as written: `XalanDeque::pushNewIndexBlock` leaves the null placeholder in the block
index when `XalanConstruct` is refused; the next `size()` / `push_back()` dereferences it.**
(index buffer = request 1, block object = request 2 refused.)  With the placeholder popped
before rethrowing (proposed/C19-deque-null-block.diff) the deque stays usable and balanced. -/
theorem deque_null_block_counterexample :
    let r := XDeque.pushBack false 1 { bs := 2 } { failAt := 2 }
    r.1 = .oom ∧ r.2.1.idx.items = [0] ∧ r.2.1.size.1 = .ub ∧ (XDeque.pushBack false 5 r.2.1 r.2.2).1 = .ub ∧
    (let q := XDeque.pushBack true 1 { bs := 2 } { failAt := 2 }
     q.1 = .oom ∧ q.2.1.idx.items = [] ∧ q.2.1.size = (.ok, 0) ∧
     (let q2 := XDeque.pushBack true 5 q.2.1 q.2.2
      q2.1 = .ok ∧ q2.2.1.elems = [5] ∧ (q2.2.1.destroy q2.2.2).live = [] ∧ (q2.2.1.destroy q2.2.2).bad = 0)) := by
  decide

/-- **`XalanDOMStringCache`: every string is destroyed at most once, and the two lists partition the live strings.**
For every history of `get()` / `release(s)` / `reset()` / `clear()` on a cache with any bound `m`, started empty
(`release` is given any string ever handed out, busy or not): no string is destroyed twice or destroyed while not
alive (`bad = 0`, the ledger being the one of the cache's string allocator), the strings alive in the allocator are
exactly — as a multiset — the strings named by `m_busyList ++ m_availableList` (so each live string is in exactly one
of the lists, once, and neither list names a destroyed string), and the destructor (`clear()`) leaves nothing.
`release()` keeps the available list within `m + 1` (`StrCache.release_bound`). -/
theorem cache_release_destroys_once (ops : List StrCache.Op) (m : Nat) :
    let r := StrCache.run false { c := { maxSize := m } } ops
    r.l.bad = 0 ∧ r.l.live.Perm (r.c.busy ++ r.c.avail) ∧ (StrCache.clear r.c r.l).2.Balanced := by
  intro r
  have h : Ledger.Holds r.l r.c.named [] 0 :=
    StrCache.run_inv ops { c := { maxSize := m } } 0 ⟨fun a => by simp [StrCache.named], rfl⟩
  refine ⟨h.2, List.perm_iff_count.mpr (fun a => by simpa [StrCache.named] using h.1 a), rfl, ?_⟩
  simpa [StrCache.clear] using h.2

/-- **Mutation "release() returns right after destroying the string" (before `m_busyList.erase(i)`): the busy list keeps
naming the destroyed string and `reset()` destroys it a second time.**  Bound 1, four strings borrowed at once, three
released: the third release finds 2 > 1 strings available and destroys its string; with the early return `reset()`
then destroys it again (`bad = 1`); as written the history is clean.  With the default bound the same needs 102
strings borrowed at once. -/
theorem cache_early_return_release_counterexample :
    let ops : List StrCache.Op := [.get, .get, .get, .get, .release 0, .release 1, .release 2, .reset]
    (StrCache.run true { c := { maxSize := 1 } } ops).l.bad = 1 ∧
    (StrCache.run false { c := { maxSize := 1 } } ops).l.bad = 0 ∧
    (StrCache.run false { c := { maxSize := 1 } } ops).c.busy = [] := by
  decide

/-- As written, `reset()` samples `m_availableList.size()` once, before its loop: when the available list is within the
bound at that moment, EVERY busy string is moved to it, however many there are — the bound limits `release()`, not
`reset()` (no string is lost or destroyed twice either way; see `cache_release_destroys_once`). -/
theorem cache_reset_ignores_bound_example :
    let r := StrCache.run false { c := { maxSize := 1 } } [.get, .get, .get, .get, .reset]
    r.c.avail.length = 4 ∧ r.l.bad = 0 ∧ r.l.live.length = 4 := by
  decide

/-- **`XalanArrayAllocator`: balanced, and a refusal is contained.**  For every history of `allocate(n)` / `reset()` /
`clear()` on an allocator with any block size, under any one-shot refusal `k`, with `clear()` as written (`cd = false`)
or destroying its vectors (`cd = true`): after the destructor the outstanding blocks are exactly the blocks the
allocator has LOST (the vector of a `createEntry` whose `push_back` was refused — create-then-push — and, as written, the
vectors dropped by `clear()`), and nothing was freed twice.  With `clear()` destroying its vectors and nothing refused,
nothing is lost: the history is balanced. -/
theorem array_allocator_balanced_and_failure_contained (cd : Bool) (ops : List XArr.Op) (bs k : Nat) :
    let r := XArr.run cd ops { bs := bs } { failAt := k }
    let l := r.1.destroy r.2
    l.live.Perm r.1.lost ∧ l.bad = 0 ∧ (cd = true → k = 0 → l.Balanced) := by
  intro r l
  have hi : XArr.Inv r.1 r.2 0 :=
    XArr.run_inv cd ops { bs := bs } { failAt := k } 0 ⟨fun a => by simp [XArr.owned], rfl⟩
  have hd := Ledger.holds_nil_perm (XArr.destroy_spec r.1 r.2 0 hi)
  refine ⟨hd.1, hd.2, ?_⟩
  intro hcd hk
  subst hcd; subst hk
  have hc : XArr.Clean r.1 r.2 := XArr.run_clean ops { bs := bs } { failAt := 0 } ⟨rfl, rfl⟩
  have hp := hd.1
  rw [hc.2] at hp
  exact ⟨List.Perm.eq_nil hp, hd.2⟩

/-- **Code as written: `XalanArrayAllocator::clear()` clears its list without destroying the vectors the entries point
to** ("Clear the instance, and release all allocated memory"): one `allocate`, `clear()`, destructor — the vector object
and its buffer are still outstanding; with the vectors destroyed as the destructor does
(proposed/C19-array-allocator-clear.diff) the same history is balanced. -/
theorem array_allocator_clear_leaks_counterexample :
    (let r := XArr.run false [.alloc 2, .clear] { bs := 4 } {}
     (r.1.destroy r.2).live.length = 2 ∧ r.1.lost.length = 2) ∧
    (let r := XArr.run true [.alloc 2, .clear, .alloc 3] { bs := 4 } {}
     (r.1.destroy r.2).Balanced) := by
  decide

/-- the eviction shape the translator read for a list cache, as the model's shape -/
def lruShapeOf (c : XalanModel.Generated.C19Caches.Cache) : LruShape := ⟨c.destroyEnd == "front", c.popEnd == "front"⟩

/-- **Every bounded cache of the working tree is crossed** (over the regenerated table): each enumerator that bounds a cache
(string cache, the four XObject factory caches, node-list cache, run-time pattern cache, ICU DecimalFormat cache, ICU collator
cache — and any new one the translator finds) has a scenario of gen/corpus/c19 that drives at least bound + 2 distinct keys /
simultaneously borrowed objects through it. -/
theorem all_bounded_caches_crossed :
    XalanModel.Generated.C19Caches.caches.all (fun c => c.scenario != "" && decide (c.keys ≥ c.bound + 2)) = true := by
  decide

/-- **Front/back consistency of every evicting cache as written** (over the regenerated table): the entry whose object is
destroyed is the entry that is removed, and new entries go in at the other end. -/
theorem all_evicting_caches_consistent :
    XalanModel.Generated.C19Caches.caches.all
      (fun c => !c.evicts || (c.destroyEnd == c.popEnd && c.insertEnd != c.popEnd)) = true := by
  decide

/-- **Eviction destroys the evicted entry, and only it.**  For every evicting list cache of the working tree (shape and bound
as the translator read them), every history of uses (hits splice to the front, misses create an object and, when the cache is
full, evict), under any one-shot refusal: no object is destroyed twice or while dead, the objects alive are exactly the objects
the cache names, and the destructor leaves nothing. -/
theorem eviction_destroys_the_evicted_entry (c : XalanModel.Generated.C19Caches.Cache)
    (hc : c ∈ XalanModel.Generated.C19Caches.caches) (he : c.evicts = true) (hl : c.popEnd = "back")
    (keys : List Nat) (k : Nat) :
    let r := Lru.run (lruShapeOf c) keys { bound := c.bound } { failAt := k }
    r.2.bad = 0 ∧ r.2.live.Perm r.1.objs ∧ (r.1.destroy r.2).Balanced := by
  have hs : ∀ c ∈ XalanModel.Generated.C19Caches.caches, c.evicts = true → c.popEnd = "back" → lruShapeOf c = .asWritten := by
    decide
  intro r
  have hi : Ledger.Holds r.2 r.1.objs [] 0 := by
    have := Lru.run_inv keys { bound := c.bound } { failAt := k } [] 0 ⟨fun a => by simp [Lru.objs], rfl⟩
    simpa [r, hs c hc he hl] using this
  have hd := Ledger.holds_nil_perm (Lru.destroy_spec r.1 r.2 [] 0 hi)
  refine ⟨hi.2, List.perm_iff_count.mpr (fun a => by simpa using hi.1 a), List.Perm.eq_nil hd.1, hd.2⟩

/-- **Mutation "the guard takes front().m_obj, pop_back() still removes the back entry"** (seeded J): bound 2, third distinct
key: the most recently used object is destroyed but stays cached (a later hit returns the dead object), the evicted one is
dropped alive; the destructor then destroys the dead object again (`bad = 1`) and one block stays outstanding.  As written the
same history is balanced. -/
theorem lru_destroy_front_pop_back_counterexample :
    (let r := Lru.run ⟨true, false⟩ [1, 2, 3] { bound := 2 } {}
     r.1.entries.map (·.1) = [3, 2] ∧ r.2.live.length = 2 ∧ ¬ ((r.1.entries.map (·.2)).all (· ∈ r.2.live)) ∧
     (r.1.destroy r.2).bad = 1 ∧ (r.1.destroy r.2).live.length = 1) ∧
    (let r := Lru.run .asWritten [1, 2, 3] { bound := 2 } {}
     r.1.entries.map (·.1) = [3, 2] ∧ (r.1.destroy r.2).Balanced) := by
  decide

/-- non-vacuity: the hypotheses of the list/vector theorems are met by non-trivial reachable
states (a refusal that really fires in the middle of a history). -/
example :
    let r := XList.run Cfg.repaired [.pushBack 1, .pushFront 2, .popBack, .pushBack 3, .clear, .pushBack 4]
      {} { failAt := 6 }
    r.2.1.wild = false ∧ r.2.2.reqs ≥ 6 ∧ (r.2.1.destroy r.2.2).2.live = [] ∧ (r.2.1.destroy r.2.2).2.bad = 0 := by
  decide

example :
    let r := XVec.run [.push 1, .push 2, .reserve 9, .push 3, .pop, .clear, .push 4] {} { failAt := 3 }
    r.2.1.WF ∧ r.2.1.items = [4] ∧ (r.2.1.destroy r.2.2).live = [] := by decide

end XalanModel.Props.C19
