import XalanModel.C09.Targets
/-!
# C09 — a node matches a pattern exactly when the pattern, as an expression, selects it

Property theorems only (helper lemmas: `XalanModel/C09/Proofs.lean`).

* `Spec.matchesPattern d P n` — XSLT 1.0 §5.2: some ancestor-or-self `A` of `n` has `n ∈ ⟦P⟧(A)`
  (`XalanModel/C09/Pattern.lean`, XPath 1.0 semantics, no reference to Xalan's matcher).
* `getMatchScore v d P n` — transcription of `XPath::getMatchScore` → `stepPattern` …
  (`XalanModel/C09/Matcher.lean`).

Full statement:  `∀ d P n, d.WF → n < d.size → (getMatchScore v d P n ≠ .none ↔ Spec.matchesPattern d P n)`.
It is **false of the code as found** (`Variant.asWritten`) — five independent reasons, each with a
`…_counterexample` below (all replayed on the real library by `checks/c09.py`, corpus); three of them are removed by
the proposed repairs (`repaired_witnesses`), for which the classes below widen (`Step.simple`, `Step.attrOK` depend
on the variant).  What is proved for all documents, nodes and patterns of a stated class is
`match_iff_select_partial`.
-/
namespace XalanModel.Props.C09
open XalanModel.C09

/- every general theorem below holds for each variant of the code (`Variant`, Matcher.lean): the tree as found
(`Variant.asWritten`) and the tree with the proposed repairs; hypotheses that a repair makes unnecessary are
conditioned on its flag -/
variable {v : Variant}

/-- the step `s` (a name test, no predicates) -/
def nm (s : String) : Step := { attrAxis := false, test := .name s, preds := [] }

/-! ## what holds for every document -/

/-- the pattern class of `match_iff_select_onestep_partial`: a union of one-step relative patterns on the child axis,
`T[p1]…[pk]`, any node test `T`, any list of the modelled predicates -/
def OneStep (p : Path) : Prop := ∃ s : Step, p = ⟨false, [(.child, s)]⟩ ∧ s.attrAxis = false

/-- **The forward `step()` that `handleFoundIndex` calls is the XPath step.**  For a child-axis step, whichever
`eMATCH_*` code the compiler gave it, `findChildren` + `predicates` (with the number-literal shortcut and the
"number ≠ position or boolean false" removal rule) compute exactly the §2.1/§2.4 location step. -/
theorem fwdStep_eq_spec (d : Doc) (c : Nat) (s : Step) (followedByDesc : Bool) (h : s.attrAxis = false) :
    fwdStep v d c (compileStep s followedByDesc) = Spec.evalStep d c s :=
  fwdStep_child_eq d c s followedByDesc h

/-- **`handleFoundIndex`** (the re-evaluation from the parent used for `[k]`, `[last()]`, `[position()…]`):
it answers `eMatchScoreOther` exactly when the node is selected by the step evaluated forward from its parent
with *all* the step's predicates, and `eMatchScoreNone` otherwise (in particular for a parentless node). -/
theorem handleFoundIndex_spec (d : Doc) (s : Step) (followedByDesc : Bool) (h : s.attrAxis = false) (m : Nat) :
    (handleFoundIndex v d (compileStep s followedByDesc) m = .other ↔
        ∃ p, d.parent m = some p ∧ m ∈ Spec.evalStep d p s) ∧
    (handleFoundIndex v d (compileStep s followedByDesc) m = .none ↔
        ¬ ∃ p, d.parent m = some p ∧ m ∈ Spec.evalStep d p s) := by
  rw [handleFoundIndex_child d s followedByDesc h m]
  by_cases hex : ∃ p, d.parent m = some p ∧ m ∈ Spec.evalStep d p s
  · simp [hex]
  · simp [hex]

/-- **One step of the right-to-left matcher is right** (any predicate list, mixed positional / boolean):
on a non-attribute node `m`, node test + `doStepPredicate` — the body of the `eMATCH_ANY_ANCESTOR` loop, and what
the `eMATCH_IMMEDIATE_ANCESTOR` case plus the trailing `doStepPredicate` call do — give a score ≠ None exactly
when `m` is selected by the step evaluated forward from `m`'s parent.  Without the root guard the hypothesis on
`node()` is necessary (`node_test_root_counterexample`); with it (`proposed/C09-node-test-root.diff`) it is void. -/
theorem step_matches_iff_selected (d : Doc) (hwf : d.WF = true) (s : Step) (followedByDesc : Bool)
    (h : s.attrAxis = false) (m : Nat) (hm : m < d.size) (hk : d.kind m ≠ .attr)
    (hn : v.rootGuard = false → s.test = .node → m ≠ 0) :
    anyBody v d (compileStep s followedByDesc) m ≠ .none ↔ ∃ p, d.parent m = some p ∧ m ∈ Spec.evalStep d p s :=
  anyBody_iff d hwf s followedByDesc h m hm hk hn

/-- **Unions**: `doGetMatchScore` reports a match exactly when some alternative's `locationPathPattern` does
(`lpp`: `locationPathPattern` of the variant at hand). -/
theorem union_first_match (d : Doc) (P : Pattern) (n : Nat) :
    getMatchScore v d P n ≠ .none ↔ ∃ p ∈ P, lpp v d (compilePath p) n ≠ .none := by
  unfold getMatchScore
  rw [getMatchScoreC_ne_none]
  constructor
  · rintro ⟨a, ha, hne⟩
    obtain ⟨p, hp, rfl⟩ := List.mem_map.mp ha
    exact ⟨p, hp, hne⟩
  · rintro ⟨p, hp, hne⟩
    exact ⟨_, List.mem_map.mpr ⟨p, hp, rfl⟩, hne⟩

/-- **The per-alternative entry point** `getMatchScore(node, resolver, ctx, theAlternative)` (c733dd4): on
alternative `i` it is `locationPathPattern` of that alternative (None past the last one), and the union entry point
is the score of the first alternative whose own score is not None. -/
theorem alternative_entry_point (d : Doc) (P : Pattern) (i n : Nat) :
    (getMatchScoreAlt v d P i n = match P[i]? with | some p => lpp v d (compilePath p) n | none => Score.none) ∧
    getMatchScore v d P n =
      (((List.range P.length).map fun i => getMatchScoreAlt v d P i n).find? (· != Score.none)).getD Score.none := by
  have h1 : ∀ i, getMatchScoreAlt v d P i n =
      match P[i]? with | some p => lpp v d (compilePath p) n | none => Score.none := by
    intro i
    unfold getMatchScoreAlt
    rw [getMatchScoreAltC_eq]
    simp only [List.getElem?_map]
    cases P[i]? <;> rfl
  refine ⟨h1 i, ?_⟩
  unfold getMatchScore
  rw [getMatchScoreC_first]
  congr 2
  apply List.ext_getElem
  · simp
  · intro k hk1 hk2
    simp only [List.getElem_map, List.getElem_range]
    rw [h1 k]
    have : k < P.length := by simpa using hk1
    simp [List.getElem?_eq_getElem this]

/-- **C09, one-step patterns with any node test (including `node()`).**  Full statement: for every pattern `P`, well-formed document `d` and node `n`,
`getMatchScore v d P n ≠ None ↔ Spec.matchesPattern d P n`.  Proved here for every union of one-step child-axis
patterns `T[p1]…[pk]` (any test, any mix of `[k]`, `[last()]`, `[position()=k]`, `[position()!=last()]`, `[@x]`,
`[x]`, `[not(@x)]`), every well-formed document and every node other than the document node when a `node()`
test is present.

Missing from the full statement: multi-step patterns (the chain argument over `stepPattern`'s recursion, true
only when every `//` separator precedes every `/` separator and the pattern does not start with `/step//` —
`match_iff_select_counterexample`, `root_desc_counterexample`), attribute steps (`attr_positional_counterexample`,
`attr_kindtest_counterexample`), the document node under `node()` (`node_test_root_counterexample`), `id()`/`key()`
steps, namespaces.  The per-step ingredient of the chain argument is `step_matches_iff_selected`. -/
theorem match_iff_select_onestep_partial (hb : v.backtrack = false) (d : Doc) (hwf : d.WF = true) (P : Pattern)
    (hP : ∀ p ∈ P, OneStep p) (n : Nat) (hn : n < d.size)
    (hnode : v.rootGuard = false → ∀ p ∈ P, ∀ s, p = ⟨false, [(.child, s)]⟩ → s.test = .node → n ≠ 0) :
    getMatchScore v d P n ≠ .none ↔ Spec.matchesPattern d P n = true := by
  rw [union_first_match]
  unfold Spec.matchesPattern
  rw [List.any_eq_true]
  have key : ∀ p ∈ P, (lpp v d (compilePath p) n ≠ .none ↔ Spec.matchesPath d p n = true) := by
    intro p hp
    unfold lpp
    simp only [hb, Bool.false_eq_true, if_false]
    obtain ⟨s, rfl, hs⟩ := hP p hp
    have hc : compilePath ⟨false, [(.child, s)]⟩ = [compileStep s false] := rfl
    rw [hc, lpp_single d s hs n, matchesPath_single d s hs n]
    by_cases hk : d.kind n = .attr
    · simp only [hk, bne_self_eq_false, Bool.false_eq_true, if_false, ne_eq, not_true_eq_false, false_iff]
      exact fun hsel => selfSel_not_attr d s hs n hsel hk
    · have hk' : (d.kind n != Kind.attr) = true := by simpa using hk
      rw [if_pos hk']
      exact anyBody_iff d hwf s false hs n hn hk (fun hg => hnode hg _ hp s rfl)
  constructor
  · rintro ⟨p, hp, h⟩; exact ⟨p, hp, (key p hp).mp h⟩
  · rintro ⟨p, hp, h⟩; exact ⟨p, hp, (key p hp).mpr h⟩

/-- **The pattern class of `match_iff_select_partial`.**  A LocationPathPattern whose steps (`StepsOK`) are on the
child axis with a node test other than `node()` and any predicate lists — except that the *last* step may be an
attribute step `@name` / `@*` with predicates among `[@x]`, `[x]`, `[not(@x)]` — and which is
* relative or starts with `//`, every `//` separator coming before every `/` separator
  (`a//b//c/d[1]/e`, `//a[@x]//b/c`, `a/b/@x`, `a[last()]//b`, `a//@*` …; not `z/a//b`), or
* absolute with `/` separators only (`/a/b[2]/c`, `/a/@x`), or the pattern `/`. -/
def InClass (v : Variant) (p : Path) : Prop :=
  p = ⟨true, []⟩ ∨
  ∃ sep s r, p.steps = (sep, s) :: r ∧ StepsOK v p.steps ∧
    ((p.abs = false ∧ sep = .child ∧ descPrefix p.steps = true) ∨
     (p.abs = true ∧ sep = .desc ∧ descPrefix p.steps = true) ∨
     (p.abs = true ∧ sep = .child ∧ r.all (fun y => y.1 == .child) = true))

/-- **C09, proved part.**  Full statement: for every pattern `P`, well-formed document `d` and node `n`,
`getMatchScore v d P n ≠ None ↔ Spec.matchesPattern d P n` (XSLT 1.0 §5.2: some ancestor-or-self `A` of `n` has
`n ∈ ⟦P⟧(A)`).  Proved for every union of multi-step patterns of `InClass` — exactly the child-axis patterns on
which the no-backtracking `eMATCH_ANY_ANCESTOR` loop is harmless: once the matcher has moved left across a `/`, no
`//` follows further left, so "nearest candidate" is as good as any (a nearer candidate has at least the ancestors
of a farther one).  No bound on the number of steps, predicates, document size or depth.

Missing from the full statement (each with a counterexample on the unchanged code): a `//` to the left of a `/`
(`match_iff_select_counterexample`), a leading `/` followed later by `//` (`root_desc_counterexample`), `node()`
steps (`node_test_root_counterexample`; covered for one step by `match_iff_select_onestep_partial`), attribute
steps with positional predicates or node-type tests (`attr_positional_counterexample`,
`attr_kindtest_counterexample`) or in a non-final position; `id()`/`key()` steps and namespaces are
not modelled. -/
theorem match_iff_select_partial (d : Doc) (hwf : d.WF = true) (P : Pattern) (hP : ∀ p ∈ P, InClass v p)
    (n : Nat) (hn : n < d.size) :
    getMatchScore v d P n ≠ .none ↔ Spec.matchesPattern d P n = true := by
  rw [union_first_match]
  unfold Spec.matchesPattern
  rw [List.any_eq_true]
  have key : ∀ p ∈ P, (lpp v d (compilePath p) n ≠ .none ↔ Spec.matchesPath d p n = true) := by
    intro p hp
    unfold lpp
    by_cases hb : v.backtrack = true
    · -- the patched matcher: the wider theorem applies
      simp only [hb, if_true]
      rcases hP p hp with rfl | ⟨sep, s, r, hsteps, hsimple, hlead⟩
      · exact lppB_slash_iff d hwf n hn
      · obtain ⟨pabs, psteps⟩ := p
        simp only at hsteps hlead hsimple
        subst hsteps
        refine lppB_path_iff d hwf pabs sep s r (stepsOK_all hsimple) ?_ n hn
        intro hpa
        rcases hlead with ⟨_, h, _⟩ | ⟨h, _, _⟩ | ⟨h, _, _⟩
        · exact h
        · rw [hpa] at h; cases h
        · rw [hpa] at h; cases h
    · simp only [hb, Bool.false_eq_true, if_false]
      rcases hP p hp with rfl | ⟨sep, s, r, hsteps, hsimple, hlead⟩
      · exact lpp_slash_iff d hwf n hn
      · obtain ⟨pabs, psteps⟩ := p
        simp only at hsteps hlead hsimple
        subst hsteps
        rcases hlead with ⟨rfl, rfl, hdp⟩ | ⟨rfl, rfl, hdp⟩ | ⟨rfl, rfl, hall⟩
        · exact lpp_rel_iff d hwf s r hsimple hdp n hn
        · exact lpp_absdesc_iff d hwf s r hsimple hdp n hn
        · exact lpp_absroot_iff d hwf s r hsimple hall n hn
  constructor
  · rintro ⟨p, hp, h⟩; exact ⟨p, hp, (key p hp).mp h⟩
  · rintro ⟨p, hp, h⟩; exact ⟨p, hp, (key p hp).mpr h⟩

/-- the class of `match_implies_select_partial`: like `InClass` for relative and `//`-leading patterns, but with
**no condition on the order of `/` and `//`** (`z/a//b`, `//a/b//c[2]/d` …) -/
def InSoundClass (v : Variant) (p : Path) : Prop :=
  ∃ sep s r, p.steps = (sep, s) :: r ∧ StepsOK v p.steps ∧
    ((p.abs = false ∧ sep = .child) ∨ (p.abs = true ∧ sep = .desc))

/-- **No spurious match** (one direction of C09, beyond the class of `match_iff_select_partial`): for relative and
`//`-leading patterns with steps as in `StepsOK` and *any* order of separators, whenever the matcher reports a
match the node is selected from some ancestor-or-self.  So on these patterns the only way the unchanged code
departs from the definition is by *missing* matches (`match_iff_select_counterexample`); the converse direction is
exactly what the no-backtracking loop breaks.  (For a leading `/` even this direction fails:
`root_desc_counterexample`.) -/
theorem match_implies_select_partial (hb : v.backtrack = false) (d : Doc) (hwf : d.WF = true) (P : Pattern)
    (hP : ∀ p ∈ P, InSoundClass v p) (n : Nat) (hn : n < d.size) (h : getMatchScore v d P n ≠ .none) :
    Spec.matchesPattern d P n = true := by
  rw [union_first_match] at h
  obtain ⟨p, hp, hne⟩ := h
  unfold lpp at hne
  simp only [hb, Bool.false_eq_true, if_false] at hne
  unfold Spec.matchesPattern
  rw [List.any_eq_true]
  refine ⟨p, hp, ?_⟩
  obtain ⟨sep, s, r, hsteps, hok, hlead⟩ := hP p hp
  obtain ⟨pabs, psteps⟩ := p
  simp only at hsteps hok hlead
  subst hsteps
  rcases hlead with ⟨rfl, rfl⟩ | ⟨rfl, rfl⟩
  · exact lpp_rel_sound d hwf s r hok n hn hne
  · exact lpp_absdesc_sound d hwf s r hok n hn hne

/-- the class of `match_iff_select_backtracking_partial`: every step `Step.lastOK` (a child-axis step or an
attribute step of the variant's class, **in any position**), **any order of `/` and `//`, any lead** (`z/a//b`,
`/a//b/c`, `//a/b//c[2]/@x`, `@x/b`, `/`).  Under `Variant.backtracking` `Step.lastOK` holds of *every* step of the
modelled grammar, so the class is the whole modelled grammar (`backtracking_class_total`). -/
def InClassB (v : Variant) (p : Path) : Prop :=
  p = ⟨true, []⟩ ∨
  ∃ sep s r, p.steps = (sep, s) :: r ∧ (∀ x ∈ p.steps, x.2.lastOK v) ∧ (p.abs = false → sep = .child)

/-- **C09 for the matcher with a backtracking any-ancestor loop**
(`proposed/C09-any-ancestor-backtracking.diff`, variant flag `backtrack`): match ⇔ selected from an ancestor-or-self
for every union of patterns of `InClassB`, with no condition on separators or lead — the restriction that
`match_iff_select_partial` needs for the code as found (`descPrefix`, no `/step//`) is gone, i.e. findings 1 and 2
are repaired.  With all three repairs (`Variant.backtracking`) this is the **full statement of C09 on the whole
modelled grammar** (`backtracking_class_total`; what remains outside is what the model does not contain: `id()`/`key()`
steps and namespaces). -/
theorem match_iff_select_backtracking_partial (hb : v.backtrack = true) (d : Doc) (hwf : d.WF = true) (P : Pattern)
    (hP : ∀ p ∈ P, InClassB v p) (n : Nat) (hn : n < d.size) :
    getMatchScore v d P n ≠ .none ↔ Spec.matchesPattern d P n = true := by
  rw [union_first_match]
  unfold Spec.matchesPattern
  rw [List.any_eq_true]
  have key : ∀ p ∈ P, (lpp v d (compilePath p) n ≠ .none ↔ Spec.matchesPath d p n = true) := by
    intro p hp
    unfold lpp
    simp only [hb, if_true]
    rcases hP p hp with rfl | ⟨sep, s, r, hsteps, hok, hrel⟩
    · exact lppB_slash_iff d hwf n hn
    · obtain ⟨pabs, psteps⟩ := p
      simp only at hsteps hok hrel
      subst hsteps
      exact lppB_path_iff d hwf pabs sep s r hok hrel n hn
  constructor
  · rintro ⟨p, hp, h⟩; exact ⟨p, hp, (key p hp).mp h⟩
  · rintro ⟨p, hp, h⟩; exact ⟨p, hp, (key p hp).mpr h⟩

/-- under all three repairs every valid pattern of the modelled grammar is in `InClassB` -/
theorem backtracking_class_total (p : Path) (hv : p.valid = true) : InClassB Variant.backtracking p := by
  obtain ⟨pabs, steps⟩ := p
  cases steps with
  | nil =>
    cases pabs with
    | true => exact Or.inl rfl
    | false => simp [Path.valid] at hv
  | cons x r =>
    obtain ⟨sep, s⟩ := x
    refine Or.inr ⟨sep, s, r, rfl, ?_, ?_⟩
    · intro y _
      by_cases ha : y.2.attrAxis = true
      · exact Or.inr ⟨ha, fun h => absurd h (by decide), fun h => absurd h (by decide)⟩
      · exact Or.inl ⟨by simpa using ha, fun h => absurd h (by decide)⟩
    · intro hp
      simp only at hp
      subst hp
      simp only [Path.valid, beq_iff_eq] at hv
      exact hv

/-- **C09 at full strength for the repaired matcher**: with the three proposed repairs
(`Variant.backtracking`) a node matches a pattern exactly when the pattern, as an expression, selects it from some
ancestor-or-self — for *every* pattern of the modelled grammar (`Path.valid`: a relative path starts with a step),
every well-formed document, every node.  No `_partial`: the only
restrictions left are those of the model's grammar (`id()`/`key()` steps, namespaces). -/
theorem match_iff_select_repaired (d : Doc) (hwf : d.WF = true) (P : Pattern) (hP : ∀ p ∈ P, p.valid = true)
    (n : Nat) (hn : n < d.size) :
    getMatchScore Variant.backtracking d P n ≠ .none ↔ Spec.matchesPattern d P n = true :=
  match_iff_select_backtracking_partial (v := Variant.backtracking) rfl d hwf P
    (fun p hp => backtracking_class_total p (hP p hp)) n hn

/-- **id()/key()-leading patterns** (`IdKeyPattern (('/' | '//') RelativePathPattern)?`, backtracking matcher): with
`S` the node-set the call evaluates to in the document, the node matches exactly when it is reached from a node of
`S` by the remaining steps — which is what the pattern selects as an expression, from any context.  Any steps of
`Step.lastOK`, any separators.  (The eOP_FUNCTION / eMATCH_ANY_ANCESTOR_WITH_FUNCTION_CALL cases of `stepPattern`;
tied to the code with `id()` patterns on documents with ID attributes.) -/
theorem idkey_match_iff_select (hb : v.backtrack = true) (d : Doc) (hwf : d.WF = true) (p : FnPath)
    (hs : ∀ e ∈ p.steps, e.2.lastOK v) (n : Nat) (hn : n < d.size) :
    getMatchScoreFn v d p n ≠ .none ↔ Spec.matchesFn d p n = true := by
  unfold getMatchScoreFn
  simp only [hb, if_true]
  exact lppB_fn_iff d hwf p hs n hn

/-- non-vacuity of `idkey_match_iff_select`: `id('v')//a/b` with `S = {1}` on `<a id="v"><b><a><b/></a></b></a>` -/
example :
    let d : Doc := { nodes := [⟨.root, "", 0⟩, ⟨.elem, "a", 0⟩, ⟨.attr, "id", 1⟩, ⟨.elem, "b", 1⟩, ⟨.elem, "a", 3⟩,
                               ⟨.elem, "b", 4⟩] }
    let p : FnPath := ⟨"id('v')", [1], [(.desc, nm "a"), (.child, nm "b")]⟩
    d.WF = true ∧ (List.range d.size).map (fun n => (getMatchScoreFn Variant.backtracking d p n).toNat) = [0, 0, 0, 0, 0, 4] ∧
      (List.range d.size).map (fun n => Spec.matchesFn d p n) = [false, false, false, false, false, true] := by
  decide

/-- **`child::x` ≡ `x` and `attribute::x` ≡ `@x`, in every position.**  `compilePathW` follows the parallel branches
of `XPathProcessorImpl::AbbreviatedNodeTestStep` (axis spelled out or abbreviated; reached with the name as current
token, or with a `/` still pending — the second slash of `//`, the slash after id()/key()); whichever branch
compiles a step, the op codes — in particular the any-ancestor re-flagging when `//` follows, which needs
`matchTypePos` recorded — are those of the pattern with every axis abbreviated, the defining expression selects the
same nodes, and so the match result is the same.  The op codes of `compilePathW`/`compileFnW` are compared with
the real op map step by step on every run. -/
theorem explicit_axis_irrelevant (d : Doc) (p : Path) (fp : FnPath) (n : Nat) :
    compilePathW p = compilePathW p.abbrev ∧ compilePathW p = compilePath p ∧ compileFnW fp = compileFn fp ∧
    Spec.matchesPath d p.abbrev n = Spec.matchesPath d p n ∧
    lpp v d (compilePath p.abbrev) n = lpp v d (compilePath p) n := by
  refine ⟨?_, compilePathW_eq p, compileFnW_eq fp, matchesPath_abbrev d p n, ?_⟩
  · rw [compilePathW_eq, compilePathW_eq, compilePath_abbrev]
  · rw [compilePath_abbrev]

/-- non-vacuity: `doc//child::blk//p` compiles to `A A I`, like `doc//blk//p` -/
example :
    let e (nmv : String) : Step := { attrAxis := false, test := .name nmv, preds := [], explicit := true }
    let p : Path := ⟨false, [(.child, nm "doc"), (.desc, e "blk"), (.desc, nm "p")]⟩
    (compilePathW p).map (·.code) = [.anyAnc, .anyAnc, .immAnc] ∧ p.abbrev ≠ p := by
  decide

/-- non-vacuity of `match_implies_select_partial`: `z/a//b` (outside `InClass`) on `<z><a><b/></a></z>` matches `b`. -/
example :
    let d : Doc := { nodes := [⟨.root, "", 0⟩, ⟨.elem, "z", 0⟩, ⟨.elem, "a", 1⟩, ⟨.elem, "b", 2⟩] }
    let p : Path := ⟨false, [(.child, nm "z"), (.child, nm "a"), (.desc, nm "b")]⟩
    d.WF = true ∧ descPrefix p.steps = false ∧ getMatchScore Variant.asWritten d [p] 3 = .other ∧ Spec.matchesPattern d [p] 3 = true := by
  decide

/-- non-vacuity of `match_iff_select_partial`: `a[@x]//b//c[last()]/q | //z/q[1] | z//@*[not(@y)]` is in the class (checked by
`decide` through the Boolean form of the class conditions) and, on
`<z><a x="1"><b><a><b><c/><c><q/></c></b></a></b></a><q/></z>`, matches exactly the two `q` elements and the attribute. -/
example :
    let d : Doc := { nodes := [⟨.root, "", 0⟩, ⟨.elem, "z", 0⟩, ⟨.elem, "a", 1⟩, ⟨.attr, "x", 2⟩, ⟨.elem, "b", 2⟩,
                               ⟨.elem, "a", 4⟩, ⟨.elem, "b", 5⟩, ⟨.elem, "c", 6⟩, ⟨.elem, "c", 6⟩, ⟨.elem, "q", 8⟩,
                               ⟨.elem, "q", 1⟩] }
    let p1 : Path := ⟨false, [(.child, { attrAxis := false, test := .name "a", preds := [.attr "x"] }),
                              (.desc, nm "b"), (.desc, { attrAxis := false, test := .name "c", preds := [.last] }),
                              (.child, nm "q")]⟩
    let p2 : Path := ⟨true, [(.desc, nm "z"), (.child, { attrAxis := false, test := .name "q", preds := [.idx 1] })]⟩
    let p3 : Path := ⟨false, [(.child, nm "z"), (.desc, { attrAxis := true, test := .any, preds := [.notAttr "y"] })]⟩
    d.WF = true ∧ descPrefix p1.steps = true ∧ descPrefix p2.steps = true ∧ descPrefix p3.steps = true ∧
      (List.range d.size).map (fun n => (getMatchScore Variant.asWritten d [p1, p2, p3] n).toNat) = [0, 0, 0, 4, 0, 0, 0, 0, 0, 4, 4] ∧
      (List.range d.size).map (fun n => Spec.matchesPattern d [p1, p2, p3] n) =
        [false, false, false, true, false, false, false, false, false, true, true] := by
  decide

/-- non-vacuity of `match_iff_select_onestep_partial` / `step_matches_iff_selected` / `handleFoundIndex_spec`: the
pattern `b[@x][last()]|text()[1]` on `<a><b x="1"/>t<b/><b x="1"/></a>`: hypotheses hold, the last `b` and the text
node match, the other nodes do not. -/
example :
    let d : Doc := { nodes := [⟨.root, "", 0⟩, ⟨.elem, "a", 0⟩, ⟨.elem, "b", 1⟩, ⟨.attr, "x", 2⟩, ⟨.text, "", 1⟩,
                               ⟨.elem, "b", 1⟩, ⟨.elem, "b", 1⟩, ⟨.attr, "x", 6⟩] }
    let P : Pattern := [⟨false, [(.child, { attrAxis := false, test := .name "b", preds := [.attr "x", .last] })]⟩,
                        ⟨false, [(.child, { attrAxis := false, test := .text, preds := [.idx 1] })]⟩]
    d.WF = true ∧ (List.range d.size).map (fun n => (getMatchScore Variant.asWritten d P n).toNat) = [0, 0, 0, 0, 4, 0, 4, 0] ∧
      (List.range d.size).map (fun n => Spec.matchesPattern d P n) = [false, false, false, false, true, false, true, false] := by
  decide

/-! ## the witnesses -/

/-- `<z><a><q><a><b/></a></q></a></z>` -/
def chainDoc : Doc :=
  { nodes := [⟨.root, "", 0⟩, ⟨.elem, "z", 0⟩, ⟨.elem, "a", 1⟩, ⟨.elem, "q", 2⟩, ⟨.elem, "a", 3⟩, ⟨.elem, "b", 4⟩] }

/-- `<a x="1">t<b/></a>` -/
def attrDoc : Doc :=
  { nodes := [⟨.root, "", 0⟩, ⟨.elem, "a", 0⟩, ⟨.attr, "x", 1⟩, ⟨.text, "", 1⟩, ⟨.elem, "b", 1⟩] }


/-- `z/a//b` -/
def pat_zab : Pattern := [{ abs := false, steps := [(.child, nm "z"), (.child, nm "a"), (.desc, nm "b")] }]
/-- `/a//b` -/
def pat_root_a_b : Pattern := [{ abs := true, steps := [(.child, nm "a"), (.desc, nm "b")] }]
/-- `node()` -/
def pat_node : Pattern := [{ abs := false, steps := [(.child, { attrAxis := false, test := .node, preds := [] })] }]
/-- `@x[1]` -/
def pat_attr1 : Pattern := [{ abs := false, steps := [(.child, { attrAxis := true, test := .name "x", preds := [.idx 1] })] }]
/-- `@node()` -/
def pat_attrnode : Pattern := [{ abs := false, steps := [(.child, { attrAxis := true, test := .node, preds := [] })] }]

/-- **No backtracking in the `eMATCH_ANY_ANCESTOR` loop** (DESIGN §6 item 16).  In
`<z><a><q><a><b/></a></q></a></z>` the element `b` is selected by `z/a//b` evaluated at the root, but the
matcher stops at the nearest `a` (whose parent is `q`, not `z`) and reports no match. -/
theorem match_iff_select_counterexample :
    chainDoc.WF = true ∧ Spec.matchesPattern chainDoc pat_zab 5 = true ∧ getMatchScore Variant.asWritten chainDoc pat_zab 5 = .none := by
  decide

/-- **`/a//b`: the `eFROM_ROOT` case climbs to the document node** when the step to its right is an
any-ancestor step, so the `a` need not be the document element: `b` in `<z><a>…<b/>` matches `/a//b` although
`/a//b` selects nothing. -/
theorem root_desc_counterexample :
    Spec.matchesPattern chainDoc pat_root_a_b 5 = false ∧ getMatchScore Variant.asWritten chainDoc pat_root_a_b 5 = .other := by
  decide

/-- **`node()` matches the document node** (`NodeTester::testNode` accepts every node type; the
`eMATCH_IMMEDIATE_ANCESTOR` case only excludes attributes), although `child::node()` never selects a root. -/
theorem node_test_root_counterexample :
    Spec.matchesPattern chainDoc pat_node 0 = false ∧ getMatchScore Variant.asWritten chainDoc pat_node 0 = .nodeTest := by
  decide

/-- **A positional predicate on an attribute step never matches**: `handleFoundIndex` re-runs `step()` with the
`eMATCH_ATTRIBUTE` step type, for which `NodeTester` installs the *element* name tests, so the re-evaluation from
the owner element is empty.  `@x[1]` selects the attribute `x`, the matcher says no. -/
theorem attr_positional_counterexample :
    attrDoc.WF = true ∧ Spec.matchesPattern attrDoc pat_attr1 2 = true ∧ getMatchScore Variant.asWritten attrDoc pat_attr1 2 = .none := by
  decide

/-- **`@node()` (and `@text()`, `@comment()`, …) match non-attribute nodes**: the `eMATCH_ATTRIBUTE` case applies the
node test without checking the node type.  `attribute::node()` selects only the attribute; the matcher also accepts
the element, the text node and the document node. -/
theorem attr_kindtest_counterexample :
    (List.range attrDoc.size).map (fun n => Spec.matchesPattern attrDoc pat_attrnode n) = [false, false, true, false, false] ∧
    (List.range attrDoc.size).map (fun n => getMatchScore Variant.asWritten attrDoc pat_attrnode n) =
      [.nodeTest, .nodeTest, .nodeTest, .nodeTest, .nodeTest] := by
  decide

/-- **With the proposed repairs** (`Variant.repaired`: `proposed/C09-attribute-step.diff` +
`proposed/C09-node-test-root.diff`) the witnesses of `node_test_root_counterexample`,
`attr_positional_counterexample` and `attr_kindtest_counterexample` agree with the definition on every node; the
other two counterexamples are untouched by these repairs. -/
theorem repaired_witnesses :
    (List.range chainDoc.size).map (fun n => getMatchScore Variant.repaired chainDoc pat_node n != .none) =
      (List.range chainDoc.size).map (fun n => Spec.matchesPattern chainDoc pat_node n) ∧
    (List.range attrDoc.size).map (fun n => getMatchScore Variant.repaired attrDoc pat_attr1 n != .none) =
      (List.range attrDoc.size).map (fun n => Spec.matchesPattern attrDoc pat_attr1 n) ∧
    (List.range attrDoc.size).map (fun n => getMatchScore Variant.repaired attrDoc pat_attrnode n != .none) =
      (List.range attrDoc.size).map (fun n => Spec.matchesPattern attrDoc pat_attrnode n) ∧
    getMatchScore Variant.repaired chainDoc pat_zab 5 = .none ∧
    getMatchScore Variant.repaired chainDoc pat_root_a_b 5 = .other := by
  decide

/-- non-vacuity of the widened class under the repairs: `node()//a/@node()[last()]` is in `InClass Variant.repaired`
(a `node()` step, an attribute step with a node-type test and a positional predicate) and matches exactly the
attribute of `<z><a x="1"/></z>`. -/
example :
    let d : Doc := { nodes := [⟨.root, "", 0⟩, ⟨.elem, "z", 0⟩, ⟨.elem, "a", 1⟩, ⟨.attr, "x", 2⟩] }
    let p : Path := ⟨false, [(.child, { attrAxis := false, test := .node, preds := [] }), (.desc, nm "a"),
                             (.child, { attrAxis := true, test := .node, preds := [.last] })]⟩
    d.WF = true ∧ descPrefix p.steps = true ∧
      (List.range d.size).map (fun n => getMatchScore Variant.repaired d [p] n != .none) = [false, false, false, true] ∧
      (List.range d.size).map (fun n => Spec.matchesPattern d [p] n) = [false, false, false, true] := by
  decide

/-- with the backtracking repair the witnesses of `match_iff_select_counterexample` and `root_desc_counterexample`
agree with the definition on every node (non-vacuity of `match_iff_select_backtracking_partial`: both patterns are
in `InClassB` and outside `InClass`) -/
theorem backtracking_witnesses :
    (List.range chainDoc.size).map (fun n => getMatchScore Variant.backtracking chainDoc pat_zab n != .none) =
      (List.range chainDoc.size).map (fun n => Spec.matchesPattern chainDoc pat_zab n) ∧
    (List.range chainDoc.size).map (fun n => getMatchScore Variant.backtracking chainDoc pat_root_a_b n != .none) =
      (List.range chainDoc.size).map (fun n => Spec.matchesPattern chainDoc pat_root_a_b n) ∧
    getMatchScore Variant.backtracking chainDoc pat_zab 5 = .other := by
  decide

/-! ## namespace declarations -/

/-- **The attribute node tests reject namespace declarations.**  A DOM attribute named `xmlns` or `xmlns:p` is a
namespace node of the data model: `@*`, `@p:*`, `@name`, `@p:name` never select it, and the pattern matcher — which
applies the tester to whatever raw attribute a consumer such as `KeyTable` offers — must not match it either: on such a
node the tester answers None for every attribute name test, in agreement with the defining side (`Spec.testOK`).  The
facts regenerated from the source say that each of the four `NodeTester::testAttribute*` functions checks
`isNamespaceDeclaration(context)` itself. -/
theorem attribute_tests_reject_namespace_declarations (d : Doc) (m : Nat) (t : Test)
    (ht : (∃ s, t = .name s) ∨ (∃ p u l, t = .qname p u l) ∨ (∃ p u, t = .nsAny p u) ∨ t = .any)
    (hns : Doc.isNsDeclName (d.name m) = true) :
    tester d true (.t t) m = .none ∧ Spec.testOK d true t m = false ∧
    Generated.C09_NodeTester.attributeTesters =
      [("testAttributeNCName", true), ("testAttributeNamespaceOnly", true), ("testAttributeQName", true),
       ("testAttributeTotallyWild", true)] := by
  refine ⟨?_, ?_, by decide⟩
  · rcases ht with ⟨s, rfl⟩ | ⟨p, u, l, rfl⟩ | ⟨p, u, rfl⟩ | rfl <;> simp [tester, hns]
  · rcases ht with ⟨s, rfl⟩ | ⟨p, u, l, rfl⟩ | ⟨p, u, rfl⟩ | rfl <;> simp [Spec.testOK, hns]

/-- non-vacuity: a raw `xmlns:p` attribute listed in a table is matched neither by `@*` nor selected by it; the
ordinary attribute next to it is -/
example :
    let d : Doc := { nodes := [⟨.root, "", 0⟩, ⟨.elem, "a", 0⟩, ⟨.attr, "xmlns:p", 1⟩, ⟨.attr, "x", 1⟩] }
    let P : Pattern := [⟨false, [(.child, { attrAxis := true, test := .any, preds := [] })]⟩]
    (List.range 4).map (fun n => (getMatchScore Variant.backtracking d P n).toNat) = [0, 0, 0, 1] ∧
      (List.range 4).map (fun n => Spec.matchesPattern d P n) = [false, false, false, true] := by
  decide

/-! ## every kind of tree -/

/-- **Absolute patterns match relative to whatever root the node's tree has.**  The trees the processor holds are rooted
in a document node (main source, `document()` loads, Xerces-wrapped sources) or in a document fragment node (result tree
fragments reached through exsl:node-set / xalan:nodeset, also nested ones) — `Doc.rootKind`.  For either kind the full
statement holds (`match_iff_select_repaired` does not depend on it), because the root step accepts both node types
(`rootTypeAccepted`); and the facts regenerated from the source say that the code does: the eFROM_ROOT case of
`stepPattern` and `NodeTester::testRoot` accept exactly DOCUMENT_NODE and DOCUMENT_FRAGMENT_NODE, `findRoot` (the
defining side) handles fragments, and the child-axis guard refuses both as "root". -/
theorem absolute_patterns_any_root (d : Doc) (hwf : d.WF = true) (P : Pattern) (hP : ∀ p ∈ P, p.valid = true)
    (n : Nat) (hn : n < d.size) :
    (getMatchScore Variant.backtracking d P n ≠ .none ↔ Spec.matchesPattern d P n = true) ∧
    (∀ k : RootKind, rootTypeAccepted k = true) ∧
    (Generated.C09_FromRoot.stepPatternRootTypes = ["DOCUMENT_FRAGMENT_NODE", "DOCUMENT_NODE"] ∧
      Generated.C09_FromRoot.testRootTypes = ["DOCUMENT_FRAGMENT_NODE", "DOCUMENT_NODE"] ∧
      Generated.C09_FromRoot.findRootHandlesFragment = true ∧
      Generated.C09_FromRoot.childGuardRootTypes = ["DOCUMENT_FRAGMENT_NODE", "DOCUMENT_NODE"]) :=
  ⟨match_iff_select_repaired d hwf P hP n hn, rootTypeAccepted_eq, by decide⟩

/-- non-vacuity: in a result tree fragment `<a><b/></a>` (root = document fragment) `/`, `/a/b` and `/*` match the
fragment root, the `b`, and the `a` respectively, exactly as the expressions select -/
example :
    let d : Doc := { nodes := [⟨.root, "", 0⟩, ⟨.elem, "a", 0⟩, ⟨.elem, "b", 1⟩], rootKind := .fragment }
    let P : Pattern := [⟨true, []⟩]
    let Q : Pattern := [⟨true, [(.child, nm "a"), (.child, nm "b")]⟩]
    d.WF = true ∧ (List.range 3).map (fun n => (getMatchScore Variant.backtracking d P n).toNat) = [4, 0, 0] ∧
      (List.range 3).map (fun n => (getMatchScore Variant.backtracking d Q n).toNat) = [0, 0, 4] ∧
      (List.range 3).map (fun n => Spec.matchesPattern d Q n) = [false, false, true] := by
  decide

/-! ## number-valued predicates -/

/-- **A predicate whose value is a number is positional, whatever its syntactic form** (XPath 1.0 §2.4): `[2]`,
`[1+1]`, `[count(../x)]`, `[number(@n)]`, `[ceiling(3 div 2)]`, `[last()-1]` …  In `doStepPredicate` the model takes the
type from the *evaluated* predicate (`Spec.predVal … = .num k`), not from the op codes: such a predicate never
decides by its boolean value, it hands over to `handleFoundIndex` (the re-evaluation of the step from the parent,
exact by `handleFoundIndex_spec`), so the node matches iff `k` is its position among the nodes the step selects.
The facts regenerated from `XPath::doStepPredicate` say that the code does the same: the plain-predicate branch
evaluates the predicate, tests `XObject::eTypeNumber == pred->getType()` at run time, treats everything else as a
boolean, and the only op-code look-ahead for a number literal is the one inside the with-position branch. -/
theorem number_valued_predicate_is_positional (d : Doc) (s : MStep) (p : Pred) (ps : List Pred) (ctx k : Nat)
    (sc : Score) (hnum : Spec.predVal d p ctx 0 0 = .num k) :
    doStepPredicate v d s (p :: ps) ctx sc = doStepPredicate v d s ps ctx (handleFoundIndex v d s ctx) ∧
    (Generated.C09_StepPredicate.evaluatesPlainPredicate = true ∧
      Generated.C09_StepPredicate.valueTypeTestedAtRunTime = true ∧
      Generated.C09_StepPredicate.booleanOtherwise = true ∧
      Generated.C09_StepPredicate.numberLitLookAheads = 1 ∧
      Generated.C09_StepPredicate.positionBranchUsesFoundIndex = true) := by
  refine ⟨?_, by decide⟩
  by_cases hu : p.usesPos = true
  · simp [doStepPredicate, hu]
  · simp [doStepPredicate, hu, hnum]

/-- non-vacuity: `b[1+1]`, `b[count(../b)]`, `b[ceiling(3 div 2)]` match exactly the second `b` of `<a><b/><b/></a>`,
`b[3 div 2]` and `b[-1]` nothing (all computed numbers; none of them a literal, none calls position()/last()) -/
example :
    let d : Doc := { nodes := [⟨.root, "", 0⟩, ⟨.elem, "a", 0⟩, ⟨.elem, "b", 1⟩, ⟨.elem, "b", 1⟩] }
    let pat (q : Pred) : Pattern := [⟨false, [(.child, { attrAxis := false, test := .name "b", preds := [q] })]⟩]
    (List.range 4).map (fun n => (getMatchScore Variant.backtracking d (pat (.sumLit 1 1)) n).toNat) = [0, 0, 0, 4] ∧
    (List.range 4).map (fun n => (getMatchScore Variant.backtracking d (pat (.countSib "b")) n).toNat) = [0, 0, 0, 4] ∧
    (List.range 4).map (fun n => (getMatchScore Variant.backtracking d (pat (.ceilDiv 3 2)) n).toNat) = [0, 0, 0, 4] ∧
    (List.range 4).map (fun n => (getMatchScore Variant.backtracking d (pat (.divLit 3 2)) n).toNat) = [0, 0, 0, 0] ∧
    (List.range 4).map (fun n => (getMatchScore Variant.backtracking d (pat (.negLit 1)) n).toNat) = [0, 0, 0, 0] ∧
    (List.range 4).map (fun n => Spec.matchesPattern d (pat (.sumLit 1 1)) n) = [false, false, false, true] := by
  decide

/-! ## consumers that pre-filter candidate nodes by target data -/

/-- **`getTargetData` is complete for template lookup.**  For every shape of last step (id()/key() call, `/`, any
axis with any node test) and every node kind the repaired matcher can accept for it (`canMatchKind`, an
over-approximation of `stepAtB` by kind: second conjunct), the (pseudo name, target type) that `XPath::getTargetData`
assigns — table regenerated from XPath.cpp — is routed by `Stylesheet::addTemplate` — table regenerated from
Stylesheet.cpp — into at least one list that `locateMatchPatternDataList` consults for a node of that kind.  So filing
templates by target data never hides a template from a node its pattern matches. -/
theorem target_data_complete :
    (∀ (ls : LastStep) (K : Kind), canMatchKind ls K = true →
      ∃ tg, targetOf ls = some tg ∧ ∃ l ∈ listsOf tg, l ∈ consulted K) ∧
    (∀ (d : Doc) (s : Step) (fd : Bool) (x : Nat),
      stepAtB Variant.backtracking d (compileStep s fd) x ≠ .none →
        canMatchKind (.step s.attrAxis s.test) (d.kind x) = true) := by
  refine ⟨?_, fun d s fd x h => stepAtB_kind d s fd x h⟩
  intro ls K h
  cases ls with
  | fn => cases K <;> exact ⟨_, rfl, by decide⟩
  | root => cases K <;> simp [canMatchKind] at h <;> exact ⟨_, rfl, by decide⟩
  | step ax t =>
    cases ax <;> cases t <;> cases K <;> simp [canMatchKind] at h <;> exact ⟨_, rfl, by decide⟩

/-- **`KeyTable::KeyTable` offers every node to the key patterns** (facts regenerated from KeyTable.cpp): the
pre-walk visits every node below the start node, compares node types only to fetch an element's attributes, walks
those attributes, and tries every declaration on each — the loop over the declarations contains no break / continue,
so a node indexed for one `xsl:key` is still offered to the later declarations, also of the same name (XSLT 12.2) —;
and if the file consults target data at all (an
"optimisation" that skips attributes unless a key can target one), every last step that can match an attribute —
`@name`, `@*`, `@p:*`, `@node()`/`attribute::node()`, an id()/key() call — must carry one of the target types the
file names.  (`@node()` is classified eOther, so a filter on eAttribute/eAny breaks this theorem.) -/
theorem keytable_visits_complete :
    (Generated.C09_KeyTable.walksTree = true ∧ Generated.C09_KeyTable.walksAttributes = true ∧
      Generated.C09_KeyTable.testsEveryDeclaration = true ∧ Generated.C09_KeyTable.declarationLoopRunsToEnd = true ∧
      Generated.C09_KeyTable.nodeTypeTests = ["ELEMENT_NODE"] ∧
      (Generated.C09_KeyTable.mentionsTargetData = false ∨
        ∀ c ∈ [4, 10, 12, 14, 0], ∃ r ∈ Generated.C10.targetRows,
          r.1 = c ∧ r.2.2.2 ∈ Generated.C09_KeyTable.targetTypesMentioned)) ∧
    (∀ ls : LastStep, canMatchKind ls .attr = true → ls.code ∈ [4, 10, 12, 14, 0]) := by
  refine ⟨by decide, ?_⟩
  intro ls h
  cases ls with
  | fn => decide
  | root => simp [canMatchKind] at h
  | step ax t => cases ax <;> cases t <;> simp [canMatchKind] at h <;> simp [LastStep.code, Test.targetCode]

end XalanModel.Props.C09
