import XalanModel.C10.Examples
/-!
# C10 — template conflict resolution: import precedence, then priority, then last

Property theorems only (helper lemmas: `XalanModel/C10/ConflictProofs.lean`; model: `XalanModel/C10/Conflict.lean`).

Reading guide.  `Src` is a stylesheet module after `xsl:include` expansion (its rules in document order, its imports
in document order); `Src.build` is what `StylesheetHandler`/`Stylesheet::addTemplate`/`postConstruction`/`addImport`
construct; `Built.find` is `Stylesheet::findTemplate` with its two bodies (`quiet = true`: the body used when
`getQuietConflictWarnings()`; `quiet = false`: the conflict-reporting body).  `am t i` says that alternative `i` of
rule `t`'s pattern matches the node in hand (pattern matching is abstract).  `specWinner` is XSLT 1.0 §5.5.

Full-strength statements that the *unchanged* code violates are kept visible as `…_partial` theorems (with the extra
hypothesis named) next to `…_counterexample` theorems proved by `decide` (three of them are stated as
"the translator saw the proposed fix in the source ∨ witness", so that they stay true when a fix is committed); every counterexample is replayed on the
real engine by `checks/c10.py` (known findings C10-*).
-/
namespace XalanModel.Props.C10
open XalanModel.C10

/-! ## default priorities and the regenerated tables -/

/-- **§5.5 default priorities.** For every shape of alternative the default score `getTargetData` files it under, valued
by the regenerated `getMatchScoreValue`, is the priority §5.5 prescribes (0 for a QName or
`processing-instruction(Literal)`, −0.25 for `NCName:*`, −0.5 for any other bare node test, 0.5 otherwise);
unit 1/100. -/
theorem default_priorities_spec (a : AltDesc) : (targetData a).score.value = specDefaultPriority a :=
  score_value_eq_spec a

/-- **Tie of the hand model to the regenerated tables** (re-checked against the current source on every run): the
`getTargetData` switch, the multi-step/predicate override, the routing chain of `addTemplate` (same branches, same
lists), the two `addToTable` merges, the comparison operators of `addToList`, front insertion in `addImport`, and the
enumerator order the translator relied on. -/
theorem generated_tables_agree :
    (∀ r ∈ modelTargetRows, r ∈ Generated.C10.targetRows) ∧
    Generated.C10.complexOverride = encScore .other ∧
    Generated.C10.routeRows.map (fun r => (r.1, r.2.1)) =
      [(0, 9), (1, 9), (2, 9), (3, 9), (4, 9), (5, 1), (5, 0), (5, 2), (6, 1), (6, 0)] ∧
    (∀ r ∈ Generated.C10.routeRows, ∀ tt ∈ decTTypes r.2.1,
      sameSet (routedLists ⟨decPseudo r.1, .other, tt⟩) r.2.2 = true) ∧
    Generated.C10.mergeRows = [(7, 5), (8, 6)] ∧
    Generated.C10.addToListOps = [0, 2, 0] ∧
    Generated.C10.importAtFront = true ∧
    Generated.C10.scoreCodes = [0, 1, 2, 3, 4] ∧ Generated.C10.ttypeCodes = [0, 1, 2, 3] := by
  refine ⟨by decide, by decide, by decide, by decide, by decide, by decide, by decide, by decide, by decide⟩

/-- **locate_and_builtin_tables_agree** (tie of two hand-written dispatches to the regenerated switches): for every DOM
node type the model's `locate` returns the list `Stylesheet::locateMatchPatternDataList` returns (the named list, else the
wildcard list, for elements and attributes; nothing for a namespace declaration; the `node()` list for any other
type), and the model's built-in dispatch is the one of `findTemplateToTransformChild` (children for element, document,
fragment; string value for text, CDATA, attribute; nothing for the rest and for namespace declarations). -/
theorem locate_and_builtin_tables_agree :
    (∀ r ∈ Generated.C10.locateRows, locateCodes (NodeKind.ofDomType r.1) = expectedLocateCodes r.2) ∧
    (∀ ty ∈ [5, 6, 10, 12, 13], ty ∉ Generated.C10.locateRows.map (·.1) ∧
      locateCodes (NodeKind.ofDomType ty) = ([Generated.C10.locateDefault], [Generated.C10.locateDefault])) ∧
    Generated.C10.locateRows.map (·.1) = [1, 2, 3, 4, 7, 8, 9, 11] ∧
    locateCodes .nsDecl = ([], []) ∧
    (∀ r ∈ Generated.C10.builtinRows, builtinClass (NodeKind.ofDomType r.1) = r.2) ∧
    (∀ ty ∈ [5, 6, 7, 8, 10, 12, 13], ty ∉ Generated.C10.builtinRows.map (·.1) ∧
      builtinClass (NodeKind.ofDomType ty) = 0) ∧
    Generated.C10.builtinRows.map (·.1) = [1, 2, 3, 4, 9, 11] ∧ builtinClass .nsDecl = 0 := by
  refine ⟨by decide, by decide, by decide, by decide, by decide, by decide, by decide, by decide⟩

/-! ## the pattern tables -/

/-- `addToList` keeps a list sorted by (priority-or-default ↓, position ↓). -/
theorem addToList_sorted (l : List MPD) (p : MPD) (h : Sorted l) : Sorted (addToList l p) :=
  addToList_sorted' p h

/-- **table_sorted.** After any sequence of `addTemplate` calls followed by `postConstruction`, every list
`locateMatchPatternDataList` can return — the per-name element and attribute lists with the wildcard lists merged in,
the five node-type lists, the `node()` list — is sorted by (priority-or-default ↓, position ↓). -/
theorem table_sorted (ts : List Tmpl) (k : NodeKind) (lname : String) :
    Sorted (locate (buildTables ts) k lname) :=
  locate_sorted (postConstruction_allSorted (foldl_addTemplate_allSorted ts empty_allSorted)) k lname

example : Sorted (locate (buildTables
    [{ id := 1, mode := 0, prio := none, pat := 1, alts := [⟨.name false "a", .boolPred⟩, ⟨.wild false false, .simple⟩] },
     { id := 2, mode := 0, prio := some 25, pat := 2, alts := [⟨.name false "a", .simple⟩] },
     { id := 3, mode := 1, prio := none, pat := 3, alts := [⟨.node, .simple⟩] }]) .element "a")
    ∧ (locate (buildTables
    [{ id := 1, mode := 0, prio := none, pat := 1, alts := [⟨.name false "a", .boolPred⟩, ⟨.wild false false, .simple⟩] },
     { id := 2, mode := 0, prio := some 25, pat := 2, alts := [⟨.name false "a", .simple⟩] },
     { id := 3, mode := 1, prio := none, pat := 3, alts := [⟨.node, .simple⟩] }]) .element "a").map (·.pos) = [0, 2, 3, 1] :=
  ⟨table_sorted _ _ _, by decide⟩

/-- **locate_mem.** The list `locateMatchPatternDataList` returns for a node of kind `k` and local name `lname` holds
exactly the entries `addTemplate` created (`tmplEntries`: one per union alternative, positions 0,1,2,… in document
order) whose target data is `compat`ible with the node: for an element, the entries filed under its local name plus the
`*`/`node()`/function wildcard entries merged in by `addToTable` — whether or not a named list exists; for text,
comment, processing-instruction nodes their own list including `node()` entries; for the root `/` entries only. Nothing
is lost, nothing is invented. -/
theorem locate_mem (ts : List Tmpl) (k : NodeKind) (lname : String) (m : MPD) :
    m ∈ locate (buildTables ts) k lname ↔ ∃ e ∈ tmplEntries ts 0, e.1 = m ∧ compat e.2 k lname = true :=
  mem_locate_buildTables ts k lname m

example : (tmplEntries [tA', tA'] 0).map (·.1.pos) = [0, 1, 2, 3] ∧
    ((locate (buildTables [tA', tA']) .text "").map (·.pos)) = [3, 1] := by decide

/-! ## import precedence -/

/-- **imports_order.** `findTemplate` → `findTemplateInImports` over `m_imports` (filled by front insertion) visits the
modules exactly in decreasing import precedence (§2.6.2), each module contributing the result of the selected body on
its own tables; the first module that yields a rule wins. (Tree without simplified stylesheets.) -/
theorem imports_order (am : AltMatch) (k : NodeKind) (lname : String) (mode : Nat) (quiet : Bool) (s : Src)
    (hnw : s.noWrapper = true) :
    implFind am k lname mode quiet s = firstSome (findInTables am k lname mode quiet) s.byPrecedence :=
  Src.find_eq_firstSome am k lname mode quiet s hnw

example : (Src.mk false [] [.mk false [] [.mk false [] []], .mk false [] []]).noWrapper = true := by decide

/-! ## the quiet body -/

/-- **find_quiet_list_spec.** On a sorted list (every list is: `table_sorted`) the quiet body returns the rule of the
entry that is maximal by (priority-or-default, position) among the entries of the right mode whose pattern matches the
node, and nothing iff there is no such entry. -/
theorem find_quiet_list_spec (am : AltMatch) (mode : Nat) (l : List MPD) (hs : Sorted l) :
    match findQuietList am mode l with
    | none => ∀ m ∈ l, entryMatches am mode m = false
    | some t => ∃ m ∈ l, m.tmpl = t ∧ entryMatches am mode m = true ∧
        ∀ m' ∈ l, entryMatches am mode m' = true → m.ge m' :=
  find_quiet_list_spec' am mode l hs

/-- **find_quiet_sheet_spec.** Inside one module the quiet body returns exactly the rule §5.5 selects (highest
priority — explicit or default per alternative — then last in document order), for every rule list `ts` in which each
rule has a single priority (`Tmpl.uniform`: explicit priority, or all alternatives of its union share one default score)
and every matching alternative is filed where the node looks (`compat`: holds for all patterns but bare `key()`/`id()`
calls on non-element nodes). -/
theorem find_quiet_sheet_spec (am : AltMatch) (k : NodeKind) (lname : String) (mode : Nat) (ts : List Tmpl)
    (huni : Generated.C10.perAlternativeMatch = false → ∀ t ∈ ts, t.uniform)
    (hsound : ∀ t ∈ ts, ∀ i a, t.alts[i]? = some a → am t i = true → compat (targetData a) k lname = true) :
    findInTables am k lname mode true ts = bestInSheet am mode ts :=
  quiet_sheet_spec am k lname mode ts huni hsound

/-- **find_quiet_spec (partial).** The rule `apply-templates` instantiates with quiet conflict warnings (the default) is
the §5.5 winner — highest import precedence, then highest priority, then last — for every import tree of any depth and
every node, under three hypotheses, each of which the unchanged code needs: `hnw` no simplified stylesheet in the tree
(`wrapperless_counterexample`), `huni` every rule has a single priority (`find_quiet_spec_counterexample`: union
alternatives with different default priorities), `hsound` matching alternatives are filed where the node looks
(`key_pattern_counterexample`).  Pattern matching itself (`am`) is abstract. -/
theorem find_quiet_spec_partial (am : AltMatch) (k : NodeKind) (lname : String) (mode : Nat) (s : Src)
    (hnw : s.noWrapper = true)
    (huni : Generated.C10.perAlternativeMatch = false → ∀ ts ∈ s.byPrecedence, ∀ t ∈ ts, t.uniform)
    (hsound : ∀ ts ∈ s.byPrecedence, ∀ t ∈ ts, ∀ i a, t.alts[i]? = some a → am t i = true →
      compat (targetData a) k lname = true) :
    implFind am k lname mode true s = specWinner am mode s := by
  rw [imports_order am k lname mode true s hnw, specWinner, specWinnerIn_eq_firstSome]
  exact firstSome_congr fun ts hts =>
    quiet_sheet_spec am k lname mode ts (fun h => huni h ts hts) (hsound ts hts)

/-- **find_quiet_spec — the full §5.5 statement**, for the code with per-alternative matching
(proposed/C10-union-per-alternative.diff; `hper` is what the translator reads off the source): for every import tree of
any depth, every rule set (any unions, any explicit or default priorities, any modes), every node and mode, the rule the
quiet body instantiates is the §5.5 winner — highest import precedence, then highest priority (explicit, or the default
of the alternative that matches), then last.  Remaining hypotheses: `hnw` (no simplified stylesheet in the tree) and
`hsound` (a matching alternative is filed in a list the node consults — a statement about pattern semantics, true for
every pattern once key()/id() targets are filed everywhere). -/
theorem find_quiet_spec (hper : Generated.C10.perAlternativeMatch = true)
    (am : AltMatch) (k : NodeKind) (lname : String) (mode : Nat) (s : Src)
    (hnw : s.noWrapper = true)
    (hsound : ∀ ts ∈ s.byPrecedence, ∀ t ∈ ts, ∀ i a, t.alts[i]? = some a → am t i = true →
      compat (targetData a) k lname = true) :
    implFind am k lname mode true s = specWinner am mode s :=
  find_quiet_spec_partial am k lname mode s hnw (fun h => by rw [hper] at h; cases h) hsound

/-- the hypotheses of `find_quiet_spec_partial` are satisfiable by a non-trivial tree: `a` in the importing module beats
`*` there and everything in the imported module -/
example :
    exTree.noWrapper = true ∧ (∀ ts ∈ exTree.byPrecedence, ∀ t ∈ ts, t.uniform) ∧ tUnion.alts.length = 2 ∧
    (∀ ts ∈ exTree.byPrecedence, ∀ t ∈ ts, ∀ i a, t.alts[i]? = some a → (fun _ _ => true : AltMatch) t i = true →
      compat (targetData a) .element "a" = true) ∧
    (implFind (fun _ _ => true) .element "a" 0 true exTree).map (·.id) = some 3 := by
  refine ⟨by decide, ?_, by decide, ?_, by decide⟩
  · intro ts hts t ht _ a ha b hb
    rcases exTree_rules ts hts t ht with rfl | rfl <;>
      simp only [tStar, tA, List.mem_singleton] at ha hb <;> subst ha <;> subst hb <;> rfl
  · intro ts hts t ht i a hia _
    have ha := List.mem_of_getElem? hia
    rcases exTree_rules ts hts t ht with rfl | rfl <;>
      simp only [tStar, tA, List.mem_singleton] at ha <;> subst ha <;> decide

/-- **Counterexample to the full `find_quiet_spec` on the unchanged code** (known finding C10-union-mixed-quiet):
rules `*[1] | *` and `p:*`; the node is an element in p's namespace that is not a first child, so it matches `*`
(−0.5) and `p:*` (−0.25) but not `*[1]`.  §5.5 selects `p:*`; the quiet body files the union under its 0.5 entry,
tests the *whole* pattern there, and returns the union rule. -/
theorem find_quiet_spec_counterexample :
    Generated.C10.perAlternativeMatch = true ∨
    (let s := Src.mk false [tUnion, tNsWild] []
    let am : AltMatch := fun t i => (t.id == 1 && i == 1) || t.id == 2
    (implFind am .element "x" 0 true s).map (·.id) = some 1 ∧ (specWinner am 0 s).map (·.id) = some 2) := by
  decide

/-! ## the reporting body -/

/-- **find_reporting_eq_quiet (partial): conflict warnings never change the choice.** For every import tree without
simplified stylesheets the conflict-reporting body returns the same rule as the quiet body, provided that in each
module's located list (a) the priority the reporting body computes at match time for an entry equals the entry's
priority-or-default (`heff`: true whenever the rule has an explicit priority, or all alternatives share one default
score and none is a single step with a boolean predicate), and (b) rules with the same pattern string and priority
attribute have the same match result (`hpat`: true unless an included file rebinds a namespace prefix).  The unchanged
code violates the unconditional statement: `find_reporting_eq_quiet_counterexample_union`,
`…_counterexample_predicate`, `…_counterexample_pattern_string`. -/
theorem find_reporting_eq_quiet_partial (am : AltMatch) (k : NodeKind) (lname : String) (mode : Nat) (s : Src)
    (hnw : s.noWrapper = true)
    (heff : ∀ ts ∈ s.byPrecedence, ∀ m ∈ locate (buildTables ts) k lname, ∀ sc,
      wholeScore am m.tmpl = some sc → effPrio m sc = m.prioOrDefault)
    (hpat : ∀ ts ∈ s.byPrecedence, ∀ a ∈ locate (buildTables ts) k lname, ∀ b ∈ locate (buildTables ts) k lname,
      a.tmpl.pat = b.tmpl.pat → a.tmpl.prio = b.tmpl.prio → wholeScore am a.tmpl = wholeScore am b.tmpl) :
    implFind am k lname mode false s = implFind am k lname mode true s := by
  rw [imports_order am k lname mode false s hnw, imports_order am k lname mode true s hnw]
  apply firstSome_congr
  intro ts hts
  simp only [findInTables, Bool.false_eq_true, if_false, if_true]
  have hsorted := table_sorted ts k lname
  cases hper : Generated.C10.perAlternativeMatch with
  | true => exact findReportList_eq_quiet_alt hper am mode _ hsorted
  | false =>
    have hinv := foldl_reportStep_inv am mode (locate (buildTables ts) k lname) [] {}
      ⟨by intro pm h; simp at h, by intro _; exact ⟨rfl, rfl, rfl⟩, by intro f h; simp at h⟩
      (by simpa using hsorted) (heff ts hts) (by simpa using hpat ts hts)
    simp only [List.nil_append] at hinv
    rw [findQuietList_eq_find, entryMatches_old hper]
    unfold findReportList
    rw [reportStep_old hper]
    cases hf : (locate (buildTables ts) k lname).find? (entryMatchesW am mode) with
    | none =>
      obtain ⟨hb, _, hc⟩ := hinv.none_case hf
      simp [hb, hc]
    | some f =>
      obtain ⟨_, hcase⟩ := hinv.some_case f hf
      rcases hcase with ⟨hc, hb⟩ | ⟨b, tl, hc, _⟩
      · simp [hb, hc]
      · simp [hc]

/-- **find_reporting_eq_quiet — conflict warnings never change the choice (full statement)**, for the code with
per-alternative matching and filed priorities in the reporting body: for every import tree without simplified
stylesheets, every rule set, node and mode, both bodies of `findTemplate` return the same rule. No hypothesis on the
rules or on pattern matching. -/
theorem find_reporting_eq_quiet (hper : Generated.C10.perAlternativeMatch = true)
    (am : AltMatch) (k : NodeKind) (lname : String) (mode : Nat) (s : Src) (hnw : s.noWrapper = true) :
    implFind am k lname mode false s = implFind am k lname mode true s := by
  rw [imports_order am k lname mode false s hnw, imports_order am k lname mode true s hnw]
  apply firstSome_congr
  intro ts _
  simp only [findInTables, Bool.false_eq_true, if_false, if_true]
  exact findReportList_eq_quiet_alt hper am mode _ (table_sorted ts k lname)

/-- **Corollary (full): with conflict warnings enabled the §5.5 winner is instantiated.** -/
theorem find_reporting_spec (hper : Generated.C10.perAlternativeMatch = true)
    (am : AltMatch) (k : NodeKind) (lname : String) (mode : Nat) (s : Src)
    (hnw : s.noWrapper = true)
    (hsound : ∀ ts ∈ s.byPrecedence, ∀ t ∈ ts, ∀ i a, t.alts[i]? = some a → am t i = true →
      compat (targetData a) k lname = true) :
    implFind am k lname mode false s = specWinner am mode s := by
  rw [find_reporting_eq_quiet hper am k lname mode s hnw, find_quiet_spec hper am k lname mode s hnw hsound]

/-- **find_reporting_eq_quiet with syntactic hypotheses.** The two bodies agree for every import tree without
simplified stylesheets in which every rule is `stable` (explicit priority, or one default score shared by all
alternatives and equal to their match-time score — i.e. no union with mixed defaults and no bare step with a boolean
predicate) and, inside a module, rules with the same pattern string and priority attribute are the same rule. -/
theorem find_reporting_eq_quiet_stable (am : AltMatch) (k : NodeKind) (lname : String) (mode : Nat) (s : Src)
    (hnw : s.noWrapper = true)
    (hst : ∀ ts ∈ s.byPrecedence, ∀ t ∈ ts, t.stable)
    (hdistinct : ∀ ts ∈ s.byPrecedence, ∀ a ∈ locate (buildTables ts) k lname, ∀ b ∈ locate (buildTables ts) k lname,
      a.tmpl.pat = b.tmpl.pat → a.tmpl.prio = b.tmpl.prio → a.tmpl = b.tmpl) :
    implFind am k lname mode false s = implFind am k lname mode true s :=
  find_reporting_eq_quiet_partial am k lname mode s hnw
    (fun ts hts => heff_of_stable am k lname ts (hst ts hts))
    (fun ts hts a ha b hb h1 h2 => by rw [hdistinct ts hts a ha b hb h1 h2])

example : tStar.stable ∧ tA.stable ∧ ¬ tUnion.stable := by
  refine ⟨?_, ?_, ?_⟩
  · intro _ a ha b hb; simp only [tStar, List.mem_singleton] at ha hb; subst ha; subst hb; rfl
  · intro _ a ha b hb; simp only [tA, List.mem_singleton] at ha hb; subst ha; subst hb; rfl
  · intro h
    have := h rfl ⟨.wild false false, .posPred⟩ (by simp [tUnion]) ⟨.wild false false, .simple⟩ (by simp [tUnion])
    revert this; decide

/-- **Corollary: with conflict warnings enabled the §5.5 winner is instantiated as well**, under the hypotheses of
both partial theorems. -/
theorem find_reporting_spec_partial (am : AltMatch) (k : NodeKind) (lname : String) (mode : Nat) (s : Src)
    (hnw : s.noWrapper = true)
    (huni : Generated.C10.perAlternativeMatch = false → ∀ ts ∈ s.byPrecedence, ∀ t ∈ ts, t.uniform)
    (hsound : ∀ ts ∈ s.byPrecedence, ∀ t ∈ ts, ∀ i a, t.alts[i]? = some a → am t i = true →
      compat (targetData a) k lname = true)
    (heff : ∀ ts ∈ s.byPrecedence, ∀ m ∈ locate (buildTables ts) k lname, ∀ sc,
      wholeScore am m.tmpl = some sc → effPrio m sc = m.prioOrDefault)
    (hpat : ∀ ts ∈ s.byPrecedence, ∀ a ∈ locate (buildTables ts) k lname, ∀ b ∈ locate (buildTables ts) k lname,
      a.tmpl.pat = b.tmpl.pat → a.tmpl.prio = b.tmpl.prio → wholeScore am a.tmpl = wholeScore am b.tmpl) :
    implFind am k lname mode false s = specWinner am mode s := by
  rw [find_reporting_eq_quiet_partial am k lname mode s hnw heff hpat,
    find_quiet_spec_partial am k lname mode s hnw huni hsound]

/-- the hypotheses are satisfiable with a real three-way tie (the reporting body warns and still returns the last
rule) -/
example :
    let s := Src.mk false [tStar, { tStar with id := 5, pat := 5 }, { tStar with id := 6, pat := 6 }] []
    let am : AltMatch := fun _ _ => true
    (implFind am .element "a" 0 false s).map (·.id) = some 6 ∧ (implFind am .element "a" 0 true s).map (·.id) = some 6 ∧
    reportWarns am 0 (locate (buildTables s.templates) .element "a") = true := by
  decide

/-- **Counterexample (union patterns; known findings C10-union-mixed-quiet / -reporting).** Same rules and node as
`find_quiet_spec_counterexample`: the two bodies return different rules — the warning switch changes the choice. And
with `* | a` against `a` at priority −0.25 on an `a` element it is the reporting body that departs from §5.5: it
scores the union by its *first* matching alternative (−0.5). -/
theorem find_reporting_eq_quiet_counterexample_union :
    Generated.C10.perAlternativeMatch = true ∨
    ((let s := Src.mk false [tUnion, tNsWild] []
     let am : AltMatch := fun t i => (t.id == 1 && i == 1) || t.id == 2
     (implFind am .element "x" 0 true s).map (·.id) = some 1 ∧ (implFind am .element "x" 0 false s).map (·.id) = some 2) ∧
    (let tU : Tmpl := { id := 1, mode := 0, prio := none, pat := 1,
                        alts := [⟨.wild false false, .simple⟩, ⟨.name false "a", .simple⟩] }
     let s := Src.mk false [tU, { tA with prio := some (-25) }] []
     let am : AltMatch := fun _ _ => true
     (implFind am .element "a" 0 false s).map (·.id) = some 3 ∧ (implFind am .element "a" 0 true s).map (·.id) = some 1 ∧
       (specWinner am 0 s).map (·.id) = some 1)) := by
  decide

/-- **Counterexample (boolean predicate; known finding C10-predicate-priority-reporting).** `a[@x]` (default priority
0.5) against `a` at priority 0.25 on an `a` element with an `x` attribute: §5.5 and the quiet body select `a[@x]`; the
reporting body takes the priority from the match score, which a boolean predicate leaves at the node test's 0. -/
theorem find_reporting_eq_quiet_counterexample_predicate :
    Generated.C10.perAlternativeMatch = true ∨
    (let tP : Tmpl := { id := 1, mode := 0, prio := none, pat := 1, alts := [⟨.name false "a", .boolPred⟩] }
    let s := Src.mk false [tP, { tA with prio := some 25 }] []
    let am : AltMatch := fun _ _ => true
    (implFind am .element "a" 0 true s).map (·.id) = some 1 ∧ (specWinner am 0 s).map (·.id) = some 1 ∧
      (implFind am .element "a" 0 false s).map (·.id) = some 3) := by
  decide

/-- **Counterexample (equal pattern strings; known finding C10-duplicate-pattern-string).** Two rules with the same
pattern string `p:a` in one module, the later one from an included file that binds `p` to another namespace, so only
the earlier one matches the node.  The quiet body returns it; the reporting body evaluates the later rule, then skips the
earlier one as a "duplicate" and returns nothing (the built-in rule is applied). -/
theorem find_reporting_eq_quiet_counterexample_pattern_string :
    Generated.C10.dupSkipByPatternString = false ∨
    (let t1 : Tmpl := { tA with id := 1, pat := 7 }
    let t2 : Tmpl := { tA with id := 2, pat := 7 }
    let s := Src.mk false [t1, t2] []
    let am : AltMatch := fun t _ => t.id == 1
    (implFind am .element "a" 0 true s).map (·.id) = some 1 ∧ (specWinner am 0 s).map (·.id) = some 1 ∧
      implFind am .element "a" 0 false s = none) := by
  decide

/-- **Counterexample (`key()` patterns; known finding C10-key-pattern-nonelement).** A rule `match="key('k','v')"`
where the key selects a text node: `getTargetData` files a bare function step under the element and attribute
wildcard lists only, so `findTemplate` never sees it for text, comment, processing-instruction or root nodes. -/
theorem key_pattern_counterexample :
    Generated.C10.functionTargetsAllLists = true ∨
    (let tK : Tmpl := { id := 1, mode := 0, prio := none, pat := 1, alts := [⟨.function, .simple⟩] }
    let s := Src.mk false [tK] []
    let am : AltMatch := fun _ _ => true
    implFind am .text "" 0 true s = none ∧ implFind am .text "" 0 false s = none ∧
      (specWinner am 0 s).map (·.id) = some 1) := by
  decide

/-- **Counterexample (imported simplified stylesheet; known finding C10-imported-simplified-stylesheet).** A
simplified stylesheet is equivalent to a module with the single rule `match="/"` (§2.3); imported, its
`findTemplate` returns that rule for every node and every mode. -/
theorem wrapperless_counterexample :
    Generated.C10.wrapperlessAnswersAll = false ∨
    (let tW : Tmpl := { id := 1, mode := 0, prio := none, pat := 1, alts := [⟨.fromRoot, .simple⟩] }
    let s := Src.mk false [] [.mk true [tW] []]
    let am : AltMatch := fun _ _ => false
    (implFind am .element "a" 2 true s).map (·.id) = some 1 ∧ specWinner am 2 s = none) := by
  decide

/-! ## the unconditional statement for the code as committed -/

/-- **What the translator reads off the committed source** (re-checked on every run; a regression of any of the five
repairs makes this — and with it the theorems below — fail): per-alternative matching with filed priorities in both
bodies (c733dd4), a simplified stylesheet answers for the root in the default mode only (baf9507), `key()`/`id()`
targets are filed in every list (ca5740d), the reporting body skips only further alternatives of the best rule
(4202302/c733dd4), `xsl:call-template` keeps the current template rule (be8ed0c). -/
theorem code_as_committed :
    Generated.C10.perAlternativeMatch = true ∧ Generated.C10.wrapperlessAnswersAll = false ∧
    Generated.C10.functionTargetsAllLists = true ∧ Generated.C10.dupSkipByPatternString = false ∧
    Generated.C10.callTemplateChangesCurrentRule = false := by decide

/-- **routing_sound (discharges `hsound`).** Whatever node the last step of an alternative can select — by XPath
semantics: `lastStepAdmits`, e.g. `text()` only text nodes, `p:*` only elements, `key()` anything, `/` only the root —
consults a list in which `addTemplate` files the alternative's entry (`getTargetData` target string and type → routing
chain → `addToTable` merge → `locateMatchPatternDataList`). -/
theorem routing_sound (a : AltDesc) (k : NodeKind) (lname : String) (h : lastStepAdmits a.last k lname = true) :
    compat (targetData a) k lname = true :=
  compat_of_admits code_as_committed.2.2.1 a k lname h

example : lastStepAdmits (.wild false true) .element "x" = true ∧ lastStepAdmits .function .text "" = true ∧
    lastStepAdmits .node .root "" = false ∧ lastStepAdmits (.name true "x") .attribute "x" = true := by decide

/-- **simplified_stylesheet_is_slash_module (discharges `hnw`).** A simplified stylesheet, modelled as XSLT §2.3
defines it — a module whose only rule is `match="/"` (no mode, no priority) —, answers `findTemplate` exactly like that
module's tables would: its rule for the root node in the default mode when `/` matches, nothing otherwise. -/
theorem simplified_stylesheet_is_slash_module (am : AltMatch) (t : Tmpl) (h : t.isSlashRule) (k : NodeKind)
    (lname : String) (mode : Nat) (quiet : Bool) :
    findInTables am k lname mode quiet [t] = if k = .root ∧ mode = 0 ∧ am t 0 = true then some t else none :=
  slashRule_find code_as_committed.1 am t h k lname mode quiet

/-- **template_conflict_resolution — C10 at full strength for the committed code.** For every well-formed module tree
(any import depth; `xsl:include` already expanded into the including module, so included rules have the includer's
precedence; simplified stylesheets allowed), every rule set (any union patterns, explicit or default priorities,
modes), every node kind/name and every mode: both bodies of `Stylesheet::findTemplate` — conflict warnings quiet or
reported — return the rule XSLT 1.0 §5.5 prescribes: highest import precedence, then highest priority (explicit, or the
default of the alternative that matches), then last in document order; and nothing (⇒ built-in rule,
`builtin_rule_when_none`) exactly when no rule matches.  The only assumption left is about the abstract matcher `am`
(`MatcherRespectsSteps`: it accepts an alternative only for nodes the alternative's last step can select, and `/`
accepts the root) — pattern matching itself is property C09. -/
theorem template_conflict_resolution (am : AltMatch) (k : NodeKind) (lname : String) (mode : Nat) (s : Src)
    (hwf : s.wf) (hsem : MatcherRespectsSteps am k lname s) :
    implFind am k lname mode true s = specWinner am mode s ∧
    implFind am k lname mode false s = specWinner am mode s := by
  obtain ⟨hper, hwr, _, _, _⟩ := code_as_committed
  have hq : implFind am k lname mode true s = specWinner am mode s := by
    unfold implFind
    rw [Src.find_eq_firstSome_wf hper hwr am k lname mode true hsem.slash s hwf, specWinner,
      specWinnerIn_eq_firstSome]
    exact firstSome_congr fun ts hts =>
      quiet_sheet_spec am k lname mode ts (fun h => by rw [hper] at h; cases h)
        (fun t ht i a hia ham => routing_sound a k lname (hsem.step ts hts t ht i a hia ham))
  refine ⟨hq, ?_⟩
  rw [← hq]
  unfold implFind
  rw [Src.find_eq_firstSome_wf hper hwr am k lname mode false hsem.slash s hwf,
    Src.find_eq_firstSome_wf hper hwr am k lname mode true hsem.slash s hwf]
  apply firstSome_congr
  intro ts _
  simp only [findInTables, Bool.false_eq_true, if_false, if_true]
  exact findReportList_eq_quiet_alt hper am mode _ (table_sorted ts k lname)

/-- the hypotheses are satisfiable by a tree that imports a simplified stylesheet: the root gets that stylesheet's
rule, an element the built-in rule (no rule) -/
example :
    let tW : Tmpl := { id := 1, mode := 0, prio := none, pat := 1, alts := [⟨.fromRoot, .simple⟩] }
    let s := Src.mk false [tA] [.mk true [tW] []]
    (implFind (fun t _ => t.id == 1) .root "" 0 true s).map (·.id) = some 1 ∧
    implFind (fun _ _ => false) .element "b" 0 true s = none ∧ tW.isSlashRule := by
  refine ⟨by decide, by decide, rfl, rfl, rfl⟩

/-- **conflicts_array_bound.** The reporting body writes to `conflicts[]` (a 100-entry stack array, or a vector of
`m_patternCount` entries when there are more patterns) at most as many entries as the consulted list has: after the
whole list `nConflicts ≤ list length`, so with more than 100 conflicting rules the vector branch is large enough
(each list holds an entry at most once, hence at most `m_patternCount` entries). -/
theorem conflicts_array_bound (am : AltMatch) (mode : Nat) (l : List MPD) :
    (l.foldl (reportStep am mode) {}).conflicts.length ≤ l.length := by
  rw [reportStep_alt code_as_committed.1]
  exact conflicts_le_length am mode l

/-- **conflicts_within_capacity.** For every rule list and node, the number of entries the reporting body writes to
`conflicts[]` never exceeds the capacity the code provides: the 100-entry stack array when `m_patternCount ≤ 100`, the
vector of `m_patternCount` entries otherwise (each located list holds at most `m_patternCount` entries:
`length_locate_le`). More than 100 conflicting rules are therefore safe. -/
theorem conflicts_within_capacity (am : AltMatch) (mode : Nat) (ts : List Tmpl) (k : NodeKind) (lname : String) :
    ((locate (buildTables ts) k lname).foldl (reportStep am mode) {}).conflicts.length
      ≤ (if (buildTables ts).patternCount > 100 then (buildTables ts).patternCount else 100) := by
  have h1 := conflicts_array_bound am mode (locate (buildTables ts) k lname)
  have h2 := length_locate_le ts k lname
  split <;> omega

/-! ## apply-imports and built-in rules -/

/-- **applyImports_scope.** `xsl:apply-imports` inside a rule of module `cur` searches exactly the modules `cur`
imports (transitively), in decreasing import precedence, and never `cur`'s own rules or anything that outranks it:
the result does not depend on `cur`'s rules, and it is the first hit over `importsByPrecedence cur.imports` — the very
list §5.6's `specApplyImports` ranges over. -/
theorem applyImports_scope (am : AltMatch) (k : NodeKind) (lname : String) (mode : Nat) (quiet : Bool)
    (ts : List Tmpl) (imps : List Src) (hnw : importsNoWrapper imps = true) :
    implApplyImports am k lname mode quiet (.mk false ts imps)
      = firstSome (findInTables am k lname mode quiet) (importsByPrecedence imps) ∧
    specApplyImports am mode (.mk false ts imps) = firstSome (bestInSheet am mode) (importsByPrecedence imps) := by
  constructor
  · have := imports_find_eq_firstSome am k lname mode quiet imps hnw []
    simp only [implApplyImports, Src.build, Built.find, Bool.false_eq_true, if_false, if_true]
    rw [this]
    simp [findInImports]
  · simp [specApplyImports, Src.imports, specWinnerIn_eq_firstSome]

/-- **applyImports_spec — §5.6 at full strength for the committed code**: `xsl:apply-imports` in a rule of module `cur`
instantiates exactly the rule `specApplyImports` prescribes (the §5.5 winner among the modules `cur` imports, simplified
stylesheets included), in either body; nothing ⇒ built-in rule. -/
theorem applyImports_spec (am : AltMatch) (k : NodeKind) (lname : String) (mode : Nat) (quiet : Bool)
    (ts : List Tmpl) (imps : List Src) (hwf : importsWf imps)
    (hsem : MatcherRespectsSteps am k lname (.mk false ts imps)) :
    implApplyImports am k lname mode quiet (.mk false ts imps) = specApplyImports am mode (.mk false ts imps) := by
  obtain ⟨hper, hwr, _, _, _⟩ := code_as_committed
  have h := imports_find_eq_firstSome_wf hper hwr am k lname mode quiet hsem.slash imps hwf []
  simp only [implApplyImports, Src.build, Built.find, Bool.false_eq_true, if_false, if_true]
  rw [h]
  simp only [findInImports, Option.or_none, specApplyImports, Src.imports, specWinnerIn_eq_firstSome]
  apply firstSome_congr
  intro ms hms
  have hmem : ms ∈ (Src.mk false ts imps).byPrecedence := by
    simp only [Src.byPrecedence]; exact List.mem_cons_of_mem _ hms
  have hq := quiet_sheet_spec am k lname mode ms (fun h => by rw [hper] at h; cases h)
    (fun t ht i a hia ham => routing_sound a k lname (hsem.step ms hmem t ht i a hia ham))
  cases quiet with
  | true => exact hq
  | false =>
    rw [← hq]
    simp only [findInTables, Bool.false_eq_true, if_false, if_true]
    exact findReportList_eq_quiet_alt hper am mode _ (table_sorted ms k lname)

example :
    let cur := Src.mk false [tA] [.mk false [tStar] []]
    (implApplyImports (fun _ _ => true) .element "a" 0 true cur).map (·.id) = some 4 := by decide

/-- **builtin_rule_when_none.** When no rule is found for a node the model's dispatch is the built-in rule of the
node type (§5.8, `findTemplateToTransformChild`): element/root — process the children in the same mode; text/attribute —
copy the string value; comment, processing instruction, namespace declaration — nothing. -/
theorem builtin_rule_when_none (doc : Array NodeRec) (findTop : Nat → Nat → Option Tmpl)
    (findImp : Tmpl → Nat → Nat → Option Tmpl) (named : Nat → Option Tmpl) (ck dk wc : Bool) (f n mode : Nat)
    (param : List Tok) (h : findTop n mode = none) :
    processWith doc findTop findImp named ck dk wc (f + 1) n mode none param =
      match (doc.getD n default).kind with
      | .element | .root =>
        (doc.getD n default).kids.flatMap fun c => processWith doc findTop findImp named ck dk wc f c mode none []
      | .text | .attribute => [.text (doc.getD n default).text]
      | _ => [] := by
  simp only [processWith, h]
  cases (doc.getD n default).kind <;> rfl

/-- **builtin_rule_after_apply_imports.** `xsl:apply-imports` that finds no imported rule falls back to the same
built-in rule of the node type, in the same mode (the children are then processed with the whole stylesheet again). -/
theorem builtin_rule_after_apply_imports (doc : Array NodeRec) (findTop : Nat → Nat → Option Tmpl)
    (findImp : Tmpl → Nat → Nat → Option Tmpl) (named : Nat → Option Tmpl) (ck dk wc : Bool) (f n mode : Nat) (cur : Tmpl)
    (h : findImp cur n mode = none) :
    processWith doc findTop findImp named ck dk wc (f + 1) n mode (some cur) [] =
      match (doc.getD n default).kind with
      | .element | .root =>
        (doc.getD n default).kids.flatMap fun c => processWith doc findTop findImp named ck dk wc f c mode none []
      | .text | .attribute => [.text (doc.getD n default).text]
      | _ => [] := by
  simp only [processWith, h]
  cases (doc.getD n default).kind <;> rfl

/-- **applyImports_call_template_scope.** `xsl:call-template` does not change the current template rule (§5.6): when
rule `t` calls the named template `nt` and `nt` does `xsl:apply-imports`, the search is the one `applyImports_scope`
describes for **`t`'s** module when `callKeeps = true` (specification; implementation with
proposed/C10-call-template-current-rule.diff), and for `nt`'s module when `callKeeps = false` (unchanged
`ElemTemplate::startElement`, known finding C10-call-template-current-rule). -/
theorem applyImports_call_template_scope (doc : Array NodeRec) (findTop : Nat → Nat → Option Tmpl)
    (findImp : Tmpl → Nat → Nat → Option Tmpl) (named : Nat → Option Tmpl) (ck dk wc : Bool) (f n mode : Nat)
    (t nt : Tmpl) (hfound : findTop n mode = some t) (hcall : t.call ≠ 0) (hnamed : named t.call = some nt)
    (hai : nt.applyImports = true) (hnoai : t.applyImports = false) (hnowp : t.wpMode = 0)
    (hnb : t.bare = false) :
    processWith doc findTop findImp named ck dk wc (f + 1) n mode none [] =
      .rule t.id :: .rule nt.id ::
        processWith doc findTop findImp named ck dk wc f n mode (some (if ck then t else nt)) [] := by
  simp [processWith, hfound, hcall, hnamed, hai, hnoai, hnowp, hnb]

/-- **direct_call_template_scope.** A rule whose body is only `<xsl:call-template name="n"/>` runs the named template
directly (Xalan's `eHasDirectTemplate` short cut, the rule itself being the invoker); the current template rule must
still be the rule (§5.6): `apply-imports` in `n` searches from the rule's module iff `dk` (`true` in the specification;
implementation with proposed/C10-direct-call-template-current-rule.diff). -/
theorem direct_call_template_scope (doc : Array NodeRec) (findTop : Nat → Nat → Option Tmpl)
    (findImp : Tmpl → Nat → Nat → Option Tmpl) (named : Nat → Option Tmpl) (ck dk wc : Bool) (f n mode : Nat)
    (t nt : Tmpl) (hfound : findTop n mode = some t) (hb : t.bare = true) (hnamed : named t.call = some nt)
    (hai : nt.applyImports = true) (param : List Tok) :
    processWith doc findTop findImp named ck dk wc (f + 1) n mode none param =
      .rule nt.id :: processWith doc findTop findImp named ck dk wc f n mode (some (if dk then t else nt)) [] := by
  simp [processWith, hfound, hb, hnamed, hai]

/-- **with_param_caller_context.** The value of an `xsl:with-param` is computed in the context of the *caller*
(§11.6): when rule `t`, running in mode `mode`, does `<xsl:apply-templates select="." mode="t.wpMode">` with a
parameter whose body is `xsl:apply-imports`, that apply-imports is the search `applyImports_scope`/`applyImports_spec`
describe for `t`'s module **in mode `mode`** when `wc = true` (specification; implementation with
proposed/C10-with-param-caller-mode.diff) — and in the callee's mode `t.wpMode` when `wc = false`
(`ElemApplyTemplates::startElement` of the unchanged code, known finding C10-with-param-callee-mode); the result is
handed to the rule chosen for the node in mode `t.wpMode`, which prints it after its marker. -/
theorem with_param_caller_context (doc : Array NodeRec) (findTop : Nat → Nat → Option Tmpl)
    (findImp : Tmpl → Nat → Nat → Option Tmpl) (named : Nat → Option Tmpl) (ck dk wc : Bool) (f n mode : Nat)
    (t : Tmpl) (hfound : findTop n mode = some t) (hcall : t.call = 0) (hwp : t.wpMode ≠ 0) (hbody : t.wpCall = 0)
    (hnoai : t.applyImports = false) (hnb : t.bare = false) :
    processWith doc findTop findImp named ck dk wc (f + 1) n mode none [] =
      .rule t.id ::
        processWith doc findTop findImp named ck dk wc f n t.wpMode none
          (processWith doc findTop findImp named ck dk wc f n (if wc then mode else t.wpMode) (some t) []) := by
  simp [processWith, hfound, hcall, hwp, hbody, hnoai, hnb]

end XalanModel.Props.C10
