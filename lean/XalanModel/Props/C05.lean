import XalanModel.C05.SaxProofs
import XalanModel.C05.StreamProofs
import XalanModel.C05.IndexProofs
import XalanModel.C05.StreamHoldProofs
import XalanModel.C05.WrapperProofs
import XalanModel.C05.XDomProofs
import XalanModel.C05.StreamFailProofs
import XalanModel.C05.PIScanProofs
import XalanModel.C05.Funnel
import XalanModel.C05.TargetProofs
import XalanModel.Generated.C05_Funnel
import XalanModel.Generated.C05_Wiring
import XalanModel.Generated.C05_Process
import XalanModel.Generated.C05_CliOpts
import XalanModel.Generated.C05_Liaison
/-!
# C05 — the result does not depend on how source, stylesheet and output are supplied

Property theorems only (helpers: `XalanModel/C05/*Proofs.lean`).  Three mechanisms carry the
property inside xalan-c; each is modelled as written and proved for every input:

(i)   **source side** — `XalanSourceTreeContentHandler` (parser *and* `XalanDocumentBuilder` users
      feed it): however the character data is cut into `characters()` calls, the tree built is the
      XPath normal form of the document (`sax_build_eq_norm`, `sax_chunking_independent`,
      `sax_no_adjacent_text`);
(ii)  **result side** — `XalanOutputStreamPrintWriter`/`XalanOutputStream`/
      `XalanTransformerOutputStream`: for every operation history, every buffer size and buffer
      state, the concatenation of the chunks handed to the callback is exactly the byte stream the
      serializer wrote (`callback_concat…`), and the C-API data buffer reads back as that stream
      (`capi_data_cstring`; not for outputs with a zero byte: `capi_data_utf16_counterexample`);
(iii) **API side** — every public `transform` overload, every `XalanTransformTo*` C function and
      the command-line program funnel into the one `doTransform`, which is the only caller of
      `XSLTProcessor::process` (table regenerated from the source on every run; `by decide`).

What is *not* proved here (hence `forms_equivalent_partial`): the XSLT engine between the source
tree and the serializer is a parameter; Xerces' parser, the Xerces-DOM wrapper's numbering and the
DOM / source-tree result targets are covered only by the real-API product run
(`harness/c05_forms.cpp`), not by a theorem.
-/
namespace XalanModel.Props.C05
open XalanModel.C05
open XalanModel.Generated

/-! ## (i) SAX text merging -/

/-- **Refinement.**  For every document forest `f` (text nodes fragmented in any way, empty
fragments included) that is acceptable at document level, the content handler's state machine
run on the SAX events of `f` builds exactly the XPath normal form of `f`. -/
theorem sax_build_eq_norm (f : Forest) (h : TopOK f false = true) :
    build true (events f) = .ok (normDoc f) :=
  build_events f h

/-- **Chunking independence.**  Any two ways of cutting the character data of a document into
`characters()` calls build the same tree, and that tree has no empty and no adjacent `text`
nodes at any depth. -/
theorem sax_chunking_independent (f g : Forest) (hr : Refrag f g) (h : TopOK f false = true) :
    build true (events f) = build true (events g) ∧
    ∃ t, build true (events f) = .ok t ∧ Normal t = true := by
  have hg : TopOK g false = true := by rw [← refrag_topOK hr]; exact h
  refine ⟨?_, normDoc f, build_events f h, normal_normDoc f⟩
  rw [build_events f h, build_events g hg, refrag_normDoc hr]

/-- With no `ignorableWhitespace` events (a parser only reports them for element-only content, where
no character data can be adjacent) the built tree satisfies the XPath data model: never two
adjacent text nodes of either C++ class, none empty. -/
theorem sax_no_adjacent_text (f : Forest) (h : TopOK f false = true) (hi : NoIws f = true) :
    ∃ t, build true (events f) = .ok t ∧ XPathNormal t = true :=
  ⟨normDoc f, build_events f h, xpathNormal_of _ (normal_normDoc f) (noIws_normDoc f hi)⟩

/-- **Node index = document order.**  `XalanSourceTreeDocument` numbers nodes in creation order
(`m_nextIndexValue++`) and `isNodeAfter` compares those numbers; text nodes are created late, when the
accumulated text is flushed.  For every document and every fragmentation of its character data the order in
which the handler creates nodes (element, its attribute nodes — namespace declarations first —, text, comment,
PI) is exactly the document order of the tree it builds; so indices increase strictly in document order and the
k-th node in document order has index k+2 whatever the chunking. -/
theorem sax_index_order (f : Forest) (h : TopOK f false = true) :
    creationLog (events f) { accumulate := true } = preorder (normDoc f) :=
  creationLog_doc f _ false rfl rfl rfl rfl rfl h

/-- non-vacuity of `sax_index_order`: fragmented text before and after a child element with a namespace declaration
written *after* an ordinary attribute — creation order = document order, namespace declaration first -/
example :
    let f := Forest.elem [97] [([105, 100], [49]), ("xmlns:q".toList.map Char.toNat, [117])]
                (.text [120] (.text [121] (.elem [98] [] .nil (.text [] (.text [122] .nil))))) .nil
    TopOK f false = true ∧
    creationLog (events f) { accumulate := true } =
      [.elem [97], .attr xmlNsAttr.1 xmlNsAttr.2, .attr ("xmlns:q".toList.map Char.toNat) [117], .attr [105, 100] [49],
       .text [120, 121], .elem [98], .text [122]] := by
  decide

/-- **Xerces-DOM wrapper: index order = document order.**  `BuildWrapperTreeWalker` numbers the nodes of any DOM
forest in the order element, its attribute nodes (map order), its children, following siblings — the XPath document
order — with consecutive indices from 2 (the document node has 1). -/
theorem wrapper_index_order (f : Forest) :
    (wrapDocument f).map (·.1) = preorder f ∧
    (wrapDocument f).map (·.2) = List.range' 2 (preorder f).length :=
  ⟨(wrapWalk_spec f 2).1, (wrapWalk_spec f 2).2.1⟩

/-- **index_eq_structure.**  The native source tree built from any fragmentation of a document and the eagerly
built wrapper over the same document as a DOM in XPath normal form (what C05's quantifier asks of a DOM) give every
node the same index: the k-th node in document order has index k+2 in both, so `isNodeAfter`'s index comparison
orders any two nodes the same way in both representations. -/
theorem index_eq_structure (f : Forest) (h : TopOK f false = true) :
    (wrapDocument (normDoc f)).map (·.1) = creationLog (events f) { accumulate := true } ∧
    (wrapDocument (normDoc f)).map (·.2) = List.range' 2 (creationLog (events f) { accumulate := true }).length := by
  rw [sax_index_order f h]
  exact wrapper_index_order (normDoc f)

/-- non-vacuity: an element with two attributes, mixed children and a following comment -/
example :
    wrapDocument (.elem [97] [([105], [49]), ([107], [50])] (.text [120] (.elem [98] [] .nil (.comment [99] .nil))) (.pi [112] [] .nil)) =
      [(.elem [97], 2), (.attr [105] [49], 3), (.attr [107] [50], 4), (.text [120], 5), (.elem [98], 6), (.comment [99], 7), (.pi [112] [], 8)] := by
  decide

/-- Invariant over *every* event history (balanced or not): outside all elements nothing is held
in `m_textBuffer` (so `doCharacters` is never reached without a current element). -/
theorem sax_buffer_empty_outside_elements (evs : List Ev) (acc : Bool) (st : St)
    (h : run evs { accumulate := acc } = .ok st) (hs : st.stack = []) : st.buf = [] :=
  run_bufInv evs _ st (fun _ => rfl) h hs

/-- The hypothesis `NoIws` of `sax_no_adjacent_text` is needed: `characters("x")` followed by
`ignorableWhitespace(" ")` (a sequence outside the SAX contract, but a `XalanDocumentBuilder` user
can send it) leaves two adjacent text nodes.  Replayed on the real handler by the check
(corpus line 1). -/
theorem sax_iws_after_characters_counterexample :
    ∃ t, build true [.startElement [97] [], .characters [120], .ignorableWhitespace [32], .endElement] = .ok t ∧
      XPathNormal t = false := by
  exact ⟨_, rfl, by decide⟩

/-- `fAccumulateText = false` (never used by the library; constructor default is `true`) makes the
tree depend on the chunking — the flag is what the property rests on. -/
theorem sax_no_accumulate_counterexample :
    build false [.startElement [97] [], .characters [120], .characters [121], .endElement] ≠
    build false [.startElement [97] [], .characters [120, 121], .endElement] := by
  decide

/-- non-vacuity: a document with fragmented text at two depths, an empty fragment, a comment
between text runs and whitespace outside the document element satisfies the hypotheses, and a
genuinely different fragmentation of it is related by `Refrag`. -/
example :
    let f := Forest.text [32] (.elem [97] [([98], [99])]
                (.text [120] (.text [] (.text [121, 122] (.comment [45] (.text [119] (.elem [100] [] (.text [118] .nil) .nil))))))
                (.pi [112] [113] .nil))
    TopOK f false = true ∧ NoIws f = true ∧
    build true (events f) = .ok (.elem [97] (xmlNsAttr :: [([98], [99])])
        (.text [120, 121, 122] (.comment [45] (.text [119] (.elem [100] [] (.text [118] .nil) .nil)))) (.pi [112] [113] .nil)) := by
  decide

example : Refrag (chunks [[120], [], [121, 122]] (.comment [45] .nil)) (chunks [[120, 121], [122]] (.comment [45] .nil)) :=
  .texts _ _ _ _ (by decide) (.comment _ _ _ .nil)

/-! ## (ii) callback chunking, stream, C-API data -/

/-- a freshly constructed stream/print-writer pair: any buffer size, with or without flush handler -/
def fresh (bufSize : Nat) (fh : Bool) : WSt := { bufSize := bufSize, hasFlushHandler := fh }

/-- **callback_concat.**  For every history of print-writer operations, every buffer size and
either flush-handler setting: after the writer is closed, the concatenation of the chunks the
callback received is exactly the byte stream written (`specBytes`), provided the handler accepts
every chunk and the transcoder is additive. -/
theorem callback_concat (tr : List Nat → Bytes) (ha : Additive tr) (ops : List WOp) (bufSize : Nat) (fh : Bool) :
    received ((wrun tr ops (fresh bufSize fh)).close tr) = specBytes tr false ops := by
  have g0 : Good (fresh bufSize fh) := ⟨rfl, rfl, fun _ => rfl⟩
  obtain ⟨g, _, hb⟩ := wrun_good ha ops _ g0
  rw [close_good ha _ g, hb]
  simp [fresh, received, chunksOf, ha]

/-- **Every buffer state.**  The same from any reachable state (anything already delivered, anything
still buffered, either encoding mode): received-so-far ++ still-buffered ++ newly written. -/
theorem callback_concat_any_state (tr : List Nat → Bytes) (ha : Additive tr) (ops : List WOp) (st : WSt) (h : Good st) :
    received ((wrun tr ops st).close tr) = received st ++ enc tr st.utf16 st.buf ++ specBytes tr st.utf16 ops := by
  obtain ⟨g, _, hb⟩ := wrun_good ha ops _ h
  rw [close_good ha _ g, hb]

/-- The buffer size (512 by default, `setBufferSize`) and the presence of a flush handler never
change the bytes; they only move the chunk boundaries. -/
theorem callback_buffer_size_irrelevant (tr : List Nat → Bytes) (ha : Additive tr) (ops : List WOp)
    (n m : Nat) (fh fh' : Bool) :
    received ((wrun tr ops (fresh n fh)).close tr) = received ((wrun tr ops (fresh m fh')).close tr) := by
  rw [callback_concat tr ha, callback_concat tr ha]

/-- How the serializer cuts its own writes does not matter either. -/
theorem callback_rechunk (tr : List Nat → Bytes) (ha : Additive tr) (u : Bool) (a b : List Nat) (r : List WOp) :
    specBytes tr u (.wide (a ++ b) :: r) = specBytes tr u (.wide a :: .wide b :: r) ∧
    specBytes tr u (.wideChar (c : Nat) :: r) = specBytes tr u (.wide [c] :: r) ∧
    specBytes tr u (.flush :: r) = specBytes tr u r := by
  cases u <;> simp [specBytes, utf16Bytes_append, ha.2]

/-- the two transcoders the check drives are additive: UTF-16 pass-through (`m_writeAsUTF16`) is
handled inside the model; ASCII through the local code page is the identity -/
theorem ascii_additive : Additive (fun s => s) := ⟨rfl, fun _ _ => rfl⟩

/-- a toy transcoder that, like a real UTF-8 transcoder, needs both halves of a surrogate pair:
pair ↦ one byte `0xF0`, lone half ↦ `0xEF`, anything else ↦ its low byte -/
def trPair : List Nat → Bytes
  | [] => []
  | [u] => if 0xD800 ≤ u ∧ u < 0xE000 then [0xEF] else [u % 256]
  | h :: l :: r =>
    if 0xD800 ≤ h ∧ h < 0xDC00 ∧ 0xDC00 ≤ l ∧ l < 0xE000 then 0xF0 :: trPair r
    else (if 0xD800 ≤ h ∧ h < 0xE000 then 0xEF else h % 256) :: trPair (l :: r)

/-- The hypothesis `Additive tr` of `callback_concat` is needed, and the unchanged code is on the wrong
side of it: `FormatterToText` writes UTF-16 units one at a time, so a surrogate pair can be cut by the
stream buffer (here: buffer of 1 unit vs. 4 units) and the bytes delivered depend on the buffer size.
On the real code the lone half makes `XalanOutputStream::transcode` loop (known finding
`C05-text-surrogate-split`, replayed through method="text" output by the check). -/
theorem callback_surrogate_split_counterexample :
    ¬ Additive trPair ∧
    received ((wrun trPair [.wideChar 0xD83D, .wideChar 0xDE00] (fresh 1 true)).close trPair) ≠
    received ((wrun trPair [.wideChar 0xD83D, .wideChar 0xDE00] (fresh 4 true)).close trPair) := by
  refine ⟨fun h => ?_, by decide⟩
  have := h.2 [0xD83D] [0xDE00]
  revert this
  decide

/-- **callback_concat for a pair-aware transcoder (fixed stream).**  With `proposed/C05-text-surrogate-split.diff`
(a trailing leading surrogate stays in the buffer when it is full; long runs are written directly only when that
cannot separate a pair) the additivity hypothesis is no longer needed: for every transcoder that treats code points
independently (`PairAdditive`: additive over every cut that does not separate a surrogate pair — true of real
UTF-8/ISO-8859-x/… transcoders), every history, buffer size and flush-handler setting, the chunks concatenate to the
transcoding of the whole runs of wide units between synchronisation points (`specR`). -/
theorem callback_concat_pair_aware (tr : List Nat → Bytes) (hp : PairAdditive tr) (ops : List WOp) (bufSize : Nat) (fh : Bool) :
    received ((wrunH tr ops (fresh bufSize fh)).close tr) = specR tr false [] ops := by
  have g0 : Good (fresh bufSize fh) := ⟨rfl, rfl, fun _ => rfl⟩
  obtain ⟨g, _, hb⟩ := wrunH_good hp ops _ g0
  rw [closeH_good hp _ g, hb]
  simp [fresh, received, chunksOf]

/-- hence the buffer size is irrelevant for the fixed stream even for pair-aware transcoders -/
theorem callback_buffer_size_irrelevant_pair_aware (tr : List Nat → Bytes) (hp : PairAdditive tr) (ops : List WOp)
    (n m : Nat) (fh fh' : Bool) :
    received ((wrunH tr ops (fresh n fh)).close tr) = received ((wrunH tr ops (fresh m fh')).close tr) := by
  rw [callback_concat_pair_aware tr hp, callback_concat_pair_aware tr hp]

/-- non-vacuity / contrast with `callback_surrogate_split_counterexample`: the same pair written unit by unit
through the fixed stream gives the same bytes behind a 1-unit and a 4-unit buffer, and that is `specR` -/
example :
    received ((wrunH trPair [.wideChar 0xD83D, .wideChar 0xDE00, .wideChar 0x61] (fresh 1 true)).close trPair) = [0xF0, 0x61] ∧
    received ((wrunH trPair [.wideChar 0xD83D, .wideChar 0xDE00, .wideChar 0x61] (fresh 4 true)).close trPair) = [0xF0, 0x61] ∧
    specR trPair false [] [.wideChar 0xD83D, .wideChar 0xDE00, .wideChar 0x61] = [0xF0, 0x61] := by
  decide

/-- **A concrete pair-aware transcoder.**  The UTF-16 → UTF-8 model `trUtf8` (pairs ↦ 4 bytes, other units ↦ 1–3 bytes)
is additive over every cut that does not separate a surrogate pair. -/
theorem utf8_pair_additive : PairAdditive trUtf8 := trUtf8_pairAdditive

/-- … and it is *not* additive (a cut between the halves of a pair changes the bytes), so `callback_concat` does not
apply to it while `callback_concat_pair_aware` does. -/
theorem utf8_not_additive_counterexample : ¬ Additive trUtf8 := by
  intro h
  have := h.2 [0xD83D] [0xDE00]
  revert this
  decide

/-- **callback_concat for UTF-8 output (fixed stream).**  For every history of print-writer operations, every buffer size
and flush-handler setting, the callback receives exactly the UTF-8 of the runs of UTF-16 units written between
synchronisation points — whatever units the serializer's writes and the stream buffer cut the text at. -/
theorem callback_concat_utf8 (ops : List WOp) (bufSize : Nat) (fh : Bool) :
    received ((wrunH trUtf8 ops (fresh bufSize fh)).close trUtf8) = specR trUtf8 false [] ops :=
  callback_concat_pair_aware trUtf8 trUtf8_pairAdditive ops bufSize fh

/-- **C-API data buffer.**  `XalanTransformToData` hands back the stream's bytes followed by a NUL
and no length: a C caller reads back exactly the output iff it has no zero byte. -/
theorem capi_data_cstring (out : Bytes) (h : ∀ b ∈ out, b ≠ 0) : cstr (capiData out) = out :=
  cstr_capiData out h

/-- With the length reported next to the pointer (`proposed/C05-capi-data-length.diff`:
`XalanTransformToDataWithLength`) the caller reads back exactly the output, whatever bytes it contains. -/
theorem capi_data_with_length (out : Bytes) : (capiData out).take out.length = out := by
  simp [capiData]

/-- With `encoding="UTF-16"` the data buffer cannot be read back as a C string: for the output
`<a/>` a caller sees 3 of 10 bytes.  (Known finding `C05-capi-data-utf16`; replayed through the
real `XalanTransformToData` by the check.) -/
theorem capi_data_utf16_counterexample :
    let out := received ((wrun (fun s => s) [.setUtf16, .wide [60, 97, 47, 62], .flush] (fresh 512 true)).close (fun s => s))
    out = [255, 254, 60, 0, 97, 0, 47, 0, 62, 0] ∧ cstr (capiData out) = [255, 254, 60] := by
  decide

/-- After a refused chunk the run is frozen (the exception has left the transformation). -/
theorem callback_failure_stops (tr : List Nat → Bytes) (st : WSt) (h : st.failed = true) (ops : List WOp) :
    wrun tr ops st = st := by
  induction ops with
  | nil => rfl
  | cons op ops ih =>
    have : wstep tr st op = st := by simp [wstep, h]
    show wrun tr ops (wstep tr st op) = st
    rw [this]; exact ih

/-- **Refused chunk.**  For every history, buffer size and flush-handler setting, and a handler that reports a short
count for its (k+1)-th chunk (any k): the bytes handed to the handler — the refused chunk included, the
print-writer's closing flush included — are a prefix of the byte stream the serializer wrote.  (Simulation of the
budgeted run by the unfailing one; `XalanModel/C05/StreamFailProofs.lean`.) -/
theorem callback_failure_prefix (tr : List Nat → Bytes) (ha : Additive tr) (ops : List WOp) (bufSize k : Nat) (fh : Bool) :
    received ((wrun tr ops { fresh bufSize fh with budget := some k }).close tr) <+: specBytes tr false ops := by
  have t0 : Twin { fresh bufSize fh with budget := some k } (fresh bufSize fh) := .inl ⟨rfl, rfl⟩
  obtain ⟨t1, hb1⟩ := twin_wrun tr ops _ _ t0 rfl
  have t2 := ((ok_close tr).pres t1 hb1).1
  have := t2.prefix
  rwa [callback_concat tr ha ops bufSize fh] at this

/-- non-vacuity: the handler refuses its second chunk; two chunks were handed over, a strict prefix -/
example :
    received ((wrun (fun s => s) [.wide [97, 98, 99], .narrow [65], .wide [100], .flush]
        { fresh 2 true with budget := some 1 }).close (fun s => s)) = [97, 98, 99, 65] ∧
    specBytes (fun s => s) false [.wide [97, 98, 99], .narrow [65], .wide [100], .flush] = [97, 98, 99, 65, 100] := by
  decide

/-- non-vacuity: a history that crosses the buffer limit both ways, mixes narrow and wide writes,
switches to UTF-16 and flushes, on a 4-unit buffer -/
example :
    let ops := [WOp.wide [97, 98], .wideChar 99, .wide [100, 101, 102, 103], .narrow [65, 66],
                .wide [97, 98, 99, 100, 101, 102, 103], .flush, .setUtf16, .wide [233], .flush]
    chunksOf ((wrun (fun s => s) ops (fresh 4 true)).close (fun s => s)).log =
      [[97, 98, 99], [100, 101, 102, 103], [65, 66], [97, 98, 99, 100, 101, 102, 103], [255, 254], [233, 0]] ∧
    received ((wrun (fun s => s) ops (fresh 4 true)).close (fun s => s)) = specBytes (fun s => s) false ops := by
  decide

/-! ## (ii') the Xalan source tree as result target -/

/-- The unchanged `FormatterToSourceTree::cdata` is an empty function: the text of an element listed in
`cdata-section-elements` is missing from the source-tree result although every other target has it.
(Known finding `C05-stree-target-cdata`; proposed fix `proposed/C05-stree-cdata.diff`; replayed by the check,
corpus line `fst S:0074 K:0078 E`.) -/
theorem stree_target_cdata_counterexample :
    tbuild false [.startElement [116] [], .cdata [120], .endElement] = .ok (.elem [116] [] .nil .nil) ∧
    tbuild false [.startElement [116] [], .cdata [120], .endElement] ≠
    tbuild false [.startElement [116] [], .characters [120], .endElement] := by
  decide

/-- With the proposed fix a CDATA section is character data, for every event history: cutting the result's
character data into `characters`/`cdata` events in any way gives the tree of the all-`characters` stream. -/
theorem stree_target_fixed_cdata_as_text (evs : List TEv) :
    tbuild true evs = tbuild true (evs.map tAsText) := by
  have h : ∀ (evs : List TEv) (st : St), trun true evs st = trun true (evs.map tAsText) st := by
    intro evs
    induction evs with
    | nil => intro st; rfl
    | cons e es ih =>
      intro st
      have he : tstep true st (tAsText e) = tstep true st e := by cases e <;> rfl
      simp only [List.map_cons, trun, he]
      cases tstep true st e with
      | ok st' => exact ih st'
      | error x => rfl
  unfold tbuild
  rw [h]

/-- **Source-tree target, fixed code: refinement.**  For every result with one document element and every way of
delivering its character data as `characters` / `cdata` events (any fragmentation, empty pieces included), the
fixed `FormatterToSourceTree` builds the XPath normal form of the result — the tree a parser builds from the
serialized bytes (`sax_build_eq_norm`), up to the `xmlns:xml` attribute only the parser path adds. -/
theorem stree_target_fixed_eq_norm (evs : List TEv) (nm : Str) (a : List (Str × Str)) (kids : Forest)
    (h : evs.map tAsText = .startElement nm a :: (tevents kids ++ [.endElement])) :
    tbuild true evs = .ok (.elem nm (orderAttrs a) (norm kids) .nil) := by
  rw [stree_target_fixed_cdata_as_text, h]
  exact tbuild_root true nm a kids

/-- The unchanged code satisfies the same refinement on results delivered without `cdata` events (i.e. whenever
`cdata-section-elements` is not used). -/
theorem stree_target_as_written_eq_norm_partial (nm : Str) (a : List (Str × Str)) (kids : Forest) :
    tbuild false (.startElement nm a :: (tevents kids ++ [.endElement])) = .ok (.elem nm (orderAttrs a) (norm kids) .nil) :=
  tbuild_root false nm a kids

/-- non-vacuity: `<t>ab<![CDATA[c]]><!--m-->d</t>` delivered as characters "a", "b", cdata "c", comment, characters "d" -/
example :
    let evs := [TEv.startElement [116] [], .characters [97], .characters [98], .cdata [99], .comment [109], .characters [100], .endElement]
    evs.map tAsText = .startElement [116] [] :: (tevents (.text [97] (.text [98] (.text [99] (.comment [109] (.text [100] .nil))))) ++ [.endElement]) ∧
    tbuild true evs = .ok (.elem [116] [] (.text [97, 98, 99] (.comment [109] (.text [100] .nil))) .nil) ∧
    tbuild false evs = .ok (.elem [116] [] (.text [97, 98] (.comment [109] (.text [100] .nil))) .nil) := by
  decide

/-- The defect is confined to `cdata`: on histories without CDATA events the unchanged code and the fixed code
build the same tree. -/
theorem stree_target_as_written_partial (evs : List TEv) (h : ∀ e ∈ evs, ∀ s, e ≠ .cdata s) :
    tbuild false evs = tbuild true evs := by
  have hh : ∀ (evs : List TEv) (st : St), (∀ e ∈ evs, ∀ s, e ≠ .cdata s) → trun false evs st = trun true evs st := by
    intro evs
    induction evs with
    | nil => intro st _; rfl
    | cons e es ih =>
      intro st hne
      have he : tstep false st e = tstep true st e := by
        cases e with
        | cdata s => exact absurd rfl (hne _ (by simp) s)
        | _ => rfl
      simp only [trun, he]
      cases tstep true st e with
      | ok st' => exact ih st' (fun e' he' => hne e' (by simp [he']))
      | error x => rfl
  unfold tbuild
  rw [hh evs _ h]

/-! ## (ii'') a Xerces DOM as result target -/

/-- **dom_targets_equal (partial).**  For every result with one document element whose character data is delivered
as `characters` events cut in any way (no `cdata`, no ignorable-whitespace events; attributes already in the
namespace-declarations-first order the native tree uses), `FormatterToXercesDOM` and the (fixed or unchanged)
`FormatterToSourceTree` build the same tree, the XPath normal form of the result — the tree a parser builds from
the serialized bytes.  Partial: with `cdata` events the DOM holds a CDATASection node of its own (adjacent to text
nodes; equal only after the XPath-view merge the check applies), and ignorable whitespace becomes a separate Text
node; those are covered by the `xdom` correspondence run, not by this theorem. -/
theorem dom_targets_equal_partial (nm : Str) (a : List (Str × Str)) (kids : Forest) (hn : NoIws kids = true)
    (ho : AttrsOrdered (.elem nm a kids .nil) = true) :
    xbuild (.startElement nm a :: (tevents kids ++ [.endElement])) = .ok (.elem nm a (norm kids) .nil) ∧
    xbuild (.startElement nm a :: (tevents kids ++ [.endElement])) =
      tbuild true (.startElement nm a :: (tevents kids ++ [.endElement])) := by
  have hx := xbuild_root nm a kids hn ho
  refine ⟨hx, ?_⟩
  rw [hx, tbuild_root true nm a kids]
  simp only [AttrsOrdered, Bool.and_eq_true, beq_iff_eq] at ho
  rw [ho.1.1]

/-- **dom_targets_equal, CDATA sections.**  For every result with one document element and every delivery of its
character data as `characters` and `cdata` pieces (any fragmentation, CDATA pieces anywhere, any attribute order):
the DOM built by `FormatterToXercesDOM` holds a tree `X` (CDATASection nodes are nodes of their own) whose XPath view
`norm X` is exactly the tree `FormatterToSourceTree` builds from the same events (up to the native attribute order). -/
theorem dom_targets_equal_cdata (nm : Str) (a : List (Str × Str)) (kids : Forest) :
    ∃ X, xbuild (.startElement nm a :: (devents false kids ++ [.endElement])) = .ok (.elem nm a X .nil) ∧
      tbuild true (.startElement nm a :: (devents false kids ++ [.endElement])) = .ok (.elem nm (orderAttrs a) (norm X) .nil) := by
  refine ⟨_, xbuild_root_d false nm a kids, ?_⟩
  rw [stree_target_fixed_eq_norm _ nm a (asText kids) (by simp [tAsText, devents_false_asText]), accX_nil_norm]

/-- **dom_targets_equal, ignorable white space.**  Same with pieces delivered through `ignorableWhitespace`: the DOM
target makes them Text nodes, the source-tree target white-space text nodes of their own class; forgetting the node
class (`asText`) and merging adjacent text (`norm`) — the XPath view — the two trees are equal. -/
theorem dom_targets_equal_iws (nm : Str) (a : List (Str × Str)) (kids : Forest) :
    ∃ X Y, xbuild (.startElement nm a :: (devents true kids ++ [.endElement])) = .ok (.elem nm a X .nil) ∧
      tbuild true (.startElement nm a :: (devents true kids ++ [.endElement])) = .ok (.elem nm (orderAttrs a) Y .nil) ∧
      norm X = norm (asText Y) := by
  refine ⟨_, norm kids, xbuild_root_d true nm a kids, ?_, ?_⟩
  · rw [devents_true_tevents]; exact tbuild_root true nm a kids
  · rw [accX_nil_norm, norm_asText_norm]

/-- non-vacuity: `<t>a<![CDATA[b]]><!--m-->c</t>`: three nodes in the DOM before the comment … merged in the source tree -/
example :
    xbuild (.startElement [116] [] :: (devents false (.text [97] (.iws [98] (.comment [109] (.text [99] .nil)))) ++ [.endElement])) =
      .ok (.elem [116] [] (.text [97] (.text [98] (.comment [109] (.text [99] .nil)))) .nil) ∧
    tbuild true (.startElement [116] [] :: (devents false (.text [97] (.iws [98] (.comment [109] (.text [99] .nil)))) ++ [.endElement])) =
      .ok (.elem [116] [] (.text [97, 98] (.comment [109] (.text [99] .nil))) .nil) := by
  decide

/-- non-vacuity, and what happens outside the hypotheses: `<t>ab<![CDATA[c]]>d</t>` into a DOM keeps three nodes -/
example :
    AttrsOrdered (.elem [116] [("xmlns:q".toList.map Char.toNat, [117]), ([105], [49])] (.text [97] (.text [98] (.comment [109] .nil))) .nil) = true ∧
    xbuild [.startElement [116] [], .characters [97], .characters [98], .cdata [99], .characters [100], .endElement] =
      .ok (.elem [116] [] (.text [97, 98] (.text [99] (.text [100] .nil))) .nil) ∧
    xbuild [.characters [120], .startElement [116] [], .endElement] = .error .hierarchy := by
  decide

/-! ## (iii) the funnel (over the table regenerated from the source) -/

/-- Every public `XalanTransformer::transform` overload ends — on every call path through the
transform family — in `doTransform`. -/
theorem funnel_transform_overloads :
    ∀ n ∈ C05_Funnel.transformOverloads,
      funnels C05_Funnel.edges C05_Funnel.doTransform [C05_Funnel.parseSource, C05_Funnel.compileStylesheet]
        C05_Funnel.names.length n = true := by
  decide

/-- Every C-API transformation function (`XalanTransformTo{File,Data,Handler}[Prebuilt]`) funnels
into `doTransform`. -/
theorem funnel_capi :
    ∀ n ∈ C05_Funnel.capiEntries,
      funnels C05_Funnel.edges C05_Funnel.doTransform [C05_Funnel.parseSource, C05_Funnel.compileStylesheet]
        C05_Funnel.names.length n = true := by
  decide

/-- The command-line program (both the plain and the `-t` timing paths) funnels into `doTransform`. -/
theorem funnel_cli :
    funnels C05_Funnel.edges C05_Funnel.doTransform [C05_Funnel.parseSource, C05_Funnel.compileStylesheet]
      C05_Funnel.names.length C05_Funnel.cliEntry = true := by
  decide

/-- `doTransform` is the only function of the family that runs the processor. -/
theorem funnel_only_doTransform_calls_process :
    callersOf C05_Funnel.edges C05_Funnel.process = [C05_Funnel.doTransform] := by
  decide

/-- there are at least the nine documented overloads and six C functions (a deleted overload is
noticed; a new one is covered by the ∀ above) -/
theorem funnel_table_complete :
    9 ≤ C05_Funnel.transformOverloads.length ∧ 6 ≤ C05_Funnel.capiEntries.length := by
  decide

/-! ## (iii'') every source form wires its DOMSupport to its liaison (table regenerated from the source) -/

/-- Every `XalanParsedSource` / `XalanDocumentBuilder` / `XalanParsedSourceHelper` implementation that owns a DOMSupport
object (holds it by value) tells it its parser liaison — through a constructor argument or a `setParserLiaison` call in
a constructor body; the others are handed a caller's DOMSupport by reference.  (An unwired DOMSupport answers
`getUnparsedEntityURI` with the empty string, so `unparsed-entity-uri()` would depend on the source form.) -/
theorem source_dom_support_wired :
    ∀ r ∈ C05_Wiring.rows, (!r.byValue || r.ctorLiaison || r.setCall) = true := by
  decide

/-- the table covers the five parsed-source / document-builder classes and the two helper classes; the four that own a
DOMSupport are among them -/
theorem source_dom_support_table_complete :
    7 ≤ C05_Wiring.implementations.length ∧ 4 ≤ C05_Wiring.owners.length ∧
    (∀ o ∈ C05_Wiring.owners, o ∈ C05_Wiring.implementations) ∧
    (∀ o ∈ C05_Wiring.owners, ∃ r ∈ C05_Wiring.rows, r.cls = o ∧ r.byValue = true) := by
  decide

/-! ## (iii-c) both ways of running a stylesheet initialise the same engine state (table regenerated from the source) -/

/-- `XSLTEngineImpl::process` for a stylesheet built from an input source / the xml-stylesheet PI and `process` for a
compiled stylesheet copy the same things from the stylesheet root into engine and formatter state before running it
(among them `m_hasCDATASectionElements`, which decides between CDATA sections and escaped text), and there is at least
one such initialisation. -/
theorem process_overloads_same_initialisations :
    C05_Process.fromSource = C05_Process.compiled ∧ C05_Process.fromSource ≠ [] := by
  decide

/-! ## (iii-d) the command line hands every option to its setter; every source liaison keeps ignorable white space -/

/-- `Params::setParams` of the command-line program calls `setUseValidation`, `setOmitMETATag`, `setEscapeURLs`,
`setIndent` and `setStylesheetParam`; `-e` reaches the result target; and the guard in front of `setIndent` lets every
amount the API accepts through — the boundary value 0 included (`Xalan -i 0` = `setIndent(0)`). -/
theorem cli_options_reach_setters :
    C05_CliOpts.settersCalled = [true, true, true, true, true] ∧ C05_CliOpts.encodingPassed = true ∧
    (∀ v ∈ [0, 1, 2, 8], v ∈ C05_CliOpts.indentAccepted) := by
  decide

/-- Every class that builds a source document (native and Xerces-DOM parsed sources, the document builder, the
per-transformation helpers) leaves `includeIgnorableWhitespace` at the liaisons' default, and that default is `true`:
white space in element-only content (ignorable only to a validating parser) stays in the tree for every source form. -/
theorem source_liaisons_keep_ignorable_whitespace :
    C05_Liaison.defaultInclude = true ∧ 5 ≤ C05_Liaison.explicitSettings.length ∧
    (∀ l ∈ C05_Liaison.explicitSettings, ∀ v ∈ l, v = 1) := by
  decide

/-! ## (iii') the stylesheet named by the xml-stylesheet processing instruction -/

/-- **The scan of one PI is a lookup.**  For a PI whose data is a sequence of `name="value"` pseudo-attributes with
distinct names (value tokens are quoted, so never the bare words `type`/`href`), the token loop of
`XSLTEngineImpl::process` ends with: type accepted ⇔ the `type` pseudo-attribute is one of the four accepted media
types; URI = the (unquoted) `href` pseudo-attribute — wherever in the PI they stand. -/
theorem pi_scan_eq_lookup (ps : List (PI.Str × PI.Str)) (hp : PI.Plain ps) (hn : (PI.names ps).Nodup) :
    PI.scanTokens (PI.toks ps) [] {} = ⟨PI.typeOk ps, PI.hrefOf ps⟩ := by
  have := PI.scan_pairs ps [] {} hp hn (fun h => by cases h) (fun h => absurd rfl h)
  simpa using this

/-- **Order independence.**  Any reordering of the pseudo-attributes of an xml-stylesheet PI (href before type,
title/media/charset/alternate anywhere) gives the same accepted-type flag and the same href. -/
theorem pi_scan_order_independent (ps qs : List (PI.Str × PI.Str)) (h : ps.Perm qs) (hp : PI.Plain ps)
    (hn : (PI.names ps).Nodup) :
    PI.scanTokens (PI.toks ps) [] {} = PI.scanTokens (PI.toks qs) [] {} := by
  have hpq : PI.Plain qs := fun p hm => hp p (h.mem_iff.mpr hm)
  have hnq : (PI.names qs).Nodup := (List.Perm.nodup_iff (h.map (fun x : PI.Str × PI.Str => x.1))).mp hn
  rw [pi_scan_eq_lookup ps hp hn, pi_scan_eq_lookup qs hpq hnq]
  simp only [PI.typeOk, PI.hrefOf, PI.lookupP_perm h hn]

/-- **Tokenizer ↔ tokens.**  A PI written as pseudo-attributes — names and quoted values free of delimiter characters,
any non-empty run of delimiters containing the `=` between them, at least one delimiter between pseudo-attributes
(optional after the last) — is cut by `StringTokenizer` into exactly name token, quoted-value token, … -/
theorem pi_tokens_render (fixed : Bool) (ps : List PI.Piece) (h : PI.WF fixed ps) :
    PI.tokens fixed (PI.renderPieces ps) = PI.toks (PI.pairsOf ps) :=
  PI.tokens_render fixed ps h

/-- **Order independence, end to end.**  Two xml-stylesheet PIs written with the same pseudo-attributes (distinct names)
in any order, with any quotes kept in the value tokens, any blanks around `=` and between pseudo-attributes: the
lookup of `XSLTEngineImpl::process` (unchanged or fixed) chooses the same href, namely the `href` pseudo-attribute iff
the `type` pseudo-attribute is an accepted media type. -/
theorem pi_order_independent_end_to_end (fixed : Bool) (ps qs : List PI.Piece) (hps : PI.WF fixed ps) (hqs : PI.WF fixed qs)
    (hperm : (PI.pairsOf ps).Perm (PI.pairsOf qs)) (hp : PI.Plain (PI.pairsOf ps)) (hn : (PI.names (PI.pairsOf ps)).Nodup) :
    PI.chosen fixed [some (PI.renderPieces ps)] = PI.chosen fixed [some (PI.renderPieces qs)] ∧
    PI.chosen fixed [some (PI.renderPieces ps)] =
      (if PI.typeOk (PI.pairsOf ps) && !(PI.hrefOf (PI.pairsOf ps)).isEmpty then some (PI.hrefOf (PI.pairsOf ps)) else none) := by
  have e1 := pi_tokens_render fixed ps hps
  have e2 := pi_tokens_render fixed qs hqs
  have s1 := pi_scan_eq_lookup _ hp hn
  have s12 := pi_scan_order_independent _ _ hperm hp hn
  have hc : ∀ d : PI.Str, PI.chosen fixed [some d] =
      (if (PI.scanTokens (PI.tokens fixed d) [] {}).isOK && !(PI.scanTokens (PI.tokens fixed d) [] {}).uri.isEmpty
       then some (PI.scanTokens (PI.tokens fixed d) [] {}).uri else none) := by
    intro d; cases fixed <;> simp [PI.chosen, PI.scanChildren]
  rw [hc, hc, e1, e2, ← s12, s1]
  exact ⟨rfl, rfl⟩

/-- non-vacuity + the tie between characters and tokens on concrete PIs (the tokenizer itself is checked by the `pi`
correspondence, not by a general theorem): href first with single quotes and blanks around `=`, extra pseudo-attributes -/
example :
    PI.tokens false (([104, 114, 101, 102, 61, 39, 117, 46, 120, 115, 108, 39, 32, 32, 116, 105, 116, 108, 101, 61, 34, 84, 34, 32, 116, 121, 112, 101, 32, 61, 32, 34, 116, 101, 120, 116, 47, 120, 115, 108, 34] : PI.Str)) =
      PI.toks [(([104, 114, 101, 102] : PI.Str), ([39, 117, 46, 120, 115, 108, 39] : PI.Str)), (([116, 105, 116, 108, 101] : PI.Str), ([34, 84, 34] : PI.Str)), (([116, 121, 112, 101] : PI.Str), ([34, 116, 101, 120, 116, 47, 120, 115, 108, 34] : PI.Str))] ∧
    PI.chosen false [none, some (([104, 114, 101, 102, 61, 39, 117, 46, 120, 115, 108, 39, 32, 32, 116, 105, 116, 108, 101, 61, 34, 84, 34, 32, 116, 121, 112, 101, 32, 61, 32, 34, 116, 101, 120, 116, 47, 120, 115, 108, 34] : PI.Str))] = some (([117, 46, 120, 115, 108] : PI.Str)) ∧
    PI.chosen false [some (([116, 121, 112, 101, 61, 34, 116, 101, 120, 116, 47, 120, 115, 108, 34, 32, 109, 101, 100, 105, 97, 61, 34, 115, 99, 114, 101, 101, 110, 34, 32, 104, 114, 101, 102, 61, 34, 117, 46, 120, 115, 108, 34] : PI.Str))] = some (([117, 46, 120, 115, 108] : PI.Str)) := by
  decide

/-- Line ends between pseudo-attributes: the unchanged scan finds no stylesheet, the fixed one does
(known finding `C05-pi-newline-separator`, `proposed/C05-pi-scan.diff`). -/
theorem pi_newline_counterexample :
    PI.chosen false [some (([116, 121, 112, 101, 61, 34, 116, 101, 120, 116, 47, 120, 115, 108, 34, 10, 104, 114, 101, 102, 61, 34, 117, 46, 120, 115, 108, 34] : PI.Str))] = none ∧
    PI.chosen true [some (([116, 121, 112, 101, 61, 34, 116, 101, 120, 116, 47, 120, 115, 108, 34, 10, 104, 114, 101, 102, 61, 34, 117, 46, 120, 115, 108, 34] : PI.Str))] = some (([117, 46, 120, 115, 108] : PI.Str)) := by
  decide

/-- A PI that is not applicable in front of the XSLT one ends the unchanged search; the fixed search goes on
(known finding `C05-pi-inapplicable-first`). -/
theorem pi_inapplicable_first_counterexample :
    PI.chosen false [some (([116, 121, 112, 101, 61, 34, 116, 101, 120, 116, 47, 99, 115, 115, 34, 32, 104, 114, 101, 102, 61, 34, 97, 46, 99, 115, 115, 34] : PI.Str)), some (([116, 121, 112, 101, 61, 34, 116, 101, 120, 116, 47, 120, 115, 108, 34, 32, 104, 114, 101, 102, 61, 34, 117, 46, 120, 115, 108, 34] : PI.Str))] = none ∧
    PI.chosen true [some (([116, 121, 112, 101, 61, 34, 116, 101, 120, 116, 47, 99, 115, 115, 34, 32, 104, 114, 101, 102, 61, 34, 97, 46, 99, 115, 115, 34] : PI.Str)), some (([116, 121, 112, 101, 61, 34, 116, 101, 120, 116, 47, 120, 115, 108, 34, 32, 104, 114, 101, 102, 61, 34, 117, 46, 120, 115, 108, 34] : PI.Str))] = some (([117, 46, 120, 115, 108] : PI.Str)) ∧
    PI.chosen false [some (([116, 121, 112, 101, 61, 34, 116, 101, 120, 116, 47, 120, 115, 108, 34] : PI.Str)), some (([116, 121, 112, 101, 61, 34, 116, 101, 120, 116, 47, 120, 115, 108, 34, 32, 104, 114, 101, 102, 61, 34, 117, 46, 120, 115, 108, 34] : PI.Str))] = none := by
  decide

/-! ## composition -/

/-- **forms_equivalent (partial).**  Let `engine` be *any* function from the source tree to the
serializer's write operations (the XSLT processor reached through the one `doTransform`).  Then
for two fragmentations of the same document (file/stream parser vs. document-builder user), two
callback configurations (buffer sizes `n`, `m`; flush handler or not) and the C-API data buffer:
the return status is the same, the bytes collected by the callbacks are the same, and — when the
output has no zero byte — the C string in the data buffer is the same again.

Partial: `engine` is a parameter (that equal trees give equal results needs nothing about it, but
that the *real* engine is a function of the tree only — not of node addresses, index gaps or the
tree implementation — is exactly what the real-API product run checks); the Xerces-DOM backed
sources and the DOM / source-tree targets are not modelled. -/
theorem forms_equivalent_partial (engine : Forest → List WOp) (tr : List Nat → Bytes) (ha : Additive tr)
    (f g : Forest) (hr : Refrag f g) (h : TopOK f false = true) (n m : Nat) (fh fh' : Bool) :
    ∃ t, build true (events f) = .ok t ∧ build true (events g) = .ok t ∧
      let viaCallbackN := received ((wrun tr (engine t) (fresh n fh)).close tr)
      let viaCallbackM := received ((wrun tr (engine t) (fresh m fh')).close tr)
      viaCallbackN = viaCallbackM ∧ viaCallbackN = specBytes tr false (engine t) ∧
      ((∀ b ∈ viaCallbackN, b ≠ 0) → cstr (capiData viaCallbackM) = viaCallbackN) := by
  obtain ⟨he, t, ht, _⟩ := sax_chunking_independent f g hr h
  refine ⟨t, ht, he ▸ ht, ?_⟩
  have e1 := callback_concat tr ha (engine t) n fh
  have e2 := callback_concat tr ha (engine t) m fh'
  refine ⟨e1.trans e2.symm, e1, fun hz => ?_⟩
  rw [e2, ← e1]
  exact cstr_capiData _ hz

/-- non-vacuity of `forms_equivalent_partial`: a toy engine (serialise the text content, then flush), a document
given as one `characters()` call vs. three, callback buffers of 1 and 512 units -/
example :
    let f := Forest.elem [97] [] (chunks [[104, 105, 33]] .nil) .nil
    let g := Forest.elem [97] [] (chunks [[104], [], [105, 33]] .nil) .nil
    Refrag f g ∧ TopOK f false = true ∧ Additive (fun s : List Nat => s) :=
  ⟨.elem _ _ _ _ _ _ (.texts _ _ _ _ (by decide) .nil) .nil, by decide, ascii_additive⟩

/-- **forms_equivalent, DOM side (partial).**  Source side: the native tree built from any fragmentation of a document
and the eager Xerces-DOM wrapper over the same document in XPath normal form list the same nodes in the same
document order with the same indices.  Result side: for a result with one document element delivered as `characters`
events cut in any way, the Xerces-DOM target, the source-tree target and the parser reading the serialized bytes
(`sax_build_eq_norm`, up to its `xmlns:xml` attribute) all hold the normal form of the result.
Partial: what an *engine* computes from the two source representations is compared by the product run only;
the wrapper theorem takes the DOM as given (Xerces' parser is not modelled); `cdata`/ignorable-whitespace events and
non-indexed wrappers (structural `isNodeAfter`, property C12) are outside the statement. -/
theorem forms_equivalent_dom_partial (f : Forest) (h : TopOK f false = true)
    (nm : Str) (a : List (Str × Str)) (kids : Forest) (hn : NoIws kids = true)
    (ho : AttrsOrdered (.elem nm a kids .nil) = true) :
    ((wrapDocument (normDoc f)).map (·.1) = creationLog (events f) { accumulate := true } ∧
     (wrapDocument (normDoc f)).map (·.2) = List.range' 2 (creationLog (events f) { accumulate := true }).length) ∧
    (xbuild (.startElement nm a :: (tevents kids ++ [.endElement])) = .ok (.elem nm a (norm kids) .nil) ∧
     tbuild true (.startElement nm a :: (tevents kids ++ [.endElement])) = .ok (.elem nm a (norm kids) .nil) ∧
     build true (events (.elem nm a kids .nil)) = .ok (.elem nm (xmlNsAttr :: a) (norm kids) .nil)) := by
  have hoa : orderAttrs a = a := by
    simp only [AttrsOrdered, Bool.and_eq_true, beq_iff_eq] at ho; exact ho.1.1
  refine ⟨index_eq_structure f h, (dom_targets_equal_partial nm a kids hn ho).1, ?_, ?_⟩
  · rw [tbuild_root true nm a kids, hoa]
  · have := sax_build_eq_norm (.elem nm a kids .nil) (by simp [TopOK])
    simpa [normDoc, hoa] using this

end XalanModel.Props.C05
