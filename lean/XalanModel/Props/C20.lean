import XalanModel.Containers.VectorProofs
import XalanModel.Containers.VectorTraceProofs
import XalanModel.Containers.ElemTraceProofs
import XalanModel.Containers.XMapProofs
import XalanModel.Containers.DequeProofs
import XalanModel.Containers.XListProofs
import XalanModel.Containers.PListProofs
import XalanModel.Containers.PListClearProofs
import XalanModel.Containers.PListAllocProofs
import XalanModel.Containers.PListHistoryProofs
import XalanModel.Containers.PListSpliceProofs
import XalanModel.Containers.PListMoveProofs
import XalanModel.Containers.PListSpliceCrossProofs
import XalanModel.Containers.DOMStringProofs
import XalanModel.Containers.DOMStringCompareProofs
import XalanModel.Containers.ObjCacheProofs
import XalanModel.Containers.StringPoolProofs
import XalanModel.Containers.StringCacheProofs
import XalanModel.Containers.BitmapProofs
/-!
# C20 — Xalan's containers behave like their standard models

Property theorems only (helper lemmas live in `XalanModel/Containers/*Proofs.lean`).

Shape: *refinement to `List`*.  `VOp` is the operation alphabet, `specStep` is the
`std::vector` contract on a plain `List` (returning `none` exactly where the standard
leaves the call undefined: `pop_back` on an empty vector, a position past the end, an
inverted range), `Vec.step` is the transcription of the XalanVector code paths with checked
memory primitives.  `vector_refines`: for every operation sequence that stays within the
standard's preconditions, the model (i) never performs an out-of-bounds / stale-iterator
access (`none`), (ii) holds exactly the specified element sequence, (iii) keeps
`size ≤ allocation`.
-/
namespace XalanModel.Props.C20
open XalanModel.Containers

inductive VOp (α : Type) where
  | push (x : α)
  | pop
  | insertOne (pos : Nat) (x : α)
  | insertN (pos n : Nat) (x : α)
  | insertRange (pos : Nat) (xs : List α)
  | erase (first last : Nat)
  | resize (n : Nat) (x : α)
  | reserve (n : Nat)
  | clear
  | assign (xs : List α)
  | copyAssign (rhs : Vec α)
deriving Repr

variable {α : Type}

/-- the `std::vector<T>` contract on the abstract element sequence -/
def specStep (l : List α) : VOp α → Option (List α)
  | .push x => some (l ++ [x])
  | .pop => if l = [] then none else some l.dropLast
  | .insertOne pos x => if pos ≤ l.length then some (l.take pos ++ [x] ++ l.drop pos) else none
  | .insertN pos n x => if pos ≤ l.length then some (l.take pos ++ List.replicate n x ++ l.drop pos) else none
  | .insertRange pos xs => if pos ≤ l.length then some (l.take pos ++ xs ++ l.drop pos) else none
  | .erase f t => if f ≤ t ∧ t ≤ l.length then some (l.take f ++ l.drop t) else none
  | .resize n x => some (l.take n ++ List.replicate (n - l.length) x)
  | .reserve _ => some l
  | .clear => some []
  | .assign xs => some xs
  | .copyAssign rhs => some rhs.items

/-- the XalanVector code paths -/
def Vec.step (v : Vec α) : VOp α → Option (Vec α)
  | .push x => v.pushBack x
  | .pop => v.popBack
  | .insertOne pos x => v.insertOne pos x
  | .insertN pos n x => v.insertN pos n x
  | .insertRange pos xs => v.insertRange pos xs
  | .erase f t => v.erase f t
  | .resize n x => v.resize n x
  | .reserve n => some (v.reserve n)
  | .clear => v.clear
  | .assign xs => v.assign xs
  | .copyAssign rhs => v.copyAssign rhs

def specRun : List (VOp α) → List α → Option (List α)
  | [], l => some l
  | op :: ops, l => (specStep l op).bind (specRun ops)

def Vec.run : List (VOp α) → Vec α → Option (Vec α)
  | [], v => some v
  | op :: ops, v => (Vec.step v op).bind (Vec.run ops)

/-- One step: within the standard's preconditions the XalanVector paths make no memory error,
produce the specified contents and keep the invariant. -/
theorem vector_step_refines [DecidableEq α] (v : Vec α) (op : VOp α) (h : v.Inv) (l' : List α)
    (hs : specStep v.items op = some l') :
    ∃ v', Vec.step v op = some v' ∧ v'.items = l' ∧ v'.Inv := by
  cases op with
  | push x =>
    simp only [specStep, Option.some.injEq] at hs; subst hs
    exact Vec.pushBack_refines v x h
  | pop =>
    simp only [specStep] at hs
    split at hs
    · cases hs
    · rename_i hne; simp only [Option.some.injEq] at hs; subst hs
      exact Vec.popBack_refines v h hne
  | insertOne pos x =>
    simp only [specStep] at hs
    split at hs
    · rename_i hp; simp only [Option.some.injEq] at hs; subst hs
      have := Vec.insertN_refines v pos 1 x h hp
      simpa [Vec.step, Vec.insertOne, Vec.Refines] using this
    · cases hs
  | insertN pos n x =>
    simp only [specStep] at hs
    split at hs
    · rename_i hp; simp only [Option.some.injEq] at hs; subst hs
      exact Vec.insertN_refines v pos n x h hp
    · cases hs
  | insertRange pos xs =>
    simp only [specStep] at hs
    split at hs
    · rename_i hp; simp only [Option.some.injEq] at hs; subst hs
      exact Vec.insertRange_refines v pos xs h hp
    · cases hs
  | erase f t =>
    simp only [specStep] at hs
    split at hs
    · rename_i hp; simp only [Option.some.injEq] at hs; subst hs
      exact Vec.erase_refines v f t h hp.1 hp.2
    · cases hs
  | resize n x =>
    simp only [specStep, Option.some.injEq] at hs; subst hs
    exact Vec.resize_refines v n x h
  | reserve n =>
    simp only [specStep, Option.some.injEq] at hs; subst hs
    have := Vec.reserve_refines v n h
    exact ⟨_, rfl, this.1, this.2.1⟩
  | clear =>
    simp only [specStep, Option.some.injEq] at hs; subst hs
    exact Vec.clear_refines v h
  | assign xs =>
    simp only [specStep, Option.some.injEq] at hs; subst hs
    exact Vec.assign_refines v xs h
  | copyAssign rhs =>
    simp only [specStep, Option.some.injEq] at hs; subst hs
    exact Vec.copyAssign_refines v rhs h

/-- **C20 (vector).** Every operation history within the `std::vector` contract: no memory
error, contents equal to the `List` specification, invariant preserved. -/
theorem vector_refines [DecidableEq α] (ops : List (VOp α)) (v : Vec α) (h : v.Inv) (l' : List α)
    (hs : specRun ops v.items = some l') :
    ∃ v', Vec.run ops v = some v' ∧ v'.items = l' ∧ v'.Inv := by
  induction ops generalizing v with
  | nil => simp only [specRun, Option.some.injEq] at hs; exact ⟨v, rfl, hs, h⟩
  | cons op ops ih =>
    simp only [specRun] at hs
    cases hst : specStep v.items op with
    | none => simp [hst] at hs
    | some l1 =>
      simp only [hst, Option.bind_some] at hs
      obtain ⟨v1, e1, i1, inv1⟩ := vector_step_refines v op h l1 hst
      obtain ⟨v2, e2, i2, inv2⟩ := ih v1 inv1 (by rw [i1]; exact hs)
      exact ⟨v2, by simp [Vec.run, e1, e2], i2, inv2⟩

/-- `reserve` delivers at least the requested capacity (observable through `capacity()`). -/
theorem vector_reserve_capacity (v : Vec α) (n : Nat) (h : v.Inv) : n ≤ (v.reserve n).alloc :=
  (Vec.reserve_refines v n h).2.2

/-- non-vacuity: a history that exercises growth, both in-place insert paths, the
re-allocation path, erase, resize and copy-assignment satisfies the hypotheses. -/
example :
    specRun [VOp.push 1, .push 2, .push 3, .reserve 10, .insertRange 1 [7, 8], .insertN 4 3 9,
             .insertOne 0 5, .erase 2 4, .resize 3 0, .copyAssign ⟨[4, 4, 4, 4], 4⟩, .pop]
      (Vec.empty : Vec Nat).items = some [4, 4, 4] ∧ (Vec.empty : Vec Nat).Inv := by
  decide

/-! ## Vector: value arguments that alias an element of the vector -/

/-- After the repair (`proposed/C20-vector-alias.diff`) `insert(pos, n, v[i])` is `std::vector`'s
`insert` of a copy of the original `v[i]`. -/
theorem vector_insertNSelf_refines (v : Vec α) (pos n i : Nat) (x : α) (h : v.Inv) (hp : pos ≤ v.items.length)
    (hi : v.items[i]? = some x) :
    ∃ v', v.insertNSelf pos n i = some v' ∧ v'.items = v.items.take pos ++ List.replicate n x ++ v.items.drop pos ∧ v'.Inv := by
  simp only [Vec.insertNSelf, hi]
  exact Vec.insertN_refines v pos n x h hp

/-- … and `resize(n, v[i])` likewise. -/
theorem vector_resizeSelf_refines (v : Vec α) (n i : Nat) (x : α) (h : v.Inv) (hi : v.items[i]? = some x) :
    ∃ v', v.resizeSelf n i = some v' ∧ v'.items = v.items.take n ++ List.replicate (n - v.items.length) x ∧ v'.Inv := by
  simp only [Vec.resizeSelf, hi]
  exact Vec.resize_refines v n x h

/-- The **unrepaired** code violates the property: `{1,2,3,4}` with capacity 8,
`insert(begin(), 1, v[2])` yields `2 1 2 3 4` (std: `3 1 2 3 4`); appending `v[0]` three times to a
full `{1,2}` reads freed memory.  Replayed on the real code by the corpus of checks/c20.py. -/
theorem vector_alias_as_written_counterexample :
    (Vec.insertNAliasAsWritten (⟨[1, 2, 3, 4], 8⟩ : Vec Nat) 0 1 2).map (·.items) = some [2, 1, 2, 3, 4] ∧
    (Vec.insertNSelf (⟨[1, 2, 3, 4], 8⟩ : Vec Nat) 0 1 2).map (·.items) = some [3, 1, 2, 3, 4] ∧
    Vec.insertNAliasAsWritten (⟨[1, 2], 2⟩ : Vec Nat) 2 3 0 = none := by
  decide


/-! ## Vector: placement discipline and the direction of element-wise copies -/

/-- The three storage primitives every XalanVector code path is transcribed into are exactly the
manual placement discipline: **construct** only the raw cell at index `size` (and only below the
allocation), **assign** only into cells below `size` (already constructed), **destroy** only the
last constructed cell.  Any other use is `none`; `vector_refines` shows no operation ever reaches
`none`, so every cell is constructed exactly once before use and destroyed exactly once, and the
constructed cells are always `[0, size)`.  (The correspondence run observes the same on the real code
through the live-instance count `L=` of the instrumented element class.) -/
theorem vector_placement_discipline (v : Vec α) :
    (∀ x, (v.rawPush x).isSome ↔ v.items.length < v.alloc) ∧
    (∀ x v', v.rawPush x = some v' → v'.items = v.items ++ [x] ∧ v'.alloc = v.alloc) ∧
    (∀ pos seg, (v.overwrite pos seg).isSome ↔ pos + seg.length ≤ v.items.length) ∧
    (∀ pos seg v', v.overwrite pos seg = some v' → v'.items.length = v.items.length ∧ v'.alloc = v.alloc) ∧
    (v.popBack.isSome ↔ v.items ≠ []) ∧
    (∀ v', v.popBack = some v' → v'.items = v.items.dropLast ∧ v'.alloc = v.alloc) := by
  refine ⟨?_, ?_, ?_, ?_, ?_, ?_⟩
  · intro x; unfold Vec.rawPush; split <;> simp [*]
  · intro x v' h; unfold Vec.rawPush at h; split at h
    · cases h; exact ⟨rfl, rfl⟩
    · cases h
  · intro pos seg; unfold Vec.overwrite; split <;> simp [*]
  · intro pos seg v' h; unfold Vec.overwrite at h; split at h
    · rename_i hle; cases h
      refine ⟨?_, rfl⟩
      simp only [List.length_append, List.length_take, List.length_drop]; omega
    · cases h
  · unfold Vec.popBack; split
    · rename_i h0; simp [List.eq_nil_of_length_eq_zero h0]
    · rename_i h0; simp only [Option.isSome_some, true_iff]; intro e; apply h0; rw [e]; rfl
  · intro v' h; unfold Vec.popBack at h; split at h
    · cases h
    · cases h; exact ⟨rfl, rfl⟩

/-- `std::copy_backward` (descending element-wise assignments) shifting a segment to the **right**
inside the buffer delivers the original segment, … -/
theorem vector_copy_backward_shift_right (n : Nat) (v : Vec α) (s d : Nat) (hsd : s ≤ d) (hb : d + n ≤ v.items.length) :
    Vec.copyBwd v s d n = some ⟨v.items.take d ++ (v.items.drop s).take n ++ v.items.drop (d + n), v.alloc⟩ :=
  Vec.copyBwd_spec n v s d hsd hb

/-- … and forward `std::copy` does so when shifting to the **left** (`erase`). -/
theorem vector_copy_forward_shift_left (n : Nat) (v : Vec α) (s d : Nat) (hds : d ≤ s) (hb : s + n ≤ v.items.length) :
    Vec.copyFwd v s d n = some ⟨v.items.take d ++ (v.items.drop s).take n ++ v.items.drop (d + n), v.alloc⟩ :=
  Vec.copyFwd_spec n v s d hds hb

/-- With the tail shifted by a **forward** copy the in-place `insert(pos, first, last)` smears the
elements behind the position: `{1,2,3}` with capacity 9, one element inserted at index 0 gives
`7 1 1 3` instead of `7 1 2 3` (`insertRange`, which uses `copy_backward`, is proved correct for all
inputs by `vector_step_refines`).  Only an element type with a real copy assignment shows it on the
real code — libstdc++ turns both calls into `memmove` for trivially copyable types. -/
theorem vector_insert_forward_copy_counterexample :
    (Vec.insertRangeForwardCopy (⟨[1, 2, 3], 9⟩ : Vec Nat) 0 [7]).map (·.items) = some [7, 1, 1, 3] ∧
    (Vec.insertRange (⟨[1, 2, 3], 9⟩ : Vec Nat) 0 [7]).map (·.items) = some [7, 1, 2, 3] := by
  decide


/-! ## Vector: every element object is constructed exactly once before any use and destroyed exactly once -/

/-- the XalanVector code paths with the event log (`VectorTrace.lean`) -/
def TVec.step (t : TVec α) : VOp α → Option (TVec α)
  | .push x => t.pushBack x
  | .pop => t.popBack
  | .insertOne pos x => t.insertN pos 1 x
  | .insertN pos n x => t.insertN pos n x
  | .insertRange pos xs => t.insertRange pos xs
  | .erase f l => t.erase f l
  | .resize n x => t.resize n x
  | .reserve n => some (t.reserve n)
  | .clear => t.clear
  | .assign xs => t.assign xs
  | .copyAssign rhs => t.copyAssign rhs

def TVec.run : List (VOp α) → TVec α → Option (TVec α)
  | [], t => some t
  | op :: ops, t => (TVec.step t op).bind (TVec.run ops)

/-- forgetting the log gives exactly the operations proved correct above -/
theorem vector_trace_projection (t : TVec α) (op : VOp α) : (TVec.step t op).map (·.v) = Vec.step t.v op := by
  cases op with
  | push x => exact TVec.proj_pushBack t x
  | pop => exact TVec.proj_popBack t
  | insertOne pos x => exact TVec.proj_insertN t pos 1 x
  | insertN pos n x => exact TVec.proj_insertN t pos n x
  | insertRange pos xs => exact TVec.proj_insertRange t pos xs
  | erase f l => exact TVec.proj_erase t f l
  | resize n x => exact TVec.proj_resize t n x
  | reserve n => simp [TVec.step, Vec.step, TVec.proj_reserve]
  | clear => exact TVec.proj_clear t
  | assign xs => exact TVec.proj_assign t xs
  | copyAssign rhs => exact TVec.proj_copyAssign t rhs

/-- One operation: whenever it runs, the events it logs pass the placement discipline from the cells
left by the log so far — a cell is copy-constructed only while raw (and only the first raw cell of its
buffer), assigned only while constructed, destroyed only while constructed, a buffer is released with
exactly its constructed cells — the current buffer ends with exactly `size` constructed cells, only
fresh buffers are allocated and foreign buffers are untouched. -/
theorem vector_events_step (t : TVec α) (op : VOp α) (l0 l : Live) (h : TVec.TInv t l0 l) (t' : TVec α)
    (e : TVec.step t op = some t') : ∃ l', TVec.TInv t' l0 l' ∧ TVec.Ext t l t' l' := by
  cases op with
  | push x => exact TVec.pres_pushBack x t l0 l h t' e
  | pop => exact TVec.pres_popBack t l0 l h t' e
  | insertOne pos x => exact TVec.pres_insertN pos 1 x t l0 l h t' e
  | insertN pos n x => exact TVec.pres_insertN pos n x t l0 l h t' e
  | insertRange pos xs => exact TVec.pres_insertRange pos xs t l0 l h t' e
  | erase f la => exact TVec.pres_erase f la t l0 l h t' e
  | resize n x => exact TVec.pres_resize n x t l0 l h t' e
  | reserve n => exact TVec.pres_reserve n t l0 l h t' e
  | clear => exact TVec.pres_clear t l0 l h t' e
  | assign xs => exact TVec.pres_assign xs t l0 l h t' e
  | copyAssign rhs => exact TVec.pres_copyAssign rhs t l0 l h t' e

/-- the alias forms of the repair (one extra temporary element: constructed before, released after) -/
theorem vector_events_alias (t : TVec α) (l0 l : Live) (h : TVec.TInv t l0 l) (t' : TVec α) (pos n i : Nat) :
    (t.insertNSelf pos n i = some t' → ∃ l', TVec.TInv t' l0 l' ∧ TVec.Ext t l t' l') ∧
    (t.resizeSelf n i = some t' → ∃ l', TVec.TInv t' l0 l' ∧ TVec.Ext t l t' l') ∧
    (t.pushBackSelf i = some t' → ∃ l', TVec.TInv t' l0 l' ∧ TVec.Ext t l t' l') :=
  ⟨TVec.pres_insertNSelf pos n i t l0 l h t', TVec.pres_resizeSelf n i t l0 l h t', TVec.pres_pushBackSelf i t l0 l h t'⟩

/-- **C20 (vector), event form.** For every operation history inside `std::vector`'s preconditions the logged
run exists, its element sequence is the specified one, and its whole log — every copy construction,
assignment, destructor call and buffer release since the vector was created — passes the placement
discipline: each cell is constructed exactly once before it is assigned or read, and destroyed exactly once;
at the end exactly the cells `[0, size)` of the current buffer are constructed. -/
theorem vector_events_history [DecidableEq α] (ops : List (VOp α)) (t : TVec α) (l0 l : Live) (hv : t.v.Inv)
    (h : TVec.TInv t l0 l) (l' : List α) (hs : specRun ops t.v.items = some l') :
    ∃ t' lv, TVec.run ops t = some t' ∧ t'.v.items = l' ∧ t'.v.Inv ∧ TVec.TInv t' l0 lv := by
  induction ops generalizing t l with
  | nil => simp only [specRun, Option.some.injEq] at hs; exact ⟨t, l, rfl, hs, hv, h⟩
  | cons op ops ih =>
    simp only [specRun] at hs
    cases hst : specStep t.v.items op with
    | none => simp [hst] at hs
    | some l1 =>
      simp only [hst, Option.bind_some] at hs
      obtain ⟨v1, e1, i1, inv1⟩ := vector_step_refines t.v op hv l1 hst
      have hp := vector_trace_projection t op
      rw [e1] at hp
      cases hts : TVec.step t op with
      | none => simp [hts] at hp
      | some t1 =>
        simp only [hts, Option.map_some, Option.some.injEq] at hp
        obtain ⟨lv1, ti1, _⟩ := vector_events_step t op l0 l h t1 hts
        obtain ⟨t2, lv2, e2, i2, inv2, ti2⟩ := ih t1 lv1 (hp ▸ inv1) ti1 (by rw [hp, i1]; exact hs)
        exact ⟨t2, lv2, by simp [TVec.run, hts, e2], i2, inv2, ti2⟩

/-- a freshly created vector starts with an empty log and no constructed cell -/
theorem vector_events_init : TVec.TInv (TVec.ofVec (Vec.empty : Vec α)) (fun _ => 0) (fun _ => 0) :=
  ⟨rfl, rfl, Nat.zero_lt_one, fun _ _ => rfl⟩

example : ((TVec.run [VOp.push 1, .push 2, .push 3, .insertRange 0 [7], .erase 1 2, .resize 1 0]
    (TVec.ofVec (Vec.empty : Vec Nat))).map fun t => (t.v.items, evCounts t.tr, (replay t.tr (fun _ => 0)).isSome)) =
    some ([7], (10, 2, 9), true) := by
  decide

/-! ## XalanMap / XalanSet: refinement to an insertion-ordered association list -/

inductive MOp (κ ν : Type) where
  | insert (k : κ) (v : ν)
  | setAt (k : κ) (v : ν)            -- `map[k] = v`
  | find (k : κ)
  | erase (k : κ)
  | clear
  | assign (rhs : XMap κ ν)          -- `map = rhs`
  | swapWith (rhs : XMap κ ν)        -- `map.swap(rhs)`, seen from this side
deriving Repr

/-- observable result of a map operation -/
inductive MOut (ν : Type) where
  | unit
  | found (v : Option ν)
  | count (n : Nat)
deriving Repr, DecidableEq

/-- the contract on an insertion-ordered association list (`std::map`/`unordered_map` results plus a
defined iteration order: order of first insertion, re-insertion after erase goes to the end) -/
def mapSpecStep {κ ν : Type} [DecidableEq κ] (l : List (κ × ν)) : MOp κ ν → List (κ × ν) × MOut ν
  | .insert k v => (match l.lookup k with | some _ => l | none => l ++ [(k, v)], .unit)
  | .setAt k v => (match l.lookup k with
      | some _ => l.map (fun p => if p.1 = k then (k, v) else p)
      | none => l ++ [(k, v)], .unit)
  | .find k => (l, .found (l.lookup k))
  | .erase k => (l.filter (fun p => p.1 != k), .count (if (l.lookup k).isSome then 1 else 0))
  | .clear => ([], .unit)
  | .assign rhs => (rhs.toList, .unit)
  | .swapWith rhs => (rhs.toList, .unit)

/-- operands that are maps themselves must be well-formed maps -/
def MOp.WF {κ ν : Type} [DecidableEq κ] (hash : κ → Nat) : MOp κ ν → Prop
  | .assign rhs => XMap.Inv hash rhs
  | .swapWith rhs => XMap.Inv hash rhs
  | _ => True

/-- the XalanMap code paths -/
def XMap.stepOp {κ ν : Type} [DecidableEq κ] (hash : κ → Nat) (dflt : ν) (m : XMap κ ν) :
    MOp κ ν → Option (XMap κ ν × MOut ν)
  | .insert k v => (XMap.insert hash m k v).map (·, .unit)
  | .setAt k v => (XMap.setAt hash dflt m k v).map (·, .unit)
  | .find k => (XMap.find hash m k).map fun r => (m, .found (r.map (·.val)))
  | .erase k => (XMap.erase hash m k).map fun (m', c) => (m', .count c)
  | .clear => (XMap.clear m).map (·, .unit)
  | .assign rhs => (XMap.assign hash m rhs).map (·, .unit)
  | .swapWith rhs => some (XMap.swapInto m rhs, .unit)

def mapSpecRun {κ ν : Type} [DecidableEq κ] : List (MOp κ ν) → List (κ × ν) → List (κ × ν) × List (MOut ν)
  | [], l => (l, [])
  | op :: ops, l =>
    let (l1, o) := mapSpecStep l op
    let (l2, os) := mapSpecRun ops l1
    (l2, o :: os)

def XMap.runOps {κ ν : Type} [DecidableEq κ] (hash : κ → Nat) (dflt : ν) :
    List (MOp κ ν) → XMap κ ν → Option (XMap κ ν × List (MOut ν))
  | [], m => some (m, [])
  | op :: ops, m =>
    (XMap.stepOp hash dflt m op).bind fun (m1, o) => (XMap.runOps hash dflt ops m1).map fun (m2, os) => (m2, o :: os)

/-- One operation: no undefined behaviour (zero modulus, dangling bucket pointer, empty free list),
the invariant again, the specified association list in iteration order and the specified result —
across bucket creation, rehash, recycling of erased entries through stale bucket pointers,
erase-threshold compaction (inside `erase`), `operator[]` assignment, `operator=` and `swap`. -/
theorem map_step_refines {κ ν : Type} [DecidableEq κ] (hash : κ → Nat) (dflt : ν) (m : XMap κ ν) (op : MOp κ ν)
    (h : XMap.Inv hash m) (hw : op.WF hash) :
    ∃ m' o, XMap.stepOp hash dflt m op = some (m', o) ∧ XMap.Inv hash m' ∧
      (m'.toList, o) = mapSpecStep m.toList op := by
  cases op with
  | insert k v =>
    obtain ⟨m', e, i, t⟩ := XMap.insert_spec h k v
    refine ⟨m', .unit, by simp [XMap.stepOp, e], i, ?_⟩
    simp only [mapSpecStep, t]
    cases List.lookup k m.toList <;> rfl
  | setAt k v =>
    obtain ⟨m', e, i, t⟩ := XMap.setAt_spec h dflt k v
    refine ⟨m', .unit, by simp [XMap.stepOp, e], i, ?_⟩
    simp only [mapSpecStep, t]
    cases List.lookup k m.toList <;> rfl
  | find k =>
    have hf := XMap.find_lookup (hash := hash) h k
    cases hr : XMap.find hash m k with
    | none => simp [hr] at hf
    | some r =>
      simp only [hr, Option.map_some, Option.some.injEq] at hf
      exact ⟨m, .found (r.map (·.val)), by simp [XMap.stepOp, hr], h, by simp only [mapSpecStep, hf]⟩
  | erase k =>
    obtain ⟨m', c, e, i, t, hc⟩ := XMap.erase_spec h k
    exact ⟨m', .count c, by simp [XMap.stepOp, e], i, by simp [mapSpecStep, t, hc]⟩
  | clear =>
    obtain ⟨m', e, i, t⟩ := XMap.clear_spec h
    exact ⟨m', .unit, by simp [XMap.stepOp, e], i, by simp [mapSpecStep, XMap.toList, t]⟩
  | assign rhs =>
    obtain ⟨m', e, i, t⟩ := XMap.assign_spec h (show XMap.Inv hash rhs from hw)
    exact ⟨m', .unit, by simp [XMap.stepOp, e], i, by simp [mapSpecStep, t]⟩
  | swapWith rhs =>
    exact ⟨_, .unit, rfl, XMap.swapInto_inv h (show XMap.Inv hash rhs from hw), rfl⟩

/-- **C20 (map, set).** Every history of insert / `operator[]`= / find / erase / clear / `operator=` /
swap from any state satisfying the invariant (in particular from a freshly constructed map,
`map_new_inv`, or a copy-constructed one, `map_copy_refines`). -/
theorem map_refines {κ ν : Type} [DecidableEq κ] (hash : κ → Nat) (dflt : ν) (ops : List (MOp κ ν)) (m : XMap κ ν)
    (h : XMap.Inv hash m) (hw : ∀ op ∈ ops, op.WF hash) :
    ∃ m' os, XMap.runOps hash dflt ops m = some (m', os) ∧ XMap.Inv hash m' ∧
      (m'.toList, os) = mapSpecRun ops m.toList := by
  induction ops generalizing m with
  | nil => exact ⟨m, [], rfl, h, rfl⟩
  | cons op ops ih =>
    obtain ⟨m1, o, e1, i1, s1⟩ := map_step_refines hash dflt m op h (hw op (List.mem_cons_self ..))
    obtain ⟨m2, os, e2, i2, s2⟩ := ih m1 i1 (fun o ho => hw o (List.mem_cons_of_mem _ ho))
    refine ⟨m2, o :: os, by simp [XMap.runOps, e1, e2], i2, ?_⟩
    simp only [mapSpecRun, ← s1, ← s2]

/-- the copy constructor yields a well-formed map with the same contents in the same order -/
theorem map_copy_refines {κ ν : Type} [DecidableEq κ] (hash : κ → Nat) (rhs : XMap κ ν) (h : XMap.Inv hash rhs) :
    ∃ m', XMap.copyOf hash rhs = some m' ∧ XMap.Inv hash m' ∧ m'.toList = rhs.toList :=
  XMap.copyOf_spec h

/-- a freshly constructed map (any positive `minBuckets`, any load factor with a positive denominator)
satisfies the invariant -/
theorem map_new_inv {κ ν : Type} [DecidableEq κ] (hash : κ → Nat) (lfNum lfDen minB thr : Nat)
    (h1 : 0 < minB) (h2 : 0 < lfDen) : XMap.Inv hash (XMap.new lfNum lfDen minB thr : XMap κ ν) :=
  XMap.new_inv lfNum lfDen minB thr h1 h2

/-- `swap` keeps the invariant on both sides (it exchanges everything the invariant speaks about) -/
theorem map_swap_inv {κ ν : Type} [DecidableEq κ] (hash : κ → Nat) (a b : XMap κ ν)
    (ha : XMap.Inv hash a) (hb : XMap.Inv hash b) :
    XMap.Inv hash (XMap.swapInto a b) ∧ XMap.Inv hash (XMap.swapInto b a) ∧
      (XMap.swapInto a b).toList = b.toList ∧ (XMap.swapInto b a).toList = a.toList :=
  ⟨XMap.swapInto_inv ha hb, XMap.swapInto_inv hb ha, rfl, rfl⟩

/-- non-vacuity: with 1 initial bucket, erase threshold 2 and an everything-collides hash, this history
goes through bucket creation, two rehashes, a stale pointer, recycling and a compaction. -/
example :
    (XMap.runOps (fun _ : Nat => 0) 0
      [MOp.insert 1 10, .insert 2 20, .insert 3 30, .insert 4 40, .erase 2, .insert 5 50, .find 5, .erase 1, .erase 9,
       .erase 3, .insert 2 21, .find 2, .clear, .insert 6 60, .setAt 6 61, .setAt 7 70,
       .assign (XMap.new 3 4 1 2), .insert 8 80]
      (XMap.new 3 4 1 2 : XMap Nat Nat)).map (fun r => (r.1.toList, r.1.buckets.length, r.1.free.length)) =
      some ([(8, 80)], 1, 0) := by
  decide

/-! ## XalanDeque: refinement to `List` -/

inductive DOp (α : Type) where
  | push (x : α)
  | pop
  | resize (n : Nat) (x : α)
  | clear
  | assign (xs : List α)      -- `operator=` from a deque holding `xs`
deriving Repr

def deqSpecStep (l : List α) : DOp α → Option (List α)
  | .push x => some (l ++ [x])
  | .pop => if l = [] then none else some l.dropLast
  | .resize n x => some (l.take n ++ List.replicate (n - l.length) x)
  | .clear => some []
  | .assign xs => some xs

def Deq.stepOp (d : Deq α) : DOp α → Option (Deq α)
  | .push x => some (d.pushBack x)
  | .pop => d.popBack
  | .resize n x => d.resize n x
  | .clear => some d.clear
  | .assign xs => some (Deq.pushAll xs d.clear)

def deqSpecRun : List (DOp α) → List α → Option (List α)
  | [], l => some l
  | op :: ops, l => (deqSpecStep l op).bind (deqSpecRun ops)

def Deq.runOps : List (DOp α) → Deq α → Option (Deq α)
  | [], d => some d
  | op :: ops, d => (Deq.stepOp d op).bind (Deq.runOps ops)

theorem deque_step_refines (d : Deq α) (op : DOp α) (h : d.Inv) (l' : List α) (hs : deqSpecStep d.toList op = some l') :
    ∃ d', Deq.stepOp d op = some d' ∧ d'.Inv ∧ d'.toList = l' := by
  cases op with
  | push x =>
    simp only [deqSpecStep, Option.some.injEq] at hs; subst hs
    exact ⟨_, rfl, (Deq.pushBack_refines d x h).1, (Deq.pushBack_refines d x h).2.1⟩
  | pop =>
    simp only [deqSpecStep] at hs
    split at hs
    · cases hs
    · rename_i hne; simp only [Option.some.injEq] at hs; subst hs
      obtain ⟨d', e, i, t, _⟩ := Deq.popBack_refines d h hne
      exact ⟨d', e, i, t⟩
  | resize n x =>
    simp only [deqSpecStep, Option.some.injEq] at hs; subst hs
    exact Deq.resize_refines d n x h
  | clear =>
    simp only [deqSpecStep, Option.some.injEq] at hs; subst hs
    exact ⟨_, rfl, (Deq.clear_refines d h).1, rfl⟩
  | assign xs =>
    simp only [deqSpecStep, Option.some.injEq] at hs; subst hs
    obtain ⟨i, t, _⟩ := Deq.pushAll_refines xs d.clear (Deq.clear_refines d h).1
    exact ⟨_, rfl, i, by rw [t]; rfl⟩

/-- **C20 (deque).** Every history of push_back / pop_back / resize / clear / operator= within the
`std::deque` preconditions: no access outside a block, the block-index invariant, the specified
element sequence (with the repaired `resize`). -/
theorem deque_refines (ops : List (DOp α)) (d : Deq α) (h : d.Inv) (l' : List α)
    (hs : deqSpecRun ops d.toList = some l') :
    ∃ d', Deq.runOps ops d = some d' ∧ d'.Inv ∧ d'.toList = l' := by
  induction ops generalizing d with
  | nil => simp only [deqSpecRun, Option.some.injEq] at hs; exact ⟨d, rfl, h, hs⟩
  | cons op ops ih =>
    simp only [deqSpecRun] at hs
    cases hst : deqSpecStep d.toList op with
    | none => simp [hst] at hs
    | some l1 =>
      simp only [hst, Option.bind_some] at hs
      obtain ⟨d1, e1, i1, t1⟩ := deque_step_refines d op h l1 hst
      obtain ⟨d2, e2, i2, t2⟩ := ih d1 i1 (by rw [t1]; exact hs)
      exact ⟨d2, by simp [Deq.runOps, e1, e2], i2, t2⟩

/-- what the observers deliver under the invariant: `size()`, `operator[]` (block / offset
arithmetic), `back()` -/
theorem deque_observers (d : Deq α) (h : d.Inv) :
    d.size = d.toList.length ∧ (∀ i, d.get i = d.toList[i]?) ∧ d.back = d.toList.getLast? :=
  ⟨Deq.size_eq d h, Deq.get_eq d h, Deq.back_eq d h⟩

example : (Deq.create 2 0 (0 : Nat)).Inv ∧
    deqSpecRun [DOp.push 1, .push 2, .push 3, .pop, .resize 5 0, .assign [7, 8, 9], .resize 1 0] (Deq.create 2 0 (0 : Nat)).toList
      = some [7] :=
  ⟨Deq.inv_nil 2 0 (by decide), by decide⟩

/-- **swap** (repaired, `proposed/C20-deque-swap.diff`): both element sequences are exchanged and both
block-index invariants hold, whatever the two block sizes. -/
theorem deque_swap_refines (a b : Deq α) (ha : a.Inv) (hb : b.Inv) :
    (Deq.swapPair a b).1.Inv ∧ (Deq.swapPair a b).2.Inv ∧ (Deq.swapPair a b).1.toList = b.toList ∧
      (Deq.swapPair a b).2.toList = a.toList :=
  Deq.swapPair_refines a b ha hb

/-- The **unrepaired** `swap` exchanges the block indexes but not the const block size: five elements
held in blocks of 2, swapped into a deque with block size 3, report `size() = 7` (and `operator[]`
leaves the blocks); the repaired one reports 5. -/
theorem deque_swap_as_written_counterexample :
    (Deq.swapInto (Deq.create 3 0 (0 : Nat)) (Deq.create 2 5 0)).size = 7 ∧
    (Deq.swapPair (Deq.create 3 0 (0 : Nat)) (Deq.create 2 5 0)).1.size = 5 ∧
    (Deq.swapInto (Deq.create 3 0 (0 : Nat)) (Deq.create 2 5 0)).get 5 = none := by
  decide

/-- The **unrepaired** `resize` loops re-read `size()`: growing an empty deque to 4 stops at 2,
shrinking 8 elements to 0 stops at 4 (DESIGN §6 item 1; replayed by the corpus of checks/c20.py). -/
theorem deque_resize_as_written_counterexample :
    ((Deq.create 10 0 (0 : Nat)).resizeAsWritten 4 0).map (·.toList.length) = some 2 ∧
    ((Deq.create 10 0 (0 : Nat)).resize 4 0).map (·.toList.length) = some 4 ∧
    ((Deq.create 3 8 (0 : Nat)).resizeAsWritten 0 0).map (·.toList.length) = some 4 := by
  decide

/-! ## XalanList -/

/-- **constructNode** (`insert`, `push_back`, `push_front`): from any state satisfying the node
invariant, `x` appears before the position, the new node is the free-list head if there is one and a
fresh allocation otherwise (`list_node_source`), every existing node keeps identity and value
(iterators stay valid), and the invariant holds again for the returned allocation counter. -/
theorem list_constructNode_refines (l : XL α) (next : Nat) (x : α) (pos : LPos) (i : Nat) (h : XL.Inv l next)
    (hi : l.touch.indexOf pos = some i) :
    ∃ l' next' id, l.constructNode next x pos = some (l', next', id) ∧ XL.Inv l' next' ∧ next ≤ next' ∧
      l'.toList = l.toList.take i ++ [x] ++ l.toList.drop i ∧ (∀ p ∈ l.live, p ∈ l'.live) := by
  obtain ⟨l', n', id, e, inv, hn, hl, hs⟩ := XL.constructNode_spec l next x pos i h hi
  refine ⟨l', n', id, e, inv, hn, ?_, hs⟩
  simp [XL.toList, hl, List.map_take, List.map_drop]

/-- which node `constructNode` uses -/
theorem list_node_source (l : XL α) (next : Nat) (x : α) (pos : LPos) (i : Nat)
    (hi : l.touch.indexOf pos = some i) :
    ∃ l' next' id, l.constructNode next x pos = some (l', next', id) ∧
      (match l.free with
        | f :: rest => id = f ∧ l'.free = rest ∧ next' = next
        | [] => id = next ∧ l'.free = [] ∧ next' = next + 1) ∧
      l'.head = true := by
  cases hf : l.free with
  | nil =>
    refine ⟨{ l.touch with live := l.live.take i ++ [(next, x)] ++ l.live.drop i }, next + 1, next, ?_,
      ⟨rfl, hf, rfl⟩, rfl⟩
    simp only [XL.constructNode, hi, Option.map_some]
    have : l.touch.free = [] := hf
    simp only [this]; rfl
  | cons f rest =>
    refine ⟨{ l.touch with live := l.live.take i ++ [(f, x)] ++ l.live.drop i, free := rest }, next, f, ?_,
      ⟨rfl, rfl, rfl⟩, rfl⟩
    simp only [XL.constructNode, hi, Option.map_some]
    have : l.touch.free = f :: rest := hf
    simp only [this]; rfl

/-- **erase** (`freeNode`; also `pop_front`/`pop_back`): exactly that node leaves, it becomes the head
of the free list, all other nodes keep identity and value, invariant kept. -/
theorem list_erase_refines (l : XL α) (next id i : Nat) (h : XL.Inv l next)
    (hi : l.indexOf (.node id) = some i) :
    ∃ l', l.erase (.node id) = some l' ∧ XL.Inv l' next ∧ l'.toList = l.toList.eraseIdx i ∧
      l'.free = id :: l.free ∧ (∀ p ∈ l.live, p.1 ≠ id → p ∈ l'.live) := by
  obtain ⟨l', e, inv, hl, hf, hs⟩ := XL.erase_spec l next id i h hi
  refine ⟨l', e, inv, ?_, hf, hs⟩
  simp only [XL.toList, hl]
  rw [List.eraseIdx_eq_take_drop_succ, List.eraseIdx_eq_take_drop_succ]
  simp [List.map_take, List.map_drop]

/-- **clear**: every node moves to the free list (none lost, none duplicated). -/
theorem list_clear_refines (l : XL α) (next : Nat) (h : XL.Inv l next) :
    XL.Inv l.clear next ∧ l.clear.toList = [] ∧ l.clear.free.length = l.live.length + l.free.length := by
  obtain ⟨i, hl, hf⟩ := XL.clear_spec l next h
  exact ⟨i, by simp [XL.toList, hl], hf⟩

/-- operations addressed through iterators (node ids), as a client uses the list -/
inductive LOp (α : Type) where
  | insert (pos : LPos) (x : α)      -- also push_back (`endPos`) / push_front (`beginPos`)
  | erase (id : Nat)                 -- also pop_front / pop_back
  | clear

def XL.runOps : List (LOp α) → XL α → Nat → Option (XL α × Nat)
  | [], l, n => some (l, n)
  | .insert pos x :: ops, l, n => (l.constructNode n x pos).bind fun r => XL.runOps ops r.1 r.2.1
  | .erase id :: ops, l, n => (l.erase (.node id)).bind fun l' => XL.runOps ops l' n
  | .clear :: ops, l, n => XL.runOps ops l.clear n

/-- **C20 (list), history form.** Any history of insert / erase / clear through valid iterators keeps the
node invariant (live node ids distinct, free list duplicate-free and disjoint from the live nodes, all ids
below the shared allocation counter, which never decreases).  `_partial`: `splice` between two lists and
`swap` are in the model and in the correspondence run, not in this alphabet (a `swap` exchanges the two
states, so each side keeps the other's invariant). -/
theorem list_history_partial (ops : List (LOp α)) (l : XL α) (n : Nat) (h : XL.Inv l n) (l' : XL α) (n' : Nat)
    (hr : XL.runOps ops l n = some (l', n')) : XL.Inv l' n' ∧ n ≤ n' := by
  induction ops generalizing l n with
  | nil => simp only [XL.runOps, Option.some.injEq, Prod.mk.injEq] at hr; rw [← hr.1, ← hr.2]; exact ⟨h, Nat.le_refl _⟩
  | cons op ops ih =>
    cases op with
    | insert pos x =>
      simp only [XL.runOps] at hr
      cases hi : l.touch.indexOf pos with
      | none => simp [XL.constructNode, hi] at hr
      | some i =>
        obtain ⟨l1, n1, id, e, inv1, hn, _, _⟩ := XL.constructNode_spec l n x pos i h hi
        rw [e] at hr
        obtain ⟨i2, h2⟩ := ih l1 n1 inv1 hr
        exact ⟨i2, Nat.le_trans hn h2⟩
    | erase id =>
      simp only [XL.runOps] at hr
      cases hi : l.indexOf (.node id) with
      | none => simp [XL.erase, hi] at hr
      | some i =>
        obtain ⟨l1, e, inv1, _⟩ := XL.erase_spec l n id i h hi
        rw [e] at hr
        exact ih l1 n inv1 hr
    | clear =>
      simp only [XL.runOps] at hr
      exact ih l.clear n (XL.clear_spec l n h).1 hr

/-! ### XalanList at pointer level (`PList.lean`: heap of `{value, prev, next}` nodes, the C++ pointer surgery) -/

/-- the pointer writes of `constructNode` / of the linking half of `splice` (`m.prev = p.prev; m.next = p;
p.prev->next = m; p.prev = m`) turn the ring through `A ++ B` into the ring through `A ++ m :: B`, in both
directions -/
theorem plist_ring_link (nx pv : Nat → Nat) (hd m q p : Nat) (A B P P' : List Nat)
    (hA : hd :: A = P ++ [q]) (hB : hd :: B.reverse = P' ++ [p])
    (hnd : (hd :: (A ++ B)).Nodup) (hm : m ∉ hd :: (A ++ B))
    (fwd : lseg nx hd (hd :: (A ++ B)) hd) (bwd : lseg pv hd (hd :: (A ++ B).reverse) hd) :
    nx q = p ∧ pv p = q ∧
    lseg (fupd (fupd nx m p) q m) hd (hd :: (A ++ m :: B)) hd ∧
    lseg (fupd (fupd pv m q) p m) hd (hd :: (A ++ m :: B).reverse) hd :=
  ring_link nx pv hd m q p A B P P' hA hB hnd hm fwd bwd

/-- the pointer writes of `freeNode` / of the unlinking half of `splice` (`m.prev->next = m.next;
m.next->prev = m.prev`) turn the ring through `A ++ m :: B` into the ring through `A ++ B` -/
theorem plist_ring_unlink (nx pv : Nat → Nat) (hd m q p : Nat) (A B P P' : List Nat)
    (hA : hd :: A = P ++ [q]) (hB : hd :: B.reverse = P' ++ [p])
    (hnd : (hd :: (A ++ m :: B)).Nodup)
    (fwd : lseg nx hd (hd :: (A ++ m :: B)) hd) (bwd : lseg pv hd (hd :: (A ++ m :: B).reverse) hd) :
    nx m = p ∧ pv m = q ∧ nx q = m ∧ pv p = m ∧
    lseg (fupd nx q (nx m)) hd (hd :: (A ++ B)) hd ∧
    lseg (fupd pv p (pv m)) hd (hd :: (A ++ B).reverse) hd :=
  ring_unlink nx pv hd m q p A B P P' hA hB hnd fwd bwd

/-- **constructNode on the heap** (head node present, free chain `m :: fs'`): the executable pointer code
succeeds, links exactly the free-list head `m` before the position, leaves the free chain `fs'` (LIFO reuse),
keeps every other node's address, links and value — i.e. it is the node-sequence edit of `XList.lean`. -/
theorem plist_constructNode_refines (h : PHeap α) (l : PL) (x : α) (A B fs' : List Nat) (m p : Nat) (P' : List Nat)
    (w : PL.PWF h l (A ++ B) (m :: fs')) (hB : l.head :: B.reverse = P' ++ [p]) :
    ∃ h' l', PL.constructNode h l x p = some (h', l', m) ∧ PL.PWF h' l' (A ++ m :: B) fs' ∧ l'.head = l.head ∧
      h'.valOf m = some x ∧ (∀ n, n ≠ m → h'.valOf n = h.valOf n) ∧ h'.nodes.length = h.nodes.length :=
  PL.constructNode_refines h l x A B fs' m p P' w hB

/-- **freeNode on the heap**: `m` leaves the ring and becomes the head of the free chain. -/
theorem plist_freeNode_refines (h : PHeap α) (l : PL) (A B fs : List Nat) (m p : Nat) (P' : List Nat)
    (w : PL.PWF h l (A ++ m :: B) fs) (hB : l.head :: B.reverse = P' ++ [p]) :
    ∃ h' l', PL.freeNode h l m = some (h', l') ∧ PL.PWF h' l' (A ++ B) (m :: fs) ∧ l'.head = l.head ∧
      (∀ n, n ≠ m → h'.valOf n = h.valOf n) ∧ h'.nodes.length = h.nodes.length :=
  PL.freeNode_refines h l A B fs m p P' w hB

/-- **constructNode on the heap, empty free chain**: the node comes from `allocate(1)` (the new address
`h.nodes.length`), is linked before the position, every existing node keeps address, links and value, and the heap
grows by exactly one node.  Proved by reduction to `plist_constructNode_refines` on the grown heap. -/
theorem plist_constructNode_alloc_refines (h : PHeap α) (l : PL) (x : α) (A B : List Nat) (p : Nat) (P' : List Nat)
    (w : PL.PWF h l (A ++ B) []) (hB : l.head :: B.reverse = P' ++ [p]) :
    ∃ h' l', PL.constructNode h l x p = some (h', l', h.nodes.length) ∧
      PL.PWF h' l' (A ++ h.nodes.length :: B) [] ∧ l'.head = l.head ∧
      h'.valOf h.nodes.length = some x ∧ (∀ n, n < h.nodes.length → h'.valOf n = h.valOf n) ∧
      h'.nodes.length = h.nodes.length + 1 :=
  PL.constructNode_alloc_refines h l x A B p P' w hB

/-- **the first insertion into a list without head node** (the lazy head of c994d6f; the position is the null
iterator): head node and element node are allocated in this order and the list is well formed with exactly `x`. -/
theorem plist_constructNode_first_refines (h : PHeap α) (l : PL) (x : α) (hh : l.head = 0) (hf : l.free = 0)
    (hlen : h.nodes.length ≠ 0) :
    ∃ h' l', PL.constructNode h l x 0 = some (h', l', h.nodes.length + 1) ∧
      PL.PWF h' l' [h.nodes.length + 1] [] ∧ l'.head = h.nodes.length ∧
      h'.valOf (h.nodes.length + 1) = some x ∧ (∀ n, n < h.nodes.length → h'.valOf n = h.valOf n) ∧
      h'.nodes.length = h.nodes.length + 2 :=
  PL.constructNode_first_refines h l x hh hf hlen

/-- **clear() on the heap**, for a list of any length (induction over the linked nodes composing
`plist_freeNode_refines` through the `freeNode(pos++.node())` loop): the executable pointer code succeeds, the ring
is `head <-> head` again, every node is on the free chain with the last list node first (so it is reused
first), in front of the previous free chain; the head node stays, no value outside the list is written and no
node is allocated or given back (the heap keeps its size). -/
theorem plist_clear_refines (h : PHeap α) (l : PL) (ns fs : List Nat) (w : PL.PWF h l ns fs) :
    ∃ h' l', PL.clear h l = some (h', l') ∧ PL.PWF h' l' [] (ns.reverse ++ fs) ∧ l'.head = l.head ∧
      (∀ n, n ∉ ns → h'.valOf n = h.valOf n) ∧ h'.nodes.length = h.nodes.length :=
  PL.clear_refines h l ns fs w

/-- non-vacuity of the `PWF` hypothesis: a concrete heap (head node 1, linked nodes 2 and 3 holding 7 and 8, one
free node 4) is well formed, and `clear()` computes what `plist_clear_refines` states -/
def plistSampleHeap : PHeap Int :=
  ⟨[⟨none, 0, 0⟩, ⟨none, 3, 2⟩, ⟨some 7, 1, 3⟩, ⟨some 8, 2, 1⟩, ⟨none, 0, 0⟩]⟩
def plistSampleList : PL := { head := 1, free := 4 }

example : PL.PWF plistSampleHeap plistSampleList [2, 3] [4] where
  head_ne := by decide
  nodup := by decide
  valid := by decide
  fwd := by simp only [lseg]; decide
  bwd := by simp only [lseg, List.reverse_cons, List.reverse_nil, List.nil_append, List.cons_append]; decide
  freec := by simp only [lseg]; decide
  vals := by decide

example : (PL.clear plistSampleHeap plistSampleList).map
    (fun r => (PL.toList r.1 r.2, PL.nodesOf r.1 r.2, PL.freeOf r.1 r.2, r.2.head)) = some ([], [], [3, 2, 4], 1) := by
  decide

/-- **splice(pos, *this, it) on the heap** (one node moved inside a list, any two places): the six pointer
writes of `PL.splice` — unlink `m`, then link it before `p`, reading `p.prev` only after the unlinking, as the C++
does — succeed, turn the ring through `A ++ m :: B` into the ring through `A' ++ m :: B'` (where `A' ++ B'` is the
ring without `m`, split at the target position, `p` the node there or the head node for `end()`), in both
directions; every value, every address, the free chain and the heap size are unchanged.  Composes
`plist_ring_unlink` and `plist_ring_link`. -/
theorem plist_splice_same_refines (h : PHeap α) (l : PL) (A B A' B' fs : List Nat) (m p : Nat) (P1 : List Nat)
    (w : PL.PWF h l (A ++ m :: B) fs) (hsplit : A ++ B = A' ++ B') (hB' : l.head :: B'.reverse = P1 ++ [p]) :
    ∃ h', PL.splice h l p m = some (h', l) ∧ PL.PWF h' l (A' ++ m :: B') fs ∧ h'.valOf = h.valOf ∧
      h'.nodes.length = h.nodes.length :=
  PL.splice_same_refines h l A B A' B' fs m p P1 w hsplit hB'

/-- non-vacuity / a computed instance on the sample heap (ring 2,3): moving node 3 in front of node 2, and
node 2 to `end()` -/
example : ((PL.splice plistSampleHeap plistSampleList 2 3).map fun r => (PL.nodesOf r.1 r.2, PL.nodesBack r.1 r.2,
    PL.toList r.1 r.2, PL.freeOf r.1 r.2)) = some ([3, 2], [2, 3], [8, 7], [4]) := by decide
example : ((PL.splice plistSampleHeap plistSampleList 1 2).map fun r => (PL.nodesOf r.1 r.2, PL.nodesBack r.1 r.2,
    PL.toList r.1 r.2, PL.freeOf r.1 r.2)) = some ([3, 2], [2, 3], [8, 7], [4]) := by decide

/-- **XalanList at pointer level, history**: from the freshly constructed list object (no head node, no free
chain) in any heap, every sequence of `push_back` / `push_front` / `pop_front` / `pop_back` / `clear()` /
`insert(it, x)` / `erase(it)` calls (iterators named by their distance from `begin()`) that stays inside the
`std::list` contract (`PL.pspecRun`: `pop_*` only on a non-empty list, `insert` up to `end()`, `erase` below it) runs through the
executable pointer code (`PL.pstep`, the function `Driver/C20.lean` executes against the C++) without
dereferencing a null / invalid pointer, and walking `next` from the head node then reads back exactly the
specified sequence; the heap stays well formed (`PL.Rep`), so the statement composes over further calls.
Induction over the call list composing `plist_constructNode_refines` (recycled node),
`plist_constructNode_alloc_refines`, `plist_constructNode_first_refines`, `plist_freeNode_refines` and
`plist_clear_refines`.  Not covered (stated in design/C20.md): iterators *saved across* calls, `splice`, range splice and `swap` — those
stay at the one-step theorems above and at the node-sequence level (`list_history_partial`). -/
theorem plist_history (h : PHeap α) (hlen : h.nodes.length ≠ 0) (ops : List (PL.POp α)) (s : List α)
    (hs : PL.pspecRun [] ops = some s) :
    ∃ h' l', PL.prun h {} ops = some (h', l') ∧ PL.toList h' l' = s ∧ PL.Rep h' l' s :=
  PL.plist_history h hlen ops s hs

/-- non-vacuity: a call sequence inside the contract, with reuse of freed nodes and a `clear()` in the middle -/
example : PL.pspecRun ([] : List Int)
    [.pushBack 1, .pushFront 2, .insertAt 1 9, .popBack, .eraseAt 0, .pushBack 3, .clear, .pushFront 4, .pushBack 5,
     .insertAt 2 6, .popFront, .eraseAt 1] = some [5] := by
  decide
example : ((PL.prun ({} : PHeap Int) {}
    [.pushBack 1, .pushFront 2, .insertAt 1 9, .popBack, .eraseAt 0, .pushBack 3, .clear, .pushFront 4, .pushBack 5,
     .insertAt 2 6, .popFront, .eraseAt 1]).map
      fun r => PL.toList r.1 r.2) = some [5] := by
  decide

/-- **splice(pos, other, it) on the heap, between two list objects** (the form `XalanMap` uses between its
entry list and its free list): on a heap where destination `l1` and source `l2` are well formed and share no node,
the six pointer writes of `PL.splice` succeed, the source ring loses exactly `m`, the destination ring gains it in
front of `p` (both directions each), both free chains, every value and the heap size are unchanged — both lists
are well formed again, so the step composes.  `plist_ring_unlink` on the source ring, `plist_ring_link` on the
destination ring, and the frame lemma `lseg_congr` for the ring that is not written. -/
theorem plist_splice_cross_refines (h : PHeap α) (l1 l2 : PL) (A B A' B' fs1 fs2 : List Nat) (m p : Nat)
    (P1 : List Nat) (w1 : PL.PWF h l1 (A' ++ B') fs1) (w2 : PL.PWF h l2 (A ++ m :: B) fs2)
    (hd12 : ∀ a, a ∈ l1.head :: ((A' ++ B') ++ fs1) → a ∈ l2.head :: ((A ++ m :: B) ++ fs2) → False)
    (hB' : l1.head :: B'.reverse = P1 ++ [p]) :
    ∃ h', PL.splice h l1 p m = some (h', l1) ∧ PL.PWF h' l1 (A' ++ m :: B') fs1 ∧ PL.PWF h' l2 (A ++ B) fs2 ∧
      h'.valOf = h.valOf ∧ h'.nodes.length = h.nodes.length :=
  PL.splice_cross_refines h l1 l2 A B A' B' fs1 fs2 m p P1 w1 w2 hd12 hB'

/-- non-vacuity: two lists in one heap (list 1: head 1, nodes 2,3; list 2: head 4, node 5), node 5 spliced in front
of node 3 of list 1 -/
def plistTwoHeap : PHeap Int :=
  ⟨[⟨none, 0, 0⟩, ⟨none, 3, 2⟩, ⟨some 7, 1, 3⟩, ⟨some 8, 2, 1⟩, ⟨none, 5, 5⟩, ⟨some 9, 4, 4⟩]⟩
example : ((PL.splice plistTwoHeap { head := 1, free := 0 } 3 5).map fun r =>
    (PL.toList r.1 r.2, PL.nodesBack r.1 r.2, PL.toList r.1 { head := 4, free := 0 },
     PL.nodesBack r.1 { head := 4, free := 0 })) = some ([7, 9, 8], [3, 5, 2], [], []) := by decide

/-- **splice(pos, *this, it) inside a history**: in any state reached by `plist_history` (`PL.Rep`), moving the
element at distance `sidx` from `begin()` in front of the position at distance `pidx` (`pidx = size()`: `end()`)
through the executable pointer code (`PL.pmove`, the function `Driver/C20.lean` executes for a `splice` request whose
source is the destination list) succeeds, yields the `std::list::splice` result (`PL.specMove`; `none` for an
iterator outside the list), and `PL.Rep` holds again — so this step can be interleaved with the calls of
`plist_history` in any order.  `pos == it` (the early return of the C++) is a case of the proof. -/
theorem plist_move_refines (h : PHeap α) (l : PL) (s s' : List α) (pidx sidx : Nat) (r : PL.Rep h l s)
    (hs : PL.specMove s pidx sidx = some s') :
    ∃ h', PL.pmove h l pidx sidx = some (h', l) ∧ PL.Rep h' l s' ∧ PL.toList h' l = s' := by
  obtain ⟨h', hp, r'⟩ := PL.pmove_refines h l s s' pidx sidx r hs
  exact ⟨h', hp, r', PL.rep_toList r'⟩

/-- non-vacuity: contract and pointer code on a reached state (ring 10,20,30 built by three `push_back`s) -/
example : PL.specMove [10, 20, 30] 0 2 = some [30, 10, 20] ∧ PL.specMove [10, 20, 30] 3 0 = some [20, 30, 10] ∧
    PL.specMove [10, 20, 30] 1 1 = some [10, 20, 30] ∧ PL.specMove [10, 20, 30] 2 1 = some [10, 20, 30] := by decide
example : ((PL.prun ({} : PHeap Int) {} [.pushBack 10, .pushBack 20, .pushBack 30]).bind fun r =>
    (PL.pmove r.1 r.2 3 0).map fun q => PL.toList q.1 q.2) = some [20, 30, 10] := by decide

/-! ## XalanDOMString -/


/-! ### XalanDOMString: refinement to the list of its characters -/

inductive SOp where
  | append (xs : List Nat)
  | appendN (n c : Nat)
  | push (c : Nat)
  | insert (pos : Nat) (xs : List Nat)
  | insertN (pos n c : Nat)
  | erase (start : Nat) (count : Option Nat)       -- `none` = npos
  | eraseAt (pos : Nat)
  | clear
  | resize (n c : Nat)
  | reserve (n : Nat)
  | assign (src : DStr)
  | assignN (n c : Nat)
  | assignSub (src : DStr) (pos count : Nat)      -- also `src.substr(*this, pos, count)`
  | assignSelfSub (pos count : Nat)
  | appendSub (src : DStr) (pos : Nat) (count : Option Nat)
  | eraseRange (a b : Nat)                        -- `erase(iterator, iterator)`
  | assignIt (xs : List Nat)                      -- `assign(iterator, iterator)`, range outside the string

/-- the `std::u16string` contract (`none` = outside the preconditions of the call) -/
def strSpecStep (l : List Nat) : SOp → Option (List Nat)
  | .append xs => some (l ++ xs)
  | .appendN n c => some (l ++ List.replicate n c)
  | .push c => some (l ++ [c])
  | .insert pos xs => if pos ≤ l.length then some (l.take pos ++ xs ++ l.drop pos) else none
  | .insertN pos n c => if pos ≤ l.length then some (l.take pos ++ List.replicate n c ++ l.drop pos) else none
  | .erase start none => if start ≤ l.length then some (l.take start) else none
  | .erase start (some c) => if start + c ≤ l.length then some (l.take start ++ l.drop (start + c)) else none
  | .eraseAt pos => if pos < l.length then some (l.eraseIdx pos) else none
  | .clear => some []
  | .resize n c => some (l.take n ++ List.replicate (n - l.length) c)
  | .reserve _ => some l
  | .assign src => if src.Inv then some src.chars else none
  | .assignN n c => some (List.replicate n c)
  | .assignSub src pos count =>
    if src.Inv ∧ pos < src.chars.length ∧ pos + count ≤ src.chars.length then some ((src.chars.drop pos).take count) else none
  | .assignSelfSub pos count =>
    if pos < l.length ∧ pos + count ≤ l.length then some ((l.drop pos).take count) else none
  | .appendSub src pos (some c) =>
    if src.Inv ∧ pos < src.chars.length ∧ pos + c ≤ src.chars.length then some (l ++ (src.chars.drop pos).take c) else none
  | .appendSub src pos none =>
    if src.Inv ∧ pos < src.chars.length ∧ (∀ x ∈ src.chars.drop pos, x ≠ 0) then some (l ++ src.chars.drop pos) else none
  | .eraseRange a b => if a ≤ b ∧ b ≤ l.length then some (l.take a ++ l.drop b) else none
  | .assignIt xs => some xs

/-- the XalanDOMString code paths -/
def DStr.stepOp (s : DStr) : SOp → Option DStr
  | .append xs => s.append xs
  | .appendN n c => s.appendN n c
  | .push c => s.pushBack c
  | .insert pos xs => s.insert pos xs
  | .insertN pos n c => s.insertN pos n c
  | .erase start count => s.erase start count
  | .eraseAt pos => s.eraseAt pos
  | .clear => s.clear
  | .resize n c => s.resize n c
  | .reserve n => some (s.reserve n)
  | .assign src => s.assign src
  | .assignN n c => s.assignN n c
  | .assignSub src pos count => s.assignSub src pos count
  | .assignSelfSub pos count => s.assignSelfSub pos count
  | .appendSub src pos count => s.appendSub src pos count
  | .eraseRange a b => s.eraseRange a b
  | .assignIt xs => s.assignIt xs

def strSpecRun : List SOp → List Nat → Option (List Nat)
  | [], l => some l
  | op :: ops, l => (strSpecStep l op).bind (strSpecRun ops)

def DStr.runOps : List SOp → DStr → Option DStr
  | [], s => some s
  | op :: ops, s => (DStr.stepOp s op).bind (DStr.runOps ops)

private theorem rep_fin {f : Option DStr} {l : List Nat} (h : ∃ s', f = some s' ∧ DStr.Rep s' l) :
    ∃ s', f = some s' ∧ s'.Inv ∧ s'.chars = l := by
  obtain ⟨s', e, r⟩ := h
  exact ⟨s', e, DStr.rep_inv r, DStr.rep_chars r⟩

/-- One mutator, from any state satisfying the class invariant — in particular from *both*
representations of the empty string (no buffer; a buffer holding only the terminator, as left by
`resize(0)`, `erase(begin(), end())`, `append(0, c)`): no memory error of the underlying vector, the
invariant (`m_data` empty or `chars ++ [0]`, `m_size = |chars|`) again, the `std::u16string` result. -/
theorem domstring_step_refines (s : DStr) (op : SOp) (h : s.Inv) (l' : List Nat)
    (hs : strSpecStep s.chars op = some l') :
    ∃ s', DStr.stepOp s op = some s' ∧ s'.Inv ∧ s'.chars = l' := by
  have r := DStr.inv_rep h
  cases op with
  | append xs => simp only [strSpecStep, Option.some.injEq] at hs; subst hs; exact rep_fin (DStr.append_rep r xs)
  | appendN n c => simp only [strSpecStep, Option.some.injEq] at hs; subst hs; exact rep_fin (DStr.appendN_rep r n c)
  | push c => simp only [strSpecStep, Option.some.injEq] at hs; subst hs; exact rep_fin (DStr.pushBack_rep r c)
  | insert pos xs =>
    simp only [strSpecStep] at hs; split at hs
    · rename_i hp; simp only [Option.some.injEq] at hs; subst hs; exact rep_fin (DStr.insert_rep r pos xs hp)
    · cases hs
  | insertN pos n c =>
    simp only [strSpecStep] at hs; split at hs
    · rename_i hp; simp only [Option.some.injEq] at hs; subst hs; exact rep_fin (DStr.insertN_rep r pos n c hp)
    · cases hs
  | erase start count =>
    cases count with
    | none =>
      simp only [strSpecStep] at hs; split at hs
      · rename_i hp; simp only [Option.some.injEq] at hs; subst hs; exact rep_fin (DStr.erase_npos_rep r start hp)
      · cases hs
    | some c =>
      simp only [strSpecStep] at hs; split at hs
      · rename_i hp; simp only [Option.some.injEq] at hs; subst hs; exact rep_fin (DStr.erase_some_rep r start c hp)
      · cases hs
  | eraseAt pos =>
    simp only [strSpecStep] at hs; split at hs
    · rename_i hp; simp only [Option.some.injEq] at hs; subst hs; exact rep_fin (DStr.eraseAt_rep r pos hp)
    · cases hs
  | clear =>
    simp only [strSpecStep, Option.some.injEq] at hs; subst hs
    obtain ⟨s', e, r', _⟩ := DStr.clear_rep r
    exact rep_fin ⟨s', e, r'⟩
  | resize n c => simp only [strSpecStep, Option.some.injEq] at hs; subst hs; exact rep_fin (DStr.resize_rep r n c)
  | reserve n =>
    simp only [strSpecStep, Option.some.injEq] at hs; subst hs
    exact rep_fin ⟨_, rfl, DStr.reserve_rep r n⟩
  | assign src =>
    simp only [strSpecStep] at hs; split at hs
    · rename_i hi; simp only [Option.some.injEq] at hs; subst hs; exact rep_fin (DStr.assign_rep r (DStr.inv_rep hi))
    · cases hs
  | assignN n c => simp only [strSpecStep, Option.some.injEq] at hs; subst hs; exact rep_fin (DStr.assignN_rep r n c)
  | assignSub src pos count =>
    simp only [strSpecStep] at hs; split at hs
    · rename_i hp; simp only [Option.some.injEq] at hs; subst hs
      exact rep_fin (DStr.assignSub_rep r (DStr.inv_rep hp.1) pos count hp.2.1 hp.2.2)
    · cases hs
  | assignSelfSub pos count =>
    simp only [strSpecStep] at hs; split at hs
    · rename_i hp; simp only [Option.some.injEq] at hs; subst hs
      exact rep_fin (DStr.assignSelfSub_rep r pos count hp.1 hp.2)
    · cases hs
  | eraseRange a b =>
    simp only [strSpecStep] at hs; split at hs
    · rename_i hp; simp only [Option.some.injEq] at hs; subst hs
      exact rep_fin (DStr.eraseRange_rep r a b hp.1 hp.2)
    · cases hs
  | assignIt xs => simp only [strSpecStep, Option.some.injEq] at hs; subst hs; exact rep_fin (DStr.assignIt_rep r xs)
  | appendSub src pos count =>
    cases count with
    | none =>
      simp only [strSpecStep] at hs; split at hs
      · rename_i hp; simp only [Option.some.injEq] at hs; subst hs
        have := DStr.appendSub_rep r (DStr.inv_rep hp.1) pos none hp.2.1 (by intro c hc; cases hc) (fun _ => hp.2.2)
        have e : (List.drop pos src.chars).take (src.chars.length - pos) = List.drop pos src.chars :=
          List.take_of_length_le (by simp)
        simp only [Option.getD_none, e] at this
        exact rep_fin this
      · cases hs
    | some c =>
      simp only [strSpecStep] at hs; split at hs
      · rename_i hp; simp only [Option.some.injEq] at hs; subst hs
        have := DStr.appendSub_rep r (DStr.inv_rep hp.1) pos (some c) hp.2.1
          (by intro c' hc; cases hc; exact hp.2.2) (by intro hc; cases hc)
        simp only [Option.getD_some] at this
        exact rep_fin this
      · cases hs

/-- **C20 (string).** Every history of mutators inside the `std::u16string` preconditions, from any
state satisfying the invariant (a fresh string does: `domstring_new_inv`). -/
theorem domstring_refines (ops : List SOp) (s : DStr) (h : s.Inv) (l' : List Nat)
    (hs : strSpecRun ops s.chars = some l') :
    ∃ s', DStr.runOps ops s = some s' ∧ s'.Inv ∧ s'.chars = l' := by
  induction ops generalizing s with
  | nil => simp only [strSpecRun, Option.some.injEq] at hs; exact ⟨s, rfl, h, hs⟩
  | cons op ops ih =>
    simp only [strSpecRun] at hs
    cases hst : strSpecStep s.chars op with
    | none => simp [hst] at hs
    | some l1 =>
      simp only [hst, Option.bind_some] at hs
      obtain ⟨s1, e1, i1, c1⟩ := domstring_step_refines s op h l1 hst
      obtain ⟨s2, e2, i2, c2⟩ := ih s1 i1 (by rw [c1]; exact hs)
      exact ⟨s2, by simp [DStr.runOps, e1, e2], i2, c2⟩

theorem domstring_new_inv : ({} : DStr).Inv := by decide

/-- non-vacuity: this history passes through the "terminator only" representation (after `resize 0`)
and grows from it, which is exactly where the unrepaired `resize` put a 0 in front. -/
example :
    strSpecRun [SOp.append [1, 2, 3], .resize 0 9, .resize 3 7, .insertN 1 2 5, .erase 0 (some 1), .eraseAt 0,
                .assignSelfSub 1 2, .appendN 0 4, .push 6] ({} : DStr).chars = some [7, 7, 6] ∧
    (DStr.runOps [SOp.append [1, 2, 3], .resize 0 9] {}).map (fun s => (s.data.items, s.size)) = some ([0], 0) := by
  decide


/-! ### XalanDOMString: `const XalanDOMChar*` overloads and the comparison family -/

/-- `append(p)`, `assign(p)`, `insert(pos, p)` with a NUL-terminated buffer use exactly the units before the
first 0; `assign(p, n)` the first `n` units — with the class invariant kept (`Rep`). -/
theorem domstring_pointer_overloads (s : DStr) (h : s.Inv) (p : List Nat) (pos : Nat) (hp : pos ≤ s.chars.length) :
    (∃ s', s.appendZ p = some s' ∧ s'.Inv ∧ s'.chars = s.chars ++ zstr p) ∧
    (∃ s', s.assignZ p = some s' ∧ s'.Inv ∧ s'.chars = zstr p) ∧
    (∃ s', s.insertZ pos p = some s' ∧ s'.Inv ∧ s'.chars = s.chars.take pos ++ zstr p ++ s.chars.drop pos) ∧
    (∀ c, c ≤ p.length → ∃ s', s.assignPtr p c = some s' ∧ s'.Inv ∧ s'.chars = p.take c) := by
  obtain ⟨h1, h2, h3, h4⟩ := DStr.pointer_overloads (DStr.inv_rep h) p pos hp
  exact ⟨rep_fin h1, rep_fin h2, rep_fin h3, fun c hc => rep_fin (h4 c hc)⟩

/-- **compare**: the sign of `doCompare` is the lexicographic order of the unit sequences (what
`std::u16string::compare` decides); 0 exactly for equal sequences. -/
theorem domstring_compare_spec (l r : List Nat) :
    (doCompare l r < 0 ↔ l < r) ∧ (doCompare l r = 0 ↔ l = r) ∧ (0 < doCompare l r ↔ r < l) :=
  ⟨doCompare_neg l r, doCompare_eq_zero l r, doCompare_pos l r⟩

/-- static `equals` / `operator==`, `equalsIgnoreCaseASCII`, `compareIgnoreCaseASCII` -/
theorem domstring_equals_spec (l r : List Nat) :
    equalsUnits l r = decide (l = r) ∧
    equalsIgnoreCaseASCII l r = decide (l.map toUpperASCII = r.map toUpperASCII) ∧
    (l.length < r.length → compareIgnoreCaseASCII l r = -1) ∧
    (r.length < l.length → compareIgnoreCaseASCII l r = 1) ∧
    (l.length = r.length → compareIgnoreCaseASCII l r = doCompare (l.map toUpperASCII) (r.map toUpperASCII)) ∧
    (compareIgnoreCaseASCII l r = 0 ↔ equalsIgnoreCaseASCII l r = true) :=
  ⟨equalsUnits_spec l r, equalsIgnoreCaseASCII_spec l r, (compareIgnoreCaseASCII_spec l r).1,
   (compareIgnoreCaseASCII_spec l r).2.1, (compareIgnoreCaseASCII_spec l r).2.2.1, (compareIgnoreCaseASCII_spec l r).2.2.2⟩

/-- The **unrepaired** `compare(pos, n, p)` with the default length: `"abc".compare(0, 2, "ab")` is -1
(the repaired code and `std::u16string` give 0). -/
theorem domstring_compare_npos_as_written_counterexample :
    (DStr.mk ⟨[97, 98, 99, 0], 4⟩ 3).compareSubAsWritten 0 2 [97, 98, 0] none = -1 ∧
    (DStr.mk ⟨[97, 98, 99, 0], 4⟩ 3).compareSub 0 2 [97, 98, 0] none = 0 := by
  decide

/-- The **unrepaired** `resize` leaves the old terminator inside the string: `"ab".resize(5,'x')`
is `61 62 00 78 78`; the repaired one gives `61 62 78 78 78` (DESIGN §6 item 2). -/
theorem domstring_resize_as_written_counterexample :
    ((DStr.mk ⟨[0x61, 0x62, 0], 3⟩ 2).resizeAsWritten 5 0x78).map (·.chars) = some [0x61, 0x62, 0, 0x78, 0x78] ∧
    ((DStr.mk ⟨[0x61, 0x62, 0], 3⟩ 2).resize 5 0x78).map (·.chars) = some [0x61, 0x62, 0x78, 0x78, 0x78] ∧
    ((DStr.mk ⟨[0], 1⟩ 0).resizeAsWritten 3 7).map (·.chars) = some [0, 7, 7] := by
  decide

/-- The **unrepaired** `erase(begin(), end())` on a string that never allocated its buffer leaves
`m_size = 2^64 - 1`. -/
theorem domstring_erase_range_as_written_counterexample :
    (({} : DStr).eraseRangeAsWritten 0 0).map (·.size) = some (2^64 - 1) ∧
    (({} : DStr).eraseRange 0 0).map (·.size) = some 0 := by
  decide

/-- The **unrepaired** `substr(dst, 1, npos)` copies the terminator into the result (and reads past
the buffer for positions ≥ 2); the repaired one yields the tail. -/
theorem domstring_substr_as_written_counterexample :
    ((DStr.mk ⟨[1, 2, 3, 4, 0], 5⟩ 4).substrIntoAsWritten {} 1 none).map (·.chars) = some [2, 3, 4, 0] ∧
    ((DStr.mk ⟨[1, 2, 3, 4, 0], 5⟩ 4).substrInto {} 1 none).map (·.chars) = some [2, 3, 4] ∧
    (DStr.mk ⟨[1, 2, 3, 4, 0], 5⟩ 4).substrIntoAsWritten {} 2 none = none := by
  decide

/-- The **unrepaired** `append(src, pos, npos)` on an allocated buffer adds `npos` to `m_size`. -/
theorem domstring_append_npos_as_written_counterexample :
    ((DStr.mk ⟨[7, 0], 2⟩ 1).appendSubAsWritten (DStr.mk ⟨[1, 2, 3, 4, 0], 5⟩ 4) 1 none).map (·.size) = some 0 ∧
    ((DStr.mk ⟨[7, 0], 2⟩ 1).appendSub (DStr.mk ⟨[1, 2, 3, 4, 0], 5⟩ 4) 1 none).map (fun s => (s.size, s.chars)) =
      some (4, [7, 2, 3, 4]) := by
  decide


/-! ## Deque, list, map: every element object constructed exactly once before use, destroyed exactly once -/

/-- the element-touching primitives of the deque (`resize` is a loop of the first two, `operator=` is
`clear()` followed by `push_back`s) -/
inductive DPrim (α : Type) where
  | push (x : α)
  | pop
  | clear

def Deq.primRun : List (DPrim α) → Deq α → Option (Deq α × List Ev)
  | [], d => some (d, [])
  | .push x :: ops, d => (Deq.primRun ops (d.pushBack x)).map fun r => (r.1, d.evPush ++ r.2)
  | .pop :: ops, d => d.popBack.bind fun d1 => (Deq.primRun ops d1).map fun r => (r.1, d.evPop ++ r.2)
  | .clear :: ops, d => (Deq.primRun ops d.clear).map fun r => (r.1, d.evClear ++ r.2)

/-- **C20 (deque), event form.** The element events of any history (cells named block-position / index)
pass the placement discipline and lead from the constructed cells of the start state to those of the end
state; the block-index invariant is kept. -/
theorem deque_events_history (ops : List (DPrim α)) (d : Deq α) (h : d.Inv) (d' : Deq α) (evs : List Ev)
    (hr : Deq.primRun ops d = some (d', evs)) : d'.Inv ∧ replay evs d.liveOf = some d'.liveOf := by
  induction ops generalizing d evs with
  | nil => simp only [Deq.primRun, Option.some.injEq, Prod.mk.injEq] at hr; rw [← hr.1, ← hr.2]; exact ⟨h, rfl⟩
  | cons op ops ih =>
    cases op with
    | push x =>
      simp only [Deq.primRun] at hr
      cases hrec : Deq.primRun ops (d.pushBack x) with
      | none => simp [hrec] at hr
      | some r =>
        obtain ⟨rd, re⟩ := r
        simp only [hrec, Option.map_some, Option.some.injEq, Prod.mk.injEq] at hr
        obtain ⟨rfl, rfl⟩ := hr
        obtain ⟨i2, h2⟩ := ih (d.pushBack x) (Deq.pushBack_refines d x h).1 re hrec
        rw [replay_append, Deq.events_push d x h, Option.bind_some]
        exact ⟨i2, h2⟩
    | pop =>
      simp only [Deq.primRun] at hr
      cases hp : d.popBack with
      | none => simp [hp] at hr
      | some d1 =>
        simp only [hp, Option.bind_some] at hr
        cases hrec : Deq.primRun ops d1 with
        | none => simp [hrec] at hr
        | some r =>
          obtain ⟨rd, re⟩ := r
          simp only [hrec, Option.map_some, Option.some.injEq, Prod.mk.injEq] at hr
          obtain ⟨rfl, rfl⟩ := hr
          have hne : d.toList ≠ [] := by
            intro hnil
            obtain ⟨bs, blocks, fb⟩ := d
            rcases List.eq_nil_or_concat blocks with rfl | ⟨init, last, rfl⟩
            · simp [Deq.popBack] at hp
            · simp only [List.concat_eq_append] at h hnil
              have := (Deq.inv_snoc.mp h).2.2.1
              simp [Deq.toList] at hnil
              rw [hnil.2] at this; simp at this
          obtain ⟨d1', e1, i1, _, _⟩ := Deq.popBack_refines d h hne
          rw [hp] at e1; cases e1
          obtain ⟨i2, h2⟩ := ih d1 i1 re hrec
          rw [replay_append, Deq.events_pop d d1 h hp, Option.bind_some]
          exact ⟨i2, h2⟩
    | clear =>
      simp only [Deq.primRun] at hr
      cases hrec : Deq.primRun ops d.clear with
      | none => simp [hrec] at hr
      | some r =>
        obtain ⟨rd, re⟩ := r
        simp only [hrec, Option.map_some, Option.some.injEq, Prod.mk.injEq] at hr
        obtain ⟨rfl, rfl⟩ := hr
        obtain ⟨i2, h2⟩ := ih d.clear (Deq.clear_refines d h).1 re hrec
        rw [replay_append, Deq.events_clear d, Option.bind_some]
        exact ⟨i2, h2⟩

def XL.evRun : List (LOp α) → XL α → Nat → Option (XL α × Nat × List Ev)
  | [], l, n => some (l, n, [])
  | .insert pos x :: ops, l, n =>
    (l.constructNode n x pos).bind fun r => (XL.evRun ops r.1 r.2.1).map fun q => (q.1, q.2.1, XL.evConstruct r.2.2 ++ q.2.2)
  | .erase id :: ops, l, n =>
    (l.erase (.node id)).bind fun l' => (XL.evRun ops l' n).map fun q => (q.1, q.2.1, XL.evErase id ++ q.2.2)
  | .clear :: ops, l, n => (XL.evRun ops l.clear n).map fun q => (q.1, q.2.1, l.evClear ++ q.2.2)

/-- **C20 (list), event form.** Insert / erase / clear histories through valid iterators: the element of a
node is constructed exactly once when the node is linked (new or recycled from the free list) and destroyed
exactly once when it is unlinked. -/
theorem list_events_history (ops : List (LOp α)) (l : XL α) (n : Nat) (h : XL.Inv l n) (l' : XL α) (n' : Nat)
    (evs : List Ev) (hr : XL.evRun ops l n = some (l', n', evs)) :
    XL.Inv l' n' ∧ replay evs l.liveOf = some l'.liveOf := by
  induction ops generalizing l n evs with
  | nil =>
    simp only [XL.evRun, Option.some.injEq, Prod.mk.injEq] at hr
    rw [← hr.1, ← hr.2.1, ← hr.2.2]; exact ⟨h, rfl⟩
  | cons op ops ih =>
    cases op with
    | insert pos x =>
      simp only [XL.evRun] at hr
      cases hi : l.touch.indexOf pos with
      | none => simp [XL.constructNode, hi] at hr
      | some i =>
        obtain ⟨l1, n1, id, e, inv1, hev⟩ := XL.events_construct l n x pos i h hi
        rw [e] at hr
        simp only [Option.bind_some] at hr
        cases hrec : XL.evRun ops l1 n1 with
        | none => simp [hrec] at hr
        | some q =>
          obtain ⟨ql, qn, qe⟩ := q
          simp only [hrec, Option.map_some, Option.some.injEq, Prod.mk.injEq] at hr
          obtain ⟨rfl, rfl, rfl⟩ := hr
          obtain ⟨i2, h2⟩ := ih l1 n1 inv1 qe hrec
          rw [replay_append, hev, Option.bind_some]
          exact ⟨i2, h2⟩
    | erase id =>
      simp only [XL.evRun] at hr
      cases hi : l.indexOf (.node id) with
      | none => simp [XL.erase, hi] at hr
      | some i =>
        obtain ⟨l1, e, inv1, hev⟩ := XL.events_erase l n id i h hi
        rw [e] at hr
        simp only [Option.bind_some] at hr
        cases hrec : XL.evRun ops l1 n with
        | none => simp [hrec] at hr
        | some q =>
          obtain ⟨ql, qn, qe⟩ := q
          simp only [hrec, Option.map_some, Option.some.injEq, Prod.mk.injEq] at hr
          obtain ⟨rfl, rfl, rfl⟩ := hr
          obtain ⟨i2, h2⟩ := ih l1 n inv1 qe hrec
          rw [replay_append, hev, Option.bind_some]
          exact ⟨i2, h2⟩
    | clear =>
      simp only [XL.evRun] at hr
      cases hrec : XL.evRun ops l.clear n with
      | none => simp [hrec] at hr
      | some q =>
        obtain ⟨ql, qn, qe⟩ := q
        simp only [hrec, Option.map_some, Option.some.injEq, Prod.mk.injEq] at hr
        obtain ⟨rfl, rfl, rfl⟩ := hr
        obtain ⟨i2, h2⟩ := ih l.clear n (XL.clear_spec l n h).1 qe hrec
        rw [replay_append, XL.events_clear l n h, Option.bind_some]
        exact ⟨i2, h2⟩

/-- **C20 (map), event form.** The mapped value of an entry is constructed exactly once by `doCreateEntry`
(the node is new or recycled from the free list and holds no value then), assigned only while the entry is
live, destroyed exactly once by `doRemoveEntry` / `clear`; a stale bucket pointer never leads to a second
destruction. -/
theorem map_events {κ ν : Type} [DecidableEq κ] (hash : κ → Nat) (m : XMap κ ν) (h : XMap.Inv hash m) :
    (∀ k v, (∀ e ∈ m.entries, e.key ≠ k) → ∃ m' e, XMap.createEntry hash m k v = some (m', e) ∧ XMap.Inv hash m' ∧
        replay (XMap.evCreate e.id) m.liveOf = some m'.liveOf) ∧
    (∀ e ∈ m.entries, replay (XMap.evRemove e.id) m.liveOf = some (XMap.doErase m e.id).liveOf) ∧
    (∀ e ∈ m.entries, replay (XMap.evAssign e.id) m.liveOf = some m.liveOf) ∧
    (∀ m', XMap.clear m = some m' → replay m.evClear m.liveOf = some m'.liveOf) := by
  refine ⟨fun k v hk => XMap.events_create m h k v hk, fun e he => XMap.events_remove m h e he,
    fun e he => XMap.events_assign m e he, ?_⟩
  intro m' hc
  obtain ⟨m2, e2, _, hent⟩ := XMap.clear_spec h
  rw [hc] at e2; cases e2
  exact XMap.events_clear m h m' hent



/-! ## Returned iterators -/

/-- **C20 (return values).** `insert(position, value)` returns the position of the inserted element and
`erase(first, last)` / `erase(position)` the position following the last removed element — as iterators into
the vector's *current* buffer — at every fill level, `size == capacity` (where the insertion re-allocates)
included; the contents are those of `std::vector`. -/
theorem returned_positions_spec [DecidableEq α] (t t' : TVec α) (r : Option Nat) (hv : t.v.Inv) :
    (∀ pos x, pos ≤ t.v.items.length → TVec.insertOneRet t pos x = some (t', r) →
        r = some pos ∧ t'.v.items = t.v.items.take pos ++ [x] ++ t.v.items.drop pos ∧ t'.v.items[pos]? = some x) ∧
    (∀ first last, first ≤ last → last ≤ t.v.items.length → TVec.eraseRet t first last = some (t', r) →
        r = some first ∧ t'.v.items = t.v.items.take first ++ t.v.items.drop last ∧
        t'.v.items[first]? = t.v.items[last]?) := by
  constructor
  · intro pos x hp e
    obtain ⟨hr, hi⟩ := TVec.insertOneRet_spec t t' pos x r e
    have hproj := TVec.proj_insertN t pos 1 x
    rw [hi] at hproj
    obtain ⟨v', e', i', _⟩ := Vec.insertN_refines t.v pos 1 x hv hp
    rw [e'] at hproj
    simp only [Option.map_some, Option.some.injEq] at hproj
    have hitems : t'.v.items = t.v.items.take pos ++ [x] ++ t.v.items.drop pos := by
      rw [hproj, i']; simp
    refine ⟨hr, hitems, ?_⟩
    rw [hitems, List.append_assoc, List.getElem?_append_right (by simp; omega)]
    simp [List.length_take, Nat.min_eq_left hp]
  · intro first last h1 h2 e
    obtain ⟨hr, he⟩ := TVec.eraseRet_spec t t' first last r e
    have hproj := TVec.proj_erase t first last
    rw [he] at hproj
    obtain ⟨v', e', i', _⟩ := Vec.erase_refines t.v first last hv h1 h2
    rw [e'] at hproj
    simp only [Option.map_some, Option.some.injEq] at hproj
    have hitems : t'.v.items = t.v.items.take first ++ t.v.items.drop last := by rw [hproj, i']
    refine ⟨hr, hitems, ?_⟩
    rw [hitems, List.getElem?_append_right (by simp; omega)]
    simp [List.length_take, Nat.min_eq_left (Nat.le_trans h1 h2)]

/-- With the spare-capacity test written as `m_allocation >= m_size` the single-element insert into a full
vector re-allocates and then returns the caller's old position: an iterator into the released buffer. -/
theorem vector_insert_return_ge_counterexample :
    ((TVec.insertOneRetGe (TVec.ofVec (⟨[1], 1⟩ : Vec Nat)) 1 9).map fun r => (r.1.v.items, r.2)) = some ([1, 9], none) ∧
    ((TVec.insertOneRet (TVec.ofVec (⟨[1], 1⟩ : Vec Nat)) 1 9).map fun r => (r.1.v.items, r.2)) = some ([1, 9], some 1) := by
  decide

/-- `XalanDOMString::insert(iterator, ch)` / `erase(iterator)`: the returned iterator is the position of the
inserted unit / the position following the removed one (the string is a `XalanVector` plus a terminator, so
the vector statement above is what keeps the iterator valid when the exactly-full buffer re-allocates). -/
theorem domstring_returned_positions (s : DStr) (h : s.Inv) (pos c : Nat) :
    (pos ≤ s.chars.length → ∃ s', s.insertAt pos c = some (s', pos) ∧ s'.Inv ∧
        s'.chars = s.chars.take pos ++ [c] ++ s.chars.drop pos) ∧
    (pos < s.chars.length → ∃ s', s.eraseAtRet pos = some (s', pos) ∧ s'.Inv ∧ s'.chars = s.chars.eraseIdx pos) := by
  have r := DStr.inv_rep h
  constructor
  · intro hp
    obtain ⟨s', e, r'⟩ := DStr.insertN_rep r pos 1 c hp
    refine ⟨s', ?_, DStr.rep_inv r', by rw [DStr.rep_chars r']; simp⟩
    unfold DStr.insertAt
    unfold DStr.insertN at e
    by_cases he : s.data.items.length = 0
    · simp only [he, if_true] at e ⊢
      have hcs : s.chars = [] := DStr.rep_empty r he
      have hp0 : pos = 0 := by rw [hcs] at hp; simpa using hp
      rw [e, hp0]; rfl
    · simp only [he, if_false] at e ⊢
      simp only [Vec.insertOne]
      cases hv : Vec.insertN s.data pos 1 c with
      | none => simp [hv] at e
      | some v => simp only [hv, Option.map_some, Option.some.injEq] at e ⊢; rw [← e]
  · intro hp
    obtain ⟨s', e, r'⟩ := DStr.eraseAt_rep r pos hp
    exact ⟨s', by simp [DStr.eraseAtRet, e], DStr.rep_inv r', DStr.rep_chars r'⟩

/-! ## Capacities and growth thresholds -/

/-- **3252d20**: after the `reserve` that `doCreateEntry` performs before it links the entry, the bucket has
room for one more pointer, so the final `push_back` cannot re-allocate (and therefore cannot fail). -/
theorem map_bucket_push_has_room (len cap : Nat) (h : len ≤ cap) : len < XMap.reserveCap len cap := by
  unfold XMap.reserveCap
  split
  · split <;> omega
  · omega

/-- growth of a bucket vector by plain `push_back` (in `rehash`): always room afterwards, and the 1.6-fold
growth `⌊1.6·n + 0.5⌋ = (16n+5)/10` is strict -/
theorem map_bucket_pushCap (len cap : Nat) (h : len ≤ cap) : len < XMap.pushCap len cap ∧ cap ≤ XMap.pushCap len cap := by
  unfold XMap.pushCap
  split
  · omega
  · split <;> omega

/-- `compactBuckets` never shrinks a bucket below its contents, and leaves a bucket alone unless more than
half of its capacity is unused -/
theorem map_compactCap (len cap : Nat) (h : len ≤ cap) :
    len ≤ XMap.compactCap len cap ∧ (cap - len ≤ len → XMap.compactCap len cap = cap) := by
  unfold XMap.compactCap
  simp only
  constructor
  · split
    · split <;> omega
    · exact h
  · intro h2; have : ¬ cap - len > len := by omega
    simp [this]

/-- The rehash points of a map with the default parameters (load factor 0.75, 29 buckets): `doCreateEntry`
rehashes when `⌊0.75·size⌋` exceeds the bucket count, to `⌊1.6·size⌋` buckets — at the 41st, 88th and 188th
insertion, to 64, 139 and 299 buckets. -/
theorem map_default_rehash_points :
    (∀ s, 3 * s / 4 > 29 ↔ 40 ≤ s) ∧ 8 * 40 / 5 = 64 ∧
    (∀ s, 3 * s / 4 > 64 ↔ 87 ≤ s) ∧ 8 * 87 / 5 = 139 ∧
    (∀ s, 3 * s / 4 > 139 ↔ 187 ≤ s) ∧ 8 * 187 / 5 = 299 := by
  refine ⟨fun s => by omega, by decide, fun s => by omega, by decide, fun s => by omega, by decide⟩

/-- the rehash of `XalanMap` produces exactly `⌊8·size/5⌋` buckets (and is only entered with `size ≥ 1`) -/
theorem map_rehash_bucket_count {κ ν : Type} [DecidableEq κ] (hash : κ → Nat) (m : XMap κ ν) (h : XMap.Inv hash m)
    (hs : 0 < 8 * m.size / 5) :
    ∃ m', XMap.rehash hash m = some m' ∧ m'.buckets.length = 8 * m.size / 5 ∧ m'.entries = m.entries := by
  obtain ⟨m', e, _, hent, _, _, _⟩ := XMap.rehash_inv h hs
  refine ⟨m', e, ?_, hent⟩
  have hne : ¬ 8 * m.size / 5 = 0 := by omega
  obtain ⟨l1, _, _, _⟩ := XMap.rehash_table hash (8 * m.size / 5) hs m.entries
    (List.replicate (8 * m.size / 5) []) (by simp)
  simp only [XMap.rehash, hne, if_false, Option.some.injEq] at e
  rw [← e]; exact l1

/-- `push_back` on a full vector re-allocates to `⌊1.6·n + 0.5⌋ = (16n+5)/10 > n` elements -/
theorem vector_push_capacity (v : Vec α) (x : α) (hfull : v.items.length = v.alloc) (hne : 0 < v.items.length) :
    (v.pushBack x).map (·.alloc) = some ((16 * v.items.length + 5) / 10) ∧
      v.items.length < (16 * v.items.length + 5) / 10 := by
  have hg := Vec.growSize_gt v.items.length hne
  refine ⟨?_, hg⟩
  have h1 : ¬ v.items.length < v.alloc := by omega
  have h2 : ¬ v.items.length = 0 := by omega
  have h3 : v.items.length < max v.items.length (Vec.growSize v.items.length) := by omega
  simp [Vec.pushBack, Vec.doPushBack, h1, h2, Vec.rawPush, Vec.copyWith, hne, h3, Vec.growSize]
  unfold Vec.growSize at hg; omega

/-- no block of a deque ever re-allocates: under the block-index invariant every block holds at most
`blockSize` elements (its capacity from construction), all but the last exactly that many -/
theorem deque_block_capacity (d : Deq α) (h : d.Inv) :
    (∀ b ∈ d.blocks, b.length ≤ d.blockSize) ∧ (∀ b ∈ d.blocks.dropLast, b.length = d.blockSize) := by
  refine ⟨?_, h.2.1⟩
  intro b hb
  rcases List.eq_nil_or_concat d.blocks with hnil | ⟨init, last, hcat⟩
  · rw [hnil] at hb; cases hb
  · rw [hcat, List.concat_eq_append] at hb
    rcases List.mem_append.mp hb with h1 | h1
    · have := h.2.1 b (by rw [hcat, List.concat_eq_append, List.dropLast_concat]; exact h1); omega
    · have hl : d.blocks.getLast? = some last := by rw [hcat, List.concat_eq_append, List.getLast?_concat]
      have : b = last := by simpa using h1
      rw [this]; exact (h.2.2 last hl).2

/-! ## XalanSet (= `XalanMap<Value, bool>` with delegating members): refinement to a duplicate-free key list -/

theorem lookup_isSome_iff {κ ν : Type} [DecidableEq κ] (l : List (κ × ν)) (k : κ) :
    (l.lookup k).isSome = decide (k ∈ l.map (·.1)) := by
  induction l with
  | nil => simp
  | cons p t ih =>
    obtain ⟨a, b⟩ := p
    by_cases h : k = a
    · simp [List.lookup_cons, h]
    · have h2 : (k == a) = false := by simpa using h
      simp only [List.lookup_cons, h2, ih, List.map_cons, List.mem_cons, h, false_or]

/-- `insert(v)`, `erase(v)`, `count(v)`, `clear()` of a set over a map satisfying the invariant: the keys in
iteration order behave like a duplicate-free list (first insertion order). -/
theorem set_step_refines {κ : Type} [DecidableEq κ] (hash : κ → Nat) (m : XMap κ Bool) (h : XMap.Inv hash m) (k : κ) :
    (∃ m', XMap.insert hash m k true = some m' ∧ XMap.Inv hash m' ∧
        m'.toList.map (·.1) = if k ∈ m.toList.map (·.1) then m.toList.map (·.1) else m.toList.map (·.1) ++ [k]) ∧
    (∃ m' c, XMap.erase hash m k = some (m', c) ∧ XMap.Inv hash m' ∧
        m'.toList.map (·.1) = (m.toList.map (·.1)).filter (· != k) ∧ c = if k ∈ m.toList.map (·.1) then 1 else 0) ∧
    ((XMap.find hash m k).map (·.isSome) = some (decide (k ∈ m.toList.map (·.1)))) ∧
    (m.toList.map (·.1)).Nodup := by
  refine ⟨?_, ?_, ?_, ?_⟩
  · obtain ⟨m', e, i, t⟩ := XMap.insert_spec h k true
    refine ⟨m', e, i, ?_⟩
    have hl := lookup_isSome_iff m.toList k
    rw [t]
    cases hlk : m.toList.lookup k with
    | some v => rw [hlk] at hl; have : k ∈ m.toList.map (·.1) := by simpa using hl.symm
                simp [this]
    | none => rw [hlk] at hl; have : k ∉ m.toList.map (·.1) := by simpa using hl.symm
              simp [this]
  · obtain ⟨m', c, e, i, t, hc⟩ := XMap.erase_spec h k
    refine ⟨m', c, e, i, ?_, ?_⟩
    · rw [t, List.filter_map]; rfl
    · rw [hc, lookup_isSome_iff]; simp
  · have := XMap.find_lookup (hash := hash) h k
    cases hf : XMap.find hash m k with
    | none => simp [hf] at this
    | some r =>
      simp only [hf, Option.map_some, Option.some.injEq] at this ⊢
      rw [← lookup_isSome_iff, ← this]; cases r <;> rfl
  · have : m.toList.map (·.1) = m.entries.map (·.key) := by simp [XMap.toList, List.map_map, Function.comp_def]
    rw [this]; exact h.keys_nodup

/-! ## XalanObjectCache -/

/-- **get**: the object handed out is held by nobody else, is cleared (new, or reset by `release`), and
the bookkeeping invariant holds with it added to the held objects. -/
theorem objcache_get_refines (c : OCache α) (held : List Nat) (h : OCache.Inv c held) :
    (c.get).2 ∉ held ∧ OCache.Inv (c.get).1 ((c.get).2 :: held) ∧ (c.get).1.objs[(c.get).2]? = some [] :=
  OCache.get_spec c held h

/-- **release** of a held object and use of a held object keep the invariant. -/
theorem objcache_release_put_refines (c : OCache α) (held : List Nat) (id : Nat) (x : α) (h : OCache.Inv c held)
    (hid : id ∈ held) : OCache.Inv (c.release id) (held.erase id) ∧ OCache.Inv (c.put id x) held :=
  ⟨OCache.release_spec c held id h hid, OCache.put_spec c held id x h hid⟩

inductive COp (α : Type) where
  | get
  | release (id : Nat)
  | put (id : Nat) (x : α)

/-- a client history: `release`/`put` only of objects it holds (the contract of the class) -/
def OCache.runOps : List (COp α) → OCache α → List Nat → Option (OCache α × List Nat)
  | [], c, held => some (c, held)
  | .get :: ops, c, held => OCache.runOps ops (c.get).1 ((c.get).2 :: held)
  | .release id :: ops, c, held => if id ∈ held then OCache.runOps ops (c.release id) (held.erase id) else none
  | .put id x :: ops, c, held => if id ∈ held then OCache.runOps ops (c.put id x) held else none

/-- **C20 (object cache).** After any client history from a fresh cache the held objects are pairwise
distinct, disjoint from the available ones, and every available object is reset. -/
theorem objcache_history (ops : List (COp α)) (c : OCache α) (held : List Nat) (h : OCache.Inv c held)
    (c' : OCache α) (held' : List Nat) (hr : OCache.runOps ops c held = some (c', held')) : OCache.Inv c' held' := by
  induction ops generalizing c held with
  | nil => simp only [OCache.runOps, Option.some.injEq, Prod.mk.injEq] at hr; rw [← hr.1, ← hr.2]; exact h
  | cons op ops ih =>
    cases op with
    | get => exact ih _ _ (OCache.get_spec c held h).2.1 hr
    | release id =>
      simp only [OCache.runOps] at hr
      split at hr
      · rename_i hid; exact ih _ _ (OCache.release_spec c held id h hid) hr
      · cases hr
    | put id x =>
      simp only [OCache.runOps] at hr
      split at hr
      · rename_i hid; exact ih _ _ (OCache.put_spec c held id x h hid) hr
      · cases hr

/-! ## XalanDOMStringPool / XalanDOMStringHashTable -/

/-- **get** of a non-empty string: the pooled object has exactly the requested characters; the pool
(= list of distinct strings in order of first request) grows by it exactly when it was new; bucket
invariant kept (every pooled string is in the bucket its hash selects, every bucket pointer is valid). -/
theorem pool_get_refines (p : SPool) (h : SPool.Inv p) (cs : List Nat) (hcs : cs ≠ []) :
    ∃ p' id, SPool.get p cs = some (p', some id) ∧ SPool.Inv p' ∧ p'.strings[id]? = some cs ∧
      ((cs ∈ p.strings ∧ p' = p) ∨ (cs ∉ p.strings ∧ p'.strings = p.strings ++ [cs] ∧ id = p.strings.length)) :=
  SPool.get_spec p h cs hcs

/-- equal requests return the same pooled object -/
theorem pool_get_canonical (p : SPool) (h : SPool.Inv p) (cs : List Nat) (hcs : cs ≠ []) (p1 : SPool) (id1 : Nat)
    (h1 : SPool.get p cs = some (p1, some id1)) : SPool.get p1 cs = some (p1, some id1) :=
  SPool.get_idempotent p h cs hcs p1 id1 h1

theorem pool_new_clear_inv (n : Nat) (hn : 0 < n) (p : SPool) (h : SPool.Inv p) :
    SPool.Inv (SPool.new n) ∧ SPool.Inv p.clear ∧ p.clear.strings = [] :=
  ⟨SPool.new_inv n hn, (SPool.clear_inv p h).1, (SPool.clear_inv p h).2⟩


/-- the pool as a set of length-carrying unit sequences with stable identity: the distinct non-empty keys in
order of first request; the identity of a pooled string is its position -/
def poolSpecStep (l : List (List Nat)) (cs : List Nat) : List (List Nat) × Option Nat :=
  if cs = [] then (l, none) else if cs ∈ l then (l, some (l.idxOf cs)) else (l ++ [cs], some l.length)

def poolSpecRun : List (List Nat) → List (List Nat) → List (List Nat) × List (Option Nat)
  | [], l => (l, [])
  | cs :: ks, l =>
    let (l1, r) := poolSpecStep l cs
    let (l2, rs) := poolSpecRun ks l1
    (l2, r :: rs)

def SPool.runGets : List (List Nat) → SPool → Option (SPool × List (Option Nat))
  | [], p => some (p, [])
  | cs :: ks, p => (SPool.get p cs).bind fun r => (SPool.runGets ks r.1).map fun q => (q.1, r.2 :: q.2)

theorem pool_step_refines_set (p : SPool) (h : SPool.Inv p) (cs : List Nat) :
    ∃ p' r, SPool.get p cs = some (p', r) ∧ SPool.Inv p' ∧ (p'.strings, r) = poolSpecStep p.strings cs ∧
      p'.count = p'.strings.length := by
  by_cases hcs : cs = []
  · subst hcs
    exact ⟨p, none, by simp [SPool.get], h, by simp [poolSpecStep], h.cnt⟩
  · obtain ⟨p', id, e, inv', hs, hcase⟩ := SPool.get_spec p h cs hcs
    refine ⟨p', some id, e, inv', ?_, inv'.cnt⟩
    simp only [poolSpecStep, hcs, if_false]
    rcases hcase with ⟨hmem, rfl⟩ | ⟨hnot, hstr, hid⟩
    · simp only [hmem, if_true]
      have hlt : List.idxOf cs p'.strings < p'.strings.length := List.idxOf_lt_length_iff.mpr hmem
      have h1 : p'.strings[List.idxOf cs p'.strings]? = some cs := by
        rw [List.getElem?_eq_getElem hlt, List.getElem_idxOf hlt]
      have : List.idxOf cs p'.strings = id := (List.getElem?_inj hlt inv'.nodup).mp (by rw [h1, hs])
      rw [this]
    · simp only [hnot, if_false, hstr, hid]

/-- **C20 (string pool).** For every history of `get` requests — keys are length-carrying unit sequences, U+0000
inside or (after the repair) at the start included — the pool is the set of distinct non-empty keys: each `get`
returns the pooled object equal to the key as a full sequence, equal keys return the same object, a new key
gets a new object, and `size()` is the number of distinct keys. -/
theorem pool_refines_set (ks : List (List Nat)) (p : SPool) (h : SPool.Inv p) :
    ∃ p' rs, SPool.runGets ks p = some (p', rs) ∧ SPool.Inv p' ∧ (p'.strings, rs) = poolSpecRun ks p.strings ∧
      p'.count = p'.strings.length := by
  induction ks generalizing p with
  | nil => exact ⟨p, [], rfl, h, rfl, h.cnt⟩
  | cons cs ks ih =>
    obtain ⟨p1, r, e1, i1, s1, _⟩ := pool_step_refines_set p h cs
    obtain ⟨p2, rs, e2, i2, s2, c2⟩ := ih p1 i1
    refine ⟨p2, r :: rs, by simp [SPool.runGets, e1, e2], i2, ?_, c2⟩
    simp only [poolSpecRun, ← s1, ← s2]

/-- keys that differ only behind a U+0000 are different strings; the **unrepaired** test for the empty key
answered a key starting with U+0000 with the shared empty string -/
theorem pool_embedded_nul_examples :
    ((SPool.runGets [[97, 98], [97, 98, 0, 99], [97, 98, 0, 100], [97, 98, 0, 99], [97, 98]] (SPool.new 3)).map
        fun r => (r.1.count, r.2)) = some (3, [some 0, some 1, some 2, some 1, some 0]) ∧
    ((SPool.new 3).getAsWritten [0, 1, 2]).map (·.2) = some none ∧
    ((SPool.new 3).get [0, 1, 2]).map (·.2) = some (some 0) := by
  decide


/-! ## XalanDOMStringCache -/

inductive SCOp where
  | get
  | release (id : Nat)
  | reset
  | clear

def SCache.stepOp (c : SCache) : SCOp → SCache
  | .get => (c.get).1
  | .release id => (c.release id).1
  | .reset => c.reset
  | .clear => c.clear

/-- **C20 (string cache).** After every history of get / release (of anything: a string that is not busy is
refused) / reset / clear, every string created since the last `clear` is in exactly one of the busy list, the
available list and the strings handed back to the allocator, and no other string is in any of them — so a
string is never handed out twice, never destroyed twice, and a release beyond the available-list bound
destroys it exactly once. -/
theorem cache_busy_available_partition (ops : List SCOp) (c : SCache) (h : SCache.Inv c) :
    SCache.Inv (ops.foldl SCache.stepOp c) := by
  induction ops generalizing c with
  | nil => exact h
  | cons op ops ih =>
    apply ih
    cases op with
    | get => exact (SCache.get_inv c h).1
    | release id => exact (SCache.release_inv c h id).1
    | reset => exact (SCache.reset_inv c h).1
    | clear => exact SCache.inv_empty c.maxSize

/-- what the single operations deliver: `get` hands out a busy string; `release` succeeds exactly for busy
strings and moves the string to the available list or (beyond the bound) to the destroyed ones; `reset` leaves
nothing busy; a new cache satisfies the invariant -/
theorem cache_operations (c : SCache) (h : SCache.Inv c) (id m : Nat) :
    (c.get).2 ∈ (c.get).1.busy ∧
    ((c.release id).2 = true ↔ id ∈ c.busy) ∧
    (id ∈ c.busy → id ∉ (c.release id).1.busy ∧ (id ∈ (c.release id).1.available ∨ id ∈ (c.release id).1.destroyed)) ∧
    c.reset.busy = [] ∧ SCache.Inv ({ maxSize := m } : SCache) :=
  ⟨(SCache.get_inv c h).2, (SCache.release_inv c h id).2.1, (SCache.release_inv c h id).2.2, (SCache.reset_inv c h).2,
   SCache.inv_empty m⟩

/-- non-vacuity: bound 1; the fourth release finds two strings available (> 1) and destroys its string -/
example :
    let c := [SCOp.get, .get, .get, .get, .release 0, .release 1, .release 2, .release 3].foldl SCache.stepOp
      ({ maxSize := 1 } : SCache)
    (c.busy, c.available, c.destroyed) = ([], [0, 1], [2, 3]) := by
  decide

/-! ## XalanBitmap -/

/-- **set / clear / toggle** change exactly the addressed bit as read back by `isSet`, for every bit
number (all others, in the same byte or another, are unchanged), and keep every unit a byte. -/
theorem bitmap_refines (b : Bitmap) (bit : Nat) (h : Bitmap.Inv b) (hlt : bit / 8 < b.units.length) :
    (∃ b', b.set bit = some b' ∧ Bitmap.Inv b' ∧ ∀ j, b'.isSet j = (b.isSet j).map fun x => x || decide (j = bit)) ∧
    (∃ b', b.clear bit = some b' ∧ Bitmap.Inv b' ∧ ∀ j, b'.isSet j = (b.isSet j).map fun x => x && !decide (j = bit)) ∧
    (∃ b', b.toggle bit = some b' ∧ Bitmap.Inv b' ∧ ∀ j, b'.isSet j = (b.isSet j).map fun x => x != decide (j = bit)) := by
  have hk : bit % 8 < 8 := Nat.mod_lt _ (by omega)
  refine ⟨?_, ?_, ?_⟩
  · obtain ⟨b', e, i, _, hs⟩ := Bitmap.update_spec b bit (fun u => u ||| 2 ^ (bit % 8)) (fun x y => x || y) h hlt (by simp)
      (fun u hu jj hj => ⟨(Bitmap.byte_ops u (bit % 8) jj hu hk hj).1, (Bitmap.byte_ops u (bit % 8) jj hu hk hj).2.2.2.1⟩)
    exact ⟨b', e, i, hs⟩
  · obtain ⟨b', e, i, _, hs⟩ := Bitmap.update_spec b bit (fun u => u &&& (255 - 2 ^ (bit % 8))) (fun x y => x && !y) h hlt (by simp)
      (fun u hu jj hj => ⟨(Bitmap.byte_ops u (bit % 8) jj hu hk hj).2.1, (Bitmap.byte_ops u (bit % 8) jj hu hk hj).2.2.2.2.1⟩)
    exact ⟨b', e, i, hs⟩
  · obtain ⟨b', e, i, _, hs⟩ := Bitmap.update_spec b bit (fun u => u ^^^ 2 ^ (bit % 8)) (fun x y => x != y) h hlt (by simp)
      (fun u hu jj hj => ⟨(Bitmap.byte_ops u (bit % 8) jj hu hk hj).2.2.1, (Bitmap.byte_ops u (bit % 8) jj hu hk hj).2.2.2.2.2⟩)
    exact ⟨b', e, i, hs⟩

/-- every bit below `m_size` has its byte (the vector has `(size + 8) / 8` units), and a new bitmap is all clear -/
theorem bitmap_new (n bit : Nat) (hb : bit < n) :
    Bitmap.Inv (Bitmap.new n) ∧ bit / 8 < (Bitmap.new n).units.length ∧ (Bitmap.new n).isSet bit = some false := by
  have hl : bit / 8 < (n + 8) / 8 := by omega
  have hl2 : bit / 8 < n / 8 + 1 := by omega
  refine ⟨Bitmap.new_inv n, by simp [Bitmap.new]; omega, ?_⟩
  simp [Bitmap.isSet, Bitmap.new, List.getElem?_replicate, hl2]

end XalanModel.Props.C20
