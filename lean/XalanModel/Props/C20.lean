import XalanModel.Containers.VectorProofs
/-!
# C20 — Xalan's containers behave like their standard models

Property theorems only (helper lemmas live in `XalanModel/Containers/*Proofs.lean`).

Shape: *refinement to `List`*.  `VOp` is the operation alphabet, `specStep` is the
`std::vector` contract on a plain `List` (returning `none` exactly where the standard
leaves the call undefined: `pop_back` on an empty vector, a position past the end, an
inverted range), `Vec.step` is the transcription of the XalanVector code paths with checked
memory primitives.  `vector_refines`: for every operation sequence that stays within the
standard's preconditions, the model (i) never performs an out-of-bounds / stale-iterator
access (`none`), (ii) holds exactly the specified element sequence, (iii) keeps
`size ≤ allocation`.
-/
namespace XalanModel.Props.C20
open XalanModel.Containers

inductive VOp (α : Type) where
  | push (x : α)
  | pop
  | insertOne (pos : Nat) (x : α)
  | insertN (pos n : Nat) (x : α)
  | insertRange (pos : Nat) (xs : List α)
  | erase (first last : Nat)
  | resize (n : Nat) (x : α)
  | reserve (n : Nat)
  | clear
  | assign (xs : List α)
  | copyAssign (rhs : Vec α)
deriving Repr

variable {α : Type}

/-- the `std::vector<T>` contract on the abstract element sequence -/
def specStep (l : List α) : VOp α → Option (List α)
  | .push x => some (l ++ [x])
  | .pop => if l = [] then none else some l.dropLast
  | .insertOne pos x => if pos ≤ l.length then some (l.take pos ++ [x] ++ l.drop pos) else none
  | .insertN pos n x => if pos ≤ l.length then some (l.take pos ++ List.replicate n x ++ l.drop pos) else none
  | .insertRange pos xs => if pos ≤ l.length then some (l.take pos ++ xs ++ l.drop pos) else none
  | .erase f t => if f ≤ t ∧ t ≤ l.length then some (l.take f ++ l.drop t) else none
  | .resize n x => some (l.take n ++ List.replicate (n - l.length) x)
  | .reserve _ => some l
  | .clear => some []
  | .assign xs => some xs
  | .copyAssign rhs => some rhs.items

/-- the XalanVector code paths -/
def Vec.step (v : Vec α) : VOp α → Option (Vec α)
  | .push x => v.pushBack x
  | .pop => v.popBack
  | .insertOne pos x => v.insertOne pos x
  | .insertN pos n x => v.insertN pos n x
  | .insertRange pos xs => v.insertRange pos xs
  | .erase f t => v.erase f t
  | .resize n x => v.resize n x
  | .reserve n => some (v.reserve n)
  | .clear => v.clear
  | .assign xs => v.assign xs
  | .copyAssign rhs => v.copyAssign rhs

def specRun : List (VOp α) → List α → Option (List α)
  | [], l => some l
  | op :: ops, l => (specStep l op).bind (specRun ops)

def Vec.run : List (VOp α) → Vec α → Option (Vec α)
  | [], v => some v
  | op :: ops, v => (Vec.step v op).bind (Vec.run ops)

/-- One step: within the standard's preconditions the XalanVector paths make no memory error,
produce the specified contents and keep the invariant. -/
theorem vector_step_refines [DecidableEq α] (v : Vec α) (op : VOp α) (h : v.Inv) (l' : List α)
    (hs : specStep v.items op = some l') :
    ∃ v', Vec.step v op = some v' ∧ v'.items = l' ∧ v'.Inv := by
  cases op with
  | push x =>
    simp only [specStep, Option.some.injEq] at hs; subst hs
    exact Vec.pushBack_refines v x h
  | pop =>
    simp only [specStep] at hs
    split at hs
    · cases hs
    · rename_i hne; simp only [Option.some.injEq] at hs; subst hs
      exact Vec.popBack_refines v h hne
  | insertOne pos x =>
    simp only [specStep] at hs
    split at hs
    · rename_i hp; simp only [Option.some.injEq] at hs; subst hs
      have := Vec.insertN_refines v pos 1 x h hp
      simpa [Vec.step, Vec.insertOne, Vec.Refines] using this
    · cases hs
  | insertN pos n x =>
    simp only [specStep] at hs
    split at hs
    · rename_i hp; simp only [Option.some.injEq] at hs; subst hs
      exact Vec.insertN_refines v pos n x h hp
    · cases hs
  | insertRange pos xs =>
    simp only [specStep] at hs
    split at hs
    · rename_i hp; simp only [Option.some.injEq] at hs; subst hs
      exact Vec.insertRange_refines v pos xs h hp
    · cases hs
  | erase f t =>
    simp only [specStep] at hs
    split at hs
    · rename_i hp; simp only [Option.some.injEq] at hs; subst hs
      exact Vec.erase_refines v f t h hp.1 hp.2
    · cases hs
  | resize n x =>
    simp only [specStep, Option.some.injEq] at hs; subst hs
    exact Vec.resize_refines v n x h
  | reserve n =>
    simp only [specStep, Option.some.injEq] at hs; subst hs
    have := Vec.reserve_refines v n h
    exact ⟨_, rfl, this.1, this.2.1⟩
  | clear =>
    simp only [specStep, Option.some.injEq] at hs; subst hs
    exact Vec.clear_refines v h
  | assign xs =>
    simp only [specStep, Option.some.injEq] at hs; subst hs
    exact Vec.assign_refines v xs h
  | copyAssign rhs =>
    simp only [specStep, Option.some.injEq] at hs; subst hs
    exact Vec.copyAssign_refines v rhs h

/-- **C20 (vector).** Every operation history within the `std::vector` contract: no memory
error, contents equal to the `List` specification, invariant preserved. -/
theorem vector_refines [DecidableEq α] (ops : List (VOp α)) (v : Vec α) (h : v.Inv) (l' : List α)
    (hs : specRun ops v.items = some l') :
    ∃ v', Vec.run ops v = some v' ∧ v'.items = l' ∧ v'.Inv := by
  induction ops generalizing v with
  | nil => simp only [specRun, Option.some.injEq] at hs; exact ⟨v, rfl, hs, h⟩
  | cons op ops ih =>
    simp only [specRun] at hs
    cases hst : specStep v.items op with
    | none => simp [hst] at hs
    | some l1 =>
      simp only [hst, Option.bind_some] at hs
      obtain ⟨v1, e1, i1, inv1⟩ := vector_step_refines v op h l1 hst
      obtain ⟨v2, e2, i2, inv2⟩ := ih v1 inv1 (by rw [i1]; exact hs)
      exact ⟨v2, by simp [Vec.run, e1, e2], i2, inv2⟩

/-- `reserve` delivers at least the requested capacity (observable through `capacity()`). -/
theorem vector_reserve_capacity (v : Vec α) (n : Nat) (h : v.Inv) : n ≤ (v.reserve n).alloc :=
  (Vec.reserve_refines v n h).2.2

/-- non-vacuity: a history that exercises growth, both in-place insert paths, the
re-allocation path, erase, resize and copy-assignment satisfies the hypotheses. -/
example :
    specRun [VOp.push 1, .push 2, .push 3, .reserve 10, .insertRange 1 [7, 8], .insertN 4 3 9,
             .insertOne 0 5, .erase 2 4, .resize 3 0, .copyAssign ⟨[4, 4, 4, 4], 4⟩, .pop]
      (Vec.empty : Vec Nat).items = some [4, 4, 4] ∧ (Vec.empty : Vec Nat).Inv := by
  decide

end XalanModel.Props.C20
