import XalanModel.Containers.VectorProofs
import XalanModel.Containers.XMapProofs
import XalanModel.Containers.DequeProofs
import XalanModel.Containers.XList
import XalanModel.Containers.DOMString
/-!
# C20 — Xalan's containers behave like their standard models

Property theorems only (helper lemmas live in `XalanModel/Containers/*Proofs.lean`).

Shape: *refinement to `List`*.  `VOp` is the operation alphabet, `specStep` is the
`std::vector` contract on a plain `List` (returning `none` exactly where the standard
leaves the call undefined: `pop_back` on an empty vector, a position past the end, an
inverted range), `Vec.step` is the transcription of the XalanVector code paths with checked
memory primitives.  `vector_refines`: for every operation sequence that stays within the
standard's preconditions, the model (i) never performs an out-of-bounds / stale-iterator
access (`none`), (ii) holds exactly the specified element sequence, (iii) keeps
`size ≤ allocation`.
-/
namespace XalanModel.Props.C20
open XalanModel.Containers

inductive VOp (α : Type) where
  | push (x : α)
  | pop
  | insertOne (pos : Nat) (x : α)
  | insertN (pos n : Nat) (x : α)
  | insertRange (pos : Nat) (xs : List α)
  | erase (first last : Nat)
  | resize (n : Nat) (x : α)
  | reserve (n : Nat)
  | clear
  | assign (xs : List α)
  | copyAssign (rhs : Vec α)
deriving Repr

variable {α : Type}

/-- the `std::vector<T>` contract on the abstract element sequence -/
def specStep (l : List α) : VOp α → Option (List α)
  | .push x => some (l ++ [x])
  | .pop => if l = [] then none else some l.dropLast
  | .insertOne pos x => if pos ≤ l.length then some (l.take pos ++ [x] ++ l.drop pos) else none
  | .insertN pos n x => if pos ≤ l.length then some (l.take pos ++ List.replicate n x ++ l.drop pos) else none
  | .insertRange pos xs => if pos ≤ l.length then some (l.take pos ++ xs ++ l.drop pos) else none
  | .erase f t => if f ≤ t ∧ t ≤ l.length then some (l.take f ++ l.drop t) else none
  | .resize n x => some (l.take n ++ List.replicate (n - l.length) x)
  | .reserve _ => some l
  | .clear => some []
  | .assign xs => some xs
  | .copyAssign rhs => some rhs.items

/-- the XalanVector code paths -/
def Vec.step (v : Vec α) : VOp α → Option (Vec α)
  | .push x => v.pushBack x
  | .pop => v.popBack
  | .insertOne pos x => v.insertOne pos x
  | .insertN pos n x => v.insertN pos n x
  | .insertRange pos xs => v.insertRange pos xs
  | .erase f t => v.erase f t
  | .resize n x => v.resize n x
  | .reserve n => some (v.reserve n)
  | .clear => v.clear
  | .assign xs => v.assign xs
  | .copyAssign rhs => v.copyAssign rhs

def specRun : List (VOp α) → List α → Option (List α)
  | [], l => some l
  | op :: ops, l => (specStep l op).bind (specRun ops)

def Vec.run : List (VOp α) → Vec α → Option (Vec α)
  | [], v => some v
  | op :: ops, v => (Vec.step v op).bind (Vec.run ops)

/-- One step: within the standard's preconditions the XalanVector paths make no memory error,
produce the specified contents and keep the invariant. -/
theorem vector_step_refines [DecidableEq α] (v : Vec α) (op : VOp α) (h : v.Inv) (l' : List α)
    (hs : specStep v.items op = some l') :
    ∃ v', Vec.step v op = some v' ∧ v'.items = l' ∧ v'.Inv := by
  cases op with
  | push x =>
    simp only [specStep, Option.some.injEq] at hs; subst hs
    exact Vec.pushBack_refines v x h
  | pop =>
    simp only [specStep] at hs
    split at hs
    · cases hs
    · rename_i hne; simp only [Option.some.injEq] at hs; subst hs
      exact Vec.popBack_refines v h hne
  | insertOne pos x =>
    simp only [specStep] at hs
    split at hs
    · rename_i hp; simp only [Option.some.injEq] at hs; subst hs
      have := Vec.insertN_refines v pos 1 x h hp
      simpa [Vec.step, Vec.insertOne, Vec.Refines] using this
    · cases hs
  | insertN pos n x =>
    simp only [specStep] at hs
    split at hs
    · rename_i hp; simp only [Option.some.injEq] at hs; subst hs
      exact Vec.insertN_refines v pos n x h hp
    · cases hs
  | insertRange pos xs =>
    simp only [specStep] at hs
    split at hs
    · rename_i hp; simp only [Option.some.injEq] at hs; subst hs
      exact Vec.insertRange_refines v pos xs h hp
    · cases hs
  | erase f t =>
    simp only [specStep] at hs
    split at hs
    · rename_i hp; simp only [Option.some.injEq] at hs; subst hs
      exact Vec.erase_refines v f t h hp.1 hp.2
    · cases hs
  | resize n x =>
    simp only [specStep, Option.some.injEq] at hs; subst hs
    exact Vec.resize_refines v n x h
  | reserve n =>
    simp only [specStep, Option.some.injEq] at hs; subst hs
    have := Vec.reserve_refines v n h
    exact ⟨_, rfl, this.1, this.2.1⟩
  | clear =>
    simp only [specStep, Option.some.injEq] at hs; subst hs
    exact Vec.clear_refines v h
  | assign xs =>
    simp only [specStep, Option.some.injEq] at hs; subst hs
    exact Vec.assign_refines v xs h
  | copyAssign rhs =>
    simp only [specStep, Option.some.injEq] at hs; subst hs
    exact Vec.copyAssign_refines v rhs h

/-- **C20 (vector).** Every operation history within the `std::vector` contract: no memory
error, contents equal to the `List` specification, invariant preserved. -/
theorem vector_refines [DecidableEq α] (ops : List (VOp α)) (v : Vec α) (h : v.Inv) (l' : List α)
    (hs : specRun ops v.items = some l') :
    ∃ v', Vec.run ops v = some v' ∧ v'.items = l' ∧ v'.Inv := by
  induction ops generalizing v with
  | nil => simp only [specRun, Option.some.injEq] at hs; exact ⟨v, rfl, hs, h⟩
  | cons op ops ih =>
    simp only [specRun] at hs
    cases hst : specStep v.items op with
    | none => simp [hst] at hs
    | some l1 =>
      simp only [hst, Option.bind_some] at hs
      obtain ⟨v1, e1, i1, inv1⟩ := vector_step_refines v op h l1 hst
      obtain ⟨v2, e2, i2, inv2⟩ := ih v1 inv1 (by rw [i1]; exact hs)
      exact ⟨v2, by simp [Vec.run, e1, e2], i2, inv2⟩

/-- `reserve` delivers at least the requested capacity (observable through `capacity()`). -/
theorem vector_reserve_capacity (v : Vec α) (n : Nat) (h : v.Inv) : n ≤ (v.reserve n).alloc :=
  (Vec.reserve_refines v n h).2.2

/-- non-vacuity: a history that exercises growth, both in-place insert paths, the
re-allocation path, erase, resize and copy-assignment satisfies the hypotheses. -/
example :
    specRun [VOp.push 1, .push 2, .push 3, .reserve 10, .insertRange 1 [7, 8], .insertN 4 3 9,
             .insertOne 0 5, .erase 2 4, .resize 3 0, .copyAssign ⟨[4, 4, 4, 4], 4⟩, .pop]
      (Vec.empty : Vec Nat).items = some [4, 4, 4] ∧ (Vec.empty : Vec Nat).Inv := by
  decide

/-! ## Vector: value arguments that alias an element of the vector -/

/-- After the repair (`proposed/C20-vector-alias.diff`) `insert(pos, n, v[i])` is `std::vector`'s
`insert` of a copy of the original `v[i]`. -/
theorem vector_insertNSelf_refines (v : Vec α) (pos n i : Nat) (x : α) (h : v.Inv) (hp : pos ≤ v.items.length)
    (hi : v.items[i]? = some x) :
    ∃ v', v.insertNSelf pos n i = some v' ∧ v'.items = v.items.take pos ++ List.replicate n x ++ v.items.drop pos ∧ v'.Inv := by
  simp only [Vec.insertNSelf, hi]
  exact Vec.insertN_refines v pos n x h hp

/-- … and `resize(n, v[i])` likewise. -/
theorem vector_resizeSelf_refines (v : Vec α) (n i : Nat) (x : α) (h : v.Inv) (hi : v.items[i]? = some x) :
    ∃ v', v.resizeSelf n i = some v' ∧ v'.items = v.items.take n ++ List.replicate (n - v.items.length) x ∧ v'.Inv := by
  simp only [Vec.resizeSelf, hi]
  exact Vec.resize_refines v n x h

/-- The **unrepaired** code violates the property: `{1,2,3,4}` with capacity 8,
`insert(begin(), 1, v[2])` yields `2 1 2 3 4` (std: `3 1 2 3 4`); appending `v[0]` three times to a
full `{1,2}` reads freed memory.  Replayed on the real code by the corpus of checks/c20.py. -/
theorem vector_alias_as_written_counterexample :
    (Vec.insertNAliasAsWritten (⟨[1, 2, 3, 4], 8⟩ : Vec Nat) 0 1 2).map (·.items) = some [2, 1, 2, 3, 4] ∧
    (Vec.insertNSelf (⟨[1, 2, 3, 4], 8⟩ : Vec Nat) 0 1 2).map (·.items) = some [3, 1, 2, 3, 4] ∧
    Vec.insertNAliasAsWritten (⟨[1, 2], 2⟩ : Vec Nat) 2 3 0 = none := by
  decide

/-! ## XalanMap / XalanSet: refinement to an insertion-ordered association list -/

inductive MOp (κ ν : Type) where
  | insert (k : κ) (v : ν)
  | find (k : κ)
  | erase (k : κ)
  | clear
deriving Repr

/-- observable result of a map operation -/
inductive MOut (ν : Type) where
  | unit
  | found (v : Option ν)
  | count (n : Nat)
deriving Repr, DecidableEq

/-- the contract on an insertion-ordered association list (`std::map`/`unordered_map` results plus a
defined iteration order: order of first insertion, re-insertion after erase goes to the end) -/
def mapSpecStep {κ ν : Type} [DecidableEq κ] (l : List (κ × ν)) : MOp κ ν → List (κ × ν) × MOut ν
  | .insert k v => (match l.lookup k with | some _ => l | none => l ++ [(k, v)], .unit)
  | .find k => (l, .found (l.lookup k))
  | .erase k => (l.filter (fun p => p.1 != k), .count (if (l.lookup k).isSome then 1 else 0))
  | .clear => ([], .unit)

/-- the XalanMap code paths -/
def XMap.stepOp {κ ν : Type} [DecidableEq κ] (hash : κ → Nat) (m : XMap κ ν) : MOp κ ν → Option (XMap κ ν × MOut ν)
  | .insert k v => (XMap.insert hash m k v).map (·, .unit)
  | .find k => (XMap.find hash m k).map fun r => (m, .found (r.map (·.val)))
  | .erase k => (XMap.erase hash m k).map fun (m', c) => (m', .count c)
  | .clear => (XMap.clear m).map (·, .unit)

def mapSpecRun {κ ν : Type} [DecidableEq κ] : List (MOp κ ν) → List (κ × ν) → List (κ × ν) × List (MOut ν)
  | [], l => (l, [])
  | op :: ops, l =>
    let (l1, o) := mapSpecStep l op
    let (l2, os) := mapSpecRun ops l1
    (l2, o :: os)

def XMap.runOps {κ ν : Type} [DecidableEq κ] (hash : κ → Nat) :
    List (MOp κ ν) → XMap κ ν → Option (XMap κ ν × List (MOut ν))
  | [], m => some (m, [])
  | op :: ops, m =>
    (XMap.stepOp hash m op).bind fun (m1, o) => (XMap.runOps hash ops m1).map fun (m2, os) => (m2, o :: os)

/-- One operation: no undefined behaviour (zero modulus, dangling bucket pointer, empty free list),
the invariant again, the specified association list in iteration order and the specified result —
across bucket creation, rehash, recycling of erased entries through stale bucket pointers and
erase-threshold compaction. -/
theorem map_step_refines {κ ν : Type} [DecidableEq κ] (hash : κ → Nat) (m : XMap κ ν) (op : MOp κ ν)
    (h : XMap.Inv hash m) :
    ∃ m' o, XMap.stepOp hash m op = some (m', o) ∧ XMap.Inv hash m' ∧
      (m'.toList, o) = mapSpecStep m.toList op := by
  cases op with
  | insert k v =>
    obtain ⟨m', e, i, t⟩ := XMap.insert_spec h k v
    refine ⟨m', .unit, by simp [XMap.stepOp, e], i, ?_⟩
    simp only [mapSpecStep, t]
    cases List.lookup k m.toList <;> rfl
  | find k =>
    have hf := XMap.find_lookup (hash := hash) h k
    cases hr : XMap.find hash m k with
    | none => simp [hr] at hf
    | some r =>
      simp only [hr, Option.map_some, Option.some.injEq] at hf
      exact ⟨m, .found (r.map (·.val)), by simp [XMap.stepOp, hr], h, by simp only [mapSpecStep, hf]⟩
  | erase k =>
    obtain ⟨m', c, e, i, t, hc⟩ := XMap.erase_spec h k
    exact ⟨m', .count c, by simp [XMap.stepOp, e], i, by simp [mapSpecStep, t, hc]⟩
  | clear =>
    obtain ⟨m', e, i, t⟩ := XMap.clear_spec h
    exact ⟨m', .unit, by simp [XMap.stepOp, e], i, by simp [mapSpecStep, XMap.toList, t]⟩

/-- **C20 (map, set).** Every history of insert / find / erase / clear from any state satisfying the
invariant (in particular from a freshly constructed map, `map_new_inv`).
`_partial`: `operator[]`-assignment, copy construction / `operator=` and `swap` are in the model and in
the correspondence run but not in this alphabet (`map_swap_inv` covers the invariant under `swap`). -/
theorem map_refines_partial {κ ν : Type} [DecidableEq κ] (hash : κ → Nat) (ops : List (MOp κ ν)) (m : XMap κ ν)
    (h : XMap.Inv hash m) :
    ∃ m' os, XMap.runOps hash ops m = some (m', os) ∧ XMap.Inv hash m' ∧
      (m'.toList, os) = mapSpecRun ops m.toList := by
  induction ops generalizing m with
  | nil => exact ⟨m, [], rfl, h, rfl⟩
  | cons op ops ih =>
    obtain ⟨m1, o, e1, i1, s1⟩ := map_step_refines hash m op h
    obtain ⟨m2, os, e2, i2, s2⟩ := ih m1 i1
    refine ⟨m2, o :: os, by simp [XMap.runOps, e1, e2], i2, ?_⟩
    simp only [mapSpecRun, ← s1, ← s2]

/-- a freshly constructed map (any positive `minBuckets`, any load factor with a positive denominator)
satisfies the invariant -/
theorem map_new_inv {κ ν : Type} [DecidableEq κ] (hash : κ → Nat) (lfNum lfDen minB thr : Nat)
    (h1 : 0 < minB) (h2 : 0 < lfDen) : XMap.Inv hash (XMap.new lfNum lfDen minB thr : XMap κ ν) :=
  XMap.new_inv lfNum lfDen minB thr h1 h2

/-- `swap` keeps the invariant on both sides (it exchanges everything the invariant speaks about) -/
theorem map_swap_inv {κ ν : Type} [DecidableEq κ] (hash : κ → Nat) (a b : XMap κ ν)
    (ha : XMap.Inv hash a) (hb : XMap.Inv hash b) :
    XMap.Inv hash (XMap.swapInto a b) ∧ XMap.Inv hash (XMap.swapInto b a) ∧
      (XMap.swapInto a b).toList = b.toList ∧ (XMap.swapInto b a).toList = a.toList :=
  ⟨XMap.swapInto_inv ha hb, XMap.swapInto_inv hb ha, rfl, rfl⟩

/-- non-vacuity: with 1 initial bucket, erase threshold 2 and an everything-collides hash, this history
goes through bucket creation, two rehashes, a stale pointer, recycling and a compaction. -/
example :
    (XMap.runOps (fun _ : Nat => 0)
      [MOp.insert 1 10, .insert 2 20, .insert 3 30, .insert 4 40, .erase 2, .insert 5 50, .find 5, .erase 1, .erase 9,
       .erase 3, .insert 2 21, .find 2, .clear, .insert 6 60]
      (XMap.new 3 4 1 2 : XMap Nat Nat)).map (fun r => (r.1.toList, r.1.buckets.length, r.1.free.length)) =
      some ([(6, 60)], 4, 3) := by
  decide

/-! ## XalanDeque: refinement to `List` -/

inductive DOp (α : Type) where
  | push (x : α)
  | pop
  | resize (n : Nat) (x : α)
  | clear
  | assign (xs : List α)      -- `operator=` from a deque holding `xs`
deriving Repr

def deqSpecStep (l : List α) : DOp α → Option (List α)
  | .push x => some (l ++ [x])
  | .pop => if l = [] then none else some l.dropLast
  | .resize n x => some (l.take n ++ List.replicate (n - l.length) x)
  | .clear => some []
  | .assign xs => some xs

def Deq.stepOp (d : Deq α) : DOp α → Option (Deq α)
  | .push x => some (d.pushBack x)
  | .pop => d.popBack
  | .resize n x => d.resize n x
  | .clear => some d.clear
  | .assign xs => some (Deq.pushAll xs d.clear)

def deqSpecRun : List (DOp α) → List α → Option (List α)
  | [], l => some l
  | op :: ops, l => (deqSpecStep l op).bind (deqSpecRun ops)

def Deq.runOps : List (DOp α) → Deq α → Option (Deq α)
  | [], d => some d
  | op :: ops, d => (Deq.stepOp d op).bind (Deq.runOps ops)

theorem deque_step_refines (d : Deq α) (op : DOp α) (h : d.Inv) (l' : List α) (hs : deqSpecStep d.toList op = some l') :
    ∃ d', Deq.stepOp d op = some d' ∧ d'.Inv ∧ d'.toList = l' := by
  cases op with
  | push x =>
    simp only [deqSpecStep, Option.some.injEq] at hs; subst hs
    exact ⟨_, rfl, (Deq.pushBack_refines d x h).1, (Deq.pushBack_refines d x h).2.1⟩
  | pop =>
    simp only [deqSpecStep] at hs
    split at hs
    · cases hs
    · rename_i hne; simp only [Option.some.injEq] at hs; subst hs
      obtain ⟨d', e, i, t, _⟩ := Deq.popBack_refines d h hne
      exact ⟨d', e, i, t⟩
  | resize n x =>
    simp only [deqSpecStep, Option.some.injEq] at hs; subst hs
    exact Deq.resize_refines d n x h
  | clear =>
    simp only [deqSpecStep, Option.some.injEq] at hs; subst hs
    exact ⟨_, rfl, (Deq.clear_refines d h).1, rfl⟩
  | assign xs =>
    simp only [deqSpecStep, Option.some.injEq] at hs; subst hs
    obtain ⟨i, t, _⟩ := Deq.pushAll_refines xs d.clear (Deq.clear_refines d h).1
    exact ⟨_, rfl, i, by rw [t]; rfl⟩

/-- **C20 (deque).** Every history of push_back / pop_back / resize / clear / operator= within the
`std::deque` preconditions: no access outside a block, the block-index invariant, the specified
element sequence (with the repaired `resize`). -/
theorem deque_refines (ops : List (DOp α)) (d : Deq α) (h : d.Inv) (l' : List α)
    (hs : deqSpecRun ops d.toList = some l') :
    ∃ d', Deq.runOps ops d = some d' ∧ d'.Inv ∧ d'.toList = l' := by
  induction ops generalizing d with
  | nil => simp only [deqSpecRun, Option.some.injEq] at hs; exact ⟨d, rfl, h, hs⟩
  | cons op ops ih =>
    simp only [deqSpecRun] at hs
    cases hst : deqSpecStep d.toList op with
    | none => simp [hst] at hs
    | some l1 =>
      simp only [hst, Option.bind_some] at hs
      obtain ⟨d1, e1, i1, t1⟩ := deque_step_refines d op h l1 hst
      obtain ⟨d2, e2, i2, t2⟩ := ih d1 i1 (by rw [t1]; exact hs)
      exact ⟨d2, by simp [Deq.runOps, e1, e2], i2, t2⟩

/-- what the observers deliver under the invariant: `size()`, `operator[]` (block / offset
arithmetic), `back()` -/
theorem deque_observers (d : Deq α) (h : d.Inv) :
    d.size = d.toList.length ∧ (∀ i, d.get i = d.toList[i]?) ∧ d.back = d.toList.getLast? :=
  ⟨Deq.size_eq d h, Deq.get_eq d h, Deq.back_eq d h⟩

example : (Deq.create 2 0 (0 : Nat)).Inv ∧
    deqSpecRun [DOp.push 1, .push 2, .push 3, .pop, .resize 5 0, .assign [7, 8, 9], .resize 1 0] (Deq.create 2 0 (0 : Nat)).toList
      = some [7] :=
  ⟨Deq.inv_nil 2 0 (by decide), by decide⟩

/-- The **unrepaired** `resize` loops re-read `size()`: growing an empty deque to 4 stops at 2,
shrinking 8 elements to 0 stops at 4 (DESIGN §6 item 1; replayed by the corpus of checks/c20.py). -/
theorem deque_resize_as_written_counterexample :
    ((Deq.create 10 0 (0 : Nat)).resizeAsWritten 4 0).map (·.toList.length) = some 2 ∧
    ((Deq.create 10 0 (0 : Nat)).resize 4 0).map (·.toList.length) = some 4 ∧
    ((Deq.create 3 8 (0 : Nat)).resizeAsWritten 0 0).map (·.toList.length) = some 4 := by
  decide

/-! ## XalanList -/

/-- `constructNode` inserts before the position, takes the node from the free list when there is
one (LIFO) and allocates otherwise. -/
theorem list_constructNode_refines (l : XL α) (next : Nat) (x : α) (pos : LPos) (i : Nat)
    (hi : l.touch.indexOf pos = some i) :
    ∃ l' next' id, l.constructNode next x pos = some (l', next', id) ∧
      l'.toList = l.toList.take i ++ [x] ++ l.toList.drop i ∧
      (match l.free with
        | f :: rest => id = f ∧ l'.free = rest ∧ next' = next
        | [] => id = next ∧ l'.free = [] ∧ next' = next + 1) ∧
      l'.head = true := by
  cases hf : l.free with
  | nil =>
    refine ⟨{ l.touch with live := l.live.take i ++ [(next, x)] ++ l.live.drop i }, next + 1, next, ?_, ?_,
      ⟨rfl, hf, rfl⟩, rfl⟩
    · simp only [XL.constructNode, hi, Option.map_some]
      have : l.touch.free = [] := hf
      simp only [this]; rfl
    · simp [XL.toList, List.map_take, List.map_drop]
  | cons f rest =>
    refine ⟨{ l.touch with live := l.live.take i ++ [(f, x)] ++ l.live.drop i, free := rest }, next, f, ?_, ?_,
      ⟨rfl, rfl, rfl⟩, rfl⟩
    · simp only [XL.constructNode, hi, Option.map_some]
      have : l.touch.free = f :: rest := hf
      simp only [this]; rfl
    · simp [XL.toList, List.map_take, List.map_drop]

/-- `erase(pos)` removes exactly that node and pushes it on the free list. -/
theorem list_erase_refines (l : XL α) (id i : Nat) (hi : l.touch.indexOf (.node id) = some i) :
    ∃ l', l.erase (.node id) = some l' ∧ l'.live = l.live.eraseIdx i ∧ l'.free = id :: l.free := by
  unfold XL.erase
  simp only [hi, Option.map_some]
  exact ⟨_, rfl, rfl, rfl⟩

/-! ## XalanDOMString -/

/-- The **unrepaired** `resize` leaves the old terminator inside the string: `"ab".resize(5,'x')`
is `61 62 00 78 78`; the repaired one gives `61 62 78 78 78` (DESIGN §6 item 2). -/
theorem domstring_resize_as_written_counterexample :
    ((DStr.mk ⟨[0x61, 0x62, 0], 3⟩ 2).resizeAsWritten 5 0x78).map (·.chars) = some [0x61, 0x62, 0, 0x78, 0x78] ∧
    ((DStr.mk ⟨[0x61, 0x62, 0], 3⟩ 2).resize 5 0x78).map (·.chars) = some [0x61, 0x62, 0x78, 0x78, 0x78] ∧
    ((DStr.mk ⟨[0], 1⟩ 0).resizeAsWritten 3 7).map (·.chars) = some [0, 7, 7] := by
  decide

/-- The **unrepaired** `substr(dst, 1, npos)` copies the terminator into the result (and reads past
the buffer for positions ≥ 2); the repaired one yields the tail. -/
theorem domstring_substr_as_written_counterexample :
    ((DStr.mk ⟨[1, 2, 3, 4, 0], 5⟩ 4).substrIntoAsWritten {} 1 none).map (·.chars) = some [2, 3, 4, 0] ∧
    ((DStr.mk ⟨[1, 2, 3, 4, 0], 5⟩ 4).substrInto {} 1 none).map (·.chars) = some [2, 3, 4] ∧
    (DStr.mk ⟨[1, 2, 3, 4, 0], 5⟩ 4).substrIntoAsWritten {} 2 none = none := by
  decide

/-- The **unrepaired** `append(src, pos, npos)` on an allocated buffer adds `npos` to `m_size`. -/
theorem domstring_append_npos_as_written_counterexample :
    ((DStr.mk ⟨[7, 0], 2⟩ 1).appendSubAsWritten (DStr.mk ⟨[1, 2, 3, 4, 0], 5⟩ 4) 1 none).map (·.size) = some 0 ∧
    ((DStr.mk ⟨[7, 0], 2⟩ 1).appendSub (DStr.mk ⟨[1, 2, 3, 4, 0], 5⟩ 4) 1 none).map (fun s => (s.size, s.chars)) =
      some (4, [7, 2, 3, 4]) := by
  decide

end XalanModel.Props.C20
