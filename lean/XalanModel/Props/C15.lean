import XalanModel.C15.KeysProofs
import XalanModel.C15.StripProofs
import XalanModel.C15.StripValues
import XalanModel.C15.ConcreteProofs
import XalanModel.Generated.C15_FunctionKey
import XalanModel.Generated.C15_ExecContext
import XalanModel.Generated.C15_ObjectNames
/-!
# C15 — key() returns exactly the nodes its xsl:key declaration defines

Property theorems only (helper lemmas: `XalanModel/C15/WalkProofs.lean`, `KeysProofs.lean`).

Model (`XalanModel/C15/Tree.lean`, `Keys.lean`): the transcription of `KeyTable::KeyTable` (iterative
pre-order walk with the node-then-attributes inner loop), `processKeyDeclaration`,
`KeyTable::getNodeSetByKey`, `Stylesheet::postConstruction` (merge of imported declarations),
`StylesheetRoot::getNodeSetByKey` with the execution context's per-document cache, and
`FunctionKey::execute`.  Specification: XSLT 1.0 §12.2 (`hasKey`, `specKey`, `specKeyArg`) and XPath 1.0 §5
document order (`Tree.docOrder`).

Abstract parameters (all theorems hold for every instantiation): `KeyDecl.isMatch` (does the node match the
`match` pattern — C09), `KeyDecl.use` (value of the `use` expression — C02), the documents, the node type.
Hypotheses `Pairwise (idx · < idx ·)` and `DocMin` (together `Env.Indexed`): node indices increase in document
order and the document node, if `isDoc` marks one, comes first (what `XalanSourceTree` assigns while parsing;
`addNodeInDocOrder` relies on both).
-/
namespace XalanModel.Props.C15
open XalanModel.C15

variable {κ ν δ σ : Type}

/-- **The constructor's walk tests every node and attribute exactly once, in document order**: the
iterative walk (first child / next sibling / climb to the parent until a sibling exists or the start node is
reached), with its "node, then each attribute" inner loop, produces exactly the recursive document-order
listing of the tree — for every tree, of any size and depth. -/
theorem walk_visits_all_once (t : Tree ν) : walkList t = t.docOrder :=
  walkList_eq_docOrder t

example : walkList (Tree.mk 0 [1, 2] [Tree.mk 3 [4] [Tree.mk 5 [] []], Tree.mk 6 [] [], Tree.mk 7 [8] []]) =
    [0, 1, 2, 3, 4, 5, 6, 7, 8] := by decide

/-- The same for any per-node action (the real one files the node in the key table): the state after the walk is
the fold of the action over document order. -/
theorem walk_action_in_doc_order (f : σ → ν → σ) (t : Tree ν) (s : σ) :
    walkTree f t s = t.docOrder.foldl f s :=
  walkTree_eq_foldl f t s

variable [DecidableEq κ] [DecidableEq δ]

/-- **key_spec**: on the table the constructor builds for a document, `getNodeSetByKey(name, value)` is — for every
declaration list (duplicate names, string- or node-set-valued `use`, any match, the document node included), name and
value — exactly the document-order list of the nodes that match a declaration of that name and have that value among
their `use` values; a name no declaration has yields the null pointer (`none`). -/
theorem key_spec (idx : ν → Nat) (isDoc : ν → Bool) (decls : List (KeyDecl κ ν)) (t : Tree ν)
    (hidx : t.docOrder.Pairwise (fun a b => idx a < idx b)) (hdoc : DocMin idx isDoc t.docOrder)
    (name : κ) (value : String) :
    (KeyTable.create idx isDoc t decls).getNodeSetByKey name value =
      if declared decls name then some (t.docOrder.filter (hasKey decls name value)) else none :=
  getNodeSetByKey_create idx isDoc decls t hidx hdoc name value

section Example
/-- two declarations named "k" (one string-valued on the elements 3 and 7, one node-set-valued on the attribute 4) -/
def exDecls : List (KeyDecl String Nat) :=
  [ { name := "k", isMatch := fun n => n == 3 || n == 7, use := fun _ => .str "u" },
    { name := "k", isMatch := fun n => n == 4, use := fun _ => .nodeset ["u", "v"] },
    { name := "m", isMatch := fun _ => true, use := fun _ => .nodeset [] } ]
def exTree : Tree Nat := Tree.mk 0 [] [Tree.mk 3 [4] [Tree.mk 5 [] []], Tree.mk 7 [8] []]
def exIsDoc (n : Nat) : Bool := n == 0

example : exTree.docOrder.Pairwise (fun a b => id a < id b) := by decide
example : DocMin id exIsDoc exTree.docOrder := by
  intro x hx hd y hy
  have : x = 0 := by simpa [exIsDoc] using hd
  subst this; exact Nat.zero_le _
example : (KeyTable.create id exIsDoc exTree exDecls).getNodeSetByKey "k" "u" = some [3, 4, 7] := by decide
example : (KeyTable.create id exIsDoc exTree exDecls).getNodeSetByKey "m" "u" = some [] := by decide
example : (KeyTable.create id exIsDoc exTree exDecls).getNodeSetByKey "zz" "u" = none := by decide
end Example

/-- A declared name always has an answer (possibly empty — the "declared but nothing filed" branch of
`KeyTable::getNodeSetByKey`), an undeclared one never. -/
theorem key_lookup_total (idx : ν → Nat) (isDoc : ν → Bool) (decls : List (KeyDecl κ ν)) (t : Tree ν)
    (hidx : t.docOrder.Pairwise (fun a b => idx a < idx b)) (hdoc : DocMin idx isDoc t.docOrder)
    (name : κ) (value : String) :
    ((KeyTable.create idx isDoc t decls).getNodeSetByKey name value).isSome = declared decls name := by
  rw [key_spec idx isDoc decls t hidx hdoc]
  cases declared decls name <;> rfl

/-- **key() and xsl:strip-space**: when the match patterns never accept a stripped node (what Xalan's strip-aware
`NodeTester` provides; `s` marks whitespace-only text nodes of elements whose whitespace is stripped — leaves, never
the top node or an attribute), the table the constructor builds by walking the *parsed* tree answers exactly as the
specification does on the *stripped* tree: the stripped nodes are as if they were not there (XSLT 1.0 §3.4). -/
theorem key_spec_strip (idx : ν → Nat) (isDoc : ν → Bool) (decls : List (KeyDecl κ ν)) (t : Tree ν) (s : ν → Bool)
    (hidx : t.docOrder.Pairwise (fun a b => idx a < idx b)) (hdoc : DocMin idx isDoc t.docOrder)
    (hs : Tree.StripOK s t) (hm : ∀ kd ∈ decls, ∀ n, s n = true → kd.isMatch n = false)
    (name : κ) (value : String) :
    (KeyTable.create idx isDoc t decls).getNodeSetByKey name value =
      if declared decls name then some ((Tree.strip s t).docOrder.filter (hasKey decls name value)) else none := by
  rw [key_spec idx isDoc decls t hidx hdoc, Tree.docOrder_strip s t hs, List.filter_filter]
  congr 2
  apply List.filter_congr
  intro n _
  cases hsn : s n with
  | false => simp
  | true =>
    have : hasKey decls name value n = false := by
      rw [Bool.eq_false_iff]
      intro h
      simp only [hasKey, List.any_eq_true, Bool.and_eq_true] at h
      obtain ⟨kd, hkd, ⟨_, hmk⟩, _⟩ := h
      rw [hm kd hkd n hsn] at hmk
      exact absurd hmk (by simp)
    simp [this]

example : Tree.StripOK (fun n : Nat => n == 5) exTree ∧
    (Tree.strip (fun n : Nat => n == 5) exTree).docOrder = [0, 3, 4, 7, 8] := by
  refine ⟨?_, by decide⟩
  simp [exTree, Tree.StripOK, Tree.StripOKForest, Tree.self, Tree.attrs, Tree.kids]

/-- **key() and xsl:strip-space, the values of `use` included** (`XalanModel/C15/StripValues.lean`; string-value
transcribed as in C13's `Node.textOf / strVal`): the table built by walking the *parsed* tree — match strip-aware
(`hm`: a stripped node never matches, any other node matches iff its image matches in the stripped tree), `use` one of
`.`, `*`, `text()`, `@*` evaluated with the strip-aware node tests and the strip-aware string-value — answers every
lookup with the stripped images, in the same order, of the nodes the specification selects on the *stripped* tree with
`use` evaluated plainly.  E.g. an element containing stripped text is filed under its stripped string-value. -/
theorem key_spec_strip_values (idx : ν → Nat) (isDoc : ν → Bool) (vw : NodeView ν) (s : ν → Bool) (av : ν → String)
    (decls : List (StripDecl κ ν)) (t : Tree ν)
    (hidx : t.docOrder.Pairwise (fun a b => idx a < idx b)) (hdoc : DocMin idx isDoc t.docOrder)
    (hs : Tree.StripOK s t)
    (hm : ∀ d ∈ decls, ∀ u : Tree ν, d.matchS u = (!s u.self && d.matchP (Tree.strip s u)))
    (name : κ) (value : String) :
    ((KeyTable.create (fun u : Tree ν => idx u.self) (fun u => isDoc u.self) (Tree.annot t)
        (decls.map (StripDecl.parsed vw s av))).getNodeSetByKey name value).map (List.map (Tree.strip s)) =
      if declared (decls.map (StripDecl.stripped vw av)) name then
        some ((Tree.annot (Tree.strip s t)).docOrder.filter
          (hasKey (decls.map (StripDecl.stripped vw av)) name value))
      else none :=
  key_strip_values idx isDoc vw s av decls t hidx hdoc hs hm name value

section StripExample
/-- `<a> <b> </b>x</a>` as nodes 0 (document) 1 `a` 2 `" "` 3 `b` 4 `" "` 5 `"x"`; whitespace of `a` is stripped (node 2) -/
def wsTree : Tree Nat := Tree.mk 0 [] [Tree.mk 1 [] [Tree.mk 2 [] [], Tree.mk 3 [] [Tree.mk 4 [] []], Tree.mk 5 [] []]]
def wsView : NodeView Nat :=
  { text := fun n => if n == 2 || n == 4 then some " " else if n == 5 then some "x" else none
    other := fun _ => none
    isElem := fun n => n == 1 || n == 3 }
def wsStrip (n : Nat) : Bool := n == 2

/-- the element `a` is filed under `" x"` (its string-value without the stripped node 2, with `b`'s kept space) and
`text()` of `a` is `"x"` only -/
example : Tree.strVal wsView wsStrip (Tree.mk 1 [] [Tree.mk 2 [] [], Tree.mk 3 [] [Tree.mk 4 [] []], Tree.mk 5 [] []]) = " x" ∧
    evalStripUse wsView wsStrip (fun _ => "") .childText
      (Tree.mk 1 [] [Tree.mk 2 [] [], Tree.mk 3 [] [Tree.mk 4 [] []], Tree.mk 5 [] []]) = .nodeset ["x"] ∧
    (Tree.strip wsStrip wsTree).docOrder = [0, 1, 3, 4, 5] := by decide
end StripExample

omit [DecidableEq κ] [DecidableEq δ] in
/-- **Which tree answers** (`getKeyNode`): from any context node — in a source document (`getOwnerDocument()`) or
in a result tree fragment (the climb to the `DOCUMENT_FRAGMENT_NODE`) — the key node is the top of the tree the
context node lies in, so `key()` on a fragment consults the table of that fragment and nothing else. -/
theorem key_node_is_tree_top (t : Tree ν) (ctx : List (Frame ν)) :
    Loc.keyNode ctx.length ⟨t, ctx⟩ = ⟨Loc.rebuild t ctx, []⟩ :=
  keyNode_eq_top ctx t ctx.length (Nat.le_refl _)

example : Loc.keyNode 2 ⟨Tree.mk 5 [] [], [⟨3, [4], [], []⟩, ⟨0, [], [], [Tree.mk 7 [8] []]⟩]⟩ = ⟨exTree, []⟩ := rfl

omit [DecidableEq κ] in
/-- **Merged declarations**: after `postConstruction` the root's declaration vector contains exactly the
declarations of every module of the import tree. -/
theorem imports_merged (s : Sheet κ ν) (kd : KeyDecl κ ν) : kd ∈ s.postConstruction ↔ s.Declares kd :=
  Sheet.mem_postConstruction s kd

example : (Sheet.mk [exDecls[0]] [Sheet.mk [exDecls[1]] [Sheet.mk [exDecls[2]] []]]).postConstruction.length = 3 := rfl

/-- `key_spec` for a whole stylesheet, in words: the lookup of a name some module declares succeeds, its result is a
sub-list of document order (so duplicate-free and ordered), and a node is in it iff some module of the import tree
declares a key of that name whose pattern the node matches and whose `use` gives the value. -/
theorem key_spec_stylesheet (idx : ν → Nat) (isDoc : ν → Bool) (s : Sheet κ ν) (t : Tree ν)
    (hidx : t.docOrder.Pairwise (fun a b => idx a < idx b)) (hdoc : DocMin idx isDoc t.docOrder)
    (name : κ) (value : String) (hd : ∃ kd, s.Declares kd ∧ kd.name = name) :
    ∃ l, (KeyTable.create idx isDoc t s.postConstruction).getNodeSetByKey name value = some l ∧
      l.Sublist t.docOrder ∧
      ∀ n, n ∈ l ↔ n ∈ t.docOrder ∧ ∃ kd, s.Declares kd ∧ kd.name = name ∧ kd.isMatch n = true ∧
        (match kd.use n with | .str v => v = value | .nodeset vs => value ∈ vs) := by
  have hdecl : declared s.postConstruction name = true := by
    obtain ⟨kd, hk, hn⟩ := hd
    simp only [declared, List.any_eq_true, decide_eq_true_eq]
    exact ⟨kd, (imports_merged s kd).mpr hk, hn⟩
  refine ⟨t.docOrder.filter (hasKey s.postConstruction name value), ?_, List.filter_sublist, ?_⟩
  · rw [key_spec idx isDoc _ t hidx hdoc]; simp [hdecl]
  · intro n
    simp only [List.mem_filter, hasKey, List.any_eq_true, Bool.and_eq_true, decide_eq_true_eq]
    constructor
    · rintro ⟨hn, kd, hkd, ⟨hname, hm⟩, hv⟩
      refine ⟨hn, kd, (imports_merged s kd).mp hkd, hname, hm, ?_⟩
      cases hu : kd.use n with
      | str v => rw [hu] at hv; simpa using hv
      | nodeset vs => rw [hu] at hv; simpa using hv
    · rintro ⟨hn, kd, hkd, hname, hm, hv⟩
      refine ⟨hn, kd, (imports_merged s kd).mpr hkd, ⟨hname, hm⟩, ?_⟩
      cases hu : kd.use n with
      | str v => rw [hu] at hv; simpa using hv
      | nodeset vs => rw [hu] at hv; simpa using hv

omit [DecidableEq κ] [DecidableEq δ] in
/-- **The binary insertion-point search is right** (`findInsertionPointBinarySearch`, transcribed loop and
post-loop code): on every non-empty list in document order it reports a duplicate exactly when the node is in the
list and otherwise the unique position that keeps the list ordered — the same list the linear search
(`findInsertionPointLinearSearch`) produces.  Lists of any length. -/
theorem insertion_point_binary_eq_linear (idx : ν → Nat) (n : ν) (l : List ν)
    (hp : l.Pairwise (fun a b => idx a < idx b)) (hne : l ≠ []) :
    (let r := findInsertionPointBinarySearch (l.map idx) (idx n)
     if r.1 then insertAtPos l r.2 n else l) = insertInOrder idx n l :=
  binarySearch_eq_linear idx n l hp hne

example : findInsertionPointBinarySearch [2, 5, 9, 12] 7 = (true, 2) ∧ findInsertionPointBinarySearch [2, 5, 9, 12] 9 = (false, 4)
    ∧ findInsertionPointBinarySearch [2, 5, 9, 12] 1 = (true, 0) ∧ findInsertionPointBinarySearch [2, 5, 9, 12] 13 = (true, 4) := by
  decide

/-- **History independence** (unconditional — no assumption on indices, on the declarations or on the guard): for
every sequence of key() calls over any documents, starting from the empty cache of a fresh transformation, each
answer is the answer the *same call alone* gets on fresh tables.  The per-document cache never changes an answer. -/
theorem key_history_independent (env : Env κ ν δ) (skipEmpty : Bool) (calls : List (Call κ δ)) :
    runCalls env skipEmpty [] calls =
      calls.map fun c => (functionKey env skipEmpty [] c.doc c.name c.arg).2 := by
  rw [runCalls_eq env skipEmpty calls [] (cacheOK_nil env)]
  apply List.map_congr_left
  intro c _
  exact (functionKey_eq env skipEmpty [] (cacheOK_nil env) c.doc c.name c.arg).2.symm

/-- corollary in the words of the property: the answer to a call after any two histories is the same -/
theorem key_answer_same_after_any_history (env : Env κ ν δ) (skipEmpty : Bool)
    (h1 h2 : List (Call κ δ)) (c : Call κ δ) :
    (runCalls env skipEmpty [] (h1 ++ [c])).getLast? = (runCalls env skipEmpty [] (h2 ++ [c])).getLast? := by
  simp [key_history_independent env]

/-- **The answer depends on the document of the XPath context node only** — never on the XSLT current node, nor on
whether the key name is written with a prefix: when both `getNodeSetByKey` overloads pass their `context` parameter
on, every call of every sequence answers what `key()` answers on fresh tables *for the context node's document*.
Unconditional otherwise. -/
theorem key_context_document (env : Env κ ν δ) (ov : Overloads) (skipEmpty : Bool)
    (hq : ov.qnameUsesContext = true) (hs : ov.stringUsesContext = true) (calls : List (XCall κ δ)) :
    runXCalls env ov skipEmpty [] calls =
      calls.map fun c => (functionKey env skipEmpty [] c.contextDoc c.name c.arg).2 := by
  unfold runXCalls
  rw [key_history_independent, List.map_map]
  apply List.map_congr_left
  intro c _
  cases hp : c.prefixed <;> simp [XCall.toCall, XCall.keyDoc, hp, hq, hs]

/-- the overloads as regenerated from the current source both use the context node (this theorem stops compiling
when `translate/c15_execcontext.py` reads anything else out of StylesheetExecutionContextDefault.cpp) -/
theorem generated_overloads_use_context :
    XalanModel.Generated.C15_ExecContext.qnameUsesContext = true ∧
    XalanModel.Generated.C15_ExecContext.stringUsesContext = true := by decide

/-- `key_context_document` for the tree as it is, with the specification as the answer -/
theorem key_context_document_spec (env : Env κ ν δ) (hidx : env.Indexed) (skipEmpty : Bool) (calls : List (XCall κ δ)) :
    runXCalls env ⟨XalanModel.Generated.C15_ExecContext.qnameUsesContext,
        XalanModel.Generated.C15_ExecContext.stringUsesContext⟩ skipEmpty [] calls =
      calls.map fun c => callSpec env.keyDeclarations (env.doc c.contextDoc) c.name (effValues skipEmpty c.arg) := by
  rw [key_context_document env _ skipEmpty generated_overloads_use_context.1 generated_overloads_use_context.2]
  apply List.map_congr_left
  intro c _
  show (functionKey env skipEmpty [] c.contextDoc c.name c.arg).2 = _
  rw [(functionKey_eq env skipEmpty [] (cacheOK_nil env) c.contextDoc c.name c.arg).2,
    callAnswer_spec env hidx skipEmpty c.contextDoc c.name c.arg]

/-- **Only nodes of the context node's document**: whatever the history, the current node and the documents the
argument's nodes come from (a node-set argument contributes string values only), the answer of a call is a sub-list
of the document order of the *context node's* document — nodes of other documents never appear, the order is
document order, there are no duplicates. -/
theorem key_result_of_context_document (env : Env κ ν δ) (hidx : env.Indexed) (skipEmpty : Bool)
    (history : List (XCall κ δ)) (c : XCall κ δ) (l : List ν)
    (h : (runXCalls env ⟨XalanModel.Generated.C15_ExecContext.qnameUsesContext,
        XalanModel.Generated.C15_ExecContext.stringUsesContext⟩ skipEmpty [] (history ++ [c])).getLast? = some (some l)) :
    l.Sublist (env.doc c.contextDoc).docOrder := by
  rw [key_context_document_spec env hidx] at h
  simp only [List.map_append, List.map_cons, List.map_nil, List.getLast?_append, List.getLast?_singleton,
    Option.some_or] at h
  simp only [Option.some.injEq] at h
  unfold callSpec at h
  split at h
  · simp only [Option.some.injEq] at h; subst h; exact List.nil_sublist _
  · split at h
    · simp only [Option.some.injEq] at h; subst h; exact List.filter_sublist
    · cases h

/-- **Context nodes from several documents in one expression** (e.g. a predicate applied to a node-set that spans
the main source, `document()` loads and result tree fragments): each evaluation answers the specification for the
document of its own context node; the whole result is the per-document lookups side by side. -/
theorem key_multi_context_spec (env : Env κ ν δ) (hidx : env.Indexed) (skipEmpty : Bool) (contextDocs : List δ)
    (currentDoc : δ) (prefixed : Bool) (name : κ) (arg : KeyArg) :
    runXCalls env ⟨XalanModel.Generated.C15_ExecContext.qnameUsesContext,
        XalanModel.Generated.C15_ExecContext.stringUsesContext⟩ skipEmpty []
        (contextDocs.map fun d => ⟨d, currentDoc, prefixed, name, arg⟩) =
      contextDocs.map fun d => callSpec env.keyDeclarations (env.doc d) name (effValues skipEmpty arg) := by
  rw [key_context_document_spec env hidx, List.map_map]
  rfl

/-- **One key() call on any valid cache** (every cached table being the one the constructor builds for its
document — true of the empty cache and preserved by every call): the answer is the specification applied to the
string values `FunctionKey::execute` looks up (`effValues`), and the cache stays valid.  `skipEmpty` is the guard
regenerated from the source. -/
theorem key_call_spec (env : Env κ ν δ) (hidx : env.Indexed) (skipEmpty : Bool) (tables : KeyTables κ ν δ)
    (hc : CacheOK env tables) (doc : δ) (name : κ) (arg : KeyArg) :
    CacheOK env (functionKey env skipEmpty tables doc name arg).1 ∧
    (functionKey env skipEmpty tables doc name arg).2 =
      callSpec env.keyDeclarations (env.doc doc) name (effValues skipEmpty arg) := by
  have := functionKey_eq env skipEmpty tables hc doc name arg
  exact ⟨this.1, by rw [this.2, callAnswer_spec env hidx skipEmpty doc name arg]⟩

/-- **The key name is fixed before the table is built**: when the string-name overload resolves a prefixed key name
into a QName of its own (`byValue`), the answer is the specification for the expanded name *given* — whatever the
`match`/`use` expressions compute or resolve while the table is built (`buildOverwrites`, `scratchAfter` arbitrary). -/
theorem key_name_independent_of_use_evaluation (env : Env κ ν δ) (hidx : env.Indexed) (tables : KeyTables κ ν δ)
    (hc : CacheOK env tables) (buildOverwrites : Bool) (scratchAfter : κ) (doc : δ) (qname : κ) (ref : String) :
    (prefixedKeyCall true buildOverwrites scratchAfter env tables doc qname ref).2 =
      callSpec env.keyDeclarations (env.doc doc) qname [ref] := by
  have := (key_call_spec env hidx false tables hc doc qname (.str ref)).2
  simpa [prefixedKeyCall, nameSeen, functionKey, effValues] using this

/-- What holds for the tree as it is (the regenerated flag `stringNameByValue`): the same, provided no `match`/`use`
evaluated during a table build resolves another QName while the name is still held by reference.  Missing w.r.t. the
full statement: exactly that case — see `key_name_overwritten_counterexample` (nothing is missing once the flag is
`true`). -/
theorem key_name_independent_of_use_evaluation_partial (env : Env κ ν δ) (hidx : env.Indexed)
    (tables : KeyTables κ ν δ) (hc : CacheOK env tables) (buildOverwrites : Bool) (scratchAfter : κ) (doc : δ)
    (qname : κ) (ref : String)
    (h : XalanModel.Generated.C15_ExecContext.stringNameByValue = false → buildOverwrites = false) :
    (prefixedKeyCall XalanModel.Generated.C15_ExecContext.stringNameByValue buildOverwrites scratchAfter env tables
        doc qname ref).2 = callSpec env.keyDeclarations (env.doc doc) qname [ref] := by
  have hname : nameSeen XalanModel.Generated.C15_ExecContext.stringNameByValue buildOverwrites scratchAfter env tables
      doc qname = qname := by
    unfold nameSeen
    cases hb : XalanModel.Generated.C15_ExecContext.stringNameByValue with
    | true => simp
    | false => simp [h hb]
  have := (key_call_spec env hidx false tables hc doc qname (.str ref)).2
  simpa [prefixedKeyCall, hname, functionKey, effValues] using this

/-- **Node-set second argument = union over the nodes' string values** (XSLT 1.0 §12.2), in document order, for the
code *without* the `if (0 != ref.length())` guard.  With the guard (the unchanged tree) see
`key_nodeset_union_counterexample` / `key_nodeset_union_partial`. -/
theorem key_nodeset_union (env : Env κ ν δ) (hidx : env.Indexed) (tables : KeyTables κ ν δ)
    (hc : CacheOK env tables) (doc : δ) (name : κ) (arg : KeyArg) :
    (functionKey env false tables doc name arg).2 =
      callSpec env.keyDeclarations (env.doc doc) name arg.values := by
  rw [(key_call_spec env hidx false tables hc doc name arg).2]
  congr 1
  cases arg with
  | str s => rfl
  | nodeset refs =>
    match refs with
    | [] => rfl
    | [s] => rfl
    | a :: b :: rest => simp [effValues, KeyArg.values]

/-- What holds for the tree as it is (whatever the regenerated guard says): the union over the argument's string
values provided none of them is the empty string when the guard is present.  Missing w.r.t. the full statement:
empty string values of a node-set argument with more than one node when `skipEmptyRefs = true`. -/
theorem key_nodeset_union_partial (env : Env κ ν δ) (hidx : env.Indexed) (tables : KeyTables κ ν δ)
    (hc : CacheOK env tables) (doc : δ) (name : κ) (arg : KeyArg)
    (hne : XalanModel.Generated.C15_FunctionKey.skipEmptyRefs = true → ∀ v ∈ arg.values, v ≠ "") :
    (functionKey env XalanModel.Generated.C15_FunctionKey.skipEmptyRefs tables doc name arg).2 =
      callSpec env.keyDeclarations (env.doc doc) name arg.values := by
  rw [(key_call_spec env hidx _ tables hc doc name arg).2]
  congr 1
  cases arg with
  | str s => rfl
  | nodeset refs =>
    match refs with
    | [] => rfl
    | [s] => rfl
    | a :: b :: rest =>
      simp only [effValues, KeyArg.values]
      apply List.filter_eq_self.mpr
      intro v hv
      cases hs : XalanModel.Generated.C15_FunctionKey.skipEmptyRefs with
      | false => simp
      | true =>
        have := hne hs v (by simpa [KeyArg.values] using hv)
        simp [this]

/-- every sequence of calls answers by the specification -/
theorem key_calls_spec (env : Env κ ν δ) (hidx : env.Indexed) (skipEmpty : Bool) (calls : List (Call κ δ)) :
    runCalls env skipEmpty [] calls =
      calls.map fun c => callSpec env.keyDeclarations (env.doc c.doc) c.name (effValues skipEmpty c.arg) := by
  rw [key_history_independent]
  apply List.map_congr_left
  intro c _
  exact (key_call_spec env hidx skipEmpty [] (cacheOK_nil env) c.doc c.name c.arg).2

section Counterexample
/-- `<r><a/><v/><w>x</w></r>` as nodes 0 (document node) … with `<xsl:key name="k" match="a" use="."/>` -/
def cxEnv : Env String Nat Nat :=
  { keyDeclarations := [{ name := "k", isMatch := fun n => n == 1, use := fun _ => .str "" }]
    doc := fun _ => Tree.mk 0 [] [Tree.mk 1 [] [], Tree.mk 2 [] [], Tree.mk 3 [] []]
    idx := id
    isDoc := fun n => n == 0 }

/-- **With the guard as it stands in the unchanged tree the union property fails**: `key('k', v|w)` must return `a`
(`v` has the empty string value, `a` is filed under `""`) but the `nRefs > 1` loop skips it and returns nothing;
without the guard the answer is right.  Replayed on the real library by `gen/corpus/c15/empty-ref-skipped.json`. -/
theorem key_nodeset_union_counterexample :
    (functionKey cxEnv true [] 0 "k" (.nodeset ["", "x"])).2 = some [] ∧
    callSpec cxEnv.keyDeclarations (cxEnv.doc 0) "k" (KeyArg.nodeset ["", "x"]).values = some [1] ∧
    (functionKey cxEnv false [] 0 "k" (.nodeset ["", "x"])).2 = some [1] := by decide

/-- the document node 0 and the element 2 are filed under "w", the element 1 under "a" -/
def cxDocEnv : Env String Nat Nat :=
  { keyDeclarations := [{ name := "m", isMatch := fun _ => true, use := fun n => .str (if n == 1 then "a" else "w") }]
    doc := fun _ => Tree.mk 0 [] [Tree.mk 1 [] [], Tree.mk 2 [] []]
    idx := id
    isDoc := fun n => n == 0 }

/-- the document node as a keyed node: merged at the front of the union (`node == theFirstNodeOwner` branch of
`addNodeInDocOrder`; before the upstream fix 4c14898 it was appended: `[1, 0, 2]`).  Replayed by
`gen/corpus/c15/root-in-union.json`. -/
example : (functionKey cxDocEnv false [] 0 "m" (.nodeset ["a", "w"])).2 = some [0, 1, 2] ∧
    (functionKey cxDocEnv false [] 0 "m" (.str "w")).2 = some [0, 2] := by decide
/-- two documents: in document 0 the element 1 is filed under "x", in document 1 the elements 1 and 2 -/
def cxTwoDocs : Env String Nat Nat :=
  { keyDeclarations := [{ name := "k", isMatch := fun n => n != 0, use := fun _ => .str "x" }]
    doc := fun d => if d = 0 then Tree.mk 0 [] [Tree.mk 1 [] []] else Tree.mk 0 [] [Tree.mk 1 [] [], Tree.mk 2 [] []]
    idx := id
    isDoc := fun n => n == 0 }

/-- **If the string-name overload consulted the current node** (`stringUsesContext = false`) a prefixed `key()` evaluated
in a predicate over document 1 while the current node is in document 0 would answer from document 0's table; the
same call with an unprefixed name, or with the current node in document 1, is right. -/
theorem key_context_document_counterexample :
    runXCalls cxTwoDocs ⟨true, false⟩ false [] [⟨1, 0, true, "k", .str "x"⟩, ⟨1, 0, false, "k", .str "x"⟩, ⟨1, 1, true, "k", .str "x"⟩] =
      [some [1], some [1, 2], some [1, 2]] ∧
    runXCalls cxTwoDocs ⟨true, true⟩ false [] [⟨1, 0, true, "k", .str "x"⟩] = [some [1, 2]] := by decide
/-- **With the name held by reference the first prefixed lookup on a document is lost** when a `use` expression
resolves another QName during the table build: `cxEnv` declares key "k"; the build leaves "df" in the scratch; the
call answers the UnknownKey error (`none`) although "k" is declared and `key('k', "")` is `[1]`; the next call finds
the table cached and is right; with the name by value both are right.  Replayed on the real library by
`gen/corpus/c15/prefixed-name-overwritten.json`. -/
theorem key_name_overwritten_counterexample :
    (prefixedKeyCall false true "df" cxEnv [] 0 "k" "").2 = none ∧
    (prefixedKeyCall false true "df" cxEnv (prefixedKeyCall false true "df" cxEnv [] 0 "k" "").1 0 "k" "").2 = some [1] ∧
    (prefixedKeyCall true true "df" cxEnv [] 0 "k" "").2 = some [1] := by decide
end Counterexample

example : cxEnv.Indexed := by
  intro d
  refine ⟨?_, ?_⟩
  · show ([0, 1, 2, 3] : List Nat).Pairwise (fun a b => id a < id b)
    decide
  · intro x _ hd y _
    have : x = 0 := by simpa [cxEnv] using hd
    subst this; exact Nat.zero_le _
example : runCalls cxEnv false [] [⟨0, "k", .str "x"⟩, ⟨1, "k", .nodeset ["", "x"]⟩, ⟨0, "zz", .str ""⟩, ⟨0, "k", .str ""⟩] =
    [some [], some [1], none, some [1]] := by decide

/-! ### names of XSLT objects and the default namespace (XSLT 1.0 §2.4) -/
section ObjectNames
open XalanModel.C15.Concrete

/-- what the QName of a `createXalanQName` call site names, for the sites that name an XSLT *object* -/
def objectKinds : List String :=
  ["key-name", "template-name", "template-mode", "apply-templates-mode", "attribute-set-name", "call-template-name",
   "decimal-format-name", "variable-or-param-name", "with-param-name"]

/-- **No object name takes the default namespace** (table regenerated from every `createXalanQName` call of
src/xalanc/XSLT/*.cpp by `translate/c15_objectnames.py`): every call site is classified, every site that names an XSLT
object — the `xsl:key` name in `Stylesheet::processKeyElement`, template names and modes, attribute sets, decimal
formats, variables/parameters, `xsl:with-param`, `xsl:call-template` — passes `fUseDefault = false`, and each of these
kinds of site exists.  (Element names, e.g. `cdata-section-elements`, rightly pass `true`.)  With `true` at the key
site an unprefixed `xsl:key` name declared under `xmlns="…"` would be filed under `{default-ns}name` and
`key('name', …)` would fail with the UnknownKey error. -/
theorem object_names_ignore_default_namespace :
    (∀ s ∈ XalanModel.Generated.C15_ObjectNames.sites,
        s.2.1 ≠ "unclassified" ∧ (s.2.1 ∈ objectKinds → s.2.2 = false)) ∧
    (∀ k ∈ objectKinds, ∃ s ∈ XalanModel.Generated.C15_ObjectNames.sites, s.2.1 = k) := by decide

/-- the model's name resolution: a default namespace declaration in scope never changes the expanded name of an
unprefixed object name -/
theorem unprefixed_object_name_ignores_default (ctx : NsContext) (uri lex : String)
    (h : ∀ p l, lex.splitOn ":" ≠ [p, l]) :
    resolveObjectName (ctx ++ [("", uri)]) lex = lex ∧ resolveObjectName ctx lex = lex := by
  unfold resolveObjectName
  constructor <;> split <;> first | rfl | (rename_i p l hp; exact absurd hp (h p l))

end ObjectNames

/-! ### the abstract parameters instantiated: concrete documents, patterns and `use` expressions of the generated fragment -/
section ConcreteInstance
open XalanModel.C15.Concrete

/-- the `xsl:key` declarations of a stylesheet, as texts' parse results: name, match pattern, use expression -/
abbrev CDecl := String × List PathPat × UseExpr

/-- **key_spec for concrete documents and concrete declarations** — no hypothesis left: for every parsed document
(`Doc.ofRaw`, any tree of elements, attributes, text, comments, PIs), every list of declarations whose `match` is a
pattern and whose `use` is an expression of the generated fragment (`Concrete.matchPattern`, `Concrete.evalUse`: unions,
`/`, `//`, attribute/text/node tests, boolean and positional predicates; paths incl. `..`, `//`, `namespace::*`,
`string()`, `count()`, `concat()`, `name()`, `position()`), every name and value, the table built by the transcribed
constructor answers with the document-order list of the nodes that match the pattern of a declaration of that name
and have the value among the string values of its `use`. -/
theorem key_spec_concrete (k : Nat) (r : Raw) (docs : Nat → Doc) (posZero : Bool) (cdecls : List CDecl)
    (name value : String) :
    let d := Doc.ofRaw k r
    let decls := cdecls.map fun c => mkDecl posZero docs c.1 c.2.1 c.2.2
    (KeyTable.create (fun n : CNode => n.idx) isDocNode d.tree decls).getNodeSetByKey name value =
      if cdecls.any (fun c => c.1 = name) then
        some (d.tree.docOrder.filter fun n => cdecls.any fun c =>
          decide (c.1 = name) && matchPattern (docs n.doc) c.2.1 n &&
            (match evalUse posZero (docs n.doc) c.2.2 n with
             | .str s => decide (s = value)
             | .nodeset vals => vals.contains value))
      else none := by
  intro d decls
  rw [key_spec (fun n : CNode => n.idx) isDocNode decls d.tree (ofRaw_indexed k r) (ofRaw_docMin k r) name value]
  have hd : declared decls name = cdecls.any (fun c => decide (c.1 = name)) := by
    simp only [decls, declared, List.any_map]; rfl
  have hk : hasKey decls name value = fun n => cdecls.any fun c =>
      decide (c.1 = name) && matchPattern (docs n.doc) c.2.1 n &&
        (match evalUse posZero (docs n.doc) c.2.2 n with
         | .str s => decide (s = value)
         | .nodeset vals => vals.contains value) := by
    funext n
    simp only [decls, hasKey, List.any_map]; rfl
  rw [hd, hk]

/-- the concrete documents satisfy `Env.Indexed`: every theorem above that assumes it (`key_call_spec`,
`key_nodeset_union`, `key_calls_spec`, `key_context_document_spec`) applies to the environments the driver builds -/
theorem concrete_env_indexed (raws : Nat → Raw) (decls : List (KeyDecl String CNode)) :
    (⟨decls, fun k => (Doc.ofRaw k (raws k)).tree, fun n => n.idx, isDocNode⟩ : Env String CNode Nat).Indexed :=
  fun k => ⟨ofRaw_indexed k (raws k), ofRaw_docMin k (raws k)⟩

end ConcreteInstance

end XalanModel.Props.C15
