import XalanModel.C16.CacheProofs
import XalanModel.C16.DecodeProofs
import XalanModel.C16.CollatorProofs
import XalanModel.C16.LibSortProofs
import XalanModel.C16.PositionProofs
import XalanModel.Generated.C11_Prologue
/-!
# C16 — xsl:sort yields a stable permutation ordered by its keys

Property theorems only (helper lemmas: `XalanModel/C16/*Proofs.lean`; model: `XalanModel/C16/Sort.lean`;
regenerated from NodeSorter.cpp on every run: `XalanModel/Generated/C16_NodeSorter.lean`).

Reading guide.
* `Env` holds the externals: the value of sort key `k` at a node as a number / as a string (XPath
  evaluation) and the collation of key `k`.  Collation is assumed to be a three-way total preorder
  (`CollationOK`, i.e. `ThreeWay (env.scmp k)` for every `k`); `strCompare_threeWay` shows that the
  concrete order used in the correspondence runs satisfies it.
* Specification (written without reference to the code, `CompareProofs.lean`): `numLT`/`numEQ` (NaN is
  the least number, all NaN tie, −0 = +0), `keyLT`/`keyEQ` (one key, ascending or descending),
  `lexLT`/`lexEQ` (first key most significant).
* Code: `compare` (cache-free reading of NodeSortKeyCompare::compare, numeric branch generated),
  `compareM` (same control flow through the caches), `sortNodes` (NodeSorter::sort with std::stable_sort
  as `List.mergeSort`), `sortNodesM` (an executable sort that really calls `compareM`).
-/
namespace XalanModel.Props.C16
open XalanModel.C16

variable {α : Type}

/-! ## the comparator -/

/-- The generated numeric branch implements the specification: NaN first, then numeric order,
NaN ties with NaN, −0 ties with +0, ±Infinity at the ends (all doubles, by bit pattern). -/
theorem numCompare_spec (x y : Dbl) :
    (Generated.numCompare x y 0 < 0 ↔ numLT x y) ∧
    (Generated.numCompare x y 0 = 0 ↔ numEQ x y) ∧
    (0 < Generated.numCompare x y 0 ↔ numLT y x) :=
  ⟨numCompare_lt x y, numCompare_eq x y, numCompare_gt x y⟩

/-- … and is a three-way total preorder on *all* doubles including NaN, ±0, ±Infinity. -/
theorem numCompare_threeWay : ThreeWay (fun x y : Dbl => Generated.numCompare x y 0) :=
  numCompare_threeWay'

example : Generated.numCompare Dbl.nan Dbl.negInf 0 < 0 ∧ Generated.numCompare Dbl.negZero Dbl.posZero 0 = 0 ∧
    Generated.numCompare Dbl.nan Dbl.nan 0 = 0 ∧ 0 < Generated.numCompare Dbl.posInf (Dbl.ofBits 0x41a0300ea8000000) 0 := by
  decide

/-- The sentinel that marks "slot never evaluated" (regenerated from the source) is not NaN — the one
thing cache transparency needs of it (a NaN sentinel would never compare equal to itself, and the
unevaluated slots would be returned as key values). -/
theorem dummyValue_not_nan : Generated.dummyValue.isNaN = false := by decide

/-- Code-unit lexicographic order (the collation of the correspondence runs) is a three-way total preorder:
the hypothesis `CollationOK` is satisfiable. -/
theorem strCompare_threeWay : ThreeWay strCompare :=
  ⟨strCompare_antisym, strCompare_trans⟩

/-- The executable test applied to every collation table the library's ICU functor produced in the second
correspondence stream decides the hypothesis `CollationOK` on the sampled strings. -/
theorem tableOk_threeWay (m : Nat) (f : Nat → Nat → Int) (h : tableOk m f = true) :
    ThreeWay (fun a b : Fin m => f a.1 b.1) :=
  tableOk_threeWay' m f h

/-- **compare is a three-way total preorder** for every key list, given that of each collation. -/
theorem compare_threeWay (env : Env α) (hc : CollationOK env) (keys : List Key) :
    ThreeWay (compare env keys) :=
  compareFrom_threeWay env hc keys 0

/-- **compare_strictWeak.** `NodeSortKeyCompare::operator()` (`compare(...) < 0`) is a strict weak
ordering — irreflexive, transitive, transitive incomparability — the precondition of `std::stable_sort`;
for every key list (text/number, ascending/descending mixed, any length). -/
theorem compare_strictWeak (env : Env α) (hc : CollationOK env) (keys : List Key) :
    StrictWeakOrder (less env keys) :=
  (compare_threeWay env hc keys).strictWeak

/-- **compare_spec.** The recursive multi-key comparison is the lexicographic specification: negative
exactly when the first key on which the nodes do not tie puts the left node first (ascending or
descending per key, numbers with NaN least), zero exactly when they tie on every key. -/
theorem compare_spec (env : Env α) (keys : List Key) (a b : α) :
    (compare env keys a b < 0 ↔ lexLT env keys 0 a b) ∧ (compare env keys a b = 0 ↔ lexEQ env keys 0 a b) :=
  ⟨compareFrom_lt env keys 0 a b, compareFrom_eq env keys 0 a b⟩

/-- **compare_eq_specCompare.** … and it *equals* the executable specification comparator that the check
evaluates on the implementation's own output (`specCompare` mentions neither the generated code nor
`compareFrom`). -/
theorem compare_eq_specCompare (env : Env α) (keys : List Key) (a b : α) :
    compare env keys a b = specCompare env keys 0 a b :=
  compareFrom_eq_specCompare env keys 0 a b

/-- hypotheses are satisfiable by a non-trivial state: two keys, descending numbers then text -/
example : CollationOK (⟨fun _ => strCompare, fun _ (n : Nat) => Dbl.ofBits n, fun _ n => [n]⟩ : Env Nat) ∧
    compare (⟨fun _ => strCompare, fun _ (n : Nat) => if n = 0 then Dbl.nan else Dbl.posInf, fun _ n => [n]⟩ : Env Nat)
      [⟨true, true⟩, ⟨false, false⟩] 1 0 < 0 :=
  ⟨fun _ => strCompare_threeWay, by decide⟩

/-! ## the caches -/

/-- **cache_transparent** (one call).  From any cache state satisfying the invariant "every allocated
slot holds the marker or the key value of its position" the cache-threading comparator returns exactly
the cache-free comparison and re-establishes the invariant.  In particular a key whose value *is*
135792468 or the empty string is merely evaluated again. -/
theorem cache_transparent (env : Env α) (nodes : List α) (keys : List Key) (c : Caches) (l r : Entry α)
    (hinv : CacheInv env nodes keys.length c) (hl : WF nodes l) (hr : WF nodes r) :
    (compareM env keys nodes.length c l r).2 = compare env keys l.1 r.1 ∧
    CacheInv env nodes keys.length (compareM env keys nodes.length c l r).1 :=
  compareM_ok env nodes keys dummyValue_not_nan c l r hinv hl hr

/-- **cache_transparent_history.**  Whatever sequence of comparator calls a sort algorithm makes on
entries of the scratch vector, starting from the empty caches that `sort` guarantees, every call
returns the cache-free comparison. -/
theorem cache_transparent_history (env : Env α) (nodes : List α) (keys : List Key)
    (calls : List (Entry α × Entry α)) (hwf : ∀ p ∈ calls, p.1 ∈ scratch nodes ∧ p.2 ∈ scratch nodes) :
    runCalls env keys nodes.length calls Caches.empty = calls.map (fun p => compare env keys p.1.1 p.2.1) :=
  runCalls_ok env nodes keys dummyValue_not_nan calls Caches.empty
    (fun p hp => ⟨scratch_wf nodes _ (hwf p hp).1, scratch_wf nodes _ (hwf p hp).2⟩)
    (cacheInv_empty env nodes keys.length)

/-- **cache_effective.**  The caches do cache: over any sequence of comparator calls from empty caches, a
numeric key value that differs from the sentinel, and a string key value that is not empty, is evaluated at
most once per (key, original position).  (Not part of the property statement; it pins down the model of
the caches that `cache_transparent` is about and is what the check's `probe()` counts validate.) -/
theorem cache_effective (env : Env α) (nodes : List α) (keys : List Key)
    (calls : List (Entry α × Entry α)) (hwf : ∀ p ∈ calls, p.1 ∈ scratch nodes ∧ p.2 ∈ scratch nodes) :
    (∀ k p, Dbl.equal (numAt env nodes k p) Generated.dummyValue = false →
      (runCallsC env keys nodes.length calls Caches.empty).numEvals.count (k, p) ≤ 1) ∧
    (∀ k p, (strAt env nodes k p).isEmpty = false →
      (runCallsC env keys nodes.length calls Caches.empty).strEvals.count (k, p) ≤ 1) := by
  have inv := runCallsC_inv env nodes keys dummyValue_not_nan calls Caches.empty
    (fun p hp => ⟨scratch_wf nodes _ (hwf p hp).1, scratch_wf nodes _ (hwf p hp).2⟩)
    (cacheInv_empty env nodes keys.length)
  exact ⟨fun k p h => inv.numLog.2 (k, p) h, fun k p h => inv.strLog.2 (k, p) h⟩

/-- non-vacuity: a history that hits the sentinel value and the empty string -/
example :
    runCalls (⟨fun _ => strCompare, fun _ (n : Nat) => if n = 0 then Generated.dummyValue else Dbl.nan,
               fun _ n => if n = 0 then [] else [n]⟩ : Env Nat) [⟨true, false⟩, ⟨false, true⟩] 3
      [((0, 0), (1, 1)), ((2, 2), (0, 0)), ((1, 1), (2, 2)), ((0, 0), (0, 0))] Caches.empty = [1, -1, 1, 0] := by
  decide

/-- … in which the sentinel-valued key (0,0) is evaluated on each of its four accesses, the others once -/
example :
    (runCallsC (⟨fun _ => strCompare, fun _ (n : Nat) => if n = 0 then Generated.dummyValue else Dbl.nan,
               fun _ n => if n = 0 then [] else [n]⟩ : Env Nat) [⟨true, false⟩, ⟨false, true⟩] 3
      [((0, 0), (1, 1)), ((2, 2), (0, 0)), ((1, 1), (2, 2)), ((0, 0), (0, 0))] Caches.empty).numEvals
      = [(0, 0), (0, 0), (0, 0), (0, 2), (0, 1), (0, 0)] := by
  decide

/-- **sortNodesM_eq_sortNodes.**  The executable sort that goes through the caches (used by the driver
in the correspondence runs) returns the list of the cache-free `NodeSorter::sort` model. -/
theorem sortNodesM_eq_sortNodes (env : Env α) (hc : CollationOK env) (keys : List Key) (nodes : List α) :
    (sortNodesM env keys nodes).2 = sortNodes env keys nodes := by
  unfold sortNodesM sortNodes
  cases hk : keys.isEmpty
  · simp only [beq_self_eq_true, if_true]
    have h := isortM_ok env nodes keys dummyValue_not_nan (scratch nodes) Caches.empty (scratch_wf nodes)
      (cacheInv_empty env nodes keys.length)
    rcases hs : isortM env keys nodes.length (scratch nodes) Caches.empty with ⟨c1, s1⟩
    rw [hs] at h
    simp only at h
    rw [h.1]
    have tw : ThreeWay (fun a b : Entry α => compare env keys a.1 b.1) :=
      (compare_threeWay env hc keys).comap (fun e : Entry α => e.1)
    rw [isortP_eq_mergeSort (fun a b : Entry α => less env keys a.1 b.1)
      (fun a b d => le_of_threeWay_trans tw a b d) (fun a b => le_of_threeWay_total tw a b)]
    rfl
  · simp

/-! ## the sort -/

/-- **libStableSort_contract.**  The libstdc++-shaped algorithm (insertion-sorted runs of 7, then pairwise
merges of adjacent runs with the left run first on ties, doubling) driven by `NodeSortKeyCompare` returns
exactly the list of the contract model `sortNodes` (`List.mergeSort`): the `std::stable_sort` parameter of the
trusted base is discharged for this algorithm shape, for every list and every key list. -/
theorem libStableSort_contract (env : Env α) (hc : CollationOK env) (keys : List Key) (nodes : List α) :
    sortNodesLib env keys nodes = sortNodes env keys nodes := by
  unfold sortNodesLib sortNodes stableSort
  have tw : ThreeWay (fun a b : Entry α => compare env keys a.1 b.1) :=
    (compare_threeWay env hc keys).comap (fun e : Entry α => e.1)
  rw [libStableSort_eq_mergeSort (fun a b : Entry α => less env keys a.1 b.1)
    (fun a b d => le_of_threeWay_trans tw a b d) (fun a b => le_of_threeWay_total tw a b)]

example : sortNodesLib (⟨fun _ => strCompare, fun _ (n : Nat) => Dbl.ofBits (n % 3), fun _ n => [n % 2]⟩ : Env Nat)
    [⟨true, true⟩, ⟨false, false⟩] (List.range 20)
    = [2, 8, 14, 5, 11, 17, 4, 10, 16, 1, 7, 13, 19, 0, 6, 12, 18, 3, 9, 15] := by
  rw [libStableSort_contract _ (fun _ => strCompare_threeWay), ← sortNodesM_eq_sortNodes _ (fun _ => strCompare_threeWay)]
  decide


/-- **sort_spec.**  For every node list and every key list the output of `NodeSorter::sort` is
(1) a permutation of the input, (2) sorted: no later element strictly precedes an earlier one in the
lexicographic key order, (3) stable: every sub-sequence of the input that is already in order (in
particular any two nodes that tie on all keys) appears in the same relative order in the output. -/
theorem sort_spec (env : Env α) (hc : CollationOK env) (keys : List Key) (nodes : List α) :
    (sortNodes env keys nodes).Perm nodes ∧
    (sortNodes env keys nodes).Pairwise (fun a b => ¬ lexLT env keys 0 b a) ∧
    (∀ sub : List α, sub.Sublist nodes → sub.Pairwise (fun a b => ¬ lexLT env keys 0 b a) →
      sub.Sublist (sortNodes env keys nodes)) ∧
    (∀ a b : α, [a, b].Sublist nodes → lexEQ env keys 0 a b → [a, b].Sublist (sortNodes env keys nodes)) := by
  rw [sortNodes_eq_mergeSort]
  have tr := leOf_trans env hc keys
  have tot := leOf_total env hc keys
  have hstable : ∀ sub : List α, sub.Sublist nodes → sub.Pairwise (fun a b => ¬ lexLT env keys 0 b a) →
      sub.Sublist (nodes.mergeSort (leOf env keys)) := by
    intro sub hsub hp
    exact List.sublist_mergeSort tr tot (hp.imp (fun {a b} h => (leOf_iff env keys a b).mpr h)) hsub
  refine ⟨List.mergeSort_perm _ _, ?_, hstable, ?_⟩
  · exact (List.pairwise_mergeSort tr tot nodes).imp (fun {a b} h => (leOf_iff env keys a b).mp h)
  · intro a b hsub heq
    apply hstable [a, b] hsub
    simp only [List.pairwise_cons, List.mem_cons, or_false, forall_eq,
      List.not_mem_nil, false_imp_iff, implies_true, List.Pairwise.nil, and_true]
    intro hlt
    have h1 := (compare_spec env keys b a).1.mpr hlt
    have h2 := (compare_spec env keys a b).2.mpr heq
    have := ((compare_threeWay env hc keys).zero_symm a b).mp h2
    omega

/-- non-vacuity / worked instance (three nodes, number key descending then text key) -/
example :
    sortNodes (⟨fun _ => strCompare, fun _ (n : Nat) => if n = 2 then Dbl.nan else Dbl.posZero,
                fun _ n => [5 - n]⟩ : Env Nat) [⟨true, true⟩, ⟨false, false⟩] [0, 1, 2] = [1, 0, 2] := by
  rw [← sortNodesM_eq_sortNodes _ (fun _ => strCompare_threeWay)]
  decide

/-- **sort_unique.**  The stable sorted permutation is unique: any arrangement of the scratch entries
`(node, original position)` that is a permutation and in which earlier entries either strictly precede
later ones or tie with them and come from an earlier position *is* the output of the model.  (This is
what lets `std::stable_sort` be replaced by any correct stable sort, and what makes the executable
predicate below a complete oracle.) -/
theorem sort_unique (env : Env α) (hc : CollationOK env) (keys : List Key) (nodes : List α)
    (out : List (Entry α)) (hperm : out.Perm (scratch nodes))
    (hsorted : out.Pairwise (StableLE (compare env keys))) :
    out.map (·.1) = sortNodes env keys nodes := by
  rw [sortNodes_eq_mergeSort]
  exact stable_unique (compare_threeWay env hc keys) nodes out hperm hsorted

/-- **isStableSortedPerm_sound.**  The executable specification predicate evaluated by the check on the
order the *implementation* produced (original positions in processing order) accepts exactly one list:
the model's. -/
theorem isStableSortedPerm_sound (env : Env Nat) (hc : CollationOK env) (keys : List Key) (n : Nat)
    (out : List Nat) (h : isStableSortedPerm (specCompare env keys 0) n out = true) :
    out = sortNodes env keys (List.range n) := by
  have hcmp : specCompare env keys 0 = compare env keys := by
    funext a b; exact (compare_eq_specCompare env keys a b).symm
  rw [hcmp] at h
  simp only [isStableSortedPerm, Bool.and_eq_true, beq_iff_eq] at h
  have hperm : out.Perm (List.range n) := by
    have e := isortP_eq_mergeSort (fun a b : Nat => decide (a < b))
      (fun a b d h1 h2 => by simp at h1 h2 ⊢; omega) (fun a b => by simp; omega) out
    have := List.mergeSort_perm out (fun a b => !decide (b < a))
    rw [← e, h.1] at this; exact this.symm
  have hpw := adjacentAll_pairwise (compare_threeWay env hc keys) out h.2
  have := sort_unique env hc keys (List.range n) (out.map (fun i => (i, i)))
    (by rw [scratch, zipIdx_range]; exact hperm.map _)
    (by
      rw [List.pairwise_map]
      exact hpw.imp (fun {a b} hab => by
        unfold StableLE
        rcases hab with h1 | ⟨h1, h2⟩
        · exact Or.inl h1
        · exact Or.inr ⟨h1, Nat.le_of_lt h2⟩))
  rw [← this]
  simp [List.map_map, Function.comp_def]

/-- **isStableSortedPerm_complete.**  … and it accepts the model's list, so the predicate holds of an order
*iff* that order is the stable sorted permutation: evaluating it on the implementation's output can neither
miss a violation nor raise a false alarm (under `CollationOK`). -/
theorem isStableSortedPerm_complete (env : Env Nat) (hc : CollationOK env) (keys : List Key) (n : Nat) :
    isStableSortedPerm (specCompare env keys 0) n (sortNodes env keys (List.range n)) = true := by
  have hcmp : specCompare env keys 0 = compare env keys := by
    funext a b; exact (compare_eq_specCompare env keys a b).symm
  rw [hcmp, sortNodes_eq_mergeSort]
  simp only [isStableSortedPerm, Bool.and_eq_true, beq_iff_eq]
  exact ⟨isortP_lt_of_perm_range _ n (List.mergeSort_perm _ _),
    adjacentAll_of_pairwise _ _ (mergeSort_range_pairwise (compare_threeWay env hc keys) n)⟩

example : isStableSortedPerm
    (specCompare (⟨fun _ => strCompare, fun _ (n : Nat) => if n = 2 then Dbl.nan else Dbl.posZero, fun _ n => [5 - n]⟩ : Env Nat)
      [⟨true, true⟩, ⟨false, false⟩] 0) 3 [1, 0, 2] = true := by decide

/-! ## per-key language and case-order: the collator cache -/

/-- **keyLangs_own.**  (After the proposed fix.)  Key `k` is collated with the language its own xsl:sort
evaluated, or with none if that xsl:sort has no `lang`. -/
theorem keyLangs_own (langs : List (Option String)) (k : Nat) (hk : k < langs.length) :
    (keyLangs langs)[k]? = some ((langs[k]'hk).getD "") := by
  simp [keyLangs, hk]

/-- **sharedLang_counterexample.**  The code as it was (every NodeSortKey pointing at sortChildren's one scratch
string): the first key's `lang="sv"` is replaced by the second key's `lang="en"`, and a key without `lang`
inherits an earlier key's.  Replayed on the real library by corpus cases 09/10 (`z`, `ö`). -/
theorem sharedLang_counterexample :
    keyLangsShared [some "sv", some "en"] ≠ keyLangs [some "sv", some "en"] ∧
    keyLangsShared [some "sv", none] ≠ keyLangs [some "sv", none] := by decide

/-- **collator_sees_own_key.**  Whatever the state of the functor's collator cache (which collators were
created, and with which UCOL_CASE_FIRST earlier comparisons left them), a comparison made for a key with
`lang` / `case-order` is made with exactly that key's settings: locale = its language (the default locale
when it has none) and UCOL_CASE_FIRST = its case-order (default when it has none); the default collator
stays untouched. -/
theorem collator_sees_own_key (f : CollFunctor) (h : FunctorOK f) (lang : String) (co : CaseOrder) :
    (collate f lang co).2 = ownSettings f lang co ∧ FunctorOK (collate f lang co).1 ∧
    (collate f lang co).1.defaultLocaleName = f.defaultLocaleName :=
  collate_own f h lang co

/-- **collator_history_sees_own_keys.**  … for every sequence of comparisons — interleaved keys of one sort
(same language, different case-order), successive sorts of one transformation, successive transformations of
one transformer: collation is a function of the key's own (lang, case-order) only, which is what `Env.scmp k`
assumes. -/
theorem collator_history_sees_own_keys (f : CollFunctor) (h : FunctorOK f) (reqs : List (String × CaseOrder)) :
    collateAll f reqs = reqs.map (fun r => ownSettings f r.1 r.2) :=
  collateAll_own reqs f h

/-- **collator_fallback.**  Including the failure path: a language name ICU refuses (≥ ULOC_FULLNAME_CAPACITY
characters) is compared in code-unit order, every time, without touching the cache; every other language is
compared by an ICU collator with exactly the key's own settings. -/
theorem collator_fallback (f : CollFunctor) (h : FunctorOK f) (lang : String) (co : CaseOrder) :
    (collateF f lang co).2 =
      (if lang.length ≥ ulocFullnameCapacity then Comparer.codeUnits else Comparer.icu (ownSettings f lang co)) ∧
    FunctorOK (collateF f lang co).1 ∧
    (lang.length ≥ ulocFullnameCapacity → (collateF f lang co).1 = f) := by
  unfold collateF
  split
  · exact ⟨rfl, h, fun _ => rfl⟩
  · rename_i hl
    obtain ⟨h1, h2, _⟩ := collate_own f h lang co
    exact ⟨by simp [h1], h2, fun hh => absurd hh hl⟩

/-- the cache holds at most `eCacheMax` collators -/
theorem collator_cache_bounded (f : CollFunctor) (h : f.cache.length ≤ eCacheMax) (lang : String) (co : CaseOrder) :
    (collate f lang co).1.cache.length ≤ eCacheMax :=
  collate_cache_bound f h lang co

/-- non-vacuity: upper-first then default on the same cached Swedish collator, default locale in between -/
example :
    collateAll ⟨"en-US", ⟨"en-US", .default_⟩, true, []⟩
      [("sv", .upperFirst), ("sv", .dflt), ("", .dflt), ("", .lowerFirst), ("en-US", .dflt), ("sv", .lowerFirst), ("sv", .dflt)]
    = [⟨"sv", .upperFirst⟩, ⟨"sv", .default_⟩, ⟨"en-US", .default_⟩, ⟨"en-US", .lowerFirst⟩, ⟨"en-US", .default_⟩,
       ⟨"sv", .lowerFirst⟩, ⟨"sv", .default_⟩] := by decide

/-! ## decoding of the xsl:sort attributes -/

/-- **decodeSort_spec.**  When `sortChildren` accepts the evaluated attribute values of an xsl:sort, the key
is numeric exactly when `data-type` evaluated to `number` and descending exactly when `order` evaluated to
`descending` (absent attributes, empty values, `text`, `ascending` and namespaced data-types give text / ascending). -/
theorem decodeSort_spec (r : RawSort) (k : Key) (h : decodeSort r = some k) :
    (k.number = true ↔ r.dataType = some "number") ∧ (k.descending = true ↔ r.order = some "descending") :=
  decodeSort_some r k h

example : decodeSort ⟨some "number", false, none, some "upper-first"⟩ = some ⟨true, false⟩ ∧
    decodeSort ⟨some "p:foo", true, some "descending", none⟩ = some ⟨false, true⟩ ∧
    decodeSort ⟨some "", false, some "", none⟩ = some ⟨false, false⟩ ∧
    decodeSort ⟨none, false, some "Descending", none⟩ = none := by decide

/-! ## the sorter between sorts -/

/-- **later_key_reached_only_on_tie.**  A comparison consults a key only when the two nodes tie on all keys
before it: if the keys `pre` already decide, whatever follows them is irrelevant (and, in `compareFromM`, not even
evaluated).  This is why a run-time error in a later key expression aborts a sort exactly when two of its nodes
tie on the earlier keys (`existsTie`, used by the driver for the abort-then-sort pairs). -/
theorem later_key_reached_only_on_tie (env : Env α) (pre rest : List Key) (a b : α)
    (h : compare env pre a b ≠ 0) : compare env (pre ++ rest) a b = compare env pre a b :=
  compareFrom_prefix env pre rest 0 a b h


/-- **sorter_clean_at_exit.**  Whatever the sorter held on entry and however the sort ends — normally, or by an
exception thrown while the caches hold any state at all — the caches, the key vector and the scratch vector are
empty when `sortChildren` is left (the four `CollectionClearGuard`s). -/
theorem sorter_clean_at_exit (env : Env α) (keys : List Key) (nodes : List α) (abort : Abort) (s : Sorter α) :
    (sortOnce env keys nodes abort s).1.Clean := by
  unfold sortOnce
  cases abort with
  | some c => exact ⟨rfl, rfl, rfl⟩
  | none =>
    simp only
    split <;> exact ⟨rfl, rfl, rfl⟩

/-- **sortOnce_correct.**  On a clean sorter a sort that does not abort returns the stable sorted permutation. -/
theorem sortOnce_correct (env : Env α) (hc : CollationOK env) (keys : List Key) (nodes : List α) (s : Sorter α)
    (hs : s.Clean) : (sortOnce env keys nodes none s).2 = some (sortNodes env keys nodes) := by
  obtain ⟨h1, h2, h3⟩ := hs
  have := sortNodesM_eq_sortNodes env hc keys nodes
  unfold sortNodesM at this
  unfold sortOnce
  simp only [h1, h2, h3, List.nil_append]
  cases hk : keys.isEmpty
  · simp only [hk] at this
    simp only [beq_self_eq_true, if_true]
    exact congrArg some this
  · simp only [hk] at this
    simp only [Bool.true_eq_false, if_false, beq_iff_eq]
    have hn : keys = [] := List.isEmpty_iff.mp hk
    subst hn
    simp [sortNodes]

/-- **sorter_history_correct.**  Over the whole life of a transformer's sorter — any sequence of sorts, any of
which may abort at any point — every sort that completes returns the stable sorted permutation of ITS nodes under
ITS keys: no sort depends on an earlier one.  (This discharges the "caches are empty at the start of a sort"
premise of `cache_transparent_history` / `sortNodesM_eq_sortNodes`.) -/
theorem sorter_history_correct (reqs : List (SortReq α)) (hc : ∀ q ∈ reqs, CollationOK q.env)
    (s : Sorter α) (hs : s.Clean) :
    sortMany s reqs = reqs.map (fun q => match q.abort with
      | some _ => none
      | none => some (sortNodes q.env q.keys q.nodes)) := by
  induction reqs generalizing s with
  | nil => rfl
  | cons q rest ih =>
    simp only [sortMany, List.map_cons]
    rw [ih (fun q' hq' => hc q' (by simp [hq'])) _ (sorter_clean_at_exit q.env q.keys q.nodes q.abort s)]
    congr 1
    cases ha : q.abort with
    | some c => simp [sortOnce]
    | none => exact sortOnce_correct q.env (hc q (by simp)) q.keys q.nodes s hs

/-- **nested_sorts_correct.**  A sort started while an outer sorted instruction is still iterating (an inner
xsl:for-each / xsl:apply-templates with xsl:sort in the body: same execution context, same `NodeSorter`): the outer
sort had copied its result into the instruction's own node list and left the sorter clean before the first
iteration began (`sorter_clean_at_exit`), so the outer order is `sortNodes` of the outer request and every inner
sort — one per iteration, or several — returns `sortNodes` of its own request, whatever the others were.  (The
model's `sortOnce` returns the list by value, as `sortChildren` returns `&sortedNodeList`, a list owned by the
instruction's stack frame, not by the sorter.) -/
theorem nested_sorts_correct (outer : SortReq α) (inners : List (SortReq α))
    (ho : outer.abort = none) (hi : ∀ q ∈ inners, q.abort = none)
    (hc : ∀ q ∈ outer :: inners, CollationOK q.env) :
    sortMany ({} : Sorter α) (outer :: inners) =
      some (sortNodes outer.env outer.keys outer.nodes) ::
        inners.map (fun q => some (sortNodes q.env q.keys q.nodes)) := by
  rw [sorter_history_correct (outer :: inners) hc {} ⟨rfl, rfl, rfl⟩]
  simp only [List.map_cons, ho]
  congr 1
  apply List.map_congr_left
  intro q hq
  simp [hi q hq]

/-- **reentrant_sorts_correct.**  (After the proposed fix.)  While an outer sort is active on the shared sorter, any
interleaving of its comparator calls with complete inner sorts — triggered by key evaluations, e.g. the first
reference to a top-level variable whose body sorts — leaves every outer comparison equal to the cache-free
comparison of the OUTER keys and makes every inner sort return the stable sorted permutation of ITS nodes under
ITS keys. -/
theorem reentrant_sorts_correct (env : Env α) (nodes : List α) (keys : List Key) (hk : keys ≠ [])
    (events : List (SortEvent α))
    (hev : ∀ e ∈ events, match e with
      | .compare l r => WF nodes l ∧ WF nodes r
      | .inner q => CollationOK q.env)
    (s : Sorter α) (hs : s.keys = keys) (hinv : CacheInv env nodes keys.length s.caches) :
    runEvents innerSortFixed env nodes.length s events = events.map (fun e => match e with
      | .compare l r => EventResult.cmp (compare env keys l.1 r.1)
      | .inner q => EventResult.sorted (match q.abort with
          | some _ => none
          | none => some (sortNodes q.env q.keys q.nodes))) := by
  induction events generalizing s with
  | nil => rfl
  | cons e rest ih =>
    have hrest : ∀ e' ∈ rest, match e' with
        | .compare l r => WF nodes l ∧ WF nodes r
        | .inner q => CollationOK q.env := fun e' he' => hev e' (by simp [he'])
    obtain ⟨sc, sk, ss⟩ := s
    simp only at hs hinv
    subst hs
    cases e with
    | compare l r =>
      have hw := hev (.compare l r) (by simp)
      simp only at hw
      have hc := compareM_ok env nodes sk dummyValue_not_nan sc l r hinv hw.1 hw.2
      unfold compareM at hc
      simp only [runEvents, List.map_cons]
      rw [hc.1, ih hrest ⟨(compareFromM env sk.length nodes.length sk 0 sc l r).1, sk, ss⟩ rfl hc.2]
    | inner q =>
      have hq := hev (.inner q) (by simp)
      simp only at hq
      have hne : (sk.isEmpty == false) = true := by
        cases sk with
        | nil => exact absurd rfl hk
        | cons _ _ => rfl
      simp only [runEvents, List.map_cons, innerSortFixed, hne, if_true]
      rw [ih hrest ⟨sc, sk, ss⟩ rfl hinv]
      congr 2
      cases ha : q.abort with
      | some c => simp [sortOnce]
      | none => exact sortOnce_correct q.env hq q.keys q.nodes {} ⟨rfl, rfl, rfl⟩

/-- **sharedSorter_reentrancy_counterexample.**  The code as it was: an inner sort started while the shared sorter
holds the outer sort's key — inner nodes `[0,1,2]`, to be sorted descending — is not what the inner sort alone
gives (`[2,1,0]`), and it leaves the OUTER sort without its key. -/
theorem sharedSorter_reentrancy_counterexample :
    let envO : Env Nat := ⟨fun _ => strCompare, fun _ n => Dbl.ofBits (0x4000000000000000 + n * 0x10000000000000), fun _ _ => []⟩
    let busy : Sorter Nat := { caches := {}, keys := [⟨true, false⟩], scratch := scratch [0, 1, 2] }
    let q : SortReq Nat := ⟨envO, [⟨true, true⟩], [0, 1, 2], none⟩
    (innerSortFixed busy q).2 = some [2, 1, 0] ∧ (innerSortFixed busy q).1.keys = [⟨true, false⟩] ∧
    (innerSortShared busy q).2 ≠ some [2, 1, 0] ∧ (innerSortShared busy q).1.keys = [] := by decide

/-- **noCacheGuards_counterexample.**  With the two cache guards replaced by `clear()` calls after `stable_sort`,
a sort that aborts after three comparisons leaves its key values behind, and the next sort of the same sorter
orders its own nodes by them: `[0, 1, 2]` instead of `[2, 1, 0]`.  (Replayed on the real library by the check's
abort-then-sort pairs.) -/
theorem noCacheGuards_counterexample :
    let env1 : Env Nat := ⟨fun _ => strCompare, fun _ n => Dbl.ofBits (0x4000000000000000 + n * 0x10000000000000), fun _ _ => []⟩
    let env2 : Env Nat := ⟨fun _ => strCompare, fun _ n => Dbl.ofBits (0x4030000000000000 - n * 0x10000000000000), fun _ _ => []⟩
    let keys : List Key := [⟨true, false⟩]
    let stale := (isortM env1 keys 3 (scratch [0, 1, 2]) Caches.empty).1
    let s1 := (sortOnceNoCacheGuards env1 keys [0, 1, 2] (some stale) {}).1
    (sortOnceNoCacheGuards env2 keys [0, 1, 2] none s1).2 = some [0, 1, 2] ∧
    sortNodes env2 keys [0, 1, 2] = [2, 1, 0] ∧
    (sortOnce env2 keys [0, 1, 2] none (sortOnce env1 keys [0, 1, 2] (some stale) {}).1).2 = some [2, 1, 0] := by
  refine ⟨by decide, ?_, by decide⟩
  rw [← sortNodesM_eq_sortNodes _ (fun _ => strCompare_threeWay)]
  decide

/-! ## the context a sort key is evaluated in -/

/-- **sort_key_context.**  Whatever the outer instruction's current node and whatever lies below on the context-list
stack: during one sort, in whatever order the comparator asks for key values (`order`), every key is evaluated with
the node being sorted as BOTH the current node (`current()`) and the context node, with `position()` = that node's
1-based place in the selected, unsorted list and `last()` = the number of selected nodes (XSLT 1.0 §10). -/
theorem sort_key_context [DecidableEq α] (outer : α) (below : List (List α)) (selected order : List α) :
    keyContexts evalKeyAt outer selected order (sortStartCtx outer below selected) =
      order.map (fun x => ⟨x, x, indexOf1 selected x, selected.length⟩) :=
  keyContexts_ok outer selected order _ (fun _ _ h => by simp [sortStartCtx, posStep] at h) rfl

/-- … with `position()` spelled out: the `i`-th selected node sees `i + 1`. -/
theorem sort_key_position [DecidableEq α] (outer : α) (below : List (List α)) (selected : List α) (hnd : selected.Nodup)
    (i : Nat) (hi : i < selected.length) :
    keyContexts evalKeyAt outer selected [selected[i]] (sortStartCtx outer below selected) =
      [⟨selected[i], selected[i], i + 1, selected.length⟩] := by
  rw [sort_key_context]; simp [indexOf1_getElem selected i hi hnd]

/-- **sort_key_context_counterexample.**  Without `CurrentNodePushAndPop` in the overload the sorter calls (not the
code): every key sees the OUTER current node (here 9) as `current()`, so a key `…[@ref = current()/@id]…` has the same
value for all nodes. -/
theorem sort_key_context_counterexample :
    keyContexts evalKeyAtNoPush 9 [5, 6, 7] [6, 5, 7] (sortStartCtx 9 [] [5, 6, 7]) =
      [⟨9, 6, 2, 3⟩, ⟨9, 5, 1, 3⟩, ⟨9, 7, 3, 3⟩] ∧
    keyContexts evalKeyAt 9 [5, 6, 7] [6, 5, 7] (sortStartCtx 9 [] [5, 6, 7]) =
      [⟨6, 6, 2, 3⟩, ⟨5, 5, 1, 3⟩, ⟨7, 7, 3, 3⟩] := by decide

/-- **nodeSorter_overloads_push_current.**  Over the prologue table that C11's translator regenerates from XPath.cpp on
every run: the two `execute(context, resolver, executionContext, out)` overloads NodeSorter's `getResult` calls —
`double&` for data-type="number", `XalanDOMString&` for text — declare `CurrentNodePushAndPop(executionContext, context)`. -/
theorem nodeSorter_overloads_push_current :
    ∀ e ∈ XalanModel.Generated.C11.executePrologues,
      e.1 = "main" → (e.2.1 = XalanModel.C11.EP.num ∨ e.2.1 = XalanModel.C11.EP.str) →
        "CurrentNodePushAndPop(executionContext,context)" ∈ e.2.2.1 := by decide

/-! ## what the body sees -/

/-- **position_cache_transparent.**  For every history of `pushContextNodeList` / `popContextNodeList` /
`position()` / `last()` — inner xsl:for-each, xsl:apply-templates, location steps and predicates nested to any
depth inside a sorted body, in any order — every `position()` returns the 1-based index of the asked node in the
list on TOP of the stack at that moment (0 if absent) and every `last()` that list's length: the one-entry
position cache (cleared by push and by pop) never shows through. -/
theorem position_cache_transparent [DecidableEq α] (ops : List (PosOp α)) (stack : List (List α)) :
    posRun posStep ⟨stack, none⟩ ops = posSpec stack ops :=
  posRun_eq_spec ops ⟨stack, none⟩ (fun _ _ h => by simp at h)

/-- **body_position_after_inner.**  In particular: in the body of a sorted instruction, for the `i`-th node of the
sorted list, after ANY inner construct (whose node list may end in the current node itself, so that the cache was
last filled with the current node's position in the INNER list) and with nothing in between, `position()` is `i+1`
and `last()` is the number of sorted nodes. -/
theorem body_position_after_inner [DecidableEq α] (out inner : List α) (below : List (List α)) (i : Nat)
    (hi : i < out.length) (hnd : out.Nodup) :
    posRun posStep ⟨out :: below, none⟩ (bodyOps inner (out[i])) =
      0 :: inner.map (indexOf1 inner) ++ [0, i + 1, out.length] := by
  rw [position_cache_transparent, posSpec_body]
  simp [indexOf1_getElem out i hi hnd]

/-- **popKeepsCache_counterexample.**  If `popContextNodeList` did not clear the cache (not the code): sorted list
`[2, 0, 1]`, current node 2 (sorted position 1), an inner loop over `[0, 1, 2]` (document order, ending in the
current node, inner position 3): the next `position()` answers 3. -/
theorem popKeepsCache_counterexample :
    posRun posStepPopKeeps ⟨[[2, 0, 1]], none⟩ (bodyOps [0, 1, 2] 2) = [0, 1, 2, 3, 0, 3, 3] ∧
    posRun posStep ⟨[[2, 0, 1]], none⟩ (bodyOps [0, 1, 2] 2) = [0, 1, 2, 3, 0, 1, 3] := by decide


/-- **process_positions.**  The instruction processes the sorted list in order with `position()` =
index + 1 and `last()` = number of selected nodes; and the `> 1 node / ≥ 1 key` guard of
`createSelectedAndSortedNodeList` does not change the result. -/
theorem process_positions (env : Env α) (keys : List Key) (nodes : List α) :
    selectAndSort env keys nodes = sortNodes env keys nodes ∧
    (process (sortNodes env keys nodes)).map (·.1) = sortNodes env keys nodes ∧
    (process (sortNodes env keys nodes)).map (·.2.1) = List.range' 1 nodes.length ∧
    (∀ t ∈ process (sortNodes env keys nodes), t.2.2 = nodes.length) := by
  have hlen : (sortNodes env keys nodes).length = nodes.length := by
    rw [sortNodes_eq_mergeSort]; simp
  refine ⟨?_, ?_, ?_, ?_⟩
  · unfold selectAndSort
    split
    · rfl
    · rename_i hg
      rw [sortNodes_eq_mergeSort]
      cases keys with
      | nil => exact (sortNodes_eq_mergeSort env [] nodes)
      | cons key rest =>
        simp at hg
        match nodes, hg with
        | [], _ => simp
        | [a], _ => simp
        | _ :: _ :: _, hg => simp at hg
  · simp only [process, List.map_map]
    have : ((fun t : α × Nat × Nat => t.1) ∘ fun (p : α × Nat) => (p.1, p.2 + 1, (sortNodes env keys nodes).length))
        = Prod.fst := rfl
    rw [this, List.zipIdx_map_fst]
  · simp only [process, List.map_map]
    have : ((fun t : α × Nat × Nat => t.2.1) ∘ fun (p : α × Nat) => (p.1, p.2 + 1, (sortNodes env keys nodes).length))
        = (fun i => i + 1) ∘ Prod.snd := rfl
    rw [this, ← List.map_map, List.zipIdx_map_snd, hlen]
    simp [List.range'_eq_map_range, Nat.add_comm]
  · intro t ht
    simp only [process, List.mem_map] at ht
    obtain ⟨p, _, rfl⟩ := ht
    exact hlen

end XalanModel.Props.C16
