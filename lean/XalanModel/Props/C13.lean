import XalanModel.C13.StripProofs
import XalanModel.C13.EvalProofs
import XalanModel.C13.XsltProofs
import XalanModel.C13.NumberProofs
import XalanModel.C13.Sites
import XalanModel.Generated.C13_Sites
/-!
# C13 — whitespace stripping acts as if the stripped text nodes were not in the source

Property theorems only (helper lemmas: `XalanModel/C13/StripProofs.lean`, `EvalProofs.lean`).

Two halves.

**Which nodes are stripped.**  `Sheet.post` is the list `m_whitespaceElements` as built by
`Stylesheet::addWhitespaceElement` per declaration and merged over imports by `postConstruction`;
`shouldStrip` reads it like `StylesheetRoot::shouldStripSourceNode` (first match decides).  `specStrip` is
XSLT 1.0 §3.4 with §2.6.2: the matching declaration of highest import precedence, then highest default
priority, then the last one.  `shouldStrip_eq_spec`: they agree for every import tree of declarations,
every parent and every text node.

**Every observation behaves as if they were gone.**  `Expr.eval sp` is the evaluator that asks
`sp` (= `shouldStripSourceNode`) at the node tests `text()`/`node()` and inside string-values and otherwise
walks the full tree; `Node.strip sp` removes the stripped nodes physically.  `strip_simulation`: for every
document, every strip function, every expression of the fragment and every context that is not itself
a stripped node, evaluation on `D` asking `sp` and evaluation on `D' = strip D` asking nothing deliver
corresponding node-sets (`Loc.strip` maps the one onto the other) and equal strings, numbers, booleans.
-/
namespace XalanModel.Props.C13
open XalanModel.C13

/-- First match in the merged, ordered tester list = the winner XSLT §3.4 selects. -/
theorem firstMatch_eq_spec (s : Sheet) (parent : QName) :
    firstMatch s.post parent = decides (specWinner s parent) := by
  unfold firstMatch
  rw [find_post]

/-- **C13, selection.** For every import tree of strip/preserve declarations, every text node (parent
name or no element parent, whitespace flag): the code's decision is the Recommendation's. -/
theorem shouldStrip_eq_spec (s : Sheet) (parent : Option Tag) (isWs : Bool) :
    shouldStrip s.post parent isWs = specStrip s parent isWs := by
  unfold shouldStrip specStrip
  cases parent with
  | none => simp
  | some p =>
    simp only [firstMatch_eq_spec]
    cases isWs
    · simp
    · simp only [Bool.and_true, Bool.true_and]
      cases hE : s.post.isEmpty
      · simp
      · -- empty tester list: nothing matches, the specification has no winner either
        have hnil : s.post = [] := List.isEmpty_iff.mp hE
        have := find_post s p.name
        rw [hnil] at this
        simp only [List.find?_nil] at this
        simp [← this, decides]

/-- **§3.4 third bullet.** The ancestor walk of `isXMLSpacePreserved` (nearest element carrying `xml:space`
decides) is the Recommendation's "an ancestor has `preserve` and no closer ancestor has `default`". -/
theorem xml_space_walk_eq_spec (chain : List (Option Bool)) :
    spacePreservedWalk chain = specSpacePreserved chain := by
  induction chain with
  | nil => rfl
  | cons a rest ih =>
    cases a with
    | none =>
      simp only [spacePreservedWalk, ih, specSpacePreserved]
      simp [List.takeWhile_cons]
    | some b =>
      cases b <;> simp [spacePreservedWalk, specSpacePreserved, List.takeWhile_cons]

/-- The state handed down while a tree is built (what `Tag.preserve` holds) is the walk's answer. -/
theorem xml_space_inherited (own : Option Bool) (ancestors : List (Option Bool)) :
    spacePreservedWalk (own :: ancestors) = inheritSpace (spacePreservedWalk ancestors) own := by
  cases own <;> rfl

/-- What `bestIn` (§3.4 inside one import precedence) means: no winner iff nothing matches; otherwise the
winner matches, nothing before it has a higher priority and everything after it a strictly lower one —
i.e. highest priority, and the last of those. -/
theorem bestIn_characterisation (parent : QName) (d : List Tester) :
    match bestIn parent d with
    | none => ∀ t ∈ d, t.matches parent = false
    | some w => ∃ pre post, d = pre ++ w :: post ∧ w.matches parent = true ∧
        (∀ t ∈ pre, t.matches parent = true → t.score ≤ w.score) ∧
        (∀ t ∈ post, t.matches parent = true → t.score < w.score) := by
  have h := bestInv_foldl parent [] d none (by simp [BestInv])
  rw [← bestIn_eq_foldl] at h
  simp only [List.nil_append] at h
  cases hb : bestIn parent d with
  | none => rw [hb] at h; exact h
  | some w => rw [hb] at h; exact h

/-- non-vacuity of the `xml:space` clause: `strip-space elements="*"`, parent `b` under `xml:space="preserve"`:
kept by code and Recommendation alike; the same parent without it: stripped.  `<a xml:space="preserve"><b
xml:space="default"><c>`: the walk from `c` answers false, from `a` true. -/
example :
    shouldStrip (Sheet.mk [⟨"", "", true⟩] []).post (some ⟨⟨"", "b"⟩, true, [], []⟩) true = false
      ∧ shouldStrip (Sheet.mk [⟨"", "", true⟩] []).post (some ⟨⟨"", "b"⟩, false, [], []⟩) true = true
      ∧ spacePreservedWalk [none, some false, some true] = false
      ∧ spacePreservedWalk [none, some true, some false] = true := by
  decide

/-- non-vacuity: importing sheet preserves `*`, strips `b`; the import strips `a` and `p:*`.  For parent `a`
the importing sheet's `*` (precedence) beats the import's `a` (priority): preserved; `b` is stripped. -/
example :
    let s := Sheet.mk [⟨"", "", false⟩, ⟨"", "b", true⟩] [Sheet.mk [⟨"", "a", true⟩, ⟨"urn:u", "", true⟩] []]
    shouldStrip s.post (some ⟨⟨"", "a"⟩, false, [], []⟩) true = false ∧ shouldStrip s.post (some ⟨⟨"", "b"⟩, false, [], []⟩) true = true
      ∧ specStrip s (some ⟨⟨"", "b"⟩, false, [], []⟩) true = true := by
  decide

/-- **C13, observation.** Simulation of the strip-aware evaluator by the plain evaluator on the physically
stripped tree: node-sets correspond under `Loc.strip`, other values are equal; `none` (outside the
fragment) corresponds to `none`. -/
theorem strip_simulation (sp : StripFn) (e : Expr) (c : Ctx) (hc : c.ok sp) :
    (e.eval sp c).map (Value.strip sp) = e.eval noStrip (c.strip sp) :=
  (eval_sim sp e c hc).1

/-- No stripped text node is ever a member of a node-set the evaluator delivers. -/
theorem results_never_stripped (sp : StripFn) (e : Expr) (c : Ctx) (hc : c.ok sp)
    (l : List XNode) (h : e.eval sp c = some (.ns l)) : ∀ x ∈ l, x.stripped sp = false :=
  (eval_sim sp e c hc).2 l h

/-- string-values: the strip-aware string-value of a node is the plain string-value of the stripped node
(`DOMServices::doGetNodeData` asks for every text descendant). -/
theorem strVal_strip (sp : StripFn) (n : Node) : n.strVal sp = (n.strip sp).strVal noStrip :=
  Node.strVal_strip sp n

/-- What `xsl:value-of select="e"` prints is the same on both sides. -/
theorem strip_simulation_string (sp : StripFn) (e : Expr) (c : Ctx) (hc : c.ok sp) :
    (e.eval sp c).map (Value.toStr sp) = (e.eval noStrip (c.strip sp)).map (Value.toStr noStrip) := by
  rw [← strip_simulation sp e c hc]
  cases h : e.eval sp c with
  | none => rfl
  | some v =>
    simp only [Option.map_some]
    rw [Value.toStr_strip sp v]

/-- **C13 as stated**, on the model: a stylesheet's declarations `s` evaluated by the code's list
(`stripOf s.post`) on `D` = no declarations on the document from which the nodes *the Recommendation*
selects have been removed. -/
theorem strip_simulation_stylesheet (s : Sheet) (e : Expr) (doc : Node) :
    let specSp : StripFn := fun pn d => specStrip s pn (isWsString d)
    (e.eval (stripOf s.post) ⟨.node ⟨doc, []⟩, 1, 1, []⟩).map (Value.toStr (stripOf s.post))
      = (e.eval noStrip ⟨.node ⟨doc.strip specSp, []⟩, 1, 1, []⟩).map (Value.toStr noStrip) := by
  intro specSp
  have hsp : stripOf s.post = specSp := by
    funext pn d
    exact shouldStrip_eq_spec s pn (isWsString d)
  rw [hsp]
  exact strip_simulation_string specSp e ⟨.node ⟨doc, []⟩, 1, 1, []⟩ ⟨rfl, by simp⟩

/-- non-vacuity and sensitivity: on `<a> <b/>x</a>` with `strip-space elements="a"`, `count(/a/node())` is 2
with the strip-aware node test (3 without), and the stripped tree has 2 children. -/
example :
    let sp : StripFn := stripOf [⟨"", "a", true⟩]
    let doc : Node := .elem 0 none [.elem 1 (some ⟨⟨"", "a"⟩, false, [], []⟩) [.text 2 " ", .elem 3 (some ⟨⟨"", "b"⟩, false, [], []⟩) [], .text 4 "x"]]
    let e : Expr := .count (.step (.step .root .child .anyElem) .child .node)
    (e.eval sp ⟨.node ⟨doc, []⟩, 1, 1, []⟩).map (Value.toStr sp) = some "2"
      ∧ (e.eval noStrip ⟨.node ⟨doc, []⟩, 1, 1, []⟩).map (Value.toStr noStrip) = some "3"
      ∧ (e.eval noStrip ⟨.node ⟨doc.strip sp, []⟩, 1, 1, []⟩).map (Value.toStr noStrip) = some "2" := by
  decide

/-- An observation path that forgets to ask breaks the simulation: with a `node()` test that accepts
stripped text (as `testNode` would without its `shouldStripSourceNode` call) the count differs from the
count on the stripped tree.  This is the witness the correspondence run replays when the call is removed. -/
theorem forgetful_nodeTest_counterexample :
    let sp : StripFn := stripOf [⟨"", "a", true⟩]
    let doc : Node := .elem 0 none [.elem 1 (some ⟨⟨"", "a"⟩, false, [], []⟩) [.text 2 " ", .elem 3 (some ⟨⟨"", "b"⟩, false, [], []⟩) []]]
    let kids := (Loc.children ⟨.elem 1 (some ⟨⟨"", "a"⟩, false, [], []⟩) [.text 2 " ", .elem 3 (some ⟨⟨"", "b"⟩, false, [], []⟩) []], [⟨[], 0, none, []⟩]⟩)
    (kids.filter (Test.accepts noStrip .node)).length ≠ ((Loc.children (Loc.strip sp ⟨.elem 1 (some ⟨⟨"", "a"⟩, false, [], []⟩) [.text 2 " ", .elem 3 (some ⟨⟨"", "b"⟩, false, [], []⟩) []], [⟨[], 0, none, []⟩]⟩)).filter (Test.accepts noStrip .node)).length
      ∧ (kids.filter (Test.accepts sp .node)).length = ((Loc.children (Loc.strip sp ⟨.elem 1 (some ⟨⟨"", "a"⟩, false, [], []⟩) [.text 2 " ", .elem 3 (some ⟨⟨"", "b"⟩, false, [], []⟩) []], [⟨[], 0, none, []⟩]⟩)).filter (Test.accepts noStrip .node)).length
      ∧ doc.id = 0 := by
  decide

/-! ## the interactions the property names, one by one -/

/-- **child, descendant, following(-sibling), preceding(-sibling), parent, ancestor, self axes** (all eleven): the
nodes of the axis on `D` that are not stripped, carried over, are exactly the axis on `D'`. -/
theorem axes_simulation (sp : StripFn) (ax : Axis) (l : Loc) (h : l.stripped sp = false) :
    ((ax.locs l).filter (fun x => !x.stripped sp)).map (Loc.strip sp) = ax.locs (l.strip sp) :=
  axis_strip sp ax l h

/-- **all axes from every kind of context node, attribute and namespace nodes included** (`attribute::` and
`namespace::` from an element; parent, ancestor(-or-self), following, preceding, self from an attribute or
namespace node): the unstripped members on `D`, carried over, are the axis on `D'`.  Attribute and namespace nodes
are members of node-sets (`XNode.attr`; a namespace node is the declaring `xmlns` attribute node, as in the
library, nearer declarations shadowing outer ones), ordered by their document-order index between their element
and its children, so unions mixing them with elements and text are covered by `strip_simulation`
(`Expr.union`, `docOrder`). -/
theorem axes_with_attributes_simulation (sp : StripFn) (ax : Axis) (x : XNode) (h : x.stripped sp = false) :
    ((ax.xlocs x).filter (fun y => !y.stripped sp)).map (XNode.strip sp) = ax.xlocs (x.strip sp) :=
  xaxis_strip sp ax x h

/-- non-vacuity: `<a n="1"> <b m="2"/>x</a>`, strip `a`: `count(/a/node() | /a/@* | /a/b/@*)` is 4 with the
declaration and on the stripped tree (5 without stripping); `string(/a/b/@m/..)`… the parent of an attribute. -/
example :
    let sp : StripFn := stripOf [⟨"", "a", true⟩]
    let doc : Node := .elem 0 none [.elem 1 (some ⟨⟨"", "a"⟩, false, [(2, ⟨"", "n"⟩, "1")], []⟩)
      [.text 3 " ", .elem 4 (some ⟨⟨"", "b"⟩, false, [(5, ⟨"", "m"⟩, "2")], []⟩) [], .text 6 "x"]]
    let a : Expr := .step .root .child .anyElem
    let e : Expr := .count (.union (.step a .child .node) (.union (.step a .attrAxis .anyElem)
      (.step (.step a .child .anyElem) .attrAxis .anyElem)))
    let par : Expr := .localName (.step (.step (.step a .child .anyElem) .attrAxis .anyElem) .parent .node)
    (e.eval sp ⟨.node ⟨doc, []⟩, 1, 1, []⟩).map (Value.toStr sp) = some "4"
      ∧ (e.eval noStrip ⟨.node ⟨doc.strip sp, []⟩, 1, 1, []⟩).map (Value.toStr noStrip) = some "4"
      ∧ (e.eval noStrip ⟨.node ⟨doc, []⟩, 1, 1, []⟩).map (Value.toStr noStrip) = some "5"
      ∧ (par.eval sp ⟨.node ⟨doc, []⟩, 1, 1, []⟩).map (Value.toStr sp) = some "b" := by
  decide

/-- non-vacuity for namespace nodes: `<a xmlns:p="u"> <b xmlns:p="v"/></a>` (plus the implicit `xml` on `a`), strip `a`:
`b` has two namespace nodes in scope (`xml` from `a`, the nearer `p`), the parent of the last one is `b`, of the
first one `a`; `count(/a/b/namespace::*[1]/following::node())` is 1 on both sides (2 without stripping). -/
example :
    let sp : StripFn := stripOf [⟨"", "a", true⟩]
    let doc : Node := .elem 0 none [.elem 1 (some ⟨⟨"", "a"⟩, false, [], [(2, "xml", "x"), (3, "p", "u")]⟩)
      [.text 4 " ", .elem 5 (some ⟨⟨"", "b"⟩, false, [], [(6, "p", "v")]⟩) []]]
    let b : Expr := .step (.step .root .child .anyElem) .child .anyElem
    let nsb : Expr := .step b .nsAxis .anyElem
    let fol : Expr := .count (.step (.stepP b .nsAxis .anyElem (.num 1)) .following .node)
    ((Expr.count nsb).eval sp ⟨.node ⟨doc, []⟩, 1, 1, []⟩).map (Value.toStr sp) = some "2"
      ∧ ((Expr.localName (.step (.filter nsb .last) .parent .node)).eval sp ⟨.node ⟨doc, []⟩, 1, 1, []⟩).map
          (Value.toStr sp) = some "b"
      ∧ ((Expr.localName (.step (.filter nsb (.num 1)) .parent .node)).eval sp ⟨.node ⟨doc, []⟩, 1, 1, []⟩).map
          (Value.toStr sp) = some "a"
      ∧ (fol.eval sp ⟨.node ⟨doc, []⟩, 1, 1, []⟩).map (Value.toStr sp) = some "1"
      ∧ (fol.eval noStrip ⟨.node ⟨doc.strip sp, []⟩, 1, 1, []⟩).map (Value.toStr noStrip) = some "1"
      ∧ (fol.eval noStrip ⟨.node ⟨doc, []⟩, 1, 1, []⟩).map (Value.toStr noStrip) = some "2" := by
  decide

/-- **node tests**: the strip-aware test on `D` = "not stripped" and the plain test on `D'` (this is where
`text()` and `node()` ask; name tests, `*`, `comment()`, `processing-instruction()` never accept text). -/
theorem node_test_simulation (sp : StripFn) (t : Test) (l : Loc) :
    t.accepts sp l = (!l.stripped sp && t.accepts noStrip (l.strip sp)) :=
  accepts_strip sp t l

/-- **position() and last()**: a predicate is evaluated for corresponding candidates at the same proximity
position and with the same context size (so `[1]`, `[last()]`, `[position() < last()]` select corresponding
nodes). -/
theorem position_last_simulation (sp : StripFn) (p : Expr) (vars : List Value) (hv : ∀ v ∈ vars, Value.ok sp v)
    (cands : List XNode) (hc : ∀ y ∈ cands, y.stripped sp = false) :
    (filterPred (predFn vars (p.eval sp)) cands).map (List.map (XNode.strip sp))
      = filterPred (predFn (vars.map (Value.strip sp)) (p.eval noStrip)) (cands.map (XNode.strip sp)) :=
  filterPred_map sp _ _ cands (fun y hy j n =>
    predFn_sim sp p vars hv (fun c h => (eval_sim sp p c h).1) y (hc y hy) j n)

/-- **variables holding node-sets** (`<xsl:variable name="x" select="bind"/>` … `$x`): the binding is carried like
every value (`Expr.letIn` / `Expr.var` are part of `strip_simulation`; the context invariant `Ctx.ok` says the
variables in scope hold no stripped node, which every evaluation result satisfies).  The instance spelled out:
evaluating `body` with `$0 := bind` corresponds. -/
theorem variable_binding_simulation (sp : StripFn) (bind body : Expr) (c : Ctx) (hc : c.ok sp) :
    ((Expr.letIn bind body).eval sp c).map (Value.strip sp) = (Expr.letIn bind body).eval noStrip (c.strip sp) :=
  strip_simulation sp _ c hc

/-- **variables holding result tree fragments** built by copying (`<xsl:variable name="r"><xsl:copy-of
select="e"/></xsl:variable>`): the fragment's events — hence `xsl:copy-of select="$r"`, `string($r)`,
`string-length($r)` — are the same on both sides. -/
theorem rtf_variable_simulation (sp : StripFn) (e : Expr) (c : Ctx) (hc : c.ok sp) :
    copyOf sp (e.eval sp c) = copyOf noStrip (e.eval noStrip (c.strip sp)) := by
  rw [← strip_simulation sp e c hc]
  exact copyOf_strip sp _

/-- **count()** -/
theorem count_simulation (sp : StripFn) (e : Expr) (c : Ctx) (hc : c.ok sp) :
    (Expr.count e).eval sp c = (Expr.count e).eval noStrip (c.strip sp) := by
  have h := strip_simulation sp (.count e) c hc
  cases hv : (Expr.count e).eval sp c with
  | none => rw [hv] at h; simpa using h
  | some v =>
    rw [hv] at h
    simp only [Expr.eval] at hv
    cases hb : e.eval sp c with
    | none => simp [hb, countV] at hv
    | some w =>
      cases w <;> simp [hb, countV] at hv
      subst hv
      simpa using h

/-- **xsl:value-of select="/"** (and of `.` at the root): the string-value of the document. -/
theorem value_of_root_simulation (sp : StripFn) (doc : Node) :
    ((Expr.string .root).eval sp ⟨.node ⟨doc, []⟩, 1, 1, []⟩).map (Value.toStr sp)
      = ((Expr.string .root).eval noStrip ⟨.node ⟨doc.strip sp, []⟩, 1, 1, []⟩).map (Value.toStr noStrip) :=
  strip_simulation_string sp _ ⟨.node ⟨doc, []⟩, 1, 1, []⟩ ⟨rfl, by simp⟩

/-- **generate-id() stability**: a node keeps its identity (document-order index) in `D'`, so two nodes have the
same generated id on one side iff on the other; `generate-id(a) = generate-id(b)` comparisons are unaffected. -/
theorem generate_id_stable (sp : StripFn) (x y : Loc) :
    ((x.strip sp).id = (y.strip sp).id) ↔ (x.id = y.id) := by
  rw [Loc.strip_id, Loc.strip_id]

/-- **match patterns with positional predicates and multi-step patterns** (`a/node()[2]`, `text()[last()]`,
`*[not(text())]`, and count/from/key patterns of that shape), read as the expression they abbreviate: `x` is
selected on `D` iff it is on `D'`.  (That the library's matcher agrees with the expression reading is C09.) -/
theorem pattern_simulation (sp : StripFn) (sel : Expr) (root : Loc) (x : XNode) (hr : root.stripped sp = false) :
    patternSelects sp sel root x = patternSelects noStrip sel (root.strip sp) (x.strip sp) :=
  patternSelects_strip sp sel root x hr

/-! ## XSLT-level observation paths -/

/-- `xsl:apply-templates` without `select` (and the built-in rules) process `child::node()`: the list of
nodes processed — hence `position()`/`last()` inside the templates — corresponds. -/
theorem apply_templates_default_children (sp : StripFn) (c : Ctx) (hc : c.ok sp) :
    ((Expr.step .self .child .node).eval sp c).map (Value.strip sp)
      = (Expr.step .self .child .node).eval noStrip (c.strip sp) :=
  strip_simulation sp _ c hc

/-- `xsl:for-each select="e"` / `xsl:apply-templates select="e"`: the contexts (node, position, size) in which the
body / the templates are instantiated correspond one to one. -/
theorem select_contexts_simulation (sp : StripFn) (e : Expr) (c : Ctx) (hc : c.ok sp) :
    (contextsOf c.vars (e.eval sp c)).map (List.map (Ctx.strip sp))
      = contextsOf (c.strip sp).vars (e.eval noStrip (c.strip sp)) := by
  rw [← strip_simulation sp e c hc]
  exact contextsOf_strip sp c.vars _

/-- `xsl:sort select="key"`: the list of sort keys of the selected nodes is *equal* on both sides (so any stable
sort by them yields corresponding orders). -/
theorem sort_keys_simulation (sp : StripFn) (sel key : Expr) (c : Ctx) (hc : c.ok sp) :
    sortKeys sp sel key c = sortKeys noStrip sel key (c.strip sp) :=
  sortKeys_strip sp sel key c hc

/-- `xsl:copy-of select="e"`: the events sent to the result tree (`cloneToResultTree` asks for every text
node it meets) are those of copying from the stripped document. -/
theorem copy_of_simulation (sp : StripFn) (e : Expr) (c : Ctx) (hc : c.ok sp) :
    copyOf sp (e.eval sp c) = copyOf noStrip (e.eval noStrip (c.strip sp)) := by
  rw [← strip_simulation sp e c hc]
  exact copyOf_strip sp _

/-- `key()`: the table built by walking every node of `D` (match pattern and `use` evaluated strip-aware)
answers every lookup like the table built on `D'`. -/
theorem key_simulation (sp : StripFn) (k : KeyDecl) (root : Loc) (s : String) (h : root.stripped sp = false) :
    (keyLookup sp k root s).map (List.map (XNode.strip sp)) = keyLookup noStrip k (root.strip sp) s :=
  keyLookup_strip sp k root s h

/-- `key(name, arg)` with a node-set (or any other) argument: one lookup per member with the member's strip-aware
string value; the united result corresponds. -/
theorem key_argument_simulation (sp : StripFn) (k : KeyDecl) (root : Loc) (e : Expr) (c : Ctx)
    (h : root.stripped sp = false) (hc : c.ok sp) :
    (keyLookupArg sp k root (e.eval sp c)).map (List.map (XNode.strip sp))
      = keyLookupArg noStrip k (root.strip sp) (e.eval noStrip (c.strip sp)) := by
  rw [← strip_simulation sp e c hc]
  exact keyLookupArg_strip sp k root _ h

/-- non-vacuity for copy-of and keys: `<a> <b> </b>x</a>`, strip `a`; copying `/a` yields no whitespace
event for the first text but keeps the one inside `b`; `key(match=text(), use=local-name(..))` finds one text
under `a`. -/
example :
    let sp : StripFn := stripOf [⟨"", "a", true⟩]
    let doc : Node := .elem 0 none [.elem 1 (some ⟨⟨"", "a"⟩, false, [], []⟩)
      [.text 2 " ", .elem 3 (some ⟨⟨"", "b"⟩, false, [], []⟩) [.text 4 " "], .text 5 "x"]]
    copyOf sp ((Expr.step .root .child .anyElem).eval sp ⟨.node ⟨doc, []⟩, 1, 1, []⟩)
        = some [.startElement (some ⟨⟨"", "a"⟩, false, [], []⟩), .startElement (some ⟨⟨"", "b"⟩, false, [], []⟩), .characters " ", .endElement,
                .characters "x", .endElement]
      ∧ (keyLookup sp ⟨testPat .text, .localName (.step .self .parent .node)⟩ ⟨doc, []⟩ "a").map List.length = some 1
      ∧ (keyLookup noStrip ⟨testPat .text, .localName (.step .self .parent .node)⟩ ⟨doc, []⟩ "a").map List.length = some 2 := by
  decide +kernel

/-- `xsl:number level="single"` and `level="multiple"` (with or without `from`; an ancestor matching `from` ends
the search for both levels, the context node is not tested): the ancestors collected by
`getMatchingAncestors` correspond and each one's number — itself plus the preceding siblings `getPreviousNode`
finds matching `count` — is the same on `D` asking `sp` and on `D'`. -/
theorem number_single_multiple_simulation (sp : StripFn) (countT : Pat) (fromT : Option Pat) (single : Bool)
    (l : Loc) (h : l.stripped sp = false) :
    numberList sp countT fromT single l = numberList noStrip countT fromT single (l.strip sp) :=
  numberList_strip sp countT fromT single l h

/-- `xsl:number level="any"`, with or without `from`: the C++ backwards walk (`findPrecedingOrAncestorOrSelf`,
then `getPreviousNode` iterated by `countNode`; previous sibling → dive to its last descendant, else parent; every
node walked over is tested against `from`, the context node excepted) computes the Recommendation's count — the
nodes matching `count` among the current node and the nodes before it in document order, after the first one
before it that matches `from` — for every tree, provided the fuel covers the nodes before `l`. -/
theorem number_any_loop_eq_count (sp : StripFn) (countT : Pat) (fromT : Option Pat) (fuel : Nat) (l : Loc)
    (h : l.before.length + 1 < fuel) :
    numberAny sp countT fromT fuel l = numberAnySpec sp countT fromT l :=
  numberAny_eq_spec sp countT fromT fuel l h

/-- … and that count is the same on `D` asking `sp` and on `D'` (a stripped node matches neither pattern, so it
neither counts nor ends the search). -/
theorem number_any_count_simulation (sp : StripFn) (countT : Pat) (fromT : Option Pat) (l : Loc)
    (h : l.stripped sp = false) :
    numberAnySpec sp countT fromT l = numberAnySpec noStrip countT fromT (l.strip sp) :=
  numberAnySpec_strip sp countT fromT l h

/-- **`xsl:number level="any"` has the property, with `from` too** (since /repo f84b15b; before that fix the
walk tested `from` only while climbing and a stripped text node could decide which elements got tested — the
former `number_any_from_counterexample`): the walk over the physical tree `D`, which does step on stripped text
nodes, yields the number the walk over `D'` yields. -/
theorem number_any_simulation (sp : StripFn) (countT : Pat) (fromT : Option Pat) (fuel fuel' : Nat) (l : Loc)
    (h : l.stripped sp = false) (hf : l.before.length + 1 < fuel) (hf' : (l.strip sp).before.length + 1 < fuel') :
    numberAny sp countT fromT fuel l = numberAny noStrip countT fromT fuel' (l.strip sp) := by
  rw [numberAny_eq_spec sp countT fromT fuel l hf, numberAny_eq_spec noStrip countT fromT fuel' _ hf']
  exact numberAnySpec_strip sp countT fromT l h

/-- **count / from / key patterns with predicates or several steps**: any expression of the fragment read as a
pattern (`exprPat sel`: `x` matches iff it is selected by `sel` from the document node of its tree) is a `Pat`, so
`key_simulation`, `number_any_simulation`, `number_any_loop_eq_count` and `number_single_multiple_simulation` hold
for it; this is the law that makes it one (a stripped node never matches; otherwise matching on `D` asking `sp` =
matching on `D'`). -/
theorem multi_step_pattern_law (sel : Expr) (sp : StripFn) (x : Loc) :
    (exprPat sel).m sp x = (!x.stripped sp && (exprPat sel).m noStrip (x.strip sp)) :=
  (exprPat sel).strip sp x

/-- non-vacuity, on the witness that used to separate `D` and `D'`: `<r><x>x</x><b><a> </a></b>y</r>`,
`strip-space elements="a"`, `<xsl:number level="any" count="text()" from="a"/>` at the text `y` is 1 on both
sides now (the element `a` ends the search whether or not the stripped text is inside it); without `from`, 2. -/
example :
    let sp : StripFn := stripOf [⟨"", "a", true⟩]
    let xN : Node := .elem 2 (some ⟨⟨"", "x"⟩, false, [], []⟩) [.text 3 "x"]
    let bN : Node := .elem 4 (some ⟨⟨"", "b"⟩, false, [], []⟩) [.elem 5 (some ⟨⟨"", "a"⟩, false, [], []⟩) [.text 6 " "]]
    let y : Loc := ⟨.text 7 "y", [⟨[bN, xN], 1, some ⟨⟨"", "r"⟩, false, [], []⟩, []⟩, ⟨[], 0, none, []⟩]⟩
    y.stripped sp = false
      ∧ numberAny sp (testPat .text) (some (testPat (.name ⟨"", "a"⟩))) 20 y = 1
      ∧ numberAny noStrip (testPat .text) (some (testPat (.name ⟨"", "a"⟩))) 20 (y.strip sp) = 1
      ∧ numberAny sp (testPat .text) none 20 y = 2
      ∧ numberAny noStrip (testPat .text) none 20 (y.strip sp) = 2 := by
  decide

/-! ## tie to the source text (regenerated by `translate/c13_sites.py` on every run) -/

/-- Every call of `shouldStripSourceNode` in /repo's working tree is one of the observation paths the model
accounts for, and each of those is still there with the same condition. -/
theorem observation_sites_accounted : XalanModel.Generated.C13_Sites.sites = expectedSites := rfl

/-- The statements that fix the order of `m_whitespaceElements`, the first-match decision and the `xml:space`
walk read as the model transcribes them. -/
theorem ordering_code_as_modelled : XalanModel.Generated.C13_Sites.facts = expectedFacts := rfl

/-- Every place outside `DOMServices` that computes a node's string value (`key()` with a node-set argument, `id()`,
`string()`, `normalize-space()`, `string-length()`, `sum()`, `xsl:value-of`, sort keys, the `use` values of key tables,
node-set → string conversions) is the reviewed list: each hands the execution context to `DOMServices::getNodeData`
(the strip-aware overload) — except the ten context-free sites named in `Sites.lean`. -/
theorem string_value_sites_strip_aware :
    XalanModel.Generated.C13_Sites.valueSitesOutside = expectedValueSitesOutside := rfl

/-- Inside `DOMServices`, in every function that receives the execution context, each recursive call
(`getNodeData / getChildData / getChildrenData / doGetNodeData`) hands it on; the calls that do not are the attribute /
comment / PI leaves and the fast-path wrappers guarded by `!context.hasPreserveOrStripSpaceConditions()`. -/
theorem string_value_funnel_passes_context :
    XalanModel.Generated.C13_Sites.valueSitesFunnel = expectedValueSitesFunnel := rfl

/-- Every statement of `StylesheetExecutionContextDefault` that touches its inner, never-stripping
`XPathExecutionContextDefault` is the reviewed list: services are delegated, node-observing code (`extFunction`) is
handed `*this`; and the inner context's `shouldStripSourceNode` is the constant `false` that makes this matter. -/
theorem context_forwarding_as_reviewed :
    XalanModel.Generated.C13_Sites.contextForwarding = expectedContextForwarding := rfl

end XalanModel.Props.C13
