import XalanModel.C13.StripProofs
import XalanModel.C13.EvalProofs
import XalanModel.C13.XsltProofs
import XalanModel.C13.NumberProofs
import XalanModel.C13.Sites
import XalanModel.Generated.C13_Sites
/-!
# C13 — whitespace stripping acts as if the stripped text nodes were not in the source

Property theorems only (helper lemmas: `XalanModel/C13/StripProofs.lean`, `EvalProofs.lean`).

Two halves.

**Which nodes are stripped.**  `Sheet.post` is the list `m_whitespaceElements` as built by
`Stylesheet::addWhitespaceElement` per declaration and merged over imports by `postConstruction`;
`shouldStrip` reads it like `StylesheetRoot::shouldStripSourceNode` (first match decides).  `specStrip` is
XSLT 1.0 §3.4 with §2.6.2: the matching declaration of highest import precedence, then highest default
priority, then the last one.  `shouldStrip_eq_spec`: they agree for every import tree of declarations,
every parent and every text node.

**Every observation behaves as if they were gone.**  `Expr.eval sp` is the evaluator that asks
`sp` (= `shouldStripSourceNode`) at the node tests `text()`/`node()` and inside string-values and otherwise
walks the full tree; `Node.strip sp` removes the stripped nodes physically.  `strip_simulation`: for every
document, every strip function, every expression of the fragment and every context that is not itself
a stripped node, evaluation on `D` asking `sp` and evaluation on `D' = strip D` asking nothing deliver
corresponding node-sets (`Loc.strip` maps the one onto the other) and equal strings, numbers, booleans.
-/
namespace XalanModel.Props.C13
open XalanModel.C13

/-- First match in the merged, ordered tester list = the winner XSLT §3.4 selects. -/
theorem firstMatch_eq_spec (s : Sheet) (parent : QName) :
    firstMatch s.post parent = decides (specWinner s parent) := by
  unfold firstMatch
  rw [find_post]

/-- **C13, selection.** For every import tree of strip/preserve declarations, every text node (parent
name or no element parent, whitespace flag): the code's decision is the Recommendation's. -/
theorem shouldStrip_eq_spec (s : Sheet) (parent : Option Tag) (isWs : Bool) :
    shouldStrip s.post parent isWs = specStrip s parent isWs := by
  unfold shouldStrip specStrip
  cases parent with
  | none => simp
  | some p =>
    simp only [firstMatch_eq_spec]
    cases isWs
    · simp
    · simp only [Bool.and_true, Bool.true_and]
      cases hE : s.post.isEmpty
      · simp
      · -- empty tester list: nothing matches, the specification has no winner either
        have hnil : s.post = [] := List.isEmpty_iff.mp hE
        have := find_post s p.name
        rw [hnil] at this
        simp only [List.find?_nil] at this
        simp [← this, decides]

/-- **§3.4 third bullet.** The ancestor walk of `isXMLSpacePreserved` (nearest element carrying `xml:space`
decides) is the Recommendation's "an ancestor has `preserve` and no closer ancestor has `default`". -/
theorem xml_space_walk_eq_spec (chain : List (Option Bool)) :
    spacePreservedWalk chain = specSpacePreserved chain := by
  induction chain with
  | nil => rfl
  | cons a rest ih =>
    cases a with
    | none =>
      simp only [spacePreservedWalk, ih, specSpacePreserved]
      simp [List.takeWhile_cons]
    | some b =>
      cases b <;> simp [spacePreservedWalk, specSpacePreserved, List.takeWhile_cons]

/-- The state handed down while a tree is built (what `Tag.preserve` holds) is the walk's answer. -/
theorem xml_space_inherited (own : Option Bool) (ancestors : List (Option Bool)) :
    spacePreservedWalk (own :: ancestors) = inheritSpace (spacePreservedWalk ancestors) own := by
  cases own <;> rfl

/-- What `bestIn` (§3.4 inside one import precedence) means: no winner iff nothing matches; otherwise the
winner matches, nothing before it has a higher priority and everything after it a strictly lower one —
i.e. highest priority, and the last of those. -/
theorem bestIn_characterisation (parent : QName) (d : List Tester) :
    match bestIn parent d with
    | none => ∀ t ∈ d, t.matches parent = false
    | some w => ∃ pre post, d = pre ++ w :: post ∧ w.matches parent = true ∧
        (∀ t ∈ pre, t.matches parent = true → t.score ≤ w.score) ∧
        (∀ t ∈ post, t.matches parent = true → t.score < w.score) := by
  have h := bestInv_foldl parent [] d none (by simp [BestInv])
  rw [← bestIn_eq_foldl] at h
  simp only [List.nil_append] at h
  cases hb : bestIn parent d with
  | none => rw [hb] at h; exact h
  | some w => rw [hb] at h; exact h

/-- non-vacuity of the `xml:space` clause: `strip-space elements="*"`, parent `b` under `xml:space="preserve"`:
kept by code and Recommendation alike; the same parent without it: stripped.  `<a xml:space="preserve"><b
xml:space="default"><c>`: the walk from `c` answers false, from `a` true. -/
example :
    shouldStrip (Sheet.mk [⟨"", "", true⟩] []).post (some ⟨⟨"", "b"⟩, true, []⟩) true = false
      ∧ shouldStrip (Sheet.mk [⟨"", "", true⟩] []).post (some ⟨⟨"", "b"⟩, false, []⟩) true = true
      ∧ spacePreservedWalk [none, some false, some true] = false
      ∧ spacePreservedWalk [none, some true, some false] = true := by
  decide

/-- non-vacuity: importing sheet preserves `*`, strips `b`; the import strips `a` and `p:*`.  For parent `a`
the importing sheet's `*` (precedence) beats the import's `a` (priority): preserved; `b` is stripped. -/
example :
    let s := Sheet.mk [⟨"", "", false⟩, ⟨"", "b", true⟩] [Sheet.mk [⟨"", "a", true⟩, ⟨"urn:u", "", true⟩] []]
    shouldStrip s.post (some ⟨⟨"", "a"⟩, false, []⟩) true = false ∧ shouldStrip s.post (some ⟨⟨"", "b"⟩, false, []⟩) true = true
      ∧ specStrip s (some ⟨⟨"", "b"⟩, false, []⟩) true = true := by
  decide

/-- **C13, observation.** Simulation of the strip-aware evaluator by the plain evaluator on the physically
stripped tree: node-sets correspond under `Loc.strip`, other values are equal; `none` (outside the
fragment) corresponds to `none`. -/
theorem strip_simulation (sp : StripFn) (e : Expr) (c : Ctx) (hc : c.node.stripped sp = false) :
    (e.eval sp c).map (Value.strip sp) = e.eval noStrip (c.strip sp) :=
  (eval_sim sp e c hc).1

/-- No stripped text node is ever a member of a node-set the evaluator delivers. -/
theorem results_never_stripped (sp : StripFn) (e : Expr) (c : Ctx) (hc : c.node.stripped sp = false)
    (l : List Loc) (h : e.eval sp c = some (.ns l)) : ∀ x ∈ l, x.stripped sp = false :=
  (eval_sim sp e c hc).2 l h

/-- string-values: the strip-aware string-value of a node is the plain string-value of the stripped node
(`DOMServices::doGetNodeData` asks for every text descendant). -/
theorem strVal_strip (sp : StripFn) (n : Node) : n.strVal sp = (n.strip sp).strVal noStrip :=
  Node.strVal_strip sp n

/-- What `xsl:value-of select="e"` prints is the same on both sides. -/
theorem strip_simulation_string (sp : StripFn) (e : Expr) (c : Ctx) (hc : c.node.stripped sp = false) :
    (e.eval sp c).map (Value.toStr sp) = (e.eval noStrip (c.strip sp)).map (Value.toStr noStrip) := by
  rw [← strip_simulation sp e c hc]
  cases h : e.eval sp c with
  | none => rfl
  | some v =>
    simp only [Option.map_some]
    rw [Value.toStr_strip sp v]

/-- **C13 as stated**, on the model: a stylesheet's declarations `s` evaluated by the code's list
(`stripOf s.post`) on `D` = no declarations on the document from which the nodes *the Recommendation*
selects have been removed. -/
theorem strip_simulation_stylesheet (s : Sheet) (e : Expr) (doc : Node) :
    let specSp : StripFn := fun pn d => specStrip s pn (isWsString d)
    (e.eval (stripOf s.post) ⟨⟨doc, []⟩, 1, 1⟩).map (Value.toStr (stripOf s.post))
      = (e.eval noStrip ⟨⟨doc.strip specSp, []⟩, 1, 1⟩).map (Value.toStr noStrip) := by
  intro specSp
  have hsp : stripOf s.post = specSp := by
    funext pn d
    exact shouldStrip_eq_spec s pn (isWsString d)
  rw [hsp]
  exact strip_simulation_string specSp e ⟨⟨doc, []⟩, 1, 1⟩ rfl

/-- non-vacuity and sensitivity: on `<a> <b/>x</a>` with `strip-space elements="a"`, `count(/a/node())` is 2
with the strip-aware node test (3 without), and the stripped tree has 2 children. -/
example :
    let sp : StripFn := stripOf [⟨"", "a", true⟩]
    let doc : Node := .elem 0 none [.elem 1 (some ⟨⟨"", "a"⟩, false, []⟩) [.text 2 " ", .elem 3 (some ⟨⟨"", "b"⟩, false, []⟩) [], .text 4 "x"]]
    let e : Expr := .count (.step (.step .root .child .anyElem) .child .node)
    (e.eval sp ⟨⟨doc, []⟩, 1, 1⟩).map (Value.toStr sp) = some "2"
      ∧ (e.eval noStrip ⟨⟨doc, []⟩, 1, 1⟩).map (Value.toStr noStrip) = some "3"
      ∧ (e.eval noStrip ⟨⟨doc.strip sp, []⟩, 1, 1⟩).map (Value.toStr noStrip) = some "2" := by
  decide

/-- An observation path that forgets to ask breaks the simulation: with a `node()` test that accepts
stripped text (as `testNode` would without its `shouldStripSourceNode` call) the count differs from the
count on the stripped tree.  This is the witness the correspondence run replays when the call is removed. -/
theorem forgetful_nodeTest_counterexample :
    let sp : StripFn := stripOf [⟨"", "a", true⟩]
    let doc : Node := .elem 0 none [.elem 1 (some ⟨⟨"", "a"⟩, false, []⟩) [.text 2 " ", .elem 3 (some ⟨⟨"", "b"⟩, false, []⟩) []]]
    let kids := (Loc.children ⟨.elem 1 (some ⟨⟨"", "a"⟩, false, []⟩) [.text 2 " ", .elem 3 (some ⟨⟨"", "b"⟩, false, []⟩) []], [⟨[], 0, none, []⟩]⟩)
    (kids.filter (Test.accepts noStrip .node)).length ≠ ((Loc.children (Loc.strip sp ⟨.elem 1 (some ⟨⟨"", "a"⟩, false, []⟩) [.text 2 " ", .elem 3 (some ⟨⟨"", "b"⟩, false, []⟩) []], [⟨[], 0, none, []⟩]⟩)).filter (Test.accepts noStrip .node)).length
      ∧ (kids.filter (Test.accepts sp .node)).length = ((Loc.children (Loc.strip sp ⟨.elem 1 (some ⟨⟨"", "a"⟩, false, []⟩) [.text 2 " ", .elem 3 (some ⟨⟨"", "b"⟩, false, []⟩) []], [⟨[], 0, none, []⟩]⟩)).filter (Test.accepts noStrip .node)).length
      ∧ doc.id = 0 := by
  decide

/-! ## XSLT-level observation paths -/

/-- `xsl:apply-templates` without `select` (and the built-in rules) process `child::node()`: the list of
nodes processed — hence `position()`/`last()` inside the templates — corresponds. -/
theorem apply_templates_default_children (sp : StripFn) (c : Ctx) (hc : c.node.stripped sp = false) :
    ((Expr.step .self .child .node).eval sp c).map (Value.strip sp)
      = (Expr.step .self .child .node).eval noStrip (c.strip sp) :=
  strip_simulation sp _ c hc

/-- `xsl:for-each select="e"` / `xsl:apply-templates select="e"`: the contexts (node, position, size) in which the
body / the templates are instantiated correspond one to one. -/
theorem select_contexts_simulation (sp : StripFn) (e : Expr) (c : Ctx) (hc : c.node.stripped sp = false) :
    (contextsOf (e.eval sp c)).map (List.map (Ctx.strip sp)) = contextsOf (e.eval noStrip (c.strip sp)) := by
  rw [← strip_simulation sp e c hc]
  exact contextsOf_strip sp _

/-- `xsl:sort select="key"`: the list of sort keys of the selected nodes is *equal* on both sides (so any stable
sort by them yields corresponding orders). -/
theorem sort_keys_simulation (sp : StripFn) (sel key : Expr) (c : Ctx) (hc : c.node.stripped sp = false) :
    sortKeys sp sel key c = sortKeys noStrip sel key (c.strip sp) :=
  sortKeys_strip sp sel key c hc

/-- `xsl:copy-of select="e"`: the events sent to the result tree (`cloneToResultTree` asks for every text
node it meets) are those of copying from the stripped document. -/
theorem copy_of_simulation (sp : StripFn) (e : Expr) (c : Ctx) (hc : c.node.stripped sp = false) :
    copyOf sp (e.eval sp c) = copyOf noStrip (e.eval noStrip (c.strip sp)) := by
  rw [← strip_simulation sp e c hc]
  exact copyOf_strip sp _

/-- `key()`: the table built by walking every node of `D` (match pattern and `use` evaluated strip-aware)
answers every lookup like the table built on `D'`. -/
theorem key_simulation (sp : StripFn) (k : KeyDecl) (root : Loc) (s : String) (h : root.stripped sp = false) :
    (keyLookup sp k root s).map (List.map (Loc.strip sp)) = keyLookup noStrip k (root.strip sp) s :=
  keyLookup_strip sp k root s h

/-- non-vacuity for copy-of and keys: `<a> <b> </b>x</a>`, strip `a`; copying `/a` yields no whitespace
event for the first text but keeps the one inside `b`; `key(match=text(), use=local-name(..))` finds one text
under `a`. -/
example :
    let sp : StripFn := stripOf [⟨"", "a", true⟩]
    let doc : Node := .elem 0 none [.elem 1 (some ⟨⟨"", "a"⟩, false, []⟩)
      [.text 2 " ", .elem 3 (some ⟨⟨"", "b"⟩, false, []⟩) [.text 4 " "], .text 5 "x"]]
    copyOf sp ((Expr.step .root .child .anyElem).eval sp ⟨⟨doc, []⟩, 1, 1⟩)
        = some [.startElement (some ⟨⟨"", "a"⟩, false, []⟩), .startElement (some ⟨⟨"", "b"⟩, false, []⟩), .characters " ", .endElement,
                .characters "x", .endElement]
      ∧ (keyLookup sp ⟨.text, .localName (.step .self .parent .node)⟩ ⟨doc, []⟩ "a").map List.length = some 1
      ∧ (keyLookup noStrip ⟨.text, .localName (.step .self .parent .node)⟩ ⟨doc, []⟩ "a").map List.length = some 2 := by
  decide +kernel

/-- `xsl:number level="single"` and `level="multiple"` (with or without `from`; an ancestor matching `from` ends
the search for both levels, the context node is not tested): the ancestors collected by
`getMatchingAncestors` correspond and each one's number — itself plus the preceding siblings `getPreviousNode`
finds matching `count` — is the same on `D` asking `sp` and on `D'`. -/
theorem number_single_multiple_simulation (sp : StripFn) (countT : Test) (fromT : Option Test) (single : Bool)
    (l : Loc) (h : l.stripped sp = false) :
    numberList sp countT fromT single l = numberList noStrip countT fromT single (l.strip sp) :=
  numberList_strip sp countT fromT single l h

/-- `xsl:number level="any"`, with or without `from`: the C++ backwards walk (`findPrecedingOrAncestorOrSelf`,
then `getPreviousNode` iterated by `countNode`; previous sibling → dive to its last descendant, else parent; every
node walked over is tested against `from`, the context node excepted) computes the Recommendation's count — the
nodes matching `count` among the current node and the nodes before it in document order, after the first one
before it that matches `from` — for every tree, provided the fuel covers the nodes before `l`. -/
theorem number_any_loop_eq_count (sp : StripFn) (countT : Test) (fromT : Option Test) (fuel : Nat) (l : Loc)
    (h : l.before.length + 1 < fuel) :
    numberAny sp countT fromT fuel l = numberAnySpec sp countT fromT l :=
  numberAny_eq_spec sp countT fromT fuel l h

/-- … and that count is the same on `D` asking `sp` and on `D'` (a stripped node matches neither pattern, so it
neither counts nor ends the search). -/
theorem number_any_count_simulation (sp : StripFn) (countT : Test) (fromT : Option Test) (l : Loc)
    (h : l.stripped sp = false) :
    numberAnySpec sp countT fromT l = numberAnySpec noStrip countT fromT (l.strip sp) :=
  numberAnySpec_strip sp countT fromT l h

/-- **`xsl:number level="any"` has the property, with `from` too** (since /repo f84b15b; before that fix the
walk tested `from` only while climbing and a stripped text node could decide which elements got tested — the
former `number_any_from_counterexample`): the walk over the physical tree `D`, which does step on stripped text
nodes, yields the number the walk over `D'` yields. -/
theorem number_any_simulation (sp : StripFn) (countT : Test) (fromT : Option Test) (fuel fuel' : Nat) (l : Loc)
    (h : l.stripped sp = false) (hf : l.before.length + 1 < fuel) (hf' : (l.strip sp).before.length + 1 < fuel') :
    numberAny sp countT fromT fuel l = numberAny noStrip countT fromT fuel' (l.strip sp) := by
  rw [numberAny_eq_spec sp countT fromT fuel l hf, numberAny_eq_spec noStrip countT fromT fuel' _ hf']
  exact numberAnySpec_strip sp countT fromT l h

/-- non-vacuity, on the witness that used to separate `D` and `D'`: `<r><x>x</x><b><a> </a></b>y</r>`,
`strip-space elements="a"`, `<xsl:number level="any" count="text()" from="a"/>` at the text `y` is 1 on both
sides now (the element `a` ends the search whether or not the stripped text is inside it); without `from`, 2. -/
example :
    let sp : StripFn := stripOf [⟨"", "a", true⟩]
    let xN : Node := .elem 2 (some ⟨⟨"", "x"⟩, false, []⟩) [.text 3 "x"]
    let bN : Node := .elem 4 (some ⟨⟨"", "b"⟩, false, []⟩) [.elem 5 (some ⟨⟨"", "a"⟩, false, []⟩) [.text 6 " "]]
    let y : Loc := ⟨.text 7 "y", [⟨[bN, xN], 1, some ⟨⟨"", "r"⟩, false, []⟩, []⟩, ⟨[], 0, none, []⟩]⟩
    y.stripped sp = false
      ∧ numberAny sp .text (some (.name ⟨"", "a"⟩)) 20 y = 1
      ∧ numberAny noStrip .text (some (.name ⟨"", "a"⟩)) 20 (y.strip sp) = 1
      ∧ numberAny sp .text none 20 y = 2
      ∧ numberAny noStrip .text none 20 (y.strip sp) = 2 := by
  decide

/-! ## tie to the source text (regenerated by `translate/c13_sites.py` on every run) -/

/-- Every call of `shouldStripSourceNode` in /repo's working tree is one of the observation paths the model
accounts for, and each of those is still there with the same condition. -/
theorem observation_sites_accounted : XalanModel.Generated.C13_Sites.sites = expectedSites := rfl

/-- The statements that fix the order of `m_whitespaceElements`, the first-match decision and the `xml:space`
walk read as the model transcribes them. -/
theorem ordering_code_as_modelled : XalanModel.Generated.C13_Sites.facts = expectedFacts := rfl

end XalanModel.Props.C13
