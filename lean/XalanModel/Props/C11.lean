import XalanModel.C11.DispatchProofs
/-!
# C11 — an expression has one value, whichever way the caller asks for it

Property theorems only.  `Generated.table`/`Generated.callee` are regenerated from XPath.cpp / XPath.hpp
by `translate/c11_dispatch.py` on every run, so the theorems below are re-checked against what the six
`executeMore` switches say *now*.
-/
namespace XalanModel.Props.C11
open XalanModel.C11
open XalanModel.Generated.C11 (Op table callee emitted)

/-- Every op code the generic switch (`executeMore → XObjectPtr`) has a case for has a case in the other
five switches: no entry point answers `unknownOpCodeError` for an expression another one evaluates. -/
theorem dispatch_total : totalB table = true := by decide

example : table .obj .eOP_PLUS ≠ .missing ∧ table .chars .eOP_PLUS ≠ .missing := by decide

/-- Coherence of the regenerated tables: for each of the 41 expression op codes the generic case is the one the
specification `eval` is written against (`specRow`), and each of the other five cases has one of the shapes
proved (in `dispatch_sound`) to deliver exactly `stdConv ep` of the generic value — same helper, the
conversion that belongs to the helper's C++ type and the requested result, string results *appended*. -/
theorem dispatch_coherent : coherentB table callee = true := by decide

example : (exprOps.length, EP.all.length) = (41, 6) := by decide

/-- Every op code the XPath compiler can emit is either an expression op code (covered above) or one of
the five structural codes that never stand at an expression position. -/
theorem emitted_handled :
    emitted.all (fun op => exprOps.contains op ||
      [Op.eOP_XPATH, .eOP_MATCHPATTERN, .eOP_LOCATIONPATHPATTERN, .eOP_PREDICATE, .eOP_PREDICATE_WITH_POSITION].contains op) = true := by
  decide

/-- Soundness of the coherence check for the 36 op codes whose case calls a type-independent helper
(`Or`, `plus`, `functionCount`, `variable`, `runFunction`, …): whatever the helper computes from its operands,
entry point `ep` delivers exactly the standard conversion `stdConv ep` of that value — for every primitive
interpretation `P`, every operand tuple `a` and every string `buf` the caller supplied. (The five op codes
with one overload per entry point — literal, number literal, group, union, location path — are covered by
`eval_ep_eq_conv_eval`.) -/
theorem dispatch_sound {N : Type} (P : Prims N) (ctx : Ctx) (ep : EP) (op : Op) (h : Helper) (hop : op ∈ exprOps)
    (hrow : specRow op = .help .create h ∨ specRow op = .help .ret h) (a : Args N) (buf : Str) :
    (semBody P callee ctx ep buf a (table ep op)).norm = convOpt P ep buf ((helperSem P ctx h a).map hvVal) := by
  have hc := coherentAt_of dispatch_coherent ep op hop
  unfold coherentAt at hc
  rcases hrow with hr | hr <;> rw [hr] at hc <;> simp at hc
  · exact create_sound P callee ctx ep h _ a buf hc.2
  · exact obj_sound P callee ctx ep h _ a buf hc.2

example : Op.eOP_PLUS ∈ exprOps ∧ specRow .eOP_PLUS = .help .create .plus := by decide

/-- **The property.**  For every expression `e` built from the 41 expression op codes, every context, every entry
point `ep` and every string `buf` the caller supplies: evaluating `e` through `ep` by the regenerated tables gives
exactly the result of evaluating `e` generally (`eval`, XPath 1.0) and applying the standard conversion —
`boolean()`, `number()`, `string()` appended to `buf`, the same characters as events, the node list itself or an error
when the value is not a node-set; an error in the general evaluation is an error through every entry point.
Hypothesis `hL`: adding a node list to an *empty* list in document order reproduces it (node-sets are kept in
document order, property C12) — used only for `(…)` around a node-set variable/function through the node-list entry. -/
theorem eval_ep_eq_conv_eval {N : Type} (P : Prims N) (hL : ∀ l, P.nsAdd [] l = l) (ctx : Ctx) (e : Expr N)
    (ep : EP) (buf : Str) :
    (evalAs P table callee ctx e ep buf).norm = convOpt P ep buf (eval P ctx e) :=
  lift P table callee dispatch_coherent hL ctx e ep buf

/-- a primitive interpretation satisfying `hL`, and a non-trivial instance of the theorem -/
def demoPrims : Prims Nat where
  n2s x := Nat.toDigits 10 x |>.map Char.toNat
  s2n s := s.length
  b2n b := if b then 1 else 0
  n2b x := x != 0
  cxxN2B x := x != 0
  ofNat n := n
  add := (· + ·)
  sub := (· - ·)
  mul := (· * ·)
  div := (· / ·)
  mod := (· % ·)
  neg x := x
  floor x := x
  ceil x := x
  round x := x
  cmp _ _ _ := true
  nsAdd a l := a ++ l
  nodeStr n := [n]
  nodeName n := [n]
  nodeLName n := [n]

example : ∀ l, demoPrims.nsAdd [] l = l := by intro l; rfl

example : evalAs demoPrims table callee ⟨0, 1, 1⟩ (.k2 .plus (.k0 (.numberlit 2)) (.k1 .count (.k0 (.locationPath fun _ => [3, 4])))) .str [120]
    = .str [120, 52] := by rfl

end XalanModel.Props.C11
