import XalanModel.C11.DispatchProofs
import XalanModel.C11.Recycle
import XalanModel.C11.Token
import XalanModel.Generated.C11_Callers
import XalanModel.Generated.C11_Prologue
import XalanModel.Generated.C13_Sites
import XalanModel.Generated.C11_Caches
/-!
# C11 — an expression has one value, whichever way the caller asks for it

Property theorems only.  `Generated.table`/`Generated.callee` are regenerated from XPath.cpp / XPath.hpp
by `translate/c11_dispatch.py` on every run, so the theorems below are re-checked against what the six
`executeMore` switches say *now*.
-/
namespace XalanModel.Props.C11
open XalanModel.C11
open XalanModel.Generated.C11 (Op table callee emitted)

/-- Every op code the generic switch (`executeMore → XObjectPtr`) has a case for has a case in the other
five switches: no entry point answers `unknownOpCodeError` for an expression another one evaluates. -/
theorem dispatch_total : totalB table = true := by decide

example : table .obj .eOP_PLUS ≠ .missing ∧ table .chars .eOP_PLUS ≠ .missing := by decide

/-- Coherence of the regenerated tables: for each of the 41 expression op codes the generic case is the one the
specification `eval` is written against (`specRow`), and each of the other five cases has one of the shapes
proved (in `dispatch_sound`) to deliver exactly `stdConv ep` of the generic value — same helper, the
conversion that belongs to the helper's C++ type and the requested result, string results *appended*. -/
theorem dispatch_coherent : coherentB table callee = true := by decide

example : (exprOps.length, EP.all.length) = (41, 6) := by decide

/-- Every op code the XPath compiler can emit is either an expression op code (covered above) or one of
the five structural codes that never stand at an expression position. -/
theorem emitted_handled :
    emitted.all (fun op => exprOps.contains op ||
      [Op.eOP_XPATH, .eOP_MATCHPATTERN, .eOP_LOCATIONPATHPATTERN, .eOP_PREDICATE, .eOP_PREDICATE_WITH_POSITION].contains op) = true := by
  decide

/-- Soundness of the coherence check for the 36 op codes whose case calls a type-independent helper
(`Or`, `plus`, `functionCount`, `variable`, `runFunction`, …): whatever the helper computes from its operands,
entry point `ep` delivers exactly the standard conversion `stdConv ep` of that value — for every primitive
interpretation `P`, every operand tuple `a` and every string `buf` the caller supplied. (The five op codes
with one overload per entry point — literal, number literal, group, union, location path — are covered by
`eval_ep_eq_conv_eval`.) -/
theorem dispatch_sound {N : Type} (P : Prims N) (ctx : Ctx) (ep : EP) (op : Op) (h : Helper) (hop : op ∈ exprOps)
    (hrow : specRow op = .help .create h ∨ specRow op = .help .ret h) (a : Args N) (buf : Str) :
    (semBody P callee ctx ep buf a (table ep op)).norm = convOpt P ep buf ((helperSem P ctx h a).map hvVal) := by
  have hc := coherentAt_of dispatch_coherent ep op hop
  unfold coherentAt at hc
  rcases hrow with hr | hr <;> rw [hr] at hc <;> simp at hc
  · exact create_sound P callee ctx ep h _ a buf hc.2
  · exact obj_sound P callee ctx ep h _ a buf hc.2

example : Op.eOP_PLUS ∈ exprOps ∧ specRow .eOP_PLUS = .help .create .plus := by decide

/-- **The property.**  For every expression `e` built from the 41 expression op codes, every context, every entry
point `ep` and every string `buf` the caller supplies: evaluating `e` through `ep` by the regenerated tables gives
exactly the result of evaluating `e` generally (`eval`, XPath 1.0) and applying the standard conversion —
`boolean()`, `number()`, `string()` appended to `buf`, the same characters as events, the node list itself or an error
when the value is not a node-set; an error in the general evaluation is an error through every entry point.
Hypothesis `hL`: adding a node list to an *empty* list in document order reproduces it (node-sets are kept in
document order, property C12) — used only for `(…)` around a node-set variable/function through the node-list entry. -/
theorem eval_ep_eq_conv_eval {N : Type} (P : Prims N) (hL : ∀ l, P.nsAdd [] l = l) (ctx : Ctx) (e : Expr N)
    (ep : EP) (buf : Str) :
    (evalAs P table callee ctx e ep buf).norm = convOpt P ep buf (eval P ctx e) :=
  lift P table callee dispatch_coherent hL ctx e ep buf

/-- a primitive interpretation satisfying `hL`, and a non-trivial instance of the theorem -/
def demoPrims : Prims Nat where
  n2s x := Nat.toDigits 10 x |>.map Char.toNat
  s2n s := s.length
  b2n b := if b then 1 else 0
  n2b x := x != 0
  cxxN2B x := x != 0
  ofNat n := n
  add := (· + ·)
  sub := (· - ·)
  mul := (· * ·)
  div := (· / ·)
  mod := (· % ·)
  neg x := x
  floor x := x
  ceil x := x
  round x := x
  cmp _ _ _ := true
  nsAdd a l := a ++ l
  nodeStr n := [n]
  nodeName n := [n]
  nodeLName n := [n]

example : ∀ l, demoPrims.nsAdd [] l = l := by intro l; rfl

example : evalAs demoPrims table callee ⟨0, 1, 1⟩ (.k2 .plus (.k0 (.numberlit 2)) (.k1 .count (.k0 (.locationPath fun _ => [3, 4])))) .str [120]
    = .str [120, 52] := by rfl

/-- Character-event chunking does not matter: both cuts the code produces (one event per text node of the first node,
or the memoised string at once; nothing for the empty string) are admissible cuts of `string(value)` — their
concatenation is exactly the string the `chars` entry point is specified to deliver, and no event is empty.
`hc`: `getNodeData` visits non-empty text nodes whose concatenation is the node's string-value. -/
theorem chars_chunking_admissible {N : Type} (P : Prims N) (nodeChunks : Nat → List Str)
    (hc : ∀ n, (nodeChunks n).flatten = P.nodeStr n ∧ ∀ e ∈ nodeChunks n, e ≠ []) (memoised : Bool) (v : Val N) :
    AdmissibleEvents (toStr P v) (eventsOf P nodeChunks memoised v) := by
  unfold eventsOf AdmissibleEvents
  split
  · rename_i n rest
    simpa [toStr, nodesStr] using hc n
  · split
    · rename_i h
      simp at h
      simp [h]
    · rename_i h
      simp at h
      simp [h]

example : AdmissibleEvents [120, 121] [[120], [121]] := by simp [AdmissibleEvents]

/-! ### what surrounds the switches: the prologue of every public overload, and the string-value funnel -/

/-- guards and final call every overload of a family must have (entry-point independent) -/
def familyShape : String → List String × String
  | "main" => (["PrefixResolverSetAndRestore(executionContext,&prefixResolver)", "CurrentNodePushAndPop(executionContext,context)"],
               "executeMore(context,getInitialOpCodePosition(),executionContext<out>);")
  | "withContextNodeList" => (["ContextNodeListPushAndPop(executionContext,contextNodeList)"],
               "execute(context,prefixResolver,executionContext<out>);")
  | "resolverOnly" => (["PrefixResolverSetAndRestore(executionContext,&prefixResolver)"],
               "executeMore(executionContext.getCurrentNode(),getInitialOpCodePosition(),executionContext<out>);")
  | "contextOnly" => ([], "executeMore(executionContext.getCurrentNode(),getInitialOpCodePosition(),executionContext<out>);")
  | _ => ([], "")

/-- Every public `XPath::execute` overload of a family — whatever result type it delivers — sets up the evaluation the same
way: the same RAII guards in the same order with the same arguments (in particular each of the six
`execute(context, resolver, executionContext[, out])` overloads makes the context node the *current* node,
`CurrentNodePushAndPop(executionContext, context)`, so `current()` means the same through all six) and ends with the same
call, the out-parameter aside.  All 4 families × 6 entry points are present (`decide` over the regenerated table). -/
theorem entry_points_same_prologue :
    XalanModel.Generated.C11.executePrologues.all (fun r => (r.2.2.1, r.2.2.2) == familyShape r.1) = true ∧
    (["main", "withContextNodeList", "resolverOnly", "contextOnly"].all fun f => EP.all.all fun ep =>
      XalanModel.Generated.C11.executePrologues.any fun r => r.1 == f && r.2.1 == ep) = true := by
  decide

/-- calls inside DOMServices' context-taking string-value functions that may drop the execution context: targets without
descendants (attribute, comment, processing instruction) and the fast path taken only when no strip/preserve-space
declaration exists -/
def funnelMayDropContext : List String := [
  "getNodeData(theAttr, formatterListener, function)", "getNodeData(theComment, formatterListener, function)",
  "getNodeData(thePI, formatterListener, function)", "getNodeData(theAttr, data)", "getNodeData(theComment, data)",
  "getNodeData(thePI, data)",
  "if (!context.hasPreserveOrStripSpaceConditions()) : getNodeData(document, formatterListener, function)",
  "if (!context.hasPreserveOrStripSpaceConditions()) : getNodeData(document, data)",
  "if (!context.hasPreserveOrStripSpaceConditions()) : getNodeData(documentFragment, formatterListener, function)",
  "if (!context.hasPreserveOrStripSpaceConditions()) : getNodeData(documentFragment, data)",
  "if (!context.hasPreserveOrStripSpaceConditions()) : getNodeData(element, formatterListener, function)",
  "if (!context.hasPreserveOrStripSpaceConditions()) : getNodeData(element, data)",
  "if (!context.hasPreserveOrStripSpaceConditions()) : getNodeData(node, formatterListener, function)",
  "if (!context.hasPreserveOrStripSpaceConditions()) : getNodeData(node, data)",
  "if (!context.hasPreserveOrStripSpaceConditions()) : getNodeData(text, formatterListener, function)",
  "if (!context.hasPreserveOrStripSpaceConditions()) : getNodeData(text, data)"]

/-- The string-value of a node is computed by two parallel recursions in DOMServices — into a `XalanDOMString` (generic,
string and number entry points) and into a `FormatterListener` (character events).  In the table C13's translator
regenerates from DOMServices.cpp/.hpp, every call from a context-taking function to another string-value function hands
the execution context on (so `xsl:strip-space` applies at every depth through both recursions), except the calls listed
in `funnelMayDropContext`. -/
theorem string_value_funnel_passes_context :
    XalanModel.Generated.C13_Sites.valueSitesFunnel.all
      (fun r => r.2.2.2 == "ctx" || funnelMayDropContext.contains r.2.2.1) = true ∧
    XalanModel.Generated.C13_Sites.valueSitesFunnel.length ≥ 40 := by
  decide

/-! ### the XSLT callers named in the property -/

/-- Which `XPath::execute` overload each XSLT instruction uses (regenerated from the call sites by the declared type of the
out-parameter): `xsl:if`/`xsl:when` → bool, `xsl:value-of` → character events (generic only for trace listeners),
attribute value templates → string (appending), `xsl:sort` keys → number / string (generic for cached objects),
`xsl:for-each` → node list, `xsl:variable`/`xsl:with-param`/`xsl:copy-of` → generic, `xsl:number value=` → number. -/
theorem callers_entry_points :
    XalanModel.Generated.C11.callers =
      [("ElemIf", .bool), ("ElemChoose", .bool), ("ElemValueOf", .chars), ("ElemValueOf", .obj), ("AVTPartXPath", .str),
       ("NodeSorter", .num), ("NodeSorter", .obj), ("NodeSorter", .str), ("ElemForEach", .nodes), ("ElemVariable", .obj),
       ("ElemWithParam", .obj), ("ElemCopyOf", .obj), ("ElemNumber", .num)] := by decide

/-- "Consequently xsl:if/xsl:when tests, xsl:value-of, attribute value templates, sort keys and numeric arguments all observe
the same value for the same expression": whatever caller of the regenerated table evaluates `e`, it observes exactly the
standard conversion, for its entry point, of the one value `eval e`. -/
theorem caller_observes_standard_conversion {N : Type} (P : Prims N) (hL : ∀ l, P.nsAdd [] l = l) (ctx : Ctx)
    (e : Expr N) (buf : Str) (c : String × EP) (_hc : c ∈ XalanModel.Generated.C11.callers) :
    (evalAs P table callee ctx e c.2 buf).norm = convOpt P c.2 buf (eval P ctx e) :=
  eval_ep_eq_conv_eval P hL ctx e c.2 buf

example : (("AVTPartXPath", EP.str) : String × EP) ∈ XalanModel.Generated.C11.callers := by decide

/-! ### XToken and the conversion helpers the specialised paths call -/

/-- The regenerated bodies of XToken's conversion members (inline `boolean()`/`num()`, the virtual `boolean/num/str`
overloads, both `set`s) are the expected ones, and the compiler stores `toDouble(text)` as a string literal's number and
`NumberToDOMString(value)` as a number literal's string (`decide` over the regenerated table). -/
theorem token_coherent :
    tokenCoherentB XalanModel.Generated.C11.tokenMethod XalanModel.Generated.C11.literalTokenNumIsToDouble
      XalanModel.Generated.C11.numberTokenStrIsNumberToDOMString = true := by decide

/-- Hence every conversion member of a token the compiler built answers with the standard conversion of the value the
token denotes on the generic path (string literal ↦ that string, number literal ↦ that number): boolean, number, string,
string appended to a buffer, string as character events — inline and virtual members alike. -/
theorem token_conversions_standard {N : Type} (P : Prims N) (t : Token N) (hw : t.WF P) (buf : Str) :
    semTBool P t (XalanModel.Generated.C11.tokenMethod .booleanInline) = some (toBool P t.denotes) ∧
    semTBool P t (XalanModel.Generated.C11.tokenMethod .booleanV) = some (toBool P t.denotes) ∧
    semTNum t (XalanModel.Generated.C11.tokenMethod .numInline) = some (toNum P t.denotes) ∧
    semTNum t (XalanModel.Generated.C11.tokenMethod .numV) = some (toNum P t.denotes) ∧
    semTStr t (XalanModel.Generated.C11.tokenMethod .strV) = some (toStr P t.denotes) ∧
    semTStr t (XalanModel.Generated.C11.tokenMethod .str0) = some (toStr P t.denotes) ∧
    semTStr t (XalanModel.Generated.C11.tokenMethod .strCharsV) = some (toStr P t.denotes) ∧
    semTStr t (XalanModel.Generated.C11.tokenMethod .strChars) = some (toStr P t.denotes) ∧
    semTAppend buf t (XalanModel.Generated.C11.tokenMethod .strBufV) = some (buf ++ toStr P t.denotes) ∧
    semTAppend buf t (XalanModel.Generated.C11.tokenMethod .strBuf) = some (buf ++ toStr P t.denotes) :=
  token_sound_of P _ _ _ token_coherent t hw buf

/-- For a **number-literal** token the boolean member is `XObject::boolean(number)` — not NaN and not zero — whatever its
string form (`0`, `0.0`, `00`, `.0` are false although their text is non-empty). -/
theorem token_boolean_number_literal {N : Type} (P : Prims N) (x : N) :
    semTBool P ⟨P.n2s x, x, false⟩ (XalanModel.Generated.C11.tokenMethod .booleanInline) = some (P.n2b x) := by
  have h := (token_conversions_standard P ⟨P.n2s x, x, false⟩ (by simp [Token.WF]) []).1
  simpa [Token.denotes, XalanModel.C11.toBool] using h

/-- For a **string-literal** token the boolean member is "the string is not empty" (`'0'`, `'false'`, `' '` are true). -/
theorem token_boolean_string_literal {N : Type} (P : Prims N) (s : Str) :
    semTBool P ⟨s, P.s2n s, true⟩ (XalanModel.Generated.C11.tokenMethod .booleanInline) = some (!s.isEmpty) := by
  have h := (token_conversions_standard P ⟨s, P.s2n s, true⟩ (by simp [Token.WF]) []).1
  simpa [Token.denotes, XalanModel.C11.toBool] using h

example : demoPrims.n2b 0 = false ∧ demoPrims.n2s 0 ≠ [] := by decide

/-- The static conversions of `XObject` (`boolean(double)`, `boolean(string)`, `boolean(list)`, `number(bool)`,
`number(string)`, `number(ec, list|node)`, the `string(...)` overloads) and the virtual conversions of
XBoolean / XNumber(Base) / XStringBase / XNodeSetBase have, in the current source, exactly the bodies `stdConv`
(`toBool`/`toNum`/`toStr`, `b2s`) is written against; `"true"`/`"false"` are the model's `b2s`. -/
theorem static_conversions_as_specified :
    XalanModel.Generated.C11.convRows = expectedConvRows ∧
    XalanModel.Generated.C11.trueString = b2s true ∧ XalanModel.Generated.C11.falseString = b2s false := by
  decide

/-! ### recycled objects (the generic path converts through an XObject the factory may have used before) -/
open XalanModel.C11.Recycle in
/-- For every class `XObjectFactoryDefault` recycles (regenerated list: XNumber, XNodeSet, XString), `set()` — followed
through `release()`/`clearCachedValues()`/`clearCachedNumberValue()` — resets every conversion-memo member of the class and
its bases (`decide` over the regenerated member lists). -/
theorem recycled_objects_clear_memos :
    XalanModel.Generated.C11.recycled.all (fun r => allCleared r.2.1 r.2.2) = true := by decide

open XalanModel.C11.Recycle in
/-- Hence a recycled object is indistinguishable from a fresh one: whatever conversions its previous life was asked for
(any `o` whose memos live in the class's memo members), after `set(v)` it *is* the fresh object for `v`. -/
theorem recycled_objects_fresh {V A : Type} (r : String × List String × List String)
    (hr : r ∈ XalanModel.Generated.C11.recycled) (o : Obj V A) (ho : Supported r.2.1 o) (v : V) :
    reuse r.2.2 o v = fresh v := by
  have h := List.all_eq_true.mp recycled_objects_clear_memos r hr
  exact reuse_eq_fresh h ho v

open XalanModel.C11.Recycle in
/-- The converse, which makes the previous theorem the *right* obligation: a recycled object answers every conversion like
a fresh one **iff** `set()` clears every memo member (each conversion distinguishing at least two values) — a member that
survives is observable by: convert `v0`, release, reuse for `v1`, convert again. -/
theorem recycled_like_fresh_iff {V A : Type} (compute : String → V → A) (fields cleared : List String)
    (hdist : ∀ f ∈ fields, ∃ v0 v1, compute f v0 ≠ compute f v1) :
    (∀ (o : Obj V A), Supported fields o → ∀ v f, f ∈ fields →
        (ask compute (reuse cleared o v) f).1 = (ask compute (fresh v) f).1)
      ↔ allCleared fields cleared = true :=
  reused_like_fresh_iff compute fields cleared hdist

open XalanModel.C11.Recycle in
example : ∃ v0 v1 : Nat, (fun (_ : String) (v : Nat) => v + 1) "m_cachedNumberValue" v0 ≠
    (fun (_ : String) (v : Nat) => v + 1) "m_cachedNumberValue" v1 := ⟨0, 1, by decide⟩

end XalanModel.Props.C11
