import XalanModel.C14.EngineProofs
import XalanModel.C14.StackProofs
import XalanModel.C14.AliasProofs
import XalanModel.C14.Stylesheet
/-!
# C14 — result elements/attributes get the requested expanded names; prefixes resolve

Property theorems only (helpers: `XalanModel/C14/EngineProofs.lean`).  The model (`XalanModel/C14/Engine.lean`)
is the result-event machine of `XSLTEngineImpl` (namespace stack + pending start tag + invented-prefix
counter) with the decision trees of `xsl:attribute`, `xsl:element`, literal result elements and copied
source elements.  `Op` is the alphabet of everything the element classes may ask of the engine;
`run` executes an arbitrary sequence of them.
-/
namespace XalanModel.Props.C14
open XalanModel.C14

/-- every request the stylesheet element classes make of the engine, with arbitrary arguments -/
inductive Op where
  | startElement (n : QN)
  | endElement (n : QN)
  | characters
  | flush
  | addResultAttribute (n : QN) (v : String) (fromCopy : Bool)
  | elemAttribute (name : QN) (nsAvt : Option String) (ssNs : Option String) (value : String)
  | elemElementStart (name : QN) (nsAvt hNs hDefault : Option String) (parentDefault : String)
  | lreStart (name : QN) (decls : List NS) (hDefault : Option String)
  | addAtts (atts : List Att)
  | checkDefaultNamespace (name : QN) (uri : String)
  | addResultNamespace (a : Att)

def step (s : St) : Op → St
  | .startElement n => s.startElement n
  | .endElement n => s.endElement n
  | .characters => s.characters
  | .flush => s.flushPending
  | .addResultAttribute n v fc => s.addResultAttribute n v fc
  | .elemAttribute name nsAvt ssNs value => (s.elemAttribute name nsAvt ssNs value).1
  | .elemElementStart name nsAvt hNs hDefault pd => (s.elemElementStart name nsAvt hNs hDefault pd).1
  | .lreStart name decls hDefault => s.lreStart name decls hDefault
  | .addAtts atts => s.addAtts atts
  | .checkDefaultNamespace name uri => s.checkDefaultNamespace name uri
  | .addResultNamespace a => s.addResultNamespace a

def run (s : St) (ops : List Op) : St := ops.foldl step s

def NodupQ (s : St) : Prop := (s.pendAtts.map (·.name)).Nodup

section nodup
private theorem nd_ara {s : St} (n v fc) (h : NodupQ s) : NodupQ (s.addResultAttribute n v fc) :=
  St.nodup_addResultAttribute s n v fc h
private theorem nd_flush {s : St} (h : NodupQ s) : NodupQ s.flushPending := by
  unfold St.flushPending; split
  · simp [NodupQ]
  · exact h
private theorem nd_start {s : St} (n) (h : NodupQ s) : NodupQ (s.startElement n) := nd_flush h
private theorem nd_end {s : St} (n) (h : NodupQ s) : NodupQ (s.endElement n) := nd_flush h
private theorem nd_chars {s : St} (h : NodupQ s) : NodupQ s.characters := nd_flush h
private theorem nd_unique {s : St} (h : NodupQ s) : NodupQ s.unique.2 := h
private theorem nd_addDecl {s : St} (p u) (h : NodupQ s) : NodupQ (s.addDecl p u) := h
private theorem nd_fixup {s : St} (d b) (h : NodupQ s) : NodupQ (s.fixupDefault d b) := by
  unfold St.fixupDefault
  repeat' split
  all_goals first | exact h | exact nd_ara _ _ _ h
private theorem nd_orn {s : St} (ds) (h : NodupQ s) : NodupQ (s.outputResultNamespaces ds) := by
  induction ds generalizing s with
  | nil => exact h
  | cons d ds ih =>
    unfold St.outputResultNamespaces
    apply ih
    repeat' split
    all_goals first | exact h | exact nd_ara _ _ _ h
private theorem nd_addAtts {s : St} (as) (h : NodupQ s) : NodupQ (s.addAtts as) := by
  induction as generalizing s with
  | nil => exact h
  | cons a as ih => exact ih (nd_ara _ _ _ h)
private theorem nd_lre {s : St} (n ds d) (h : NodupQ s) : NodupQ (s.lreStart n ds d) := by
  unfold St.lreStart
  dsimp only
  split
  · exact nd_fixup _ _ (nd_orn _ (nd_start _ h))
  · exact nd_orn _ (nd_start _ h)
private theorem nd_cdn {s : St} (n u) (h : NodupQ s) : NodupQ (s.checkDefaultNamespace n u) := by
  unfold St.checkDefaultNamespace
  repeat' split
  all_goals first | exact h | exact nd_ara _ _ _ h
private theorem nd_arn {s : St} (a) (h : NodupQ s) : NodupQ (s.addResultNamespace a) := by
  unfold St.addResultNamespace
  dsimp only
  repeat' split
  all_goals first | exact h | exact nd_addDecl _ _ (nd_ara _ _ _ h)
private theorem nd_elemAttribute {s : St} (name nsAvt ssNs value) (h : NodupQ s) :
    NodupQ (s.elemAttribute name nsAvt ssNs value).1 := by
  unfold St.elemAttribute
  repeat' split
  all_goals first
    | exact h
    | exact nd_ara _ _ _ h
    | exact nd_ara _ _ _ (nd_ara _ _ _ h)
    | exact nd_ara _ _ _ (nd_unique h)
    | exact nd_ara _ _ _ (nd_ara _ _ _ (nd_unique h))
private theorem nd_elemElement {s : St} (name nsAvt hNs hDefault pd) (h : NodupQ s) :
    NodupQ (s.elemElementStart name nsAvt hNs hDefault pd).1 := by
  unfold St.elemElementStart
  dsimp only
  repeat' split
  all_goals first
    | exact h
    | exact nd_start _ h
    | exact nd_fixup _ _ (nd_start _ h)
    | exact nd_ara _ _ _ (nd_start _ h)
end nodup

/-- **no two attributes of a start tag share a qname**, after any sequence of engine requests whatsoever
(`AttributeListImpl::addAttribute` replaces by qname; every path into the pending list goes through it). -/
theorem pending_attrs_nodup_qname (ops : List Op) (s : St) (h : NodupQ s) : NodupQ (run s ops) := by
  induction ops generalizing s with
  | nil => exact h
  | cons op ops ih =>
    apply ih
    cases op with
    | startElement n => exact nd_start n h
    | endElement n => exact nd_end n h
    | characters => exact nd_chars h
    | flush => exact nd_flush h
    | addResultAttribute n v fc => exact nd_ara n v fc h
    | elemAttribute name nsAvt ssNs value => exact nd_elemAttribute _ _ _ _ h
    | elemElementStart name nsAvt hNs hDefault pd => exact nd_elemElement _ _ _ _ _ h
    | lreStart name decls hDefault => exact nd_lre _ _ _ h
    | addAtts atts => exact nd_addAtts _ h
    | checkDefaultNamespace name uri => exact nd_cdn _ _ h
    | addResultNamespace a => exact nd_arn _ h

/-- hypotheses satisfiable by a non-trivial state: a pending element with two attributes -/
example : NodupQ (run {} [.lreStart ⟨"", "r"⟩ [⟨"p", "urn:U"⟩] none, .addAtts [⟨⟨"p", "x"⟩, "1"⟩]]) := by
  unfold NodupQ; decide

/-- the qname-level guarantee does **not** extend to expanded names: `<r p:x="1"><xsl:attribute name="q:x">`
with `p` and `q` bound to the same URI leaves both `p:x` and `q:x` in the start tag (replayed on the real
library: known finding C14-duplicate-expanded-attribute). -/
theorem no_duplicate_expanded_attr_counterexample :
    let s := run {} [.lreStart ⟨"", "r"⟩ [⟨"p", "urn:U"⟩, ⟨"q", "urn:U"⟩] none,
                     .addAtts [⟨⟨"p", "x"⟩, "1"⟩],
                     .elemAttribute ⟨"q", "x"⟩ none (some "urn:U") "2"]
    (s.pendAtts.map (·.name)) = [⟨"xmlns", "p"⟩, ⟨"xmlns", "q"⟩, ⟨"p", "x"⟩, ⟨"q", "x"⟩] ∧
      s.resultNs "p" = some "urn:U" ∧ s.resultNs "q" = some "urn:U" := by decide

/-- **xsl:attribute with a namespace** (`ElemAttribute.cpp:167-288`): whatever the state of the engine, the
attribute that ends up in the pending start tag has the requested local name, a non-empty prefix, and the
engine's namespace stack binds that prefix to the requested URI.
`_partial`: `hreuse` assumes that the prefix found by `getResultPrefixForNamespace` is not shadowed by a nearer
declaration (the code does not check — see `names_resolve_attr_ns_counterexample`); `hxml` excludes
`name="xml:…"` for the code first analysed (it keeps the `xml` prefix, which cannot be re-bound; with
`C14-attribute-xml-prefix-exact.diff` only `xml:` *with the XML namespace itself* is excluded); `hN'` excludes the reserved
xmlns namespace URI. -/
theorem names_resolve_attr_ns_partial (s : St) (name : QN) (N value : String) (ssNs : Option String)
    (hN : N ≠ "") (hN' : N ≠ xmlnsURI) (hctx : s.ns.createNew ≠ [])
    (hxml : name.pfx ≠ "xml" ∨ (s.v.xmlPrefixExact = true ∧ N ≠ xmlURI))
    (hlate : (s.v.lateAttrCheck && !s.isElementPending) = false)
    (hreuse : ∀ p, s.resultPrefix N = some p → s.resultNs p = some N) :
    ∃ q : QN, ⟨q, value⟩ ∈ (s.elemAttribute name (some N) ssNs value).1.pendAtts ∧ q.loc = name.loc ∧ q.pfx ≠ "" ∧
      (s.elemAttribute name (some N) ssNs value).1.resultNs q.pfx = some N := by
  have key : ∀ (t : St) (p : String), t.ns.createNew ≠ [] → p ≠ "" → p ≠ "xml" → p ≠ "xmlns" →
      let t' := (t.addResultAttribute ⟨"xmlns", p⟩ N).addResultAttribute ⟨p, name.loc⟩ value
      (⟨⟨p, name.loc⟩, value⟩ : Att) ∈ t'.pendAtts ∧ t'.resultNs p = some N := by
    intro t p hc h0 h1 h2 t'
    have hpl : t' = (t.addResultAttribute ⟨"xmlns", p⟩ N).addAtt ⟨p, name.loc⟩ value := by
      apply St.addResultAttribute_plain
      · exact h2
      · intro e; injection e with e1 _; exact h0 e1
    constructor
    · rw [hpl]; exact mem_addAttribute _ _ _
    · rw [hpl]; exact St.resultNs_after_decl t p N hc h1 h2
  unfold St.elemAttribute
  have hx : (s.v.xmlPrefixExact && decide (name.pfx = "xml") && decide (N = xmlURI)) = false := by
    rcases hxml with h | h
    · simp [h]
    · simp [h.2]
  simp only [hN, hlate, hx, if_false, Bool.false_eq_true]
  cases hr : s.attrReuse name N with
  | some p =>
    -- reuse of an existing prefix
    dsimp only
    have hp' : s.resultPrefix N = some p ∧ p ≠ "" := by
      unfold St.attrReuse at hr
      split at hr
      · rename_i p' hp'
        split at hr
        · rename_i hc
          injection hr with e; subst e
          simp at hc
          exact ⟨hp', hc.1⟩
        · cases hr
      · cases hr
    have hb := hreuse p hp'.1
    have hnx : p ≠ "xmlns" := by
      intro e; subst e
      simp [St.resultNs, RNS.nsForPrefix] at hb
      exact hN' hb.symm
    have hpl := St.addResultAttribute_plain s ⟨p, name.loc⟩ value false hnx
      (by intro e; injection e with e1 _; exact hp'.2 e1)
    refine ⟨⟨p, name.loc⟩, ?_, rfl, hp'.2, ?_⟩
    · rw [hpl]; exact mem_addAttribute _ _ _
    · rw [hpl]; exact hb
  | none =>
    dsimp only
    by_cases hk : (decide (name.pfx ≠ "") && !s.attrPrefixUnusable name && !s.attrNsConflict name N) = true
    · -- keep the prefix given in the name
      rw [if_pos hk]
      simp [St.attrPrefixUnusable] at hk
      have hnx : name.pfx ≠ "xml" := by
        rcases hxml with h | h
        · exact h
        · rcases hk.1.2.2 with e | e
          · rw [h.1] at e; cases e
          · exact e
      have := key s name.pfx hctx hk.1.1 hnx hk.1.2.1
      exact ⟨name, this.1, rfl, hk.1.1, this.2⟩
    · -- a new prefix is invented and declared
      rw [if_neg hk]
      obtain ⟨j, hj⟩ := St.unique_prefix s
      have hne := ns_prefix_ne (toString j)
      rw [← hj] at hne
      have := key s.unique.2 s.unique.1 (by rw [St.unique_ns]; exact hctx) hne.2.2 hne.1 hne.2.1
      exact ⟨⟨s.unique.1, name.loc⟩, this.1, rfl, hne.2.2, this.2⟩

/-- the hypotheses are met by a non-trivial state (prefix `p` pending with another URI: a new prefix is invented) -/
example :
    let s := run {} [.elemElementStart ⟨"p", "e"⟩ (some "urn:M") none none ""]
    (s.elemAttribute ⟨"p", "x"⟩ (some "urn:N") none "3").1.pendAtts =
      [⟨⟨"xmlns", "p"⟩, "urn:M"⟩, ⟨⟨"xmlns", "ns0"⟩, "urn:N"⟩, ⟨⟨"ns0", "x"⟩, "3"⟩] := by decide

/-- the unchanged code violates the full statement: `getPrefixForNamespace` returns a prefix that a nearer
element has re-bound.  `<r xmlns:p="urn:N"><xsl:element name="p:e" namespace="urn:M"><xsl:attribute name="x"
namespace="urn:N">` puts `p:x` on `<p:e xmlns:p="urn:M">`: the attribute lands in `urn:M`
(replayed on the real library: known finding C14-reused-prefix-shadowed). -/
theorem names_resolve_attr_ns_counterexample :
    let s := run {} [.lreStart ⟨"", "r"⟩ [⟨"p", "urn:N"⟩] none,
                     .elemElementStart ⟨"p", "e"⟩ (some "urn:M") (some "urn:N") none "",
                     .elemAttribute ⟨"", "x"⟩ (some "urn:N") none "3"]
    s.pendAtts = [⟨⟨"xmlns", "p"⟩, "urn:M"⟩, ⟨⟨"p", "x"⟩, "3"⟩] ∧ s.resultNs "p" = some "urn:M" := by decide

/-- **xsl:attribute without a namespace attribute** (`ElemAttribute.cpp:290-376`), prefixed name whose
stylesheet namespace is `U`: when `U` is not yet bound to any prefix in the result (`hfree`), the attribute
ends up with a prefix that the engine binds to `U` (the given prefix, or an invented one when the given prefix
means something else in the result).
`_partial`: `hfree` is what is missing — when `U` is already bound to *some* prefix (possibly the default
namespace, possibly a shadowed one) the code emits no declaration although the attribute's own prefix may be
unbound or invented: see `no_undeclared_prefix_counterexample`. -/
theorem no_undeclared_prefix_partial (s : St) (name : QN) (U value : String)
    (hpend : s.isElementPending = true) (hp0 : name.pfx ≠ "") (hp1 : name.pfx ≠ "xmlns")
    (hxml : s.attrIsXmlName name = false) (hp2 : name.pfx ≠ "xml")
    (hU : U ≠ "") (hctx : s.ns.createNew ≠ []) (hv : s.v.ownPrefixDecl = false)
    (hfree : s.resultPrefix U = none) :
    ∃ q : QN, ⟨q, value⟩ ∈ (s.elemAttribute name none (some U) value).1.pendAtts ∧ q.loc = name.loc ∧ q.pfx ≠ "" ∧
      (s.elemAttribute name none (some U) value).1.resultNs q.pfx = some U := by
  have key : ∀ (t : St) (p : String), t.ns.createNew ≠ [] → p ≠ "" → p ≠ "xml" → p ≠ "xmlns" →
      let t' := (t.addResultAttribute ⟨"xmlns", p⟩ U).addResultAttribute ⟨p, name.loc⟩ value
      (⟨⟨p, name.loc⟩, value⟩ : Att) ∈ t'.pendAtts ∧ t'.resultNs p = some U := by
    intro t p hc h0 h1 h2 t'
    have hpl : t' = (t.addResultAttribute ⟨"xmlns", p⟩ U).addAtt ⟨p, name.loc⟩ value := by
      apply St.addResultAttribute_plain
      · exact h2
      · intro e; injection e with e1 _; exact h0 e1
    constructor
    · rw [hpl]; exact mem_addAttribute _ _ _
    · rw [hpl]; exact St.resultNs_after_decl t p U hc h1 h2
  have hname : name ≠ ⟨"", "xmlns"⟩ := by intro e; apply hp0; rw [e]
  unfold St.elemAttribute
  have hcond : (s.isElementPending && decide (name ≠ ⟨"", "xmlns"⟩)) = true := by simp [hpend, hname]
  simp only [hcond, hxml, hp0, hU, if_true, if_false, Bool.false_eq_true]
  have hnd : ∀ p, s.attrNeedDecl p U = true := by
    intro p; simp [St.attrNeedDecl, hv, hfree]
  have hnd' : ∀ p, s.unique.2.attrNeedDecl p U = true := by
    intro p
    have : s.unique.2.attrNeedDecl p U = s.attrNeedDecl p U := rfl
    rw [this]; exact hnd p
  by_cases hc : s.attrNoNsConflict name U = true
  · -- conflict: invented prefix
    rw [if_pos hc, if_pos (hnd' _)]
    dsimp only
    obtain ⟨j, hj⟩ := St.unique_prefix s
    have hne := ns_prefix_ne (toString j)
    rw [← hj] at hne
    have := key s.unique.2 s.unique.1 (by rw [St.unique_ns]; exact hctx) hne.2.2 hne.1 hne.2.1
    exact ⟨⟨s.unique.1, name.loc⟩, this.1, rfl, hne.2.2, this.2⟩
  · rw [if_neg hc, if_pos (hnd _)]
    dsimp only
    have := key s name.pfx hctx hp0 hp2 hp1
    exact ⟨name, this.1, rfl, hp0, this.2⟩

example :
    let s := run {} [.elemElementStart ⟨"p", "e"⟩ (some "urn:Uprime") (some "urn:U") none ""]
    s.isElementPending = true ∧ s.resultPrefix "urn:U" = none ∧
      (s.elemAttribute ⟨"p", "x"⟩ none (some "urn:U") "3").1.pendAtts =
        [⟨⟨"xmlns", "p"⟩, "urn:Uprime"⟩, ⟨⟨"xmlns", "ns0"⟩, "urn:U"⟩, ⟨⟨"ns0", "x"⟩, "3"⟩] := by decide

/-- DESIGN §6 item 19 on the model: stylesheet `p ↦ urn:U`, result `p ↦ urn:Uprime` on the pending element,
`urn:U` already bound to `q` on an ancestor: the attribute is renamed `ns0:x` and **no `xmlns:ns0` is
emitted**; the engine itself has no binding for `ns0` (replayed on the real library: known finding
C14-invented-prefix-undeclared). -/
theorem no_undeclared_prefix_counterexample :
    let s := run {} [.lreStart ⟨"", "r"⟩ [⟨"p", "urn:U"⟩, ⟨"q", "urn:U"⟩] none,
                     .elemElementStart ⟨"p", "e"⟩ (some "urn:Uprime") (some "urn:U") none "",
                     .elemAttribute ⟨"p", "x"⟩ none (some "urn:U") "3"]
    s.pendAtts = [⟨⟨"xmlns", "p"⟩, "urn:Uprime"⟩, ⟨⟨"ns0", "x"⟩, "3"⟩] ∧ s.resultNs "ns0" = none := by decide

/-- `xsl:attribute` with a namespace after a child node has been written: the namespace branch never tests
`isElementPending`, the attribute and its declaration stay in the pending list and are flushed with the **next**
element (`<e>text<xsl:attribute name="a" namespace="urn:N">v</xsl:attribute><f/></e>` gives
`<f xmlns:ns0="urn:N" ns0:a="v"/>`; replayed on the real library: known finding C14-late-attribute-leaks). -/
theorem attr_after_child_leaks_counterexample :
    let s := run {} [.lreStart ⟨"", "e"⟩ [] none, .characters,
                     .elemAttribute ⟨"", "a"⟩ (some "urn:N") none "v",
                     .lreStart ⟨"", "f"⟩ [] none, .flush]
    s.out.head? = some (Ev.start ⟨"", "f"⟩ [⟨⟨"xmlns", "ns0"⟩, "urn:N"⟩, ⟨⟨"ns0", "a"⟩, "v"⟩]) := by decide


/-! ## the namespace stack -/

inductive StackOp where
  | push | pop | add (p u : String)

def stackStep (r : RNS) : StackOp → RNS
  | .push => r.pushContext
  | .pop => r.popContext
  | .add p u => r.addDeclaration p u

def eagerStep (fs : List Frame) : StackOp → List Frame
  | .push => [] :: fs
  | .pop => fs.tail
  | .add p u => Eager.add fs p u

/-- **the lazily created `XalanNamespacesStack` refines a plain stack of frames**: after any sequence of
`pushContext` / `popContext` / `addDeclaration` from the empty stack, reading the created entries against the
`m_createNewContextStack` flags gives exactly the stack of frames obtained by pushing an empty frame per context,
and both look-ups (`getNamespaceForPrefix`, `getPrefixForNamespace`) answer as that plain stack does. -/
theorem rns_refines_frames (ops : List StackOp) (x : String) :
    let r := ops.foldl stackStep {}
    r.abs = ops.foldl eagerStep [] ∧ r.nsForPrefix x = Eager.nsForPrefix r.abs x ∧
      r.prefixForNs x = Eager.prefixForNs r.abs x := by
  have gen : ∀ (ops : List StackOp) (r : RNS), r.Inv →
      (ops.foldl stackStep r).Inv ∧ (ops.foldl stackStep r).abs = ops.foldl eagerStep r.abs := by
    intro ops
    induction ops with
    | nil => intro r h; exact ⟨h, rfl⟩
    | cons op ops ih =>
      intro r h
      simp only [List.foldl_cons]
      cases op with
      | push =>
        have := ih r.pushContext (RNS.inv_push r h)
        rw [RNS.abs_push] at this
        exact this
      | pop =>
        have h2 := RNS.abs_pop r h
        have := ih r.popContext h2.2
        rw [h2.1] at this
        exact this
      | add p u =>
        have h2 := RNS.abs_add r p u h
        have := ih (r.addDeclaration p u) h2.2
        rw [h2.1] at this
        exact this
  intro r
  have h0 : ({} : RNS).Inv := by simp [RNS.Inv, countFalse]
  have hg := gen ops {} h0
  have hl := RNS.lookups_refine r hg.1 x
  exact ⟨hg.2, hl.1, hl.2⟩

example : (([.push, .push, .add "p" "urn:U", .pop, .push, .add "q" "urn:Q"] : List StackOp).foldl stackStep {}).abs
    = [[⟨"q", "urn:Q"⟩], []] := by decide

/-! ## after the proposed repairs (`Variant` flags `true`) and the remaining planned theorems -/

/-- **the invented prefix is always unbound** (`getUniqueNamespaceValue`): pigeonhole over the declared prefixes —
`declCount + 1` distinct candidates `ns<k>` cannot all be bound by `declCount` declarations, so the model's fuel is
enough and the C++ `do … while` terminates with a fresh prefix. -/
theorem unique_prefix_is_fresh (s : St) : s.resultNs (s.unique).1 = none := St.unique_unbound s

example : ({} : St).resultNs (({} : St).unique).1 = none := by decide

/-- with `C14-attr-declare-own-prefix.diff` the no-namespace branch needs no side condition any more: whatever is
bound in the result, the attribute's final prefix is bound to the stylesheet namespace `U`. -/
theorem no_undeclared_prefix_fixed (s : St) (name : QN) (U value : String)
    (hpend : s.isElementPending = true) (hp0 : name.pfx ≠ "") (hp1 : name.pfx ≠ "xmlns")
    (hxml : s.attrIsXmlName name = false) (hp2 : name.pfx ≠ "xml")
    (hU : U ≠ "") (hctx : s.ns.createNew ≠ []) (hv : s.v.ownPrefixDecl = true) :
    ∃ q : QN, ⟨q, value⟩ ∈ (s.elemAttribute name none (some U) value).1.pendAtts ∧ q.loc = name.loc ∧ q.pfx ≠ "" ∧
      (s.elemAttribute name none (some U) value).1.resultNs q.pfx = some U := by
  have key : ∀ (t : St) (p : String), t.ns.createNew ≠ [] → p ≠ "" → p ≠ "xml" → p ≠ "xmlns" →
      let t' := (t.addResultAttribute ⟨"xmlns", p⟩ U).addResultAttribute ⟨p, name.loc⟩ value
      (⟨⟨p, name.loc⟩, value⟩ : Att) ∈ t'.pendAtts ∧ t'.resultNs p = some U := by
    intro t p hc h0 h1 h2 t'
    have hpl : t' = (t.addResultAttribute ⟨"xmlns", p⟩ U).addAtt ⟨p, name.loc⟩ value := by
      apply St.addResultAttribute_plain
      · exact h2
      · intro e; injection e with e1 _; exact h0 e1
    constructor
    · rw [hpl]; exact mem_addAttribute _ _ _
    · rw [hpl]; exact St.resultNs_after_decl t p U hc h1 h2
  have key2 : ∀ (t : St) (p : String), p ≠ "" → p ≠ "xmlns" → t.v.ownPrefixDecl = true →
      t.attrNeedDecl p U = false →
      (⟨⟨p, name.loc⟩, value⟩ : Att) ∈ (t.addResultAttribute ⟨p, name.loc⟩ value).pendAtts ∧
        (t.addResultAttribute ⟨p, name.loc⟩ value).resultNs p = some U := by
    intro t p h0 h2 htv hnd
    have hpl := St.addResultAttribute_plain t ⟨p, name.loc⟩ value false h2
      (by intro e; injection e with e1 _; exact h0 e1)
    have hb : t.resultNs p = some U := by
      simp [St.attrNeedDecl, htv] at hnd
      exact hnd
    rw [hpl]
    exact ⟨mem_addAttribute _ _ _, hb⟩
  have hname : name ≠ ⟨"", "xmlns"⟩ := by intro e; apply hp0; rw [e]
  unfold St.elemAttribute
  have hcond : (s.isElementPending && decide (name ≠ ⟨"", "xmlns"⟩)) = true := by simp [hpend, hname]
  simp only [hcond, hxml, hp0, hU, if_true, if_false, Bool.false_eq_true]
  obtain ⟨j, hj⟩ := St.unique_prefix s
  have hne := ns_prefix_ne (toString j)
  rw [← hj] at hne
  by_cases hc : s.attrNoNsConflict name U = true
  · rw [if_pos hc]
    by_cases hnd : s.unique.2.attrNeedDecl s.unique.1 U = true
    · rw [if_pos hnd]
      have := key s.unique.2 s.unique.1 (by rw [St.unique_ns]; exact hctx) hne.2.2 hne.1 hne.2.1
      exact ⟨⟨s.unique.1, name.loc⟩, this.1, rfl, hne.2.2, this.2⟩
    · rw [if_neg hnd]
      have := key2 s.unique.2 s.unique.1 hne.2.2 hne.2.1 hv (by simpa using hnd)
      exact ⟨⟨s.unique.1, name.loc⟩, this.1, rfl, hne.2.2, this.2⟩
  · rw [if_neg hc]
    by_cases hnd : s.attrNeedDecl name.pfx U = true
    · rw [if_pos hnd]
      have := key s name.pfx hctx hp0 hp2 hp1
      exact ⟨name, this.1, rfl, hp0, this.2⟩
    · rw [if_neg hnd]
      have := key2 s name.pfx hp0 hp1 hv (by simpa using hnd)
      exact ⟨name, this.1, rfl, hp0, this.2⟩

/-- the repaired tree on the witness of `no_undeclared_prefix_counterexample`: `xmlns:ns0` is now declared -/
example :
    let s := run { v := { ownPrefixDecl := true } } [.lreStart ⟨"", "r"⟩ [⟨"p", "urn:U"⟩, ⟨"q", "urn:U"⟩] none,
                     .elemElementStart ⟨"p", "e"⟩ (some "urn:Uprime") (some "urn:U") none "",
                     .elemAttribute ⟨"p", "x"⟩ none (some "urn:U") "3"]
    s.pendAtts = [⟨⟨"xmlns", "p"⟩, "urn:Uprime"⟩, ⟨⟨"xmlns", "ns0"⟩, "urn:U"⟩, ⟨⟨"ns0", "x"⟩, "3"⟩] := by decide

/-- `getPrefixForNamespace` after `C14-prefix-for-namespace-skips-shadowed.diff` only returns prefixes that still
resolve to the namespace -/
theorem prefix_lookup_sound_fixed (s : St) (hv : s.v.shadowCheck = true) (N p : String)
    (h : s.resultPrefix N = some p) : s.resultNs p = some N := by
  simp only [St.resultPrefix, hv, if_true] at h
  unfold RNS.prefixForNsChecked at h
  split at h
  · cases h
  · obtain ⟨f, _, hf⟩ := List.exists_of_findSome?_eq_some h
    cases hfind : f.find? (fun n => n.uri = N && s.ns.nsForPrefix n.pfx == some N) with
    | none => simp [hfind] at hf
    | some n =>
      have hp := List.find?_some hfind
      simp [hfind] at hf
      simp at hp
      subst hf
      exact hp.2

/-- with that repair `names_resolve_attr_ns_partial` holds without the shadowing hypothesis -/
theorem names_resolve_attr_ns_fixed (s : St) (name : QN) (N value : String) (ssNs : Option String)
    (hN : N ≠ "") (hN' : N ≠ xmlnsURI) (hctx : s.ns.createNew ≠ [])
    (hxml : name.pfx ≠ "xml" ∨ (s.v.xmlPrefixExact = true ∧ N ≠ xmlURI))
    (hlate : (s.v.lateAttrCheck && !s.isElementPending) = false) (hv : s.v.shadowCheck = true) :
    ∃ q : QN, ⟨q, value⟩ ∈ (s.elemAttribute name (some N) ssNs value).1.pendAtts ∧ q.loc = name.loc ∧ q.pfx ≠ "" ∧
      (s.elemAttribute name (some N) ssNs value).1.resultNs q.pfx = some N :=
  names_resolve_attr_ns_partial s name N value ssNs hN hN' hctx hxml hlate
    (fun p h => prefix_lookup_sound_fixed s hv N p h)

example :
    let s := run { v := { shadowCheck := true } } [.lreStart ⟨"", "r"⟩ [⟨"p", "urn:N"⟩] none,
                     .elemElementStart ⟨"p", "e"⟩ (some "urn:M") (some "urn:N") none "",
                     .elemAttribute ⟨"", "x"⟩ (some "urn:N") none "3"]
    s.pendAtts = [⟨⟨"xmlns", "p"⟩, "urn:M"⟩, ⟨⟨"xmlns", "ns0"⟩, "urn:N"⟩, ⟨⟨"ns0", "x"⟩, "3"⟩] := by decide

/-- with `C14-late-attribute-needs-pending-element.diff` an xsl:attribute (with or without namespace) that finds no
pending start tag leaves the engine untouched — nothing can leak to the next element. -/
theorem late_attribute_ignored_fixed (s : St) (name : QN) (nsAvt ssNs : Option String) (value : String)
    (hv : s.v.lateAttrCheck = true) (hp : s.isElementPending = false) :
    (s.elemAttribute name nsAvt ssNs value).1 = s := by
  unfold St.elemAttribute
  cases nsAvt <;> simp [hv, hp]

/-- with `C14-element-empty-namespace.diff`, `xsl:element name="p:l" namespace=""` opens an element named `l` -/
theorem element_empty_namespace_fixed (s : St) (name : QN) (hNs hDefault : Option String) (pd : String)
    (hv : s.v.emptyNsStrips = true) :
    (s.elemElementStart name (some "") hNs hDefault pd).2.1 = some ⟨"", name.loc⟩ ∧
      (s.elemElementStart name (some "") hNs hDefault pd).1.pendName = some ⟨"", name.loc⟩ := by
  unfold St.elemElementStart
  simp only [hv, Bool.true_and, decide_true, if_true, Option.getD_some, ne_eq, not_true_eq_false,
    decide_false, if_false, Bool.false_eq_true, Option.isNone_some, Bool.false_and, Bool.not_false,
    Bool.not_true]
  constructor
  · trivial
  · split <;> simp [St.pendName_addResultAttribute, St.startElement]

/-- `NamespacesHandler::processExcludeResultPrefixes(prefix, checker)` (compile time): every namespace declaration
a literal result element keeps for output is the element's own prefix, a prefix used by one of its attributes, or has
a URI that is not excluded — i.e. an excluded namespace is emitted only where it is needed. -/
theorem excluded_not_emitted (h : Handler) (elemPrefix : String) (active : List String) :
    ∀ n ∈ (h.processExcluded elemPrefix active).decls,
      n.pfx = elemPrefix ∨ n.pfx ∈ active ∨ h.isExcludedURI n.uri = false := by
  intro n hn
  unfold Handler.processExcluded at hn
  split at hn
  · rename_i he
    right; right
    simp only [List.isEmpty_iff] at he
    simp [Handler.isExcludedURI, he]
  · simp only [List.mem_filter] at hn
    have := hn.2
    by_cases h1 : n.pfx = elemPrefix
    · exact Or.inl h1
    · by_cases h2 : n.pfx ∈ active
      · exact Or.inr (Or.inl h2)
      · right; right
        simp [h1, h2] at this
        exact this

example : (({ excluded := [⟨"p", "urn:a"⟩], decls := [⟨"p", "urn:a"⟩, ⟨"q", "urn:a"⟩, ⟨"r", "urn:b"⟩] } : Handler).processExcluded
    "q" []).decls = [⟨"q", "urn:a"⟩, ⟨"r", "urn:b"⟩] := by decide


/-! ## namespace aliases; whole instruction trees -/

/-- `NamespacesHandler::processNamespaceAliases`: after it, no namespace declaration that a literal result element
outputs still carries the stylesheet side of an `xsl:namespace-alias` (provided no alias target is itself aliased),
and every output declaration is the original one with its URI sent through the alias table. -/
theorem alias_replaced (h : Handler) (hchain : ∀ a ∈ h.aliases, h.aliasOf a.2 = none) :
    (∀ n ∈ h.processAliases.decls, h.aliasOf n.uri = none) ∧
      h.processAliases.decls.map (·.pfx) = h.decls.map (·.pfx) := by
  constructor
  · intro n hn
    simp only [Handler.processAliases, List.mem_map] at hn
    obtain ⟨m, _, hm⟩ := hn
    cases ha : h.aliasOf m.uri with
    | none => simp only [ha] at hm; subst hm; exact ha
    | some a =>
      simp only [ha] at hm; subst hm
      simp only [Handler.aliasOf, Option.map_eq_some_iff] at ha
      obtain ⟨pr, hfind, hpr⟩ := ha
      have := hchain pr (List.mem_of_find?_eq_some hfind)
      rw [hpr] at this
      exact this
  · simp only [Handler.processAliases, List.map_map]
    apply List.map_congr_left
    intro n _
    simp only [Function.comp]
    cases h.aliasOf n.uri <;> rfl

example : (({ decls := [⟨"p", "urn:U"⟩, ⟨"q", "urn:V"⟩], aliases := [("urn:U", "urn:V")] } : Handler).processAliases).decls
    = [⟨"p", "urn:V"⟩, ⟨"q", "urn:V"⟩] := by decide



theorem nq_ara {s : St} (n v fc) (h : NodupQ s) : NodupQ (s.addResultAttribute n v fc) :=
  St.nodup_addResultAttribute s n v fc h
theorem nq_flush {s : St} (h : NodupQ s) : NodupQ s.flushPending := by
  unfold St.flushPending; split
  · simp [NodupQ]
  · exact h

theorem nq_cloneAttr {s : St} (name uri value) (h : NodupQ s) : NodupQ (s.cloneAttribute name uri value).1 := by
  unfold St.cloneAttribute
  repeat' split
  all_goals first
    | exact h
    | exact nq_ara _ _ _ h
    | exact nq_ara _ _ _ (nq_ara _ _ _ h)
    | exact nq_ara _ _ _ (nq_ara (s := s.unique.2) _ _ _ h)

theorem nq_goAtts (atts : List Att) : ∀ (s : St) (vis : List QN), NodupQ s →
    NodupQ (St.copyNamespaceAttributes.goAtts s vis atts).1 := by
  induction atts with
  | nil => intro s vis h; exact h
  | cons a as ih =>
    intro s vis h
    unfold St.copyNamespaceAttributes.goAtts
    split
    · exact ih s vis h
    · apply ih
      exact pending_attrs_nodup_qname [.addResultNamespace a] s h

theorem nq_goChain (chain : List (List Att)) : ∀ (s : St) (vis : List QN), NodupQ s →
    NodupQ (St.copyNamespaceAttributes.goChain s vis chain) := by
  induction chain with
  | nil => intro s vis h; exact h
  | cons a as ih =>
    intro s vis h
    unfold St.copyNamespaceAttributes.goChain
    exact ih _ _ (nq_goAtts a s vis h)

theorem nq_cna {s : St} (chain) (h : NodupQ s) : NodupQ (s.copyNamespaceAttributes chain) :=
  nq_goChain chain s [] h

theorem nq_clone {s : St} (name uri chain b) (h : NodupQ s) : NodupQ (s.cloneElementStart name uri chain b) := by
  unfold St.cloneElementStart
  have h1 : NodupQ (s.startElement name) := pending_attrs_nodup_qname [.startElement name] s h
  split
  · exact pending_attrs_nodup_qname [.checkDefaultNamespace name uri] _
      (nq_cna chain (pending_attrs_nodup_qname [.addAtts (chain.headD [])] _ h1))
  · exact pending_attrs_nodup_qname [.checkDefaultNamespace name uri] _ h1

theorem nq_cloneTree : (∀ (chain : List (List Att)) (s : St) (t : Src), NodupQ s → NodupQ (cloneTree chain s t)) := by
  intro chain s t
  refine cloneTree.induct (motive_1 := fun chain s t => NodupQ s → NodupQ (cloneTree chain s t))
    (motive_2 := fun chain s ts => NodupQ s → NodupQ (cloneList chain s ts)) ?_ ?_ ?_ chain s t
  · intro chain s name uri atts kids ih h
    unfold cloneTree
    exact pending_attrs_nodup_qname [.endElement name] _ (ih (nq_clone _ _ _ _ h))
  · intro chain s h; unfold cloneList; exact h
  · intro chain s k ks ih1 ih2 h
    unfold cloneList
    exact ih2 (ih1 h)


theorem nq_addLiteralAtt {s : St} (a : Att) (ss : Option String) (h : NodupQ s) : NodupQ (s.addLiteralAtt a ss) := by
  unfold St.addLiteralAtt
  repeat' split
  all_goals first
    | exact nq_ara _ _ _ h
    | exact nq_ara _ _ _ (nq_ara (s := s.unique.2) _ _ _ h)

theorem nq_addLiteralAtts (hd : Handler) (as : List Att) : ∀ (s : St), NodupQ s → NodupQ (addLiteralAtts hd s as) := by
  induction as with
  | nil => intro s h; exact h
  | cons a as ih => intro s h; unfold addLiteralAtts; exact ih _ (nq_addLiteralAtt a _ h)

theorem nq_cloneList (chain : List (List Att)) (ts : List Src) : ∀ (s : St), NodupQ s → NodupQ (cloneList chain s ts) := by
  induction ts with
  | nil => intro s h; unfold cloneList; exact h
  | cons t ts ih => intro s h; unfold cloneList; exact ih _ (nq_cloneTree chain s t h)

theorem nq_execSetAttrs (env : Env) (as : List SetAttr) : ∀ (r : Run), NodupQ r.st → NodupQ (execSetAttrs env r as).st := by
  induction as with
  | nil => intro r h; exact h
  | cons a as ih =>
    intro r h
    unfold execSetAttrs
    exact ih _ (pending_attrs_nodup_qname [.elemAttribute a.name a.ns _ a.value] _ h)

theorem nq_execSets (env : Env) (ks : List Nat) : ∀ (r : Run), NodupQ r.st → NodupQ (execSets env r ks).st := by
  induction ks with
  | nil => intro r h; exact h
  | cons k ks ih =>
    intro r h
    unfold execSets
    exact ih _ (nq_execSetAttrs env _ r h)

theorem exec_nodup_both :
    (∀ (env : Env) (r : Run) (i : Instr), NodupQ r.st → NodupQ (exec env r i).st) ∧
      ∀ (env : Env) (r : Run) (b : Bool) (is : List Instr), NodupQ r.st → NodupQ (execList env r b is).st := by
  refine exec.mutual_induct
    (motive_1 := fun env r i => NodupQ r.st → NodupQ (exec env r i).st)
    (motive_2 := fun env r b is => NodupQ r.st → NodupQ (execList env r b is).st)
    ?_ ?_ ?_ ?_ ?_ ?_ ?_ ?_ ?_ ?_ ?_ ?_ ?_ ?_ ?_ ?_ ?_ ?_ ?_ ?_ ?_ ?_ ?_
  all_goals (try dsimp only)
  · intro env r h; unfold exec; exact pending_attrs_nodup_qname [.characters] _ h
  · intro env r name ns value h; unfold exec
    exact pending_attrs_nodup_qname [.elemAttribute name ns _ value] _ h
  · intro env r name ns body hnone ih h
    unfold exec
    simp only [hnone]
    exact ih (pending_attrs_nodup_qname [.elemElementStart name ns _ _ _] _ h)
  · intro env r name ns body n hsome ih h
    unfold exec
    simp only [hsome]
    exact pending_attrs_nodup_qname [.endElement n] _
      (ih (pending_attrs_nodup_qname [.elemElementStart name ns _ _ _] _ h))
  · intro env r ks h
    unfold exec
    exact nq_execSets env ks r h
  · intro env r k body ih h
    unfold exec
    exact h
  · intro env r k f hf h
    unfold exec
    simp only [hf]
    exact nq_cloneList _ _ _ h
  · intro env r k hf h
    unfold exec
    simp only [hf]; exact h
  · intro env r k body stk th hk ih h
    unfold exec
    simp only [hk]
    exact ih h
  · intro env r k body hk h
    unfold exec
    simp only [hk]; exact h
  · intro env r name nsdecls atts excl use body hnone h
    unfold exec
    simp only [hnone]; exact h
  · intro env r name nsdecls atts excl use body h1 hsome ih h
    unfold exec
    simp only [hsome]
    exact pending_attrs_nodup_qname [.endElement name] _
      (ih (nq_addLiteralAtts _ _ _
        (nq_execSets env use _ (pending_attrs_nodup_qname [.lreStart name _ _] _ h))))
  · intro env r k t chain hk h
    unfold exec
    simp only [hk]
    exact nq_cloneTree _ _ _ h
  · intro env r k hk h
    unfold exec
    simp only [hk]; exact h
  · intro env r k body name uri atts kids chain hk ih h
    unfold exec
    simp only [hk]
    exact pending_attrs_nodup_qname [.endElement name] _ (ih (nq_cna _ (nq_clone _ _ _ _ h)))
  · intro env r k body hk h
    unfold exec
    simp only [hk]; exact h
  · intro env r k name t chain hk a ha h
    unfold exec
    simp only [hk, ha]
    exact nq_cloneAttr _ _ _ h
  · intro env r k name t chain hk ha h
    unfold exec
    simp only [hk, ha]; exact h
  · intro env r k name hk h
    unfold exec
    simp only [hk]; exact h
  · intro env r b h; unfold execList; exact h
  · intro env r name ns value is ih h
    unfold execList; simp only [if_true]; exact ih h
  · intro env r b name ns value is hb ih1 ih2 h
    unfold execList
    rw [if_neg hb]
    exact ih2 (ih1 h)
  · intro env r b i is hne ih1 ih2 h
    unfold execList
    split
    · rename_i heq; cases heq
    · rename_i heq
      injection heq with e1 e2
      exact absurd e1 (hne _ _ _)
    · rename_i heq
      injection heq with e1 e2
      subst e1; subst e2
      exact ih2 (ih1 h)

/-- **whole stylesheets**: executing any instruction tree (literal elements, xsl:element, xsl:attribute, text,
copy-of and for-each/copy of source elements, to any depth) from a state whose pending qnames are distinct never
produces a start tag with two attributes of one qname. -/
theorem exec_pending_attrs_nodup_qname (env : Env) (r : Run) (b : Bool) (is : List Instr) (h : NodupQ r.st) :
    NodupQ (execList env r b is).st := exec_nodup_both.2 env r b is h



/-! ## copied attribute nodes -/

/-- **copied attribute nodes** after `C14-copied-attribute-prefix-declared.diff` (and the shadow repair): a namespaced
attribute copied onto a pending element ends up with its local name and a prefix that the engine binds to the
attribute's namespace — whether the source prefix was free, already right, or taken by another namespace. -/
theorem copied_attribute_resolves_fixed (s : St) (name : QN) (uri value : String)
    (hv : s.v.copyAttrNs = true) (hs : s.v.shadowCheck = true) (hpend : s.isElementPending = true)
    (hu : uri ≠ "") (hx : uri ≠ xmlURI) (hx' : uri ≠ xmlnsURI) (hp : name.pfx ≠ "") (hctx : s.ns.createNew ≠ []) :
    ∃ q : QN, ⟨q, value⟩ ∈ (s.cloneAttribute name uri value).1.pendAtts ∧ q.loc = name.loc ∧
      (s.cloneAttribute name uri value).1.resultNs q.pfx = some uri := by
  have plain : ∀ (t : St) (p : String) (fc : Bool), p ≠ "" → p ≠ "xmlns" →
      t.addResultAttribute ⟨p, name.loc⟩ value fc = t.addAtt ⟨p, name.loc⟩ value := by
    intro t p fc h0 h2
    exact St.addResultAttribute_plain t ⟨p, name.loc⟩ value fc h2 (by intro e; injection e with e1 _; exact h0 e1)
  have notxmlns : ∀ p, s.resultNs p = some uri → p ≠ "xmlns" := by
    intro p hb e; subst e
    simp [St.resultNs, RNS.nsForPrefix] at hb
    exact hx' hb.symm
  have invent : ∃ q : QN, ⟨q, value⟩ ∈ ((s.unique.2.addResultAttribute ⟨"xmlns", s.unique.1⟩ uri).addResultAttribute
        ⟨s.unique.1, name.loc⟩ value).pendAtts ∧ q.loc = name.loc ∧
      ((s.unique.2.addResultAttribute ⟨"xmlns", s.unique.1⟩ uri).addResultAttribute
        ⟨s.unique.1, name.loc⟩ value).resultNs q.pfx = some uri := by
    obtain ⟨j, hj⟩ := St.unique_prefix s
    have hne := ns_prefix_ne (toString j)
    rw [← hj] at hne
    rw [plain _ _ _ hne.2.2 hne.2.1]
    exact ⟨⟨s.unique.1, name.loc⟩, mem_addAttribute _ _ _, rfl,
      St.resultNs_after_decl s.unique.2 s.unique.1 uri (by rw [St.unique_ns]; exact hctx) hne.1 hne.2.1⟩
  unfold St.cloneAttribute
  simp only [hpend, hu, hp, hx, hv, Bool.not_true, Bool.false_eq_true, if_false, Bool.or_self, decide_false]
  cases hb : s.resultNs name.pfx with
  | none =>
    dsimp only
    have h1 : name.pfx ≠ "xml" := by intro e; simp [St.resultNs, RNS.nsForPrefix, e] at hb
    have h2 : name.pfx ≠ "xmlns" := by intro e; simp [St.resultNs, RNS.nsForPrefix, e] at hb
    have e : (⟨name.pfx, name.loc⟩ : QN) = name := rfl
    rw [← e, plain _ _ _ hp h2]
    exact ⟨⟨name.pfx, name.loc⟩, mem_addAttribute _ _ _, rfl, St.resultNs_after_decl s name.pfx uri hctx h1 h2⟩
  | some b =>
    dsimp only
    by_cases hbu : b = uri
    · subst hbu
      rw [if_pos rfl]
      have e : (⟨name.pfx, name.loc⟩ : QN) = name := rfl
      rw [← e, plain _ _ _ hp (notxmlns _ hb)]
      exact ⟨⟨name.pfx, name.loc⟩, mem_addAttribute _ _ _, rfl, hb⟩
    · rw [if_neg hbu]
      cases hr : s.resultPrefix uri with
      | none => exact invent
      | some p2 =>
        dsimp only
        by_cases hp2 : p2 = ""
        · simp only [hp2, ne_eq, not_true_eq_false, if_false]
          exact invent
        · simp only [ne_eq, hp2, not_false_eq_true, if_true]
          have hb2 := prefix_lookup_sound_fixed s hs uri p2 hr
          rw [plain _ _ _ hp2 (notxmlns _ hb2)]
          exact ⟨⟨p2, name.loc⟩, mem_addAttribute _ _ _, rfl, hb2⟩

/-- the tree as first analysed: the copied attribute keeps a prefix the result does not bind
(`<out><xsl:copy-of select="//c/@q:x"/></out>`; replayed on the real library: C14-copied-attribute-prefix-not-declared) -/
theorem copied_attribute_counterexample :
    let s := run {} [.lreStart ⟨"", "out"⟩ [⟨"p", "urn:p"⟩] none]
    (s.cloneAttribute ⟨"q", "x"⟩ "urn:p" "abc").1.pendAtts = [⟨⟨"xmlns", "p"⟩, "urn:p"⟩, ⟨⟨"q", "x"⟩, "abc"⟩] ∧
      (s.cloneAttribute ⟨"q", "x"⟩ "urn:p" "abc").1.resultNs "q" = none := by decide

example :
    let s := run { v := { copyAttrNs := true, shadowCheck := true } } [.lreStart ⟨"", "o2"⟩ [⟨"z", "urn:other"⟩, ⟨"p", "urn:p"⟩] none]
    (s.cloneAttribute ⟨"z", "y"⟩ "urn:z" "1").1.pendAtts =
      [⟨⟨"xmlns", "z"⟩, "urn:other"⟩, ⟨⟨"xmlns", "p"⟩, "urn:p"⟩, ⟨⟨"xmlns", "ns0"⟩, "urn:z"⟩, ⟨⟨"ns0", "y"⟩, "1"⟩] := by decide

/-! ## round 5: the last repairs -/

theorem mem_of_mem_dedupLast {κ : Type} [DecidableEq κ] (key : Att → Option κ) (l : List Att) (b : Att) :
    b ∈ dedupLast key l → b ∈ l := by
  induction l with
  | nil => intro h; exact h
  | cons a as ih =>
    unfold dedupLast
    split
    · split
      · intro h; exact List.mem_cons_of_mem _ (ih h)
      · intro h
        rcases List.mem_cons.mp h with e | h
        · exact e ▸ List.mem_cons_self
        · exact List.mem_cons_of_mem _ (ih h)
    · intro h
      rcases List.mem_cons.mp h with e | h
      · exact e ▸ List.mem_cons_self
      · exact List.mem_cons_of_mem _ (ih h)

theorem dedupLast_keys_nodup {κ : Type} [DecidableEq κ] (key : Att → Option κ) (l : List Att) :
    ((dedupLast key l).filterMap key).Nodup := by
  induction l with
  | nil => simp [dedupLast]
  | cons a as ih =>
    unfold dedupLast
    split
    · rename_i k hk
      split
      · exact ih
      · rename_i hany
        simp only [List.filterMap_cons, hk]
        refine List.nodup_cons.mpr ⟨?_, ih⟩
        intro hm
        obtain ⟨b, hb, hkb⟩ := List.mem_filterMap.mp hm
        apply hany
        exact List.any_eq_true.mpr ⟨b, mem_of_mem_dedupLast key as b hb, by simp [hkb]⟩
    · rename_i hk
      simp only [List.filterMap_cons, hk]
      exact ih

/-- **no two attributes of a delivered start tag have the same expanded name** once
`C14-replace-attribute-with-same-expanded-name.diff` is in: whatever the pending attributes are, the attribute list
handed to the FormatterListener has pairwise distinct (namespace URI as resolved by the engine at that moment, local name)
pairs among its namespaced attributes (un-prefixed attributes are distinct by `pending_attrs_nodup_qname`). -/
theorem no_duplicate_expanded_attr_fixed (s : St) (n : QN) (hv : s.v.dedupExpanded = true) (hp : s.pendName = some n) :
    ∃ atts, s.flushPending.out.head? = some (Ev.start n atts) ∧ (atts.filterMap s.attKey).Nodup ∧
      ∀ a ∈ atts, a ∈ s.pendAtts := by
  refine ⟨dedupLast s.attKey s.pendAtts, ?_, dedupLast_keys_nodup _ _, fun a h => mem_of_mem_dedupLast _ _ _ h⟩
  simp [St.flushPending, hp, hv]

/-- the witness of `no_duplicate_expanded_attr_counterexample` on the repaired tree: only `q:x` is delivered -/
example :
    let s := run { v := { dedupExpanded := true } } [.lreStart ⟨"", "r"⟩ [⟨"p", "urn:U"⟩, ⟨"q", "urn:U"⟩] none,
                     .addAtts [⟨⟨"p", "x"⟩, "1"⟩],
                     .elemAttribute ⟨"q", "x"⟩ none (some "urn:U") "2", .flush]
    s.out.head? = some (Ev.start ⟨"", "r"⟩ [⟨⟨"xmlns", "p"⟩, "urn:U"⟩, ⟨⟨"xmlns", "q"⟩, "urn:U"⟩, ⟨⟨"q", "x"⟩, "2"⟩]) := by decide

/-- **literal attributes** with `C14-literal-attribute-keeps-namespace.diff` (and the shadow-safe look-up): whatever an
attribute set did to the prefix on the pending element, the literal attribute ends up with a prefix bound to the
namespace `n` it has in the stylesheet. -/
theorem literal_attribute_keeps_namespace_fixed (s : St) (a : Att) (n b : String)
    (hv : s.v.literalAttrResolve = true) (hs : s.v.shadowCheck = true)
    (hp0 : a.name.pfx ≠ "") (hp1 : a.name.pfx ≠ "xmlns") (hp2 : a.name.pfx ≠ "xml")
    (hn : n ≠ xmlnsURI) (hb : s.resultNs a.name.pfx = some b) (hctx : s.ns.createNew ≠ []) :
    ∃ q : QN, ⟨q, a.val⟩ ∈ (s.addLiteralAtt a (some n)).pendAtts ∧ q.loc = a.name.loc ∧
      (s.addLiteralAtt a (some n)).resultNs q.pfx = some n := by
  have plain : ∀ (t : St) (p : String), p ≠ "" → p ≠ "xmlns" →
      t.addResultAttribute ⟨p, a.name.loc⟩ a.val = t.addAtt ⟨p, a.name.loc⟩ a.val := by
    intro t p h0 h2
    exact St.addResultAttribute_plain t ⟨p, a.name.loc⟩ a.val false h2 (by intro e; injection e with e1 _; exact h0 e1)
  have notxmlns : ∀ p, s.resultNs p = some n → p ≠ "xmlns" := by
    intro p hb e; subst e
    simp [St.resultNs, RNS.nsForPrefix] at hb
    exact hn hb.symm
  have invent : ∃ q : QN, ⟨q, a.val⟩ ∈ ((s.unique.2.addResultAttribute ⟨"xmlns", s.unique.1⟩ n).addResultAttribute
        ⟨s.unique.1, a.name.loc⟩ a.val).pendAtts ∧ q.loc = a.name.loc ∧
      ((s.unique.2.addResultAttribute ⟨"xmlns", s.unique.1⟩ n).addResultAttribute
        ⟨s.unique.1, a.name.loc⟩ a.val).resultNs q.pfx = some n := by
    obtain ⟨j, hj⟩ := St.unique_prefix s
    have hne := ns_prefix_ne (toString j)
    rw [← hj] at hne
    rw [plain _ _ hne.2.2 hne.2.1]
    exact ⟨⟨s.unique.1, a.name.loc⟩, mem_addAttribute _ _ _, rfl,
      St.resultNs_after_decl s.unique.2 s.unique.1 n (by rw [St.unique_ns]; exact hctx) hne.1 hne.2.1⟩
  unfold St.addLiteralAtt
  simp only [hv, hp0, hp1, hp2, Bool.not_true, Bool.false_eq_true, Bool.or_self, decide_false, if_false, hb]
  by_cases hnb : n = b
  · subst hnb
    rw [if_pos rfl]
    have e : a.name = ⟨a.name.pfx, a.name.loc⟩ := rfl
    rw [e, plain _ _ hp0 hp1]
    exact ⟨⟨a.name.pfx, a.name.loc⟩, mem_addAttribute _ _ _, rfl, hb⟩
  · rw [if_neg hnb]
    cases hr : s.resultPrefix n with
    | none => exact invent
    | some p2 =>
      dsimp only
      by_cases hp2' : p2 = ""
      · simp only [hp2', ne_eq, not_true_eq_false, if_false]
        exact invent
      · simp only [ne_eq, hp2', not_false_eq_true, if_true]
        have hb2 := prefix_lookup_sound_fixed s hs n p2 hr
        rw [plain _ _ hp2' (notxmlns _ hb2)]
        exact ⟨⟨p2, a.name.loc⟩, mem_addAttribute _ _ _, rfl, hb2⟩

/-- the witness of finding 11 on the model: the set re-binds `ns0`, the literal `ns0:x` is re-prefixed -/
example :
    let s0 : St := { v := { literalAttrResolve := true, shadowCheck := true } }
    let s := run s0 [.lreStart ⟨"", "e"⟩ [⟨"ns0", "urn:c"⟩] none, .lreStart ⟨"", "e"⟩ [] none,
                     .elemAttribute ⟨"ns0", "x"⟩ (some "urn:b") (some "urn:c") "u3"]
    (s.addLiteralAtt ⟨⟨"ns0", "x"⟩, "w1"⟩ (some "urn:c")).pendAtts =
      [⟨⟨"xmlns", "ns0"⟩, "urn:b"⟩, ⟨⟨"ns0", "x"⟩, "u3"⟩, ⟨⟨"xmlns", "ns1"⟩, "urn:c"⟩, ⟨⟨"ns1", "x"⟩, "w1"⟩] := by decide

/-- `NamespacesHandler` with `C14-handler-own-bindings-first.diff`: (i) a prefix the element itself declares for output
resolves to that declaration whatever is in the (inherited) excluded list; (ii) every namespace URI excluded for the parent
stays excluded for the child, also where the child re-binds the prefix. -/
theorem handler_own_bindings_first_fixed (h : Handler) (hv : h.ownFirst = true) :
    (∀ n ∈ h.decls, (h.decls.find? (fun m => m.pfx = n.pfx)) = some n → h.getNamespace n.pfx = some n.uri) ∧
      ∀ (parent : List NS), ∀ n ∈ parent, (h.copyExcluded parent).isExcludedURI n.uri = true := by
  constructor
  · intro n _ hf
    simp [Handler.getNamespace, hv, hf]
  · intro parent n hn
    unfold Handler.copyExcluded
    have hne : parent.isEmpty = false := by
      cases parent with
      | nil => cases hn
      | cons _ _ => rfl
    simp only [hne, Bool.false_eq_true, if_false]
    split
    · simp only [Handler.isExcludedURI, List.any_eq_true]
      exact ⟨n, hn, by simp⟩
    · simp only [Handler.isExcludedURI, List.any_eq_true]
      cases hfind : (h.excluded.find? (fun m => m.pfx = n.pfx)) with
      | none =>
        refine ⟨n, List.mem_append_left _ (List.mem_filter.mpr ⟨hn, by simp [hfind]⟩), by simp⟩
      | some m =>
        by_cases hu : m.uri = n.uri
        · exact ⟨m, List.mem_append_right _ (List.mem_of_find?_eq_some hfind), by simp [hu]⟩
        · refine ⟨n, List.mem_append_left _ (List.mem_filter.mpr ⟨hn, ?_⟩), by simp⟩
          simp [hfind, hu]


/-! ## prefixes that merely start with "xml" -/

/-- with `C14-attribute-xml-prefix-exact.diff` a prefix such as `xmlq` is an ordinary prefix for `xsl:attribute` without a
namespace attribute, so `no_undeclared_prefix_fixed` applies to it (its hypothesis `attrIsXmlName = false` holds). -/
theorem xml_like_prefix_is_ordinary_fixed (s : St) (name : QN) (hv : s.v.xmlPrefixExact = true) (h : name.pfx ≠ "xml") :
    s.attrIsXmlName name = false := by
  simp [St.attrIsXmlName, hv, h]

/-- the code first analysed: `xsl:attribute name="xmlq:a"` (stylesheet `xmlq ↦ urn:b`, nothing declared in the result) is
added without any declaration — unbound prefix; and `name="xml:x" namespace="urn:c"` stays `xml:x` (replayed on the real
library). -/
theorem xml_like_prefix_counterexample :
    let s := run {} [.elemElementStart ⟨"", "f"⟩ none none none ""]
    (s.elemAttribute ⟨"xmlq", "a"⟩ none (some "urn:b") "v").1.pendAtts = [⟨⟨"xmlq", "a"⟩, "v"⟩] ∧
      (s.elemAttribute ⟨"xmlq", "a"⟩ none (some "urn:b") "v").1.resultNs "xmlq" = none ∧
      (s.elemAttribute ⟨"xml", "x"⟩ (some "urn:c") none "v").1.pendAtts = [⟨⟨"xml", "x"⟩, "v"⟩] := by decide

example :
    let s := run { v := { xmlPrefixExact := true, ownPrefixDecl := true } } [.elemElementStart ⟨"", "f"⟩ none none none ""]
    (s.elemAttribute ⟨"xmlq", "a"⟩ none (some "urn:b") "v").1.pendAtts = [⟨⟨"xmlns", "xmlq"⟩, "urn:b"⟩, ⟨⟨"xmlq", "a"⟩, "v"⟩] ∧
      (s.elemAttribute ⟨"xml", "x"⟩ (some "urn:c") none "v").1.pendAtts = [⟨⟨"xmlns", "ns0"⟩, "urn:c"⟩, ⟨⟨"ns0", "x"⟩, "v"⟩] := by
  decide


/-! ## namespace aliases across the import tree -/

/-- `NamespacesHandler::overrideNamespaceAliases` has **assignment** semantics: whatever the imported module declared, after
the push-down every alias of the importing module is in force there (`insert` instead of `operator[]=` — the seeded break —
falsifies the code side of this; the translator checks the source text, the correspondence run the behaviour). -/
theorem alias_override_assigns (imported importer : Table) (u v : String)
    (hk : (importer.map (·.1)).Nodup) (h : Table.lookup importer u = some v) :
    Table.lookup (tblOverride imported importer) u = some v := by
  rw [lookup_tblOverride _ _ _ hk, h]; rfl

/-- `copyNamespaceAliases` has **insert** semantics: what the destination already has is kept -/
theorem alias_copy_keeps (dst src : Table) (u v : String) (h : Table.lookup dst u = some v) :
    Table.lookup (tblCopy dst src) u = some v := by
  rw [lookup_tblCopy, h]; rfl

/-- **the alias with the highest import precedence wins** (XSLT 1.0 §7.1.1), for import trees of any depth and width:
(i) the table `Stylesheet::collectNamespaceAliases` builds for a module answers, for every namespace URI, with the
declaration of highest import precedence in that module's import tree (`ATree.spec`: the module itself before what it
imports, a later import before an earlier one); (ii) a module anywhere below that is handed this table by
`overrideNamespaceAliases` ends with exactly the same answers, whatever it or its imports declare. -/
theorem alias_highest_precedence_wins (root : ATree) (u : String) :
    Table.lookup root.collect u = root.spec u ∧
      ∀ (c : ATree), (∀ w, c.spec w ≠ none → root.spec w ≠ none) → ((root.collect).map (·.1)).Nodup →
        Table.lookup (tblOverride c.collect root.collect) u = root.spec u := by
  refine ⟨(collect_eq_spec u).1 root, ?_⟩
  intro c hcov hk
  exact pushdown_keeps_spec root.collect (fun w => root.spec w) (fun w => (collect_eq_spec w).1 root) hk c hcov u

/-- a three-level tree with competing and chained aliases: main `a↦m`; first import `a↦x, b↦c` importing a module with
`a↦y, d↦e`; second import `b↦z, c↦k`.  Highest precedence: `a↦m` (main), `b↦z` (later import), `c↦k`, `d↦e`. -/
example :
    let t := ATree.node [("a", "m")]
      [ATree.node [("a", "x"), ("b", "c")] [ATree.node [("a", "y"), ("d", "e")] []],
       ATree.node [("b", "z"), ("c", "k")] []]
    (["a", "b", "c", "d", "q"].map (fun u => t.spec u)) = [some "m", some "z", some "k", some "e", none] ∧
      (["a", "b", "c", "d", "q"].map (Table.lookup t.collect)) = [some "m", some "z", some "k", some "e", none] := by
  decide

/-- the executable (flattened, fuel-driven) model used by the driver computes the same tables on that tree: with the
collect-first repair every module ends with the precedence table; the code before it gives the first import the table
`a↦m, b↦c` (it never sees `b↦z` of the later import) -/
example :
    let mods : List Module := [⟨0, [], [], []⟩, ⟨0, [], [], []⟩, ⟨1, [], [], []⟩, ⟨0, [], [], []⟩]
    let own : List Table := [[("a", "m")], [("a", "x"), ("b", "c")], [("a", "y"), ("d", "e")], [("b", "z"), ("c", "k")]]
    ((postAliases mods true 5 0 own).map (fun t => ["a", "b", "c", "d"].map (Table.lookup t)))
        = List.replicate 4 [some "m", some "z", some "k", some "e"] ∧
      ((postAliases mods false 5 0 own).getD 1 []).lookup "b" = some "c" := by
  decide


/-! ## result tree fragments -/

theorem fragNsOf_isolated (chain : List (List Att)) (p : String) : (fragNsOf (fun _ => none) chain p).2 = false := by
  unfold fragNsOf
  split
  · rfl
  · split <;> rfl

theorem fragBuild_isolated_used (evs : List Ev) :
    ∀ (open_ : List (QN × List Att × List Src)) (top : List Src) (used : Bool),
      (fragBuild (fun _ => none) evs open_ top used).2 = used := by
  induction evs with
  | nil => intro o t u; rfl
  | cons e evs ih =>
    intro o t u
    cases e with
    | start n atts => unfold fragBuild; exact ih _ _ _
    | text => unfold fragBuild; exact ih _ _ _
    | stop n =>
      cases o with
      | nil => unfold fragBuild; exact ih _ _ _
      | cons hd rest =>
        obtain ⟨hn, ha, hk⟩ := hd
        unfold fragBuild
        cases rest with
        | nil => simp only [ih]; simp [fragNsOf_isolated]
        | cons r rs =>
          obtain ⟨pn, pa, pk⟩ := r
          simp only [ih]; simp [fragNsOf_isolated]

/-- **a fragment built in its own namespace scope is self-contained** (`C14-result-tree-fragment-own-namespace-scope.diff`):
when the enclosing result context contributes no bindings, every element and attribute name of the fragment is resolved by
declarations carried inside the fragment itself, so copying it elsewhere cannot change an expanded name through a prefix the
destination binds differently. -/
theorem fragment_self_contained_fixed (evs : List Ev) (open_ : List (QN × List Att × List Src)) (top : List Src) :
    (fragBuild (fun _ => none) evs open_ top false).2 = false :=
  fragBuild_isolated_used evs open_ top false


def rtfWitness : List Instr :=
  [.lre ⟨"", "out"⟩ [⟨"p", "urn:A"⟩] [] [] []
    [.rtfVar 1 [.lre ⟨"p", "x"⟩ [] [] [] [] []],
     .element ⟨"p", "inner"⟩ (some "urn:B") [.copyVar 1]]]

/-- the code first analysed builds the fragment on the live result namespaces stack: `<out xmlns:p="urn:A">`, variable
`<p:x/>`, copied under `<p:inner xmlns:p="urn:B">` — the copy carries no `xmlns:p`, so `p:x` is in `urn:B` (replayed on the
real library: C14-fragment-uses-enclosing-result-namespaces) -/
theorem fragment_depends_on_context_counterexample :
    (runCase {} [⟨0, [⟨"xsl", xsltURI⟩], [], []⟩] [] (Src.elem ⟨"", "doc"⟩ "" [] []) rtfWitness).st.out.reverse =
      [Ev.start ⟨"", "out"⟩ [⟨⟨"xmlns", "p"⟩, "urn:A"⟩], Ev.start ⟨"p", "inner"⟩ [⟨⟨"xmlns", "p"⟩, "urn:B"⟩],
       Ev.start ⟨"p", "x"⟩ [], Ev.stop ⟨"p", "x"⟩, Ev.stop ⟨"p", "inner"⟩, Ev.stop ⟨"", "out"⟩] := by decide +kernel

example :
    (runCase { rtfIsolatedNs := true } [⟨0, [⟨"xsl", xsltURI⟩], [], []⟩] [] (Src.elem ⟨"", "doc"⟩ "" [] []) rtfWitness).st.out.reverse =
      [Ev.start ⟨"", "out"⟩ [⟨⟨"xmlns", "p"⟩, "urn:A"⟩], Ev.start ⟨"p", "inner"⟩ [⟨⟨"xmlns", "p"⟩, "urn:B"⟩],
       Ev.start ⟨"p", "x"⟩ [⟨⟨"xmlns", "p"⟩, "urn:A"⟩], Ev.stop ⟨"p", "x"⟩, Ev.stop ⟨"p", "inner"⟩, Ev.stop ⟨"", "out"⟩] := by
  decide +kernel

end XalanModel.Props.C14
