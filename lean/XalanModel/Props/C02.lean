import XalanModel.Generated.C02_Recycle
import XalanModel.Generated.C02_NodeSetBuilders
import XalanModel.Generated.C02_ParentWalks
import XalanModel.Generated.C02_ScratchBuffers
import XalanModel.C02.CompileProofs
import XalanModel.C02.CompileWhole
import XalanModel.C02.CompareProofs
import XalanModel.C02.Predicates
import XalanModel.C02.Doc
import XalanModel.C02.AxesProofs
/-!
# C02 — XPath 1.0 expressions evaluate to the value the Recommendation defines

Property theorems only (helper lemmas: `XalanModel/C02/*Proofs.lean`).
-/
namespace XalanModel.Props.C02
open XalanModel.C02 XalanModel.Generated.C02

/-! ## Layer 1: the recursive-descent compiler — operator precedence and left associativity

Full statement (`compile_encodes`, *not yet proved*): for every well-formed tree `e` of the operator
fragment (`E.WF`), `compile e.toks = some (mk e.enc)`.  What is proved is its core, for *every*
one of the four left-associative layers at once and for every operand compiler: -/

/-- **Insert-at-saved-position gives left associativity** (`EqualityExpr(int)`, `RelationalExpr(int)`,
`AdditiveExpr(int)`, `MultiplicativeExpr(int)`; model `binLevel`).  Let `lower` compile each operand
of the layer to its encoding (`LevelSpec.lower_ok`), let `recog` recognise exactly the layer's
operators.  Then for every operand `a`, every chain `op₁ a₁ op₂ a₂ … opₙ aₙ` of any length `n` and
every map prefix `b`, the layer appends to the op map exactly the prefix encoding of the
**left-nested** tree `((a op₁ a₁) op₂ a₂) … opₙ aₙ` — all lengths correct, nothing before it
touched — and returns the displacement `2n`.

`_partial`: the full `compile_encodes` additionally needs the `LevelSpec` of each concrete layer
(operands of level `p+1` compiled by the next function down, by induction on the tree); only the
kernel-evaluated instances below are given for that part.  Unions are not covered. -/
theorem binLevel_leftAssoc_partial {recog lower Opnd IsOp FollowT FollowL}
    (hs : LevelSpec recog lower Opnd IsOp FollowT FollowL)
    (rest : Chain) (hall : ∀ x ∈ rest, IsOp x.1 ∧ Opnd x.2.2) (a : E) (ha : Opnd a) (fuel : Nat)
    (hf : rest.length < fuel) (b : List Int) (ts : List Tok) (hts : FollowT ts) :
    binLevel recog lower fuel none ⟨mk b, a.toks ++ (chainToks rest ++ ts)⟩
      = some (⟨mk (b ++ (foldChain a rest).enc), ts⟩, (2 * rest.length : Int)) :=
  binLevel_top hs rest hall a ha fuel hf b ts hts

/-- **The multiplicative layer over atoms, on the real model functions** (`mulExpr` = `runLevel recogMul (unaryExpr …)`,
through `UnaryExpr → UnionExpr → PathExpr → PrimaryExpr` for the operands): for atoms (number / string literals, variable
references), operators `*` `div` `mod`, chains of any length, any map prefix and any continuation that does not start
with `*`, `div`, `mod` or `|`: the op map grows by exactly the encoding of the left-nested tree.  This discharges the
`LevelSpec` hypotheses of `binLevel_leftAssoc_partial` for one concrete layer; the other three layers, unary minus, groups
and `and`/`or` (the whole-tree `compile_encodes` over `E.WF`) are still open. -/
theorem mulExpr_atoms_leftAssoc_partial (expr : St → Option St) (a : E) (ha : IsAtom a) (rest : Chain)
    (hall : ∀ x ∈ rest, IsMulOp x.1 ∧ IsAtom x.2.2) (b : List Int) (ts : List Tok) (hts : FollowMul ts) :
    mulExpr expr ⟨mk b, a.toks ++ (chainToks rest ++ ts)⟩ = some ⟨mk (b ++ (foldChain a rest).enc), ts⟩ :=
  mulExpr_atoms expr a ha rest hall b ts hts

/-- non-vacuity: `1 * $x div 'a' mod 2` followed by `)` -/
example : IsAtom (.num 0 0) ∧ (∀ x ∈ ([(.mult, 0, .var 3 4), (.div, 5, .lit 6), (.mod, 7, .num 1 8)] : Chain), IsMulOp x.1 ∧ IsAtom x.2.2) ∧
    FollowMul [.rpar] := by
  refine ⟨trivial, ?_, by simp [FollowMul]⟩
  intro x hx
  simp only [List.mem_cons, List.not_mem_nil, or_false] at hx
  rcases hx with h | h | h <;> subst h <;> exact ⟨trivial, trivial⟩

/-- **`compile_encodes`: the compiler theorem for whole expression trees.**  For every well-formed tree `e` of the operator
fragment (`E.WF`: binary operators left-associative with XPath precedence, `and`/`or` right-nested as `AndExpr`/`OrExpr`
compile them, the operand of unary minus a union-level expression; atoms: number / string literals, variable references,
name tests, `*`; parenthesised groups of any nesting), the model of `XPathProcessorImpl::initXPath … PrimaryExpr` compiles the
tokens of `e` to exactly `[OP_XPATH, length] ++ enc e` — every operator header at its place with the right length, i.e. the
op map *is* the prefix encoding of the tree the Recommendation assigns to the token sequence.  Holds for either value of the
source-derived flags (compound operator tokens, unary recursion, LocationPath step check).
`_partial`: unions `|`, multi-step paths, predicates and function calls as operands are not part of `E` (they are tied to the
code by the compile correspondence only); nested unary minus (`- - e`, accepted since the fix) is excluded by `E.WF`. -/
theorem compile_encodes_partial (e : E) (hw : e.WF) : compile e.toks = some (mk e.enc) :=
  compile_encodes_all e hw

/-- non-vacuity: `(1 + $x) * -a <= 'b' and c or * != 2` is well-formed -/
example : (E.or 0 (E.and 0 (E.bin .le 0 (E.bin .mult 0 (E.group (E.bin .plus 0 (.num 0 1) (.var 3 4))) (E.neg (.nameStep .other 7)))
    (.lit 9)) (.nameStep .other 11)) (E.bin .ne 0 .anyStep (.num 1 15))).WF := by
  simp [E.WF, E.prec, BinOp.lvl]

/-- the encoding of a left-nested chain: the operator headers outermost first, then the operands in
source order — what `binLevel` builds by inserting every header at the same saved position. -/
theorem enc_leftNested (a : E) (rest : Chain) :
    (foldChain a rest).enc = hdrsOf (a.enc.length : Int) rest ++ a.enc ++ encs rest :=
  enc_foldChain rest a

/-- kernel-evaluated instances of the full statement on the real model functions (tests, not the
unbounded claim): `1 - 2 - 3`, `1 + 2 * 3 < 4 = 5`, `-(1) div $x`, `a or b or c` (right-nested). -/
example :
    (let e := E.bin .minus 0 (E.bin .minus 0 (.num 0 0) (.num 1 2)) (.num 2 4); compile e.toks = some (mk e.enc)) ∧
    (let e := E.bin .eq 0 (E.bin .lt 0 (E.bin .plus 0 (.num 0 0) (E.bin .mult 0 (.num 1 2) (.num 2 4))) (.num 3 6)) (.num 4 8)
     compile e.toks = some (mk e.enc)) ∧
    (let e := E.bin .div 3 (E.neg (E.group (.num 0 2))) (.var 6 7); compile e.toks = some (mk e.enc)) ∧
    (let e := E.or 1 (.nameStep .other 0) (E.or 3 (.nameStep .other 2) (.nameStep .other 4)); compile e.toks = some (mk e.enc)) := by
  decide

/-- **`- - 1` is rejected** (XPath 1.0 [27] `UnaryExpr ::= UnionExpr | '-' UnaryExpr` makes it an
expression): `UnaryExpr()` compiles the operand of `-` with `UnionExpr()`. -/
theorem unary_minus_counterexample :
    unaryRecursesIntoUnary = false → compile [.minus, .minus, .num 0 2] = none := by decide

/-- **`()`, `(1 + )` and `-` are compiled** (`locationPathRequiresStep = false`, the code before fix 410cc56) although they are not expressions: `Step()` ignores `)`,
`LocationPath()` accepts the empty token; the result is an empty location path. -/
theorem accepts_nonexpr_counterexample : locationPathRequiresStep = false →
    compile [.lpar, .rpar] = some (mk [eOP_GROUP, 5, eOP_LOCATIONPATH, 3, eENDOP]) ∧
    (compile [.lpar, .num 0 1, .plus, .rpar]).isSome ∧ (compile [.minus]).isSome := by decide

/-- **`1 ! = 2` is compiled** (as `!=`) while `!` and `=` are separate tokens re-assembled by `EqualityExpr`
(`compoundOperatorTokens = false`, the code before the proposed tokenizer fix). -/
theorem split_operator_counterexample : compoundOperatorTokens = false →
    (compile [.num 0 0, .bang, .eq, .num 1 3]).isSome := by decide

/-! ## Layer 2: comparison of every pair of types (XPath §3.4) -/

/-- **Full statement** (false on the unchanged code, see the counterexamples below): for every pair
of objects the six comparison methods return what §3.4 defines.

**Proved part**: for *distinct* objects (`l.addr ≠ r.addr`; every pair of operands that are not the
same variable reference), for all six operators and all 4×4 type pairs, under the stated laws of
`DoubleSupport`.  Missing: the `this == &theRHS` shortcut (wrong, see below) and result tree
fragments (XSLT only). -/
theorem compare_spec_partial {S N : Type} [DecidableEq S] (o : NumOps S N) (h : Lawful o) (op : CmpOp) (l r : Obj S N)
    (hd : l.addr ≠ r.addr) : xobjCompare o op l r = specCompare o op l.val r.val := by
  unfold xobjCompare
  simp only [hd, and_false, if_false]
  cases hl : l.val <;> cases hr : r.val <;> cases op <;>
    simp [compareNodeSets, specCompare, cmpStr, cmpStrObj, cmpNum, CmpOp.mirror, Val.toNum, Val.toStr,
      Val.toBool, cmpBoolean, h.gt_lt, h.ge_le, h.eq_bool, h.ne_bool] <;>
    first
      | (apply any_congr'; intro x; first | exact h.eq_comm _ _ | exact h.ne_comm _ _ | exact BEq.comm | (simp only [bne]; rw [BEq.comm]))
      | (rename_i b ll; cases b <;> cases ll.isEmpty <;> rfl)

/-- the hypotheses are satisfiable: a lawful number structure and two distinct objects of
different types (node-set with two nodes against a number) -/
example : Lawful D.ops ∧ (⟨1, .nodes [some 1, some 3]⟩ : Obj DS D).addr ≠ (⟨2, .num (.val 2)⟩ : Obj DS D).addr ∧
    xobjCompare D.ops .lt ⟨1, .nodes [some 1, some 3]⟩ ⟨2, .num (.val 2)⟩ = true := by
  refine ⟨D.lawful, by decide, by decide⟩

/-- `$x <= $x` is false for a variable bound to the number 1 (§3.4: `1 <= 1` is true). -/
theorem compare_identity_le_counterexample : identityShortcuts = true →
    let x : Obj DS D := ⟨7, .num (.val 1)⟩
    xobjCompare D.ops .le x x = false ∧ specCompare D.ops .le x.val x.val = true := by decide

/-- `$x >= $x` likewise. -/
theorem compare_identity_ge_counterexample : identityShortcuts = true →
    let x : Obj DS D := ⟨7, .str (some 2)⟩
    xobjCompare D.ops .ge x x = false ∧ specCompare D.ops .ge x.val x.val = true := by decide

/-- `$nan = $nan` is true (§3.4 / IEEE: NaN equals nothing) and `$nan != $nan` is false. -/
theorem compare_identity_nan_counterexample : identityShortcuts = true →
    let x : Obj DS D := ⟨7, .num .nan⟩
    (xobjCompare D.ops .eq x x = true ∧ specCompare D.ops .eq x.val x.val = false) ∧
    (xobjCompare D.ops .ne x x = false ∧ specCompare D.ops .ne x.val x.val = true) := by decide

/-- `$empty = $empty` is true for an empty node-set (§3.4: no pair of nodes exists). -/
theorem compare_identity_empty_counterexample : identityShortcuts = true →
    let x : Obj DS D := ⟨7, .nodes []⟩
    xobjCompare D.ops .eq x x = true ∧ specCompare D.ops .eq x.val x.val = false := by decide

/-- `$ns < $ns` and `$ns != $ns` are false for a node-set with the string-values "1" and "2"
(§3.4: there are two nodes that compare true). -/
theorem compare_identity_nodeset_counterexample : identityShortcuts = true →
    let x : Obj DS D := ⟨7, .nodes [some 1, some 2]⟩
    (xobjCompare D.ops .lt x x = false ∧ specCompare D.ops .lt x.val x.val = true) ∧
    (xobjCompare D.ops .ne x x = false ∧ specCompare D.ops .ne x.val x.val = true) := by decide

/-! ## Layer 3: location steps — predicates (§2.4) and axes (§2.2) -/

/-- **The predicate loop of `XPath::predicates` is §2.4**, for every node list (in proximity order, any
length), every predicate-value function and every interpretation of values satisfying `pos_true`
(a number equal to a position ≥ 1 converts to `true`): nulling the entries with
`(isNumber && i+1 != num) || !boolean()` and `clearNulls()` keeps exactly the nodes for which the
predicate is true in the sense of §2.4 (number ⇒ equal to the proximity position, else `boolean()`),
with `position() = i+1` and `last() = length`.  Reverse axes: `step` hands the list over in reverse
document order, which is proximity order, and reverses the survivors at the end.
`_partial`: stated for a predicate whose value is a function of (node, position, size) — the stale
`position()` cache (finding C02-stale-position-cache) is outside that assumption. -/
theorem predicates_spec_partial {V : Type} (sem : PredSem V) (ev : Nat → Nat → Nat → V) (l : List Nat) :
    predicateModel sem ev l = predicateSpec sem ev l :=
  nullLoop_spec sem ev l.length l 0

/-- **The numeric-literal shortcut is §2.4 too**: for a literal that is a positive integer `k` (or is
not: `isPosInt = false`), keeping `item(k-1)` / clearing / leaving a singleton untouched selects exactly
the node whose proximity position equals the literal. -/
theorem predicates_literal_spec (isPosInt : Bool) (k : Nat) (hk : isPosInt = true → 1 ≤ k) (l : List Nat) :
    shortcutModel isPosInt k l = shortcutSpecLoop isPosInt k 0 l :=
  shortcut_spec isPosInt k hk l

/-- non-vacuity: a value interpretation satisfying `pos_true` (numbers are `some n`, booleans `none`-tagged) -/
example : ∃ sem : PredSem (Option Nat × Bool),
    predicateModel sem (fun m pos _ => if m = 7 then (some 2, true) else (none, pos % 2 == 1)) [5, 7, 9, 11] = [5, 7, 9] :=
  ⟨{ isNum := fun v => v.1.isSome, numEqPos := fun v p => v.1 == some p, toBool := fun v => match v.1 with | some n => n != 0 | none => v.2,
     pos_true := by intro v p h1 h2 h3; rcases v with ⟨_ | n, b⟩ <;> simp_all; omega }, by decide⟩

/-- **`axes_spec`, descendant and descendant-or-self, all documents.**  For every document table satisfying the
decidable well-formedness predicate `Doc.WF` (nested subtree intervals, attributes directly after their element, the
DOM navigation functions consistent with the intervals, ancestors = interval containment — evaluated by `xm_c02` on
every document of the correspondence run) and every context node, attribute contexts included, the pre-order walk of
`XPath::findDescendants` (first child, else next sibling, else climb to the parent until the context is reached)
returns exactly the nodes of the axis, in document order.
`_partial`: the same statement for `findFollowing` / `findPreceeding` and the sibling/child/attribute chains is not
proved in general (kernel-evaluated on the sample document below and tied by the evaluation correspondence); that every
pre-order table satisfies `WF` is checked per document, not proved. -/
theorem axes_spec_descendant_partial (d : Doc) (hw : d.WF) (n : Nat) (hn : n < d.length) (orSelf : Bool) :
    d.findDescendants orSelf n = d.axis (if orSelf then .descendantOrSelf else .descendant) n :=
  Doc.findDescendants_spec d hw n hn orSelf

/-- **`axes_spec`, following axis, all well-formed documents**: `XPath::findFollowing` (never into the context's
subtree; an attribute context continues with its owner's first child) returns exactly the axis, in document order. -/
theorem axes_spec_following_partial (d : Doc) (hw : d.WF) (n : Nat) (hn : n < d.length) :
    d.findFollowing n = d.axis .following n :=
  Doc.findFollowing_spec d hw n hn

/-- **`axes_spec`, preceding axis, all well-formed documents**: `XPath::findPreceeding` (pre-order walk from the top
node to the context, skipping the context's ancestors, then `reverse()`) returns exactly the axis, in reverse document
order.  `_partial` for all three walk theorems: `WF` is checked per document, not proved for every pre-order table; the
child / sibling / attribute / parent / ancestor / self chains are still covered by the sample test and the
correspondence only. -/
theorem axes_spec_preceding_partial (d : Doc) (hw : d.WF) (n : Nat) (hn : n < d.length) :
    d.findPreceeding n = d.axis .preceding n :=
  Doc.findPreceeding_spec d hw n hn

/-- **`axes_spec`: all thirteen axes, all well-formed documents.**  For every document table satisfying the decidable
predicate `Doc.WF`, every axis and every context node (attribute contexts included), the `find*` function of `XPath.cpp`
that `step` dispatches to returns exactly the nodes of the axis of XPath 1.0 §2.2, in proximity order (document order for
forward axes, reverse document order for `ancestor`, `ancestor-or-self`, `preceding`, `preceding-sibling` — the order
`step` numbers predicates in).  Walks: `findDescendants`, `findFollowing`, `findPreceeding`; chains: `findChildren`,
`findAttributes`, `findFollowingSiblings`, `findPreceedingSiblings`, `findAncestors`, `findAncestorsOrSelf`; `findParent`,
`findSelf`; the namespace axis is empty on both sides (no namespace nodes in the modelled documents).
`_partial`: `WF` is evaluated by `xm_c02` on every document of the correspondence run; that the table of *every* tree
numbered in pre-order satisfies `WF` is not proved. -/
theorem axes_spec_partial (d : Doc) (hw : d.WF) (a : Axis) (n : Nat) (hn : n < d.length) :
    d.find a n = d.axis a n :=
  Doc.find_spec d hw a n hn

/-- `axes_spec`, **test only** (kernel-evaluated on one 13-node document with attributes, text, comment,
nested elements; all 13 axes × all 13 context nodes, attribute contexts included): each `find*` walk
returns exactly the nodes of the axis in proximity order.  The general theorem over all documents is
not proved (see design/C02.md); the walks are tied to the code by the evaluation correspondence. -/
def axesSampleDoc : Doc := [
  ⟨.root, "", "", none⟩, ⟨.elem, "r", "", some 0⟩, ⟨.attr, "id", "0", some 1⟩, ⟨.elem, "a", "", some 1⟩,
  ⟨.attr, "p", "1", some 3⟩, ⟨.text, "", "1", some 3⟩, ⟨.elem, "c", "", some 3⟩, ⟨.text, "", "x", some 6⟩,
  ⟨.elem, "b", "", some 1⟩, ⟨.comment, "", "n", some 8⟩, ⟨.elem, "a", "", some 1⟩, ⟨.attr, "q", "7", some 10⟩,
  ⟨.elem, "e", "", some 1⟩]

set_option maxRecDepth 100000 in
theorem axes_spec_sample_partial :
    (([.ancestor, .ancestorOrSelf, .attribute, .child, .descendant, .descendantOrSelf, .following, .followingSibling,
       .parent, .preceding, .precedingSibling, .self, .namespace] : List Axis).all fun a =>
      (List.range 13).all fun n => axesSampleDoc.find a n == axesSampleDoc.axis a n) = true := by decide

/-- non-vacuity of `axes_spec_descendant_partial`: the sample document is well-formed -/
example : axesSampleDoc.WF := Doc.wf_of_wfB _ (by decide)

/-! ## Recycled XObjects forget their memoised conversions

`number()`, `string()` and `boolean()` are functions of the value (XPath §4); `XObjectFactoryDefault` reuses released
`XString` / `XNumber` / `XNodeSet` objects, so every `mutable m_cached*` member must be reset on the recycle path.  The table is
regenerated from the source by `translate/c02_recycle.py`. -/

/-- **Recycling contract**: every memoised member of a recyclable XObject is reset to the sentinel its reader tests for, by a
statement at the top level of the reset function (not under any condition), and the factory's recycle branch reaches that
function through unconditional calls (`create*` → `set()` → `release()` → reset).  A partial or conditional clear, a dropped
call, or a new memoised member without a reset makes this fail. -/
theorem recycle_contract :
    ∀ e ∈ recycleTable, e.resetUnconditional = true ∧ e.reachedFromFactory = true ∧ e.sentinelMatches = true := by
  decide

/-- the table is not empty: the four memoised members of XNodeSetBase, XStringBase and XNumber are in it -/
example : 4 ≤ recycleTable.length := by decide

/-! ## Functions that build a node-set deliver a proper node-set

A node-set is a set (XPath §1, §5): consumers that do not re-sort see the list as the function delivers it.  The table is
regenerated from the source by `translate/c02_nodeset_builders.py`. -/

/-- the plain appends audited as safe: a single node, or nodes taken in order from an ordered duplicate-free input -/
def allowedPlainAppends (file : String) : Nat :=
  if file = "XalanEXSLT/XalanEXSLTMath.cpp" then 2
  else if file = "XalanExtensions/FunctionDistinct.cpp" then 1
  else 0

/-- **Node-set builders**: `id()` fills its result with ordered, duplicate-rejecting inserts only, and no function that builds a
node-set result appends more often than the audited cases.  Replacing `addNodeInDocOrder` by `addNode` anywhere, or a new
appending builder, makes this fail by name; the values are checked by the evaluation stream through consumers that do not
re-sort (`count`, `string`, `name`, the delivered list itself). -/
theorem nodeset_builders_ordered :
    (∀ e ∈ nodeSetBuilders, e.plainAppends ≤ allowedPlainAppends e.file) ∧
    (∃ e ∈ nodeSetBuilders, e.file = "XPath/FunctionID.cpp" ∧ e.plainAppends = 0 ∧ 1 ≤ e.orderedInserts) := by
  decide

/-! ## Upward walks use the XPath parent

The parent of an attribute or namespace node is its owner element (XPath §5.3, §5.4); the DOM accessor `getParentNode()` returns
null for them.  The table is regenerated from the source by `translate/c02_parent_walks.py`. -/

/-- **Parent walks**: in the code the preprocessor keeps, no file of the function library (`XPath/Function*.cpp`,
`XalanEXSLT/`, `XalanExtensions/`) calls the DOM accessor `getParentNode()`; `XPath.cpp` keeps at most the one audited call
(`findNamespace`, which starts at an element context and only steps from element to element); `lang()` walks with
`DOMServices::getParentOfNode`.  Context nodes that can reach these walks: element, attribute, text, comment, processing
instruction, namespace node, root (any node may be the context node of `lang()` etc.). -/
theorem parent_walks_use_xpath_parent :
    (∀ e ∈ parentWalks, e.domParentCalls ≤ (if e.file = "XPath/XPath.cpp" then 1 else 0)) ∧
    (∃ e ∈ parentWalks, e.file = "XPath/FunctionLang.cpp" ∧ 1 ≤ e.xpathParentCalls) := by
  decide

/-! ## Scratch buffers are emptied on every iteration

`DOMServices::getNodeData(node, context, buffer)` appends.  The table is regenerated by `translate/c02_scratch_buffers.py`. -/

/-- **Scratch buffers**: every loop of the function library that reads one node's string-value per iteration into a buffer
declared outside the loop empties that buffer by a `clear()` at the top level of the loop body (on every iteration, not only on
some branch).  The two audited accumulating loops (`id()` joining the values of a node-set, `str:concat`) are the exceptions. -/
theorem scratch_buffers_cleared :
    ∀ e ∈ scratchBuffers, e.freshEachIteration = true ∨ e.clearedEachIteration = true ∨
      (e.file = "XPath/FunctionID.cpp" ∧ e.buffer = "m_resultString") ∨
      (e.file = "XalanEXSLT/XalanEXSLTString.cpp" ∧ e.buffer = "theResult") := by
  decide

/-- the table contains the loops of `xalan:distinct` and of the EXSLT math functions -/
example : ∃ e ∈ scratchBuffers, e.file = "XalanExtensions/FunctionDistinct.cpp" := by decide

end XalanModel.Props.C02
