import XalanModel.C07.ShareProofs
/-!
# C07 — compiled stylesheets and parsed sources can be shared by concurrent threads

Property theorems only (helper lemmas: `XalanModel/C07/ShareProofs.lean`).

Full statement of the property, in the vocabulary of `XalanModel/C07/Share.lean`: *for every number of threads,
every program each of them runs and every schedule, each thread's private state and output are those of the thread
running alone, and no two steps of different threads make conflicting unsynchronised accesses to a shared location.*

What is proved here

* `noninterference` / `noninterference_readonly` / `interleaving_eq_sequential` / `sequential_is_solo`: the
  generic half, for **every** machine, thread count, program and schedule — by induction on the schedule.
  The hypothesis is that steps are read-only on the shared state (or change only a part of it that no step can
  observe: a mutex-protected pool).
* `race_free`: for every machine and schedule, if steps write only synchronised shared locations no trace contains
  a race.
* `execution_readonly_partial`, `table_race_free_partial`, `table_outputs_schedule_independent`: the hypothesis is
  discharged for the machine whose shared cells are the write channels that `translate/c07_share.py` finds in the
  *current* source (`Generated.C07_Share.table`) under the classification of `XalanModel/C07/Guards.lean`, by
  `decide` over the whole table.  `_partial` because (1) the classification of each channel (per-thread instance,
  construction-only, guarded by `m_mappingMode`, mutex, …) is a fact about the C++ that is read off the code and
  validated by ThreadSanitizer runs, not derived; (2) the table is an inventory by regular expressions, not a proof
  of completeness (writes through non-const pointer members are tracked only one call deep; Xerces/ICU internals not
  at all); (3) the C++ memory model is not modelled.
* `lazy_listhead_interference_counterexample`: the genuine defect this property had in the tree as found.  The
  `const_cast` in `XalanList::getListHead() const` let a const `find()`/`end()` on a never-used `XalanMap` allocate the list
  head: two threads calling `id()` (→ `XalanSourceTreeDocument::getElementById`) on a shared source without ID attributes
  both wrote `m_listHead` (ThreadSanitizer report).  `listHeadMachine` transcribes that code; the theorem exhibits the
  schedule under which a thread compares its iterator with the other thread's head.  Repaired in /repo by `fix:` d0cd23c
  (heads created in the constructors; `forced_listhead_schedule_independent`) and at the root by `fix:` c994d6f (const
  `begin()/end()` no longer allocate; `nullHeadMachine`, `nullhead_schedule_independent`).  The table now carries the
  channel as `…getListHead…|const-callers:none`; a new const caller changes the key and `execution_readonly_partial` fails.
  The witness is replayed on the real code by checks/c07.py on every run (corpus case `id-noids`) and must be silent.
* `nopool_counterexample`, `mapping_mode_counterexample`: outside the property's quantifier (Xerces source *not* in
  thread-safe mode) the model predicts races; checks/c07.py replays them as negative controls for the detector.
-/
namespace XalanModel.Props.C07
open XalanModel.C07 XalanModel.Generated

variable {σ π ω τ : Type}

/-- **Non-interference.**  If every step preserves the observable part of the shared state and depends only on it,
then under *every* schedule each thread ends exactly where it ends when it runs alone over the initial shared
state for the number of steps the schedule gave it (private state and everything it emitted), and the observable
shared state never changes. -/
theorem noninterference (M : Machine σ π ω) (obs : σ → τ) (h : Transparent M obs)
    (sched : List Nat) (c : Config σ π ω) (i : Nat) :
    (M.exec sched c).threads[i]? = (c.threads[i]?).map (fun t => (M.solo (sched.count i) c.shared t).2) ∧
    obs (M.exec sched c).shared = obs c.shared ∧
    (M.exec sched c).threads.length = c.threads.length :=
  ⟨(Machine.exec_thread h sched c i).1, (Machine.exec_thread h sched c i).2, Machine.exec_length M sched c⟩

/-- The read-only case (the one the design of Xalan aims at: `execute(...) const`). -/
theorem noninterference_readonly (M : Machine σ π ω) (h : ReadOnly M)
    (sched : List Nat) (c : Config σ π ω) (i : Nat) :
    (M.exec sched c).threads[i]? = (c.threads[i]?).map (fun t => (M.solo (sched.count i) c.shared t).2) ∧
    (M.exec sched c).shared = c.shared := by
  have := noninterference M (fun s => s) (readOnly_transparent h) sched c i
  exact ⟨this.1, this.2.1⟩

/-- **Every interleaving equals the sequential run.**  `ks[i]` = number of steps of thread `i`'s program.  Any
interleaving of the threads' steps (= any permutation of the sequential schedule) leaves every thread with the
private state and output of the sequential run. -/
theorem interleaving_eq_sequential (M : Machine σ π ω) (obs : σ → τ) (h : Transparent M obs)
    (ks : List Nat) (sched : List Nat) (hp : sched.Perm (seqSchedule ks)) (c : Config σ π ω) (i : Nat) :
    (M.exec sched c).threads[i]? = (M.exec (seqSchedule ks) c).threads[i]? := by
  rw [(noninterference M obs h sched c i).1, (noninterference M obs h (seqSchedule ks) c i).1, hp.count_eq]

/-- … and in the sequential run thread `i` simply runs its `ks[i]` steps alone. -/
theorem sequential_is_solo (M : Machine σ π ω) (obs : σ → τ) (h : Transparent M obs)
    (ks : List Nat) (c : Config σ π ω) (i : Nat) :
    (M.exec (seqSchedule ks) c).threads[i]? = (c.threads[i]?).map (fun t => (M.solo (ks.getD i 0) c.shared t).2) := by
  rw [(noninterference M obs h (seqSchedule ks) c i).1]
  have := count_seqSchedule_go i 0 ks
  simp only [Nat.not_lt_zero, if_false, Nat.sub_zero] at this
  unfold seqSchedule
  rw [this]

/-- **No read of a location another thread is writing.**  If steps write only synchronised shared locations then no
trace of any schedule contains two conflicting accesses by different threads. -/
theorem race_free (M : Machine σ π ω) (sync : Nat → Bool) (h : WritesOnlySync M sync)
    (sched : List Nat) (c : Config σ π ω) : hasRace sync (M.trace sched c) = false :=
  hasRace_false_of_writes_sync (Machine.trace_events h sched c)

/-! ### non-vacuity of the generic theorems -/

/-- a machine whose steps read a shared table and bump a private counter; it is read-only, and a 3-thread
interleaving really runs (outputs are non-empty and differ per thread) -/
def demo : Machine (List Nat) Nat Nat where
  step := fun s p => (s, p + 1, [s.getD p 0 + p])
  footprint := fun _ p => [{ loc := p, write := false }]

example : ReadOnly demo ∧ WritesOnlySync demo (fun _ => false) ∧
    ((demo.exec [2, 0, 1, 0, 2, 2] { shared := [5, 6, 7, 8], threads := [(0, []), (1, []), (0, [])] }).threads
      = [(2, [5, 7]), (2, [7]), (3, [5, 7, 9])]) ∧
    [2, 0, 1, 0, 2, 2].Perm (seqSchedule [2, 1, 3]) := by
  refine ⟨fun _ _ => rfl, ?_, by decide, by decide⟩
  intro s p a ha hw
  simp [demo] at ha
  subst ha
  simp at hw

/-- the mutex-protected string pool of a thread-safe Xerces wrapper (`XercesLiaisonXalanDOMStringPool::get`): a step
interns the next string (a write to the shared pool, atomic because of the mutex) and gets back a string equal to the
one it asked for.  Not read-only, but transparent: what a thread computes never depends on the pool's content. -/
def poolDemo : Machine (List String) (List String) String where
  step := fun pool p => match p with
    | [] => (pool, [], [])
    | s :: rest => (if pool.contains s then pool else s :: pool, rest, [s])
  footprint := fun _ _ => [{ loc := 0, write := true }]

example : Transparent poolDemo (fun _ => ()) ∧ ¬ ReadOnly poolDemo ∧ WritesOnlySync poolDemo (fun l => l == 0) := by
  refine ⟨⟨fun _ _ => rfl, ?_⟩, ?_, ?_⟩
  · intro s s' p _
    cases p <;> rfl
  · intro h
    have := h [] ["a"]
    simp [poolDemo] at this
  · intro s p a ha _
    simp [poolDemo] at ha
    subst ha
    rfl

/-! ### the generated table -/

/-- **Every write channel of the current source is classified**, and in the sharing mode the property quantifies over
(native source tree, or Xerces DOM in thread-safe mode; *no* assumption about list heads any more) none
of them carries an unsynchronised write to a shared object while transformations run.  `decide` over the complete
regenerated table: a new `mutable` member, `const_cast`, non-const call through a pointer member, local static or
non-const static in the classes reachable from `StylesheetRoot` / `XalanSourceTreeDocument` / `XercesDocumentWrapper`
makes this fail until it is classified.  Third part: for the lazily-headed containers (`XalanList`/`XalanMap`/`XalanSet`
members of classes that are parts of a shared object) a classification `headForced` / `noConstLookup` must agree with what
the translator sees in the source (constructor or postConstruction calls the non-const `begin()/end()`; no const member
function uses the member). -/
theorem execution_readonly_partial :
    (∀ e ∈ C07_Share.table, (classify e).isSome = true) ∧
    (∀ e ∈ C07_Share.table, effectOf Mode.documentedAsIs e ≠ Effect.sharedWrite) ∧
    (∀ e ∈ C07_Share.table, guardEvidence e = true) := by
  have h1 : C07_Share.table.all (fun e => (classify e).isSome) = true := by decide +kernel
  have h2 : C07_Share.table.all (fun e => effectOf Mode.documentedAsIs e != Effect.sharedWrite) = true := by decide +kernel
  have h3 : C07_Share.table.all guardEvidence = true := by decide +kernel
  rw [List.all_eq_true] at h1 h2 h3
  exact ⟨h1, fun e he => by simpa using h2 e he, h3⟩

/-- **Post-construction, thread-safe mode ⇒ no member writes (partial).**  For every const member function of a class with `mutable`
members that reaches a function mutating one of them, the translator extracts the guard of the call from the current source as a
boolean formula (`Generated.C07_Share.guards`).  Every such call that is classified "only in the mapping phase"
(`XercesDocumentWrapper::mapNode → createWrapperNode`: arena allocation and insertion into the shared `m_nodeMap` on a lookup miss)
has a guard that, under *every* assignment of its variables, forces `m_mappingMode == true`; and `m_mappingMode` is false for a
wrapper built pre-built / thread-safe.  Weakening the guard (`m_mappingMode == true || m_buildMaps == false`) makes this fail;
all other entries are unguarded const mutators of per-thread classes (XObject caches, the per-transformer ICU functors).
`_partial`: guards are extracted by regular expressions from braces and `if` conditions; calls into the mutators from other
files are not seen. -/
theorem guards_imply_mapping_phase_partial :
    (∀ g ∈ C07_Share.guards, C07_Share.allow.lookup g.key = some Guard.mappingPhaseOnly →
      ∀ env ∈ allEnvs g.vars.length, g.cond.eval env = true →
        ∃ i, g.vars.findIdx? (· == "m_mappingMode") = some i ∧ env.getD i false = true) ∧
    (C07_Share.guards.any fun g => C07_Share.allow.lookup g.key == some Guard.mappingPhaseOnly) = true := by
  have h : C07_Share.guards.all (fun g => C07_Share.allow.lookup g.key != some Guard.mappingPhaseOnly || g.implies "m_mappingMode") = true := by
    decide +kernel
  refine ⟨?_, by decide +kernel⟩
  rw [List.all_eq_true] at h
  intro g hg hc env henv hev
  have hg' := h g hg
  simp only [hc, bne_self_eq_false, Bool.false_or] at hg'
  unfold GuardEntry.implies at hg'
  cases hi : g.vars.findIdx? (· == "m_mappingMode") with
  | none => simp [hi] at hg'
  | some i =>
    simp only [hi, List.all_eq_true] at hg'
    have := hg' env henv
    simp only [hev, Bool.not_true, Bool.false_or] at this
    exact ⟨i, rfl, this⟩

/-- **No step reachable from the per-thread objects of a transformation writes a process-wide table (partial).**  Over the
regenerated call graph — roots: every non-static member function of `XalanTransformer`, `XSLTEngineImpl`,
`StylesheetExecutionContextDefault`, `XPathExecutionContextDefault`, `XSLTProcessorEnvSupportDefault`, `XPathEnvSupportDefault`
(the objects a thread owns; the const interpreter calls back into them through their virtual interfaces, so all of their
members count as reachable) and `StylesheetRoot::process`; edges among these classes, constructors/destructors of their objects
included — every reachable function that so much as mentions a process-wide variable (`XPathEnvSupportDefault::s_externalFunctions`,
`StylesheetExecutionContextDefault::s_xalanNumberFormatFactory`, the message loader, the init counters, …) is listed and classified as
a read.  A forwarder that reaches `installExternalFunctionGlobal` from `doTransform`, or an execution-context member that assigns
a static, adds an unclassified entry and this stops checking.  `_partial`: the graph is extracted by regular expressions
(cross-checked against clang's typed AST in the thorough tier) and stops at the interpreter (`Elem*`, `XPath`, `Function*`:
covered by the const-execution entries of the table) and at Xerces/ICU. -/
theorem transform_touches_no_process_table_partial :
    ∀ e ∈ C07_Share.table, e.kind = Kind.transformTouch → classify e = some Guard.readOnlyUse := by
  have h : C07_Share.table.all (fun e => e.kind != Kind.transformTouch || classify e == some Guard.readOnlyUse) = true := by
    decide +kernel
  rw [List.all_eq_true] at h
  intro e he hk
  have := h e he
  simpa [hk] using this

/-- non-vacuity: the call graph does reach process-wide state (the read of `s_emptyInputSource` in `transform`) -/
example : C07_Share.table.any (fun e => e.kind == Kind.transformTouch) = true := by decide +kernel

/-- table-level form of the discipline `race_free` needs -/
theorem tableMachine_writesOnlySync (m : Mode) (hm : racyEntries m = []) :
    ∀ progs : List (List Access), (∀ p ∈ progs, Conforms m p) →
    ∀ sched, hasRace (syncLoc m) (tableMachine.trace sched (tableConfig progs)) = false := by
  intro progs hc sched
  -- generalise over the reachable configurations: every thread's remaining program still conforms
  suffices H : ∀ (c : Config Unit (List Access) Access), (∀ t ∈ c.threads, Conforms m t.1) →
      ∀ e ∈ tableMachine.trace sched c, e.acc.write = true → syncLoc m e.acc.loc = true by
    apply hasRace_false_of_writes_sync
    apply H
    intro t ht
    simp only [tableConfig, List.mem_map] at ht
    obtain ⟨p, hp, rfl⟩ := ht
    exact hc p hp
  have key : ∀ i, mayWrite m i = true → syncLoc m i = true := by
    intro i hi
    unfold mayWrite at hi
    unfold syncLoc
    cases he : entryAt i with
    | none => simp [he] at hi
    | some e =>
      simp only [he] at hi ⊢
      have hmem : e ∈ C07_Share.table := by
        unfold entryAt at he
        exact List.mem_of_getElem? he
      have hne : (effectOf m e == Effect.sharedWrite) = false := by
        have : e ∉ racyEntries m := by rw [hm]; simp
        unfold racyEntries at this
        simp only [List.mem_filter, not_and, Bool.not_eq_true] at this
        exact this hmem
      simpa [hne] using hi
  induction sched with
  | nil => intro c _ e he; simp [Machine.trace] at he
  | cons i sched ih =>
    intro c hconf e he hw
    simp only [Machine.trace, List.mem_append] at he
    rcases he with he | he
    · cases hget : c.threads[i]? with
      | none => simp [hget] at he
      | some t =>
        obtain ⟨p, out⟩ := t
        have hmemt : (p, out) ∈ c.threads := List.mem_of_getElem? hget
        have hcp := hconf _ hmemt
        cases p with
        | nil => simp [hget, tableMachine] at he
        | cons a rest =>
          simp only [hget, tableMachine, List.map_cons, List.map_nil, List.mem_singleton] at he
          subst he
          exact key _ (hcp a (by simp) hw)
    · apply ih (tableMachine.stepThread c i) _ e he hw
      intro t ht
      unfold Machine.stepThread at ht
      cases hget : c.threads[i]? with
      | none => simp only [hget] at ht; exact hconf t ht
      | some t0 =>
        obtain ⟨p, out⟩ := t0
        simp only [hget] at ht
        rcases List.mem_or_eq_of_mem_set ht with h1 | h1
        · exact hconf t h1
        · subst h1
          have hmemt : (p, out) ∈ c.threads := List.mem_of_getElem? hget
          have hcp := hconf _ hmemt
          cases p with
          | nil => simpa [tableMachine] using hcp
          | cons a rest =>
            intro b hb hbw
            exact hcp b (by simp [tableMachine] at hb; simp [hb]) hbw

/-- **C07 over the generated table (partial).**  In the documented sharing mode: whatever accesses to the write
channels of the current source the threads make (as long as they write only through channels the classification
leaves open), under every schedule no two threads race. -/
theorem table_race_free_partial (progs : List (List Access)) (hc : ∀ p ∈ progs, Conforms Mode.documentedAsIs p)
    (sched : List Nat) :
    hasRace (syncLoc Mode.documentedAsIs) (tableMachine.trace sched (tableConfig progs)) = false :=
  tableMachine_writesOnlySync Mode.documentedAsIs (by decide +kernel) progs hc sched

/-- … and every thread's emitted access sequence is independent of the schedule (the table machine never changes
its shared state at all). -/
theorem table_outputs_schedule_independent (progs : List (List Access)) (s₁ s₂ : List Nat) (hp : s₁.Perm s₂) (i : Nat) :
    (tableMachine.exec s₁ (tableConfig progs)).threads[i]? = (tableMachine.exec s₂ (tableConfig progs)).threads[i]? := by
  have ro : ReadOnly tableMachine := by
    intro s p; cases p <;> rfl
  rw [(noninterference_readonly tableMachine ro s₁ _ i).1, (noninterference_readonly tableMachine ro s₂ _ i).1,
    hp.count_eq]

/-- index of an entry in the generated table -/
def idxOf (key : Nat) : Nat := C07_Share.table.findIdx fun e => e.key == key

/-- non-vacuity: conforming programs exist that do write (through the mutex-protected pool) and that read a
lazily-built member -/
example :
    let pool := idxOf C07_Share.k_pooledString
    let nodeMap := idxOf C07_Share.k_nodeMap
    pool < C07_Share.table.length ∧ nodeMap < C07_Share.table.length ∧
    Conforms Mode.documented [⟨pool, true⟩, ⟨nodeMap, false⟩] := by
  refine ⟨by decide +kernel, by decide +kernel, ?_⟩
  intro a ha hw
  simp only [List.mem_cons, List.not_mem_nil, or_false] at ha
  rcases ha with rfl | rfl
  · decide +kernel
  · simp at hw

/-- **What the race did** (counterexample inside the property's quantifier, true of /repo before `fix:` d0cd23c /
c994d6f; model of `XalanList::getListHead` and `XalanSourceTreeDocument::getElementById` as they were written,
`listHeadMachine`).  Run alone or one after the other, every thread answers "not found" (`true`).  Under the
interleaving in which both threads test `m_listHead` before either assigns it, both allocate a head, and thread 0
compares its iterator with the *other* thread's head: the lookup goes on to dereference it (`false`).  So the
machine is not transparent, `noninterference` does not apply, and the outputs do depend on the schedule; the schedule's
trace has a race on `m_listHead`. -/
theorem lazy_listhead_interference_counterexample :
    ((listHeadMachine.exec (seqSchedule [3, 3]) (listHeadConfig 2)).threads.map (·.2)) = [[true], [true]] ∧
    ((listHeadMachine.exec [0, 1, 0, 1, 0, 1] (listHeadConfig 2)).threads.map (·.2)) = [[false], [true]] ∧
    [0, 1, 0, 1, 0, 1].Perm (seqSchedule [3, 3]) ∧
    hasRace (fun _ => false) (listHeadMachine.trace [0, 1, 0, 1, 0, 1] (listHeadConfig 2)) = true ∧
    ¬ ReadOnly listHeadMachine := by
  refine ⟨by decide, by decide, by decide, by decide, ?_⟩
  intro h
  have := h none { pc := 1, tid := 0, i := 0 }
  simp [listHeadMachine] at this

/-- After the repair (heads created in the constructor: the shared state starts as `some a`) the same machine never
writes: every schedule gives every thread the answer `true`.  Stated through `noninterference`: from a forced head the
machine is transparent for the observation "the head". -/
theorem forced_listhead_schedule_independent (a : Nat) (sched : List Nat) (n i : Nat) :
    (listHeadMachine.exec sched { (listHeadConfig n) with shared := some a }).threads[i]? =
      ((listHeadConfig n).threads[i]?).map (fun t => (listHeadMachine.solo (sched.count i) (some a) t).2) := by
  -- restrict the machine to forced heads: on `some _` no step writes
  let M' : Machine Nat LHThread Bool :=
    { step := fun hd t => let r := listHeadMachine.step (some hd) t; (hd, r.2.1, r.2.2)
      footprint := fun hd t => listHeadMachine.footprint (some hd) t }
  have key : ∀ (sched : List Nat) (c : Config Nat LHThread Bool), (∀ t ∈ c.threads, t.1.pc ≠ 1) →
      (listHeadMachine.exec sched { shared := some c.shared, threads := c.threads }).threads = (M'.exec sched c).threads ∧
      (listHeadMachine.exec sched { shared := some c.shared, threads := c.threads }).shared = some c.shared := by
    intro sched
    induction sched with
    | nil => intro c _; exact ⟨rfl, rfl⟩
    | cons j sched ih =>
      intro c hc
      simp only [Machine.exec]
      cases hget : c.threads[j]? with
      | none =>
        have e1 : listHeadMachine.stepThread { shared := some c.shared, threads := c.threads } j =
            { shared := some c.shared, threads := c.threads } := by simp [Machine.stepThread, hget]
        have e2 : M'.stepThread c j = c := by simp [Machine.stepThread, hget]
        rw [e1, e2]; exact ih c hc
      | some t =>
        obtain ⟨p, out⟩ := t
        have hp : p.pc ≠ 1 := hc (p, out) (List.mem_of_getElem? hget)
        have hstep : (listHeadMachine.step (some c.shared) p).1 = some c.shared ∧ (listHeadMachine.step (some c.shared) p).2.1.pc ≠ 1 := by
          unfold listHeadMachine
          simp only
          match hpc : p.pc with
          | 0 => simp
          | 1 => exact absurd hpc hp
          | 2 => simp
          | (k + 3) => simp [hpc]
        have e1 : listHeadMachine.stepThread { shared := some c.shared, threads := c.threads } j =
            { shared := some c.shared,
              threads := c.threads.set j ((listHeadMachine.step (some c.shared) p).2.1, out ++ (listHeadMachine.step (some c.shared) p).2.2) } := by
          simp [Machine.stepThread, hget, hstep.1]
        have e2 : M'.stepThread c j =
            { shared := c.shared,
              threads := c.threads.set j ((listHeadMachine.step (some c.shared) p).2.1, out ++ (listHeadMachine.step (some c.shared) p).2.2) } := by
          simp [Machine.stepThread, hget, M']
        rw [e1, e2]
        apply ih { shared := c.shared, threads := c.threads.set j _ }
        intro t ht
        rcases List.mem_or_eq_of_mem_set ht with h1 | h1
        · exact hc t h1
        · subst h1; exact hstep.2
  have ro : ReadOnly M' := fun _ _ => rfl
  have hinit : ∀ t ∈ (listHeadConfig n).threads, t.1.pc ≠ 1 := by
    intro t ht
    simp only [listHeadConfig, List.mem_map] at ht
    obtain ⟨k, _, rfl⟩ := ht
    simp
  have h1 := (key sched { shared := a, threads := (listHeadConfig n).threads } hinit).1
  have h2 := (noninterference_readonly M' ro sched { shared := a, threads := (listHeadConfig n).threads } i).1
  show (listHeadMachine.exec sched { shared := some a, threads := (listHeadConfig n).threads }).threads[i]? = _
  rw [h1, h2]
  -- solo runs of M' and of the original machine over a forced head agree
  have hsolo : ∀ (k : Nat) (t : Thread LHThread Bool), t.1.pc ≠ 1 →
      (M'.solo k a t).2 = (listHeadMachine.solo k (some a) t).2 := by
    intro k
    induction k with
    | zero => intro t _; rfl
    | succ k ihk =>
      intro t ht
      obtain ⟨p, out⟩ := t
      have hstep : (listHeadMachine.step (some a) p).1 = some a ∧ (listHeadMachine.step (some a) p).2.1.pc ≠ 1 := by
        unfold listHeadMachine
        simp only
        match hpc : p.pc with
        | 0 => simp
        | 1 => exact absurd hpc ht
        | 2 => simp
        | (k + 3) => simp [hpc]
      simp only [Machine.solo]
      rw [hstep.1]
      exact ihk _ hstep.2
  cases hg : (listHeadConfig n).threads[i]? with
  | none => simp
  | some t =>
    simp only [Option.map_some]
    rw [hsolo _ t (hinit t (List.mem_of_getElem? hg))]

/-- The lookup as it is written now (`fix:` c994d6f, `nullHeadMachine`): no step writes, so by `noninterference_readonly`
every schedule gives every thread its solo result — whether or not the list has a head. -/
theorem nullhead_schedule_independent (head : Option Nat) (sched : List Nat) (c : Config (Option Nat) LHThread Bool) (i : Nat)
    (hc : c.shared = head) :
    ReadOnly nullHeadMachine ∧
    (nullHeadMachine.exec sched c).threads[i]? =
      (c.threads[i]?).map (fun t => (nullHeadMachine.solo (sched.count i) head t).2) := by
  have ro : ReadOnly nullHeadMachine := by
    intro s p
    unfold nullHeadMachine
    simp only
    match p.pc with
    | 0 => rfl
    | 1 => rfl
    | 2 => rfl
    | (k + 3) => rfl
  refine ⟨ro, ?_⟩
  subst hc
  exact (noninterference_readonly nullHeadMachine ro sched c i).1

example : ((nullHeadMachine.exec [0, 1, 0, 1] { shared := none, threads := [(⟨0, 0, 0⟩, []), (⟨0, 1, 0⟩, [])] }).threads.map (·.2))
    = [[true], [true]] := by decide

/-- Outside the quantifier: a Xerces source wrapped with the plain string pool (`parseSource(.., useXercesDOM=true)`)
races in `getPooledString`. -/
theorem nopool_counterexample :
    let pool := idxOf C07_Share.k_pooledString
    (racyEntries Mode.xercesNoPool).map (·.name) = ["getPooledString|m_stringPool->get"] ∧
    hasRace (syncLoc Mode.xercesNoPool)
      (tableMachine.trace [0, 1] (tableConfig [[⟨pool, true⟩], [⟨pool, false⟩]])) = true := by
  refine ⟨by decide +kernel, by decide +kernel⟩

/-- Outside the quantifier: wrapper nodes built on demand (`m_mappingMode`) race on the lazily filled members. -/
theorem mapping_mode_counterexample :
    let nodeMap := idxOf C07_Share.k_nodeMap
    (racyEntries Mode.xercesMapping).length = 11 ∧
    hasRace (syncLoc Mode.xercesMapping)
      (tableMachine.trace [1, 0] (tableConfig [[⟨nodeMap, true⟩], [⟨nodeMap, true⟩]])) = true := by
  refine ⟨by decide +kernel, by decide +kernel⟩

end XalanModel.Props.C07
