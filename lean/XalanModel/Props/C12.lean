import XalanModel.C12.NodeListProofs
import XalanModel.C12.StructuralProofs
import XalanModel.C12.MultiDocProofs
import XalanModel.C12.AxesProofs
import XalanModel.C12.WalksProofs
import XalanModel.Generated.C12_WalkShapes
import XalanModel.Generated.C12_Flush
import XalanModel.Generated.C12_NodeMap
/-!
# C12 — node-sets are duplicate-free sets in one consistent document order

Property theorems only (helper lemmas: `XalanModel/C12/*Proofs.lean`).

* document order: the pre-order walk of a document (`Tree.paths`: node, its attributes, its
  children) is strictly increasing for the Recommendation's order `DocBefore` (ancestor first,
  attributes before children, siblings left to right), which is a strict total order — so the
  stored index (position in that walk) and the structural relation define the same order;
* `structural_eq_index`: the parent-chain walk of `DOMServices::isNodeAfter` (with the one-line
  repair of `proposed/C12-isnodeafter-ancestor.diff`) equals index comparison for every tree and
  every pair of distinct non-document nodes; the code *as written* only for pairs where neither
  node is an ancestor of the other (`structural_asWritten_partial`), with a counterexample;
* `addNodeInDocOrder_sortedSet` / `insertionHistory_sortedSet`: on the nodes of one document, for
  every insertion history and whichever of the three searches runs, the list stays a
  duplicate-free document-ordered set holding exactly the inserted nodes;
* unions are commutative, associative and idempotent *as lists* (same members, same order);
* several documents: only the "insert into the last group" case holds (`…_partial`); interleaving
  and a duplicate are proved as counterexamples, as is the document node being appended last.
-/
namespace XalanModel.Props.C12
open XalanModel.C12

/-! ## document order -/

/-- **Document order is one strict total order, however it is obtained.**  `DocBefore` is the order of the
Recommendation on node addresses (a node before its descendants, an element's attributes before its children,
siblings left to right); it is irreflexive, asymmetric, transitive and total.  The pre-order walk `Tree.paths`
(what the indexed representations number, checked on every document by the harness) lists each node once and
strictly increasing for `DocBefore`; hence comparing stored indexes and comparing structure give the same
answer for every pair of nodes of every tree. -/
theorem docOrder_strictTotal (t : Tree) :
    (∀ p : Path, DocBefore p p = false) ∧
    (∀ p q : Path, DocBefore p q = true → DocBefore q p = false) ∧
    (∀ p q r : Path, DocBefore p q = true → DocBefore q r = true → DocBefore p r = true) ∧
    (∀ p q : Path, p ≠ q → DocBefore p q = true ∨ DocBefore q p = true) ∧
    t.paths.Nodup ∧
    t.paths.Pairwise (fun p q => DocBefore p q = true) ∧
    (∀ p q, p ∈ t.paths → q ∈ t.paths → (indexOf t p < indexOf t q ↔ DocBefore p q = true)) :=
  ⟨DocBefore_irrefl, fun _ _ => DocBefore_asymm, fun _ _ _ => DocBefore_trans, fun _ _ => DocBefore_total,
   paths_nodup t, paths_pairwise t, fun _ _ hp hq => indexOf_lt_iff t hp hq⟩

/-- a document with a comment, an element with two attributes, text, a child element with one attribute -/
def sampleTree : Tree := .node 0 [.node 0 [], .node 2 [.node 0 [], .node 1 [.node 0 []], .node 0 []], .node 0 []]

example : sampleTree.paths.length = 11 ∧ [Step.child 1, Step.attr 1] ∈ sampleTree.paths ∧
    indexOf sampleTree [Step.child 1, Step.child 1, Step.attr 0] = 7 := by decide

/-- **Structural comparison = index comparison.**  For every tree and all distinct non-document nodes `p`, `q`
of it, `DOMServices::isNodeAfter` (non-indexed branch: parent counting, chain equalisation, walk to the common
parent, `isNodeAfterSibling` with the attribute rule and both scanning loops), with the ancestor/descendant edge
as in `proposed/C12-isnodeafter-ancestor.diff`, returns exactly `index p > index q`. -/
theorem structural_eq_index (t : Tree) (p q : Path) (hp : p ∈ t.paths) (hq : q ∈ t.paths)
    (hp0 : p ≠ []) (hq0 : q ≠ []) (hpq : p ≠ q) :
    isNodeAfterStructural t true p q = decide (indexOf t p > indexOf t q) := by
  rw [structural_general t true p q hp hq hp0 hq0 hpq (Or.inl rfl)]
  have := indexOf_lt_iff t hq hp
  by_cases h : DocBefore q p = true
  · rw [h]; simp [this.2 h]
  · have hf : DocBefore q p = false := by simpa using h
    rw [hf]
    have : ¬ indexOf t q < indexOf t p := fun x => h (this.1 x)
    simp [this]

/-- **The code as written (partial).**  Full statement: as `structural_eq_index`.  With the edge as written in the
tree (`nParents1 < nParents2`) it holds exactly for the pairs where neither node is an ancestor of the other
(attributes count as children of their element); for ancestor/descendant pairs it is false
(`structural_asWritten_counterexample`). -/
theorem structural_asWritten_partial (t : Tree) (p q : Path) (hp : p ∈ t.paths) (hq : q ∈ t.paths)
    (hp0 : p ≠ []) (hq0 : q ≠ []) (hpq : p ≠ q) (hanc : ¬ p <+: q ∧ ¬ q <+: p) :
    isNodeAfterStructural t false p q = decide (indexOf t p > indexOf t q) := by
  rw [structural_general t false p q hp hq hp0 hq0 hpq (Or.inr hanc)]
  have := indexOf_lt_iff t hq hp
  by_cases h : DocBefore q p = true
  · rw [h]; simp [this.2 h]
  · have hf : DocBefore q p = false := by simpa using h
    rw [hf]
    have : ¬ indexOf t q < indexOf t p := fun x => h (this.1 x)
    simp [this]

example : [Step.child 1, Step.attr 1] ∈ sampleTree.paths ∧ [Step.child 1, Step.child 1, Step.child 0] ∈ sampleTree.paths ∧
    ¬ [Step.child 1, Step.attr 1] <+: [Step.child 1, Step.child 1, Step.child 0] ∧
    ¬ [Step.child 1, Step.child 1, Step.child 0] <+: [Step.child 1, Step.attr 1] := by decide

/-- the environment a non-indexed document `t` (numbered `d`) presents to the list code: nothing is indexed and
`isNodeAfter` is the structural comparison on the nodes of `t` (a `NodeRef` whose `idx` is not a position of the
walk denotes no node; the comparison is extended to those by index so that the function is total) -/
def structuralEnv (t : Tree) (fixedEdge docNodeFirst : Bool) : Env :=
  { indexed := fun _ => false
    after := fun a b =>
      if a.idx < t.paths.length ∧ b.idx < t.paths.length then
        isNodeAfterStructural t fixedEdge (t.paths.getD a.idx []) (t.paths.getD b.idx [])
      else decide (a.idx > b.idx)
    docNodeFirst := docNodeFirst }

/-- **End to end for the non-indexed representation**: with the repaired edge, every insertion history on the
nodes of any non-indexed document yields the duplicate-free document-ordered set of the inserted nodes — the
hypothesis `AfterIsIndex` of the list theorems is discharged by `structural_eq_index`. -/
theorem nonIndexed_insertionHistory_sortedSet (t : Tree) (d : Nat) (dnf : Bool) (ns : List NodeRef)
    (hns : ∀ m ∈ ns, Insertable (structuralEnv t true dnf) d m) :
    DocOrderedSet d (ns.foldl (addNodeInDocOrder (structuralEnv t true dnf)) []) ∧
      ∀ m, m ∈ ns.foldl (addNodeInDocOrder (structuralEnv t true dnf)) [] ↔ m ∈ ns := by
  have ha : AfterIsIndex (structuralEnv t true dnf) d := by
    intro a b _ _ ha0 hb0
    unfold structuralEnv
    simp only
    split
    · rename_i hr
      by_cases hab : a.idx = b.idx
      · -- the same node: both sides are false
        rw [hab]
        have hb : b.idx < t.paths.length := hr.2
        have hmem : t.paths.getD b.idx [] ∈ t.paths := by
          rw [List.getD_eq_getElem?_getD, List.getElem?_eq_getElem hb]; exact List.getElem_mem hb
        have hne : t.paths.getD b.idx [] ≠ [] := by
          intro e
          have h0 : t.paths.idxOf ([] : Path) = 0 := by cases t; simp [Tree.paths]
          have : t.paths.idxOf (t.paths.getD b.idx []) = b.idx := by
            rw [List.getD_eq_getElem?_getD, List.getElem?_eq_getElem hb]
            exact (paths_nodup t).idxOf_getElem _ _
          rw [e, h0] at this; exact hb0 this.symm
        obtain ⟨s, hs⟩ : ∃ s, t.paths.getD b.idx [] = s := ⟨_, rfl⟩
        rw [hs] at hne hmem ⊢
        have := structural_siblings_self t s hne
        simp [this]
      · have hai : a.idx < t.paths.length := hr.1
        have hbi : b.idx < t.paths.length := hr.2
        have ga : t.paths.getD a.idx [] = t.paths[a.idx] := by
          rw [List.getD_eq_getElem?_getD, List.getElem?_eq_getElem hai]; rfl
        have gb : t.paths.getD b.idx [] = t.paths[b.idx] := by
          rw [List.getD_eq_getElem?_getD, List.getElem?_eq_getElem hbi]; rfl
        have ia : indexOf t t.paths[a.idx] = a.idx := (paths_nodup t).idxOf_getElem _ _
        have ib : indexOf t t.paths[b.idx] = b.idx := (paths_nodup t).idxOf_getElem _ _
        have h0 : indexOf t ([] : Path) = 0 := by unfold indexOf; cases t; simp [Tree.paths]
        rw [ga, gb, structural_eq_index t _ _ (List.getElem_mem hai) (List.getElem_mem hbi)
          (fun e => ha0 (by rw [← ia, e, h0])) (fun e => hb0 (by rw [← ib, e, h0]))
          (fun e => hab (by rw [← ia, ← ib, e])), ia, ib]
    · rfl
  have h := foldl_add_good ha ns [] ⟨by simp, List.Pairwise.nil⟩ hns
  exact ⟨h.1, fun m => by rw [h.2 m]; simp⟩

/-- **The code as written inverts ancestor and descendant** (DESIGN §6 item 6): on `<e><e/></e>` the
structural comparison says the outer element is *after* the inner one and the inner one is not after the outer
one, although the outer element has the smaller index; with the repaired edge both answers are right.
Replayed on the real code by the check's probe (`session N ; doc 0 e0(e0()) ; after d0.1 d0.2`). -/
theorem structural_asWritten_counterexample :
    let t : Tree := .node 0 [.node 0 [.node 0 []]]
    isNodeAfterStructural t false [Step.child 0] [Step.child 0, Step.child 0] = true ∧
    isNodeAfterStructural t false [Step.child 0, Step.child 0] [Step.child 0] = false ∧
    indexOf t [Step.child 0] < indexOf t [Step.child 0, Step.child 0] ∧
    isNodeAfterStructural t true [Step.child 0] [Step.child 0, Step.child 0] = false ∧
    isNodeAfterStructural t true [Step.child 0, Step.child 0] [Step.child 0] = true := by decide

/-- **The trees the processor builds itself are numbered in pre-order** (translator obligation; the hypothesis
"stored indexes number the structural pre-order walk" of `structural_eq_index` / `addNodeInDocOrder_sortedSet` for
result tree fragments, `FormatterToSourceTree` documents and `XalanDocumentBuilder`/parsed source trees).  Both
builders buffer character data and create the text node lazily, while a node's index is handed out at creation:
every member function of `FormatterToSourceTree` and `XalanSourceTreeContentHandler` that creates a node calls
`processAccumulatedText()` before its first creation.  `translate/c12_flush.py` regenerates the table from the
working tree on every run (and fails if one of the event handlers is missing); the runtime counterpart is the
`build`/`rtf` streams of the check, which compare index order with the structural walk on the real trees. -/
theorem buildersFlushBeforeCreate :
    ∀ h ∈ XalanModel.Generated.C12.builderHandlers, h.2.2.1 = true → h.2.2.2 = true := by decide

/-- **One `XalanNode` per DOM node** (translator obligation; node identity is what every list theorem silently
relies on: `NodeRef` equality stands for pointer equality).  In a Xerces document wrapped on demand a wrapper is
created when navigation first reaches a DOM node and is found again through `m_nodeMap`; every
`XercesDocumentWrapper::createWrapperNode` overload that creates a wrapper registers it there (the generic
`DOMNodeType` overload only dispatches).  Table regenerated by `translate/c12_nodemap.py` on every run; the runtime
counterpart is the `identity`/`nodesets` streams of the check (every node reached by several navigation routes, twice,
must be one object, on all three representations, for documents with CDATA sections, entity references, comments, PIs
and a document type). -/
theorem wrapperNodesAreMapped :
    ∀ o ∈ XalanModel.Generated.C12.createWrapperNodeOverloads, o.2.1 = false → o.2.2 = true := by decide

/-! ## ordered insert -/

/-- **One ordered insert.** `l` a duplicate-free document-ordered set of document `d` (it may contain
the document node), `n` a non-document node of `d`, `isNodeAfter` agreeing with index comparison on
`d` (by definition for indexed documents, by `structural_eq_index` otherwise; `env.indexed` is
arbitrary, so all three search strategies are covered): the result is again such a set and holds
exactly the old nodes and `n`. -/
theorem addNodeInDocOrder_sortedSet (env : Env) (d : Nat) (ha : AfterIsIndex env d) (l : List NodeRef)
    (n : NodeRef) (hl : DocOrderedSet d l) (hn : Insertable env d n) :
    DocOrderedSet d (addNodeInDocOrder env l n) ∧ ∀ m, m ∈ addNodeInDocOrder env l n ↔ m = n ∨ m ∈ l :=
  addNodeInDocOrder_good ha hl hn

example : DocOrderedSet 0 [⟨0, 0⟩, ⟨0, 2⟩, ⟨0, 5⟩, ⟨0, 9⟩] ∧
    AfterIsIndex { indexed := fun _ => true, after := fun a b => decide (a.idx > b.idx) } 0 :=
  ⟨⟨by decide, by decide⟩, fun _ _ _ _ _ _ => rfl⟩

/-- **Every insertion history.** Starting from any document-ordered set (in particular the empty
list) and inserting any sequence of non-document nodes of `d`, in any order and with any
repetitions. -/
theorem insertionHistory_sortedSet (env : Env) (d : Nat) (ha : AfterIsIndex env d) (l ns : List NodeRef)
    (hl : DocOrderedSet d l) (hns : ∀ m ∈ ns, Insertable env d m) :
    DocOrderedSet d (ns.foldl (addNodeInDocOrder env) l) ∧
      ∀ m, m ∈ ns.foldl (addNodeInDocOrder env) l ↔ m ∈ l ∨ m ∈ ns :=
  foldl_add_good ha ns l hl hns

/-- **History independence.** Two insertion histories with the same set of inserted nodes end in
the *same list* (the unique document-ordered enumeration of that set), whatever the order of the
inserts, the repetitions, and the search strategy each insert took (the two runs may even differ in
`isIndexed`). -/
theorem insertionHistory_canonical (env₁ env₂ : Env) (d : Nat) (h₁ : AfterIsIndex env₁ d)
    (h₂ : AfterIsIndex env₂ d) (ns₁ ns₂ : List NodeRef)
    (hn₁ : ∀ m ∈ ns₁, Insertable env₁ d m) (hn₂ : ∀ m ∈ ns₂, Insertable env₂ d m)
    (hset : ∀ m, m ∈ ns₁ ↔ m ∈ ns₂) :
    ns₁.foldl (addNodeInDocOrder env₁) [] = ns₂.foldl (addNodeInDocOrder env₂) [] := by
  have e : DocOrderedSet d [] := ⟨by simp, List.Pairwise.nil⟩
  have a := foldl_add_good h₁ ns₁ [] e hn₁
  have b := foldl_add_good h₂ ns₂ [] e hn₂
  apply docOrderedSet_unique _ _ a.1 b.1
  intro m
  rw [a.2 m, b.2 m]
  simp [hset m]

example (env : Env) : (∀ m ∈ [(⟨0, 4⟩ : NodeRef), ⟨0, 2⟩, ⟨0, 4⟩, ⟨0, 7⟩], Insertable env 0 m) := by
  intro m hm; simp at hm; rcases hm with h | h | h | h <;> subst h <;> exact ⟨rfl, Or.inl (by decide)⟩

/-! ## unions -/

/-- operands of a union as the theorems need them: document-ordered sets of `d` without the document
node (see `docNode_appended_counterexample` for why the document node is excluded) -/
def Operand (env : Env) (d : Nat) (o : List NodeRef) : Prop := DocOrderedSet d o ∧ NoDocNode env o

/-- **`XPath::Union` meets its specification**: the result is flagged document order, is a
document-ordered set, and holds exactly the nodes of the operands. -/
theorem union_spec (env : Env) (d : Nat) (ha : AfterIsIndex env d) (ops : List (List NodeRef))
    (hops : ∀ o ∈ ops, Operand env d o) :
    (union env ops).order = .document ∧ DocOrderedSet d (union env ops).nodes ∧
      ∀ m, m ∈ (union env ops).nodes ↔ ∃ o ∈ ops, m ∈ o := by
  have e : DocOrderedSet d NList.empty.nodes := ⟨by simp [NList.empty], List.Pairwise.nil⟩
  have h := union_fold_good ha ops NList.empty e hops
  refine ⟨rfl, h.1, fun m => ?_⟩
  have := h.2 m
  simp only [NList.empty, List.not_mem_nil, false_or] at this
  exact this

theorem union_comm (env : Env) (d : Nat) (ha : AfterIsIndex env d) (a b : List NodeRef)
    (hA : Operand env d a) (hB : Operand env d b) : union env [a, b] = union env [b, a] := by
  have h1 := union_spec env d ha [a, b] (by simp [hA, hB])
  have h2 := union_spec env d ha [b, a] (by simp [hA, hB])
  have : (union env [a, b]).nodes = (union env [b, a]).nodes := by
    apply docOrderedSet_unique _ _ h1.2.1 h2.2.1
    intro m; rw [h1.2.2 m, h2.2.2 m]; simp [or_comm]
  cases hx : union env [a, b]; cases hy : union env [b, a]
  rw [hx] at h1 this; rw [hy] at h2 this
  simp only at this h1 h2
  rw [this, h1.1, h2.1]

theorem union_assoc (env : Env) (d : Nat) (ha : AfterIsIndex env d) (a b c : List NodeRef)
    (hA : Operand env d a) (hB : Operand env d b) (hC : Operand env d c) :
    union env [(union env [a, b]).nodes, c] = union env [a, (union env [b, c]).nodes] ∧
    union env [(union env [a, b]).nodes, c] = union env [a, b, c] := by
  have hab := union_spec env d ha [a, b] (by simp [hA, hB])
  have hbc := union_spec env d ha [b, c] (by simp [hB, hC])
  have nd : ∀ x y : List NodeRef, Operand env d x → Operand env d y → NoDocNode env (union env [x, y]).nodes := by
    intro x y hx hy
    rcases hx.2 with h | hx2
    · exact Or.inl h
    rcases hy.2 with h | hy2
    · exact Or.inl h
    refine Or.inr (fun m hm => ?_)
    have := (union_spec env d ha [x, y] (by simp [hx, hy])).2.2 m |>.1 hm
    simp only [List.mem_cons, List.not_mem_nil, or_false, exists_eq_or_imp, exists_eq_left] at this
    rcases this with h | h
    · exact hx2 m h
    · exact hy2 m h
  have oab : Operand env d (union env [a, b]).nodes := ⟨hab.2.1, nd a b hA hB⟩
  have obc : Operand env d (union env [b, c]).nodes := ⟨hbc.2.1, nd b c hB hC⟩
  have h1 := union_spec env d ha [(union env [a, b]).nodes, c] (by simp [oab, hC])
  have h2 := union_spec env d ha [a, (union env [b, c]).nodes] (by simp [obc, hA])
  have h3 := union_spec env d ha [a, b, c] (by simp [hA, hB, hC])
  have e12 : (union env [(union env [a, b]).nodes, c]).nodes = (union env [a, (union env [b, c]).nodes]).nodes := by
    apply docOrderedSet_unique _ _ h1.2.1 h2.2.1
    intro m; rw [h1.2.2 m, h2.2.2 m]
    simp [hab.2.2 m, hbc.2.2 m, or_assoc]
  have e13 : (union env [(union env [a, b]).nodes, c]).nodes = (union env [a, b, c]).nodes := by
    apply docOrderedSet_unique _ _ h1.2.1 h3.2.1
    intro m; rw [h1.2.2 m, h3.2.2 m]
    simp [hab.2.2 m, or_assoc]
  have mk : ∀ x y : NList, x.nodes = y.nodes → x.order = .document → y.order = .document → x = y := by
    intro x y h hx hy; cases x; cases y; simp_all
  exact ⟨mk _ _ e12 h1.1 h2.1, mk _ _ e13 h1.1 h3.1⟩

theorem union_idem (env : Env) (d : Nat) (ha : AfterIsIndex env d) (a : List NodeRef) (hA : Operand env d a) :
    (union env [a, a]).nodes = a ∧ (union env [a]).nodes = a := by
  have h1 := union_spec env d ha [a, a] (by simp [hA])
  have h2 := union_spec env d ha [a] (by simp [hA])
  constructor
  · apply docOrderedSet_unique _ _ h1.2.1 hA.1
    intro m; rw [h1.2.2 m]; simp
  · apply docOrderedSet_unique _ _ h2.2.1 hA.1
    intro m; rw [h2.2.2 m]; simp

example (env : Env) : Operand env 0 [⟨0, 1⟩, ⟨0, 4⟩, ⟨0, 6⟩] ∧ Operand env 0 [⟨0, 2⟩, ⟨0, 4⟩] :=
  ⟨⟨⟨by decide, by decide⟩, Or.inr (by decide)⟩, ⟨⟨by decide, by decide⟩, Or.inr (by decide)⟩⟩

/-! ## the other mutators -/

/-- `clearNulls` keeps a document-ordered set (the non-null entries, in their order) and its flag unless the
list becomes empty; `reverse` turns a list claimed document-ordered into its reversal claimed reverse-ordered
and back; the flag-trusting merge into an empty list restores document order from a truthful reverse flag. -/
theorem clearNulls_reverse_preserve (d : Nat) (v : List (Option NodeRef)) (o : Order) (l : List NodeRef)
    (hv : DocOrderedSet d (v.filterMap id)) (env : Env) :
    DocOrderedSet d (clearNulls v o).1 ∧
    ((clearNulls v o).2 = o ∨ ((clearNulls v o).1 = [] ∧ (clearNulls v o).2 = .unknown)) ∧
    (NList.reverse (NList.reverse ⟨l, .document⟩)) = ⟨l, .document⟩ ∧
    (NList.reverse ⟨l, .document⟩) = ⟨l.reverse, .reverse⟩ ∧
    (addNodesInDocOrderMutable env NList.empty (NList.reverse ⟨l, .document⟩)).nodes = l := by
  refine ⟨hv, ?_, by simp [NList.reverse], rfl, ?_⟩
  · unfold clearNulls
    by_cases h : (v.filterMap id).isEmpty
    · right; simp only [h, if_true, and_true]; simpa using h
    · left; simp [h]
  · simp [addNodesInDocOrderMutable, NList.reverse, NList.empty]

/-! ## several documents -/

/-- **Several documents (partial).** Full statement wanted by the property: for lists over any number of
documents, nodes of different documents are never interleaved and no node occurs twice. That is false of the
code (counterexamples below). What holds: if the list is `l₁ ++ l₂` with `l₂` the document-ordered group of
document `d` and no node of `d` in the non-empty prefix `l₁`, inserting a non-document node of `d` only
touches the last group: the result is `l₁ ++ r` with `r` the document-ordered set `l₂ ∪ {n}`.  (This is the
case `$a | $b` with all nodes of one document arriving after those of the other.)  Missing: any insertion of
a node whose document is not the last group. -/
theorem multiDoc_lastGroup_partial (env : Env) (d : Nat) (ha : AfterIsIndex env d) (l₁ l₂ : List NodeRef)
    (n : NodeRef) (hg : env.groupAware = false) (hne : l₁ ≠ []) (hl₁ : ∀ c ∈ l₁, c.doc ≠ d) (hl₂ : DocOrderedSet d l₂)
    (hn : n.doc = d) (hn0 : n.idx ≠ 0) :
    ∃ r, addNodeInDocOrder env (l₁ ++ l₂) n = l₁ ++ r ∧ DocOrderedSet d r ∧ ∀ m, m ∈ r ↔ m = n ∨ m ∈ l₂ :=
  lastGroup_good ha hg hne hl₁ hl₂ hn hn0

/-- the environment of the indexed representations: every document indexed, `isNodeAfter` = index comparison -/
def indexedEnv : Env := { indexed := fun _ => true, after := fun a b => decide (a.idx > b.idx) }

/-- `[a3, b2] + a4 = [a3, b2, a4]`: document `b` ends up between two nodes of document `a`
(replayed on the real code: gen/corpus, DESIGN §6 item 7). -/
theorem multiDoc_interleave_counterexample :
    addNodeInDocOrder indexedEnv [⟨0, 3⟩, ⟨1, 2⟩] ⟨0, 4⟩ = [⟨0, 3⟩, ⟨1, 2⟩, ⟨0, 4⟩] := by decide

/-- `[a3, b2, a5] + a3 = [a3, b2, a3, a5]`: the binary search (chosen because first and last element
belong to the node's document) compares indexes across documents and inserts a duplicate. -/
theorem multiDoc_duplicate_counterexample :
    addNodeInDocOrder indexedEnv [⟨0, 3⟩, ⟨1, 2⟩, ⟨0, 5⟩] ⟨0, 3⟩ = [⟨0, 3⟩, ⟨1, 2⟩, ⟨0, 3⟩, ⟨0, 5⟩] ∧
    ¬ ([⟨0, 3⟩, ⟨1, 2⟩, ⟨0, 3⟩, ⟨0, 5⟩] : List NodeRef).Nodup := by decide

/-- the document node (`idx = 0`, `getOwnerDocument() == 0`) is treated as a node of a foreign document and
appended after its own descendants: `[e3] + / = [e3, /]`, and `//e | /.` is not in document order —
for the indexed and the non-indexed representation alike. -/
theorem docNode_appended_counterexample :
    addNodeInDocOrder indexedEnv [⟨0, 3⟩] ⟨0, 0⟩ = [⟨0, 3⟩, ⟨0, 0⟩] ∧
    addNodeInDocOrder { indexedEnv with indexed := fun _ => false } [⟨0, 3⟩] ⟨0, 0⟩ = [⟨0, 3⟩, ⟨0, 0⟩] ∧
    (union indexedEnv [[⟨0, 3⟩, ⟨0, 5⟩], [⟨0, 0⟩]]).nodes = [⟨0, 3⟩, ⟨0, 5⟩, ⟨0, 0⟩] := by decide

/-! ## several documents, with the group-aware search (`proposed/C12-multidoc-groups.diff`) -/

/-- **Several documents — full statement, for the repaired search.**  `GroupedSet l`: `l` is a sequence of runs,
one per document, each a non-empty duplicate-free document-ordered set — i.e. nodes of different documents are
never interleaved and no node occurs twice.  With `Env.groupAware` (the linear search skips foreign nodes until it
reaches the run of the node's document and stops at the end of that run; documents are ordered by first
appearance) one ordered insert of *any* node — any document, document nodes included, whichever of the three
searches and the document-node shortcut runs — keeps a grouped set grouped and adds exactly that node. -/
theorem multiDoc_grouped (env : Env) (hg : env.groupAware = true) (ha : ∀ d, AfterIsIndex env d)
    (l : List NodeRef) (n : NodeRef) (hl : GroupedSet l) :
    GroupedSet (addNodeInDocOrder env l n) ∧ ∀ m, m ∈ addNodeInDocOrder env l n ↔ m = n ∨ m ∈ l :=
  addNodeInDocOrder_grouped_good hg ha n hl

/-- … and so does every insertion history over any number of documents. -/
theorem multiDoc_history_grouped (env : Env) (hg : env.groupAware = true) (ha : ∀ d, AfterIsIndex env d)
    (ns : List NodeRef) (l : List NodeRef) (hl : GroupedSet l) :
    GroupedSet (ns.foldl (addNodeInDocOrder env) l) ∧ ∀ m, m ∈ ns.foldl (addNodeInDocOrder env) l ↔ m ∈ l ∨ m ∈ ns := by
  induction ns generalizing l with
  | nil => simpa using hl
  | cons n ns ih =>
    have h1 := multiDoc_grouped env hg ha l n hl
    have h2 := ih _ h1.1
    simp only [List.foldl_cons]
    refine ⟨h2.1, fun m => ?_⟩
    rw [h2.2 m, h1.2 m, List.mem_cons]
    constructor
    · rintro ((h | h) | h)
      · exact Or.inr (Or.inl h)
      · exact Or.inl h
      · exact Or.inr (Or.inr h)
    · rintro (h | h | h)
      · exact Or.inl (Or.inr h)
      · exact Or.inl (Or.inl h)
      · exact Or.inr h

example : GroupedSet [⟨0, 3⟩, ⟨0, 5⟩, ⟨1, 0⟩, ⟨1, 2⟩] :=
  ⟨[(0, [⟨0, 3⟩, ⟨0, 5⟩]), (1, [⟨1, 0⟩, ⟨1, 2⟩])],
   ⟨by decide, by intro r hr; simp at hr; rcases hr with h | h <;> subst h <;> exact ⟨by simp, ⟨by decide, by decide⟩⟩⟩, rfl⟩

/-- the two witnesses of the as-written code come out right with the repaired search -/
example : addNodeInDocOrder { indexedEnv with groupAware := true } [⟨0, 3⟩, ⟨1, 2⟩] ⟨0, 4⟩ = [⟨0, 3⟩, ⟨0, 4⟩, ⟨1, 2⟩] ∧
    addNodeInDocOrder { indexedEnv with groupAware := true } [⟨0, 3⟩, ⟨0, 5⟩, ⟨1, 2⟩] ⟨0, 3⟩ = [⟨0, 3⟩, ⟨0, 5⟩, ⟨1, 2⟩] := by decide

/-! ## location steps -/

/-- **`XPath::step` merging.**  The per-context-node results of the rest of a path (each a document-ordered set
of `d`, as delivered by the recursive call), merged the way `step` does it (skip empty, swap the first in, merge
the others with `addNodesInDocOrder`, `setDocumentOrder`), give a list flagged document order that is the
duplicate-free document-ordered set of all of them — the same list `XPath::Union` builds from them. -/
theorem step_merge_sortedSet (env : Env) (d : Nat) (ha : AfterIsIndex env d) (results : List (List NodeRef))
    (hr : ∀ o ∈ results, Operand env d o) :
    (stepMerge env results).order = .document ∧ DocOrderedSet d (stepMerge env results).nodes ∧
      (∀ m, m ∈ (stepMerge env results).nodes ↔ ∃ o ∈ results, m ∈ o) ∧
      (stepMerge env results).nodes = (union env results).nodes := by
  have hu := union_spec env d ha results hr
  -- the fold of `step` and the fold of `Union` hold the same nodes, and step's flag is "document" once non-empty
  have key : ∀ (rs : List (List NodeRef)) (q u : NList), q.nodes = u.nodes → (q.nodes ≠ [] → q.order = .document) →
      ((rs.foldl (fun (q : NList) mnl =>
          if mnl.isEmpty then q
          else if !q.nodes.isEmpty then { addNodesInDocOrderMutable env q ⟨mnl, .document⟩ with order := .document }
          else ⟨mnl, .document⟩) q).nodes =
        (rs.foldl (fun acc o => addNodesInDocOrderMutable env acc ⟨o, .document⟩) u).nodes) ∧
      ((rs.foldl (fun (q : NList) mnl =>
          if mnl.isEmpty then q
          else if !q.nodes.isEmpty then { addNodesInDocOrderMutable env q ⟨mnl, .document⟩ with order := .document }
          else ⟨mnl, .document⟩) q).nodes ≠ [] →
        (rs.foldl (fun (q : NList) mnl =>
          if mnl.isEmpty then q
          else if !q.nodes.isEmpty then { addNodesInDocOrderMutable env q ⟨mnl, .document⟩ with order := .document }
          else ⟨mnl, .document⟩) q).order = .document) := by
    intro rs
    induction rs with
    | nil => intro q u h1 h2; exact ⟨h1, h2⟩
    | cons mnl rs ih =>
      intro q u h1 h2
      simp only [List.foldl_cons]
      apply ih
      · cases hm : mnl with
        | nil =>
          simp [addNodesInDocOrderMutable, addNodesInDocOrderBase, h1]
          split <;> simp_all
        | cons a t =>
          by_cases hq : q.nodes = []
          · have hu' : u.nodes = [] := by rw [← h1]; exact hq
            simp [addNodesInDocOrderMutable, hq, hu']
          · have hu' : u.nodes ≠ [] := by rw [← h1]; exact hq
            simp [addNodesInDocOrderMutable, addNodesInDocOrderBase, hu', h1]
      · cases hm : mnl with
        | nil => simpa using h2
        | cons a t =>
          by_cases hq : q.nodes = []
          · simp [hq]
          · simp [hq]
  have k := key results ⟨[], .unknown⟩ NList.empty rfl (by simp)
  have hnodes : (stepMerge env results).nodes = (union env results).nodes := by
    unfold stepMerge union
    simp only
    split <;> exact k.1
  refine ⟨?_, by rw [hnodes]; exact hu.2.1, fun m => by rw [hnodes]; exact hu.2.2 m, hnodes⟩
  unfold stepMerge
  simp only
  split
  · rfl
  · rename_i hne
    exact k.2 (by simpa using hne)

/-- **Reverse axes.**  The last step of a path hands over the axis result; for a reverse axis it is the
document-ordered set reversed and flagged reverse-order, and `step` delivers it re-reversed and flagged document
order; a forward-axis result is delivered as it is; an empty one is flagged document order. -/
theorem step_reverseAxis (d : Nat) (l : List NodeRef) (_hl : DocOrderedSet d l) (hne : l ≠ []) :
    stepFinish ⟨l.reverse, .reverse⟩ = ⟨l, .document⟩ ∧ stepFinish ⟨l, .document⟩ = ⟨l, .document⟩ ∧
    stepFinish ⟨[], .unknown⟩ = ⟨[], .document⟩ := by
  refine ⟨?_, ?_, rfl⟩
  · simp [stepFinish, NList.reverse, hne]
  · simp [stepFinish, hne]

example : stepMerge indexedEnv [[⟨0, 4⟩, ⟨0, 7⟩], [], [⟨0, 2⟩, ⟨0, 7⟩, ⟨0, 9⟩]] =
    ⟨[⟨0, 2⟩, ⟨0, 4⟩, ⟨0, 7⟩, ⟨0, 9⟩], .document⟩ := by decide

/-- what an axis function may leave in `subQueryResults`: a document-ordered set flagged document order, or its
reversal flagged reverse order (an empty list with either flag included) -/
def AxisResult (env : Env) (d : Nat) (r : NList) : Prop :=
  (r.order = .document ∧ Operand env d r.nodes) ∨ (r.order = .reverse ∧ Operand env d r.nodes.reverse)

/-- **Every location path delivers a duplicate-free node-set in document order.**  If every axis function (with
its predicates) leaves, for every context node of document `d`, a document-ordered set of `d` — in document order
for the forward axes, reversed and flagged so for the reverse axes (`axes_sorted` discharges this for the axes
modelled over `Tree`) — then for every non-empty sequence of steps and every context node the path delivers a list
flagged document order that is a duplicate-free document-ordered set of `d`.  By induction over the steps; the
contexts of an inner step are visited in the order found (reverse for reverse axes), which `step_merge_sortedSet`
absorbs. -/
theorem locationPath_sortedSet {σ : Type} (env : Env) (d : Nat) (ha : AfterIsIndex env d)
    (axisRaw : σ → NodeRef → NList)
    (hax : ∀ s ctx, ctx.doc = d → AxisResult env d (axisRaw s ctx)) :
    ∀ (steps : List σ) (ctx : NodeRef), steps ≠ [] → ctx.doc = d →
      (evalPath env axisRaw steps ctx).order = .document ∧ Operand env d (evalPath env axisRaw steps ctx).nodes
  | [], _, h, _ => absurd rfl h
  | [s], ctx, _, hc => by
    simp only [evalPath]
    rcases hax s ctx hc with ⟨ho, hop⟩ | ⟨ho, hop⟩
    · unfold stepFinish
      split
      · rename_i he
        exact ⟨rfl, ⟨⟨by simp, List.Pairwise.nil⟩, hop.2.elim Or.inl (fun _ => Or.inr (by simp))⟩⟩
      · simp only [ho]
        exact ⟨by simp [ho], by simpa using hop⟩
    · unfold stepFinish
      split
      · exact ⟨rfl, ⟨⟨by simp, List.Pairwise.nil⟩, hop.2.elim Or.inl (fun _ => Or.inr (by simp))⟩⟩
      · simp only [ho, NList.reverse]
        exact ⟨trivial, hop⟩
  | s :: s2 :: rest, ctx, _, hc => by
    simp only [evalPath]
    have hctxs : ∀ c ∈ (axisRaw s ctx).nodes, c.doc = d := by
      intro c hcm
      rcases hax s ctx hc with ⟨_, hop⟩ | ⟨_, hop⟩
      · exact hop.1.1 c hcm
      · exact hop.1.1 c (by simpa using hcm)
    have hres : ∀ o ∈ (axisRaw s ctx).nodes.map (fun c => (evalPath env axisRaw (s2 :: rest) c).nodes), Operand env d o := by
      intro o ho
      rw [List.mem_map] at ho
      obtain ⟨c, hcm, rfl⟩ := ho
      exact (locationPath_sortedSet env d ha axisRaw hax (s2 :: rest) c (by simp) (hctxs c hcm)).2
    have h := step_merge_sortedSet env d ha _ hres
    refine ⟨h.1, h.2.1, ?_⟩
    -- no document node unless the repair makes it harmless
    by_cases hdn : env.docNodeFirst = true
    · exact Or.inl hdn
    · refine Or.inr (fun m hm => ?_)
      obtain ⟨o, ho, hmo⟩ := (h.2.2.1 m).1 hm
      rcases (hres o ho).2 with h1 | h1
      · exact absurd h1 hdn
      · exact h1 m hmo

/-- the axis functions modelled over `Tree` (`findAxis`: child, attribute, parent, ancestor, following-sibling,
preceding-sibling — pointer walks as in XPath.cpp) as the list code sees them: nodes as `(d, index)`, flagged
reverse for the reverse axes; a `NodeRef` that is no position of the walk denotes no node and has an empty axis -/
def treeAxis (t : Tree) (d : Nat) (a : Axis) (ctx : NodeRef) : NList :=
  if h : ctx.idx < t.paths.length then
    ⟨toRefs t d (findAxis t a t.paths[ctx.idx]).1, if (findAxis t a t.paths[ctx.idx]).2 then .reverse else .document⟩
  else ⟨[], .document⟩

/-- **The modelled axis functions deliver what `locationPath_sortedSet` assumes**: valid nodes, strictly
increasing in document order for child / attribute / parent / following-sibling, and strictly decreasing,
flagged reverse, for ancestor / preceding-sibling — for every tree and every context node.  (The document node
can be among the ancestors, hence `docNodeFirst`, true of /repo since 4c14898.)  Not modelled: descendant,
following, preceding, namespace and the predicate filter (a sub-list). -/
theorem axes_sorted (env : Env) (hdn : env.docNodeFirst = true) (t : Tree) (d : Nat) (a : Axis) (ctx : NodeRef) :
    AxisResult env d (treeAxis t d a ctx) := by
  unfold treeAxis
  split
  · rename_i h
    have hs := findAxis_sorted t a t.paths[ctx.idx] (List.getElem_mem h)
    unfold axisSorted at hs
    by_cases hr : (findAxis t a t.paths[ctx.idx]).2 = true
    · right
      simp only [hr, if_true] at hs ⊢
      refine ⟨trivial, ⟨?_, Or.inl hdn⟩⟩
      have : (toRefs t d (findAxis t a t.paths[ctx.idx]).1).reverse = toRefs t d (findAxis t a t.paths[ctx.idx]).1.reverse := by
        simp [toRefs]
      rw [this]
      exact toRefs_sorted t d _ (fun p hp => hs.1 p (by simpa using hp)) hs.2
    · left
      simp only [hr, Bool.false_eq_true, if_false] at hs ⊢
      exact ⟨trivial, ⟨toRefs_sorted t d _ hs.1 hs.2, Or.inl hdn⟩⟩
  · left
    exact ⟨rfl, ⟨⟨by simp, List.Pairwise.nil⟩, Or.inl hdn⟩⟩

/-- a step of a location path: an axis and its predicates.  `XPath::predicates` nulls the entries that fail and
calls `clearNulls`, so whatever the predicates are (position-dependent ones included) they keep a sub-list of the axis
result, in the order found: `sel` with `Valid`. -/
structure StepSpec where
  axis : Axis
  sel : List Path → List Path
  /-- namespace axis only: "is a namespace declaration, passes the node test, is not shadowed" -/
  keep : Path → Bool := fun _ => true

def StepSpec.Valid (s : StepSpec) : Prop := ∀ l, (s.sel l).Sublist l

/-- a step as the list code sees it: the transcribed walk of its axis (`findAxisWalk`), then the predicates -/
def treeStep (t : Tree) (d : Nat) (s : StepSpec) (ctx : NodeRef) : NList :=
  if h : ctx.idx < t.paths.length then
    ⟨toRefs t d (s.sel (findAxisWalk t s.keep s.axis t.paths[ctx.idx]).1),
     if (findAxisWalk t s.keep s.axis t.paths[ctx.idx]).2 then .reverse else .document⟩
  else ⟨[], .document⟩

/-! ### the transcribed C++ walks visit exactly the nodes of the Recommendation's definition -/

/-- `XPath::findDescendants` (descendant axis): the `do … while` over `getFirstChild/getNextSibling/getParentOfNode`
with its three termination tests delivers, for every tree and every context node — element, text, attribute,
namespace declaration or the document node — exactly the descendants of the context node in document order. -/
theorem walk_descendant_eq_def (t : Tree) (ctx : Path) (hc : ctx ∈ t.paths) :
    findDescendantsWalk t ctx false = (findAxis t .descendant ctx).1 :=
  (walk_descendant_eq_def' t ctx hc).1

/-- the same function with `eFROM_DESCENDANTS_OR_SELF` -/
theorem walk_descendantOrSelf_eq_def (t : Tree) (ctx : Path) (hc : ctx ∈ t.paths) :
    findDescendantsWalk t ctx true = (findAxis t .descendantOrSelf ctx).1 :=
  (walk_descendant_eq_def' t ctx hc).2

/-- `XPath::findFollowing`, including the attribute-context detour through the owner element's first child -/
theorem walk_following_eq_def (t : Tree) (ctx : Path) (hc : ctx ∈ t.paths) :
    findFollowingWalk t ctx = (findAxis t .following ctx).1 :=
  walk_following_eq_def' t ctx hc

/-- `XPath::findPreceeding`: the pre-order walk from the top node to the context node (with the attribute-context
stop at the owner element and the parent-chain test), reversed; flagged reverse document order -/
theorem walk_preceding_eq_def (t : Tree) (ctx : Path) (hc : ctx ∈ t.paths) :
    findPrecedingWalk t ctx = (findAxis t .preceding ctx).1 :=
  walk_preceding_eq_def' t ctx hc

/-- `XPath::findNamespace`: the `do … while` up the element chain with the attributes taken from the last to the
first, reversed at the end; `keep` = namespace declaration ∧ node test ∧ not shadowed -/
theorem walk_namespace_eq_def (t : Tree) (keep : Path → Bool) (ctx : Path) (hc : ctx ∈ t.paths) :
    findNamespaceWalk t keep ctx = ((findAxis t .namespaces ctx).1).filter keep :=
  walk_namespace_eq_def' t keep ctx hc

example : [Step.child 1, Step.attr 1] ∈ sampleTree.paths ∧
    findFollowingWalk sampleTree [Step.child 1, Step.attr 1] =
      [[Step.child 1, Step.child 0], [Step.child 1, Step.child 1], [Step.child 1, Step.child 1, Step.child 0],
       [Step.child 1, Step.child 2], [Step.child 2]] := by decide

/-- **The loops transcribed in `Walks.lean` are the loops of the working tree** (translator obligation): the control
skeletons `translate/c12_walks.py` extracts from XPath.cpp on every run equal the ones the transcription mirrors. -/
theorem walkShapes_unchanged : XalanModel.Generated.C12.walkShapes = expectedWalkShapes := by rfl

/-- which axis functions flag their result reverse document order (`setReverseDocumentOrder()`) -/
theorem reverseAxes (t : Tree) (keep : Path → Bool) (a : Axis) (ctx : Path) :
    (findAxisWalk t keep a ctx).2 =
      (a == .ancestor || a == .ancestorOrSelf || a == .preceding || a == .precedingSibling) := by
  cases a <;> simp only [findAxisWalk, findAxis] <;> repeat' (first | rfl | split)

/-- **Positional predicates on reverse axes count in reverse document order.**  `XPath::predicates` numbers the
nodes of `subQueryResults` in the order the walk left them; for a result flagged reverse that is nearest-first, so
`axis::node()[k]` — the `k`-th entry of the walk's list — is the `k`-th node *from the end* of the document-ordered
list the step finally delivers (`stepFinish` re-reverses it).  Over the transcribed walks of all four reverse axes. -/
theorem reverseAxis_position (t : Tree) (keep : Path → Bool) (a : Axis) (ctx : Path) (k : Nat)
    (hrev : (findAxisWalk t keep a ctx).2 = true) (hk : 0 < k) (hkl : k ≤ (findAxisWalk t keep a ctx).1.length) :
    (findAxisWalk t keep a ctx).1[k - 1]? =
      ((findAxisWalk t keep a ctx).1.reverse)[(findAxisWalk t keep a ctx).1.length - k]? ∧
    (a = .ancestor ∨ a = .ancestorOrSelf ∨ a = .preceding ∨ a = .precedingSibling) := by
  constructor
  · rw [List.getElem?_reverse (by omega)]
    congr 1; omega
  · rw [reverseAxes] at hrev
    cases a <;> simp_all

example : (findAxisWalk sampleTree (fun _ => true) .preceding [Step.child 1, Step.child 2]).1[0]? =
    some [Step.child 1, Step.child 1, Step.child 0] := by decide

/-- **All 13 axes — as the transcribed walks — with arbitrary predicates deliver what `locationPath_sortedSet`
assumes.** -/
theorem steps_sorted (env : Env) (hdn : env.docNodeFirst = true) (t : Tree) (d : Nat) (s : StepSpec) (hv : s.Valid)
    (ctx : NodeRef) : AxisResult env d (treeStep t d s ctx) := by
  unfold treeStep
  split
  · rename_i h
    have hc : t.paths[ctx.idx] ∈ t.paths := List.getElem_mem h
    -- the walk is the definition-shaped axis result, up to the namespace selection
    have hw : ∃ l, l.Sublist (findAxis t s.axis t.paths[ctx.idx]).1 ∧
        findAxisWalk t s.keep s.axis t.paths[ctx.idx] = (l, (findAxis t s.axis t.paths[ctx.idx]).2) := by
      cases hax : s.axis with
      | descendant => exact ⟨_, List.Sublist.refl _, by simp [findAxisWalk, walk_descendant_eq_def t _ hc, findAxis]⟩
      | descendantOrSelf =>
        exact ⟨_, List.Sublist.refl _, by simp [findAxisWalk, walk_descendantOrSelf_eq_def t _ hc, findAxis]⟩
      | following => exact ⟨_, List.Sublist.refl _, by simp [findAxisWalk, walk_following_eq_def t _ hc, findAxis]⟩
      | preceding => exact ⟨_, List.Sublist.refl _, by simp [findAxisWalk, walk_preceding_eq_def t _ hc, findAxis]⟩
      | namespaces =>
        refine ⟨((findAxis t .namespaces t.paths[ctx.idx]).1).filter s.keep, List.filter_sublist, ?_⟩
        simp only [findAxisWalk, walk_namespace_eq_def t _ _ hc]
        rfl
      | child => exact ⟨_, List.Sublist.refl _, rfl⟩
      | attributes => exact ⟨_, List.Sublist.refl _, rfl⟩
      | parent => exact ⟨_, List.Sublist.refl _, rfl⟩
      | ancestor => exact ⟨_, List.Sublist.refl _, rfl⟩
      | followingSibling => exact ⟨_, List.Sublist.refl _, rfl⟩
      | precedingSibling => exact ⟨_, List.Sublist.refl _, rfl⟩
      | self => exact ⟨_, List.Sublist.refl _, rfl⟩
      | ancestorOrSelf => exact ⟨_, List.Sublist.refl _, rfl⟩
    obtain ⟨l, hlsub, hl⟩ := hw
    rw [hl]
    simp only
    have hs := findAxis_sorted t s.axis t.paths[ctx.idx] hc
    have hsub := (hv l).trans hlsub
    unfold axisSorted at hs
    by_cases hr : (findAxis t s.axis t.paths[ctx.idx]).2 = true
    · right
      simp only [hr, if_true] at hs ⊢
      refine ⟨trivial, ⟨?_, Or.inl hdn⟩⟩
      have : (toRefs t d (s.sel l)).reverse = toRefs t d (s.sel l).reverse := by simp [toRefs]
      rw [this]
      exact toRefs_sorted t d _ (fun p hp => hs.1 p (hsub.subset (by simpa using hp))) (hs.2.sublist hsub.reverse)
    · left
      simp only [hr, Bool.false_eq_true, if_false] at hs ⊢
      exact ⟨trivial, ⟨toRefs_sorted t d _ (fun p hp => hs.1 p (hsub.subset hp)) (hs.2.sublist hsub), Or.inl hdn⟩⟩
  · left
    exact ⟨rfl, ⟨⟨by simp, List.Pairwise.nil⟩, Or.inl hdn⟩⟩

/-- … so every location path — any non-empty sequence of steps over the 13 axes, each evaluated by its transcribed
C++ walk, with any predicates — on every tree, from every context node, delivers a duplicate-free node-set in
document order, flagged document order. -/
theorem treeLocationPath_sortedSet (env : Env) (hdn : env.docNodeFirst = true) (t : Tree) (d : Nat)
    (ha : AfterIsIndex env d) (steps : List { s : StepSpec // s.Valid }) (ctx : NodeRef) (hs : steps ≠ [])
    (hc : ctx.doc = d) :
    (evalPath env (fun s c => treeStep t d s.1 c) steps ctx).order = .document ∧
      DocOrderedSet d (evalPath env (fun s c => treeStep t d s.1 c) steps ctx).nodes := by
  have := locationPath_sortedSet env d ha (fun (s : { s : StepSpec // s.Valid }) c => treeStep t d s.1 c)
    (fun s c _ => steps_sorted env hdn t d s.1 s.2 c) steps ctx hs hc
  exact ⟨this.1, this.2.1⟩

example : (evalPath { indexedEnv with docNodeFirst := true } (treeAxis sampleTree 0)
    [Axis.child, Axis.child, Axis.ancestor] ⟨0, 0⟩).nodes = [⟨0, 0⟩, ⟨0, 2⟩] := by decide

example : ({ axis := Axis.descendant, sel := fun l => l.drop 1 } : StepSpec).Valid := fun l => List.drop_sublist 1 l

example : (evalPath { indexedEnv with docNodeFirst := true }
    (fun (s : StepSpec) c => treeStep sampleTree 0 s c)
    [{ axis := Axis.descendantOrSelf, sel := id }, { axis := Axis.child, sel := fun l => l.drop 1 },
     { axis := Axis.preceding, sel := id }] ⟨0, 0⟩).nodes =
      [⟨0, 1⟩, ⟨0, 2⟩, ⟨0, 5⟩, ⟨0, 6⟩, ⟨0, 8⟩, ⟨0, 9⟩] := by decide

/-- with `proposed/C12-docnode-first.diff` the document node takes its place at the front (and
`addNodeInDocOrder_sortedSet` covers it: `Insertable` then holds for the document node too) -/
example : addNodeInDocOrder { indexedEnv with docNodeFirst := true } [⟨0, 3⟩, ⟨0, 5⟩] ⟨0, 0⟩ = [⟨0, 0⟩, ⟨0, 3⟩, ⟨0, 5⟩] ∧
    addNodeInDocOrder { indexedEnv with docNodeFirst := true } [⟨0, 0⟩, ⟨0, 5⟩] ⟨0, 0⟩ = [⟨0, 0⟩, ⟨0, 5⟩] := by decide

end XalanModel.Props.C12
